(* C12/Properties.v — the property theorems of C12, and nothing else.
   Every theorem is closed by [exact <lemma>] and followed by Print Assumptions. *)
From Coq Require Import NArith List Bool.
From Morfuse Require Import Base.Arr C12.Model C12.Spec C12.Proofs C12.ProofsCor.
Import ListNotations.
Local Open Scope N_scope.

(* For EVERY sequence of client operations (create / destroy objects, construct / assign /
   clear / destroy weak references from null, an object or another reference), after every
   operation the model of the intrusive ring implementation (SafePtrBase prev/next/ptr,
   AbstractClass::SafePtrList) shows, for every reference slot, exactly what the finite-map
   specification shows: dead / null / the object slot it points to, and whether it is the
   last reference to that object.  In particular destroying an object nulls exactly the
   references to it, and the destructor loop always terminates within its fuel (no entry of
   the model's run is [None]). *)
Theorem C12_weak_references_refine_the_map :
  forall (no nr : nat) (ops : list op),
    run no nr ops = map Some (spec_run no nr ops).
Proof. exact run_refines_spec. Qed.
Print Assumptions C12_weak_references_refine_the_map.

(* The statement is not vacuous: a concrete history in the model.  Two references (slots 0
   and 1) to the object in slot 0 and one reference (slot 2) to the object in slot 1; a
   redundant assignment changes nothing; clearing slot 1 makes slot 0 the last reference,
   re-assigning it undoes that; destroying object 0 nulls slots 0 and 1 and leaves slot 2
   alone; finally reference 0 is destroyed. *)
Example C12_model_history :
  run 2 3 [ONewObj 0; ONewObj 1;
           ONewRef 0 (SObj 0); ONewRef 1 (SRef 0); ONewRef 2 (SObj 1);
           OAssign 1 (SObj 0); OClear 1; OAssign 1 (SRef 0);
           ODelObj 0; ODelRef 0] =
  [Some [RDead; RDead; RDead];
   Some [RDead; RDead; RDead];
   Some [RTo (Some 0) true; RDead; RDead];
   Some [RTo (Some 0) false; RTo (Some 0) false; RDead];
   Some [RTo (Some 0) false; RTo (Some 0) false; RTo (Some 1) true];
   Some [RTo (Some 0) false; RTo (Some 0) false; RTo (Some 1) true];
   Some [RTo (Some 0) true; RNull; RTo (Some 1) true];
   Some [RTo (Some 0) false; RTo (Some 0) false; RTo (Some 1) true];
   Some [RNull; RNull; RTo (Some 1) true];
   Some [RDead; RNull; RTo (Some 1) true]].
Proof. vm_compute. reflexivity. Qed.

(* the same history in the specification *)
Example C12_spec_history :
  spec_run 2 3 [ONewObj 0; ONewObj 1;
                ONewRef 0 (SObj 0); ONewRef 1 (SRef 0); ONewRef 2 (SObj 1);
                OAssign 1 (SObj 0); OClear 1; OAssign 1 (SRef 0);
                ODelObj 0; ODelRef 0] =
  [[RDead; RDead; RDead];
   [RDead; RDead; RDead];
   [RTo (Some 0) true; RDead; RDead];
   [RTo (Some 0) false; RTo (Some 0) false; RDead];
   [RTo (Some 0) false; RTo (Some 0) false; RTo (Some 1) true];
   [RTo (Some 0) false; RTo (Some 0) false; RTo (Some 1) true];
   [RTo (Some 0) true; RNull; RTo (Some 1) true];
   [RTo (Some 0) false; RTo (Some 0) false; RTo (Some 1) true];
   [RNull; RNull; RTo (Some 1) true];
   [RDead; RNull; RTo (Some 1) true]].
Proof. vm_compute. reflexivity. Qed.

(* ---- the sentences of the property, one by one, for EVERY history, about the model [run] ----
   Vocabulary (C12/ProofsCor.v): [shows no nr ops i j x] = after the i-th operation (0-based) of
   the history [ops], the observation of [run no nr ops] exists and reference slot j shows x;
   [objs_below no ops] / [refs_below nr ops] = every ONewObj / ONewRef of the history names a
   slot below no / nr (the slots the observation looks at); [obj_alive ops os] = the last
   ONewObj/ODelObj on object slot os in [ops] is an ONewObj; [op_ref o] = the reference slot the
   operation names; [writes_ref rs o] = o is ONewRef rs _ or OAssign rs _; [target_of x] = x
   without the is-last flag; [count_shown os obs] = number of slots of obs showing RTo (Some os) _. *)

(* A reference never dangles: whenever a reference slot reads as pointing to an object, it
   shows an observed object slot (never [RTo None _]) and that slot holds a live object at that
   moment (created and not destroyed since). *)
Theorem C12_never_dangles :
  forall (no nr : nat) (ops : list op),
    objs_below no ops = true ->
    forall (i j : nat) (t : option N) (b : bool),
      shows no nr ops i j (RTo t b) ->
      exists os, t = Some os /\ (N.to_nat os < no)%nat /\
                 obj_alive (firstn (S i) ops) os = true.
Proof. exact never_dangles. Qed.
Print Assumptions C12_never_dangles.

(* Destroying the object in slot os nulls exactly the references to it: every reference slot
   that showed that object shows null afterwards, and every other reference slot shows exactly
   what it showed before, including its is-last flag (os an observed slot). *)
Theorem C12_destroy_nulls_exactly_the_references_to_it :
  forall (no nr : nat) (ops : list op) (i : nat) (os : N),
    nth_error ops (S i) = Some (ODelObj os) ->
    forall (j : nat) (x x' : robs),
      shows no nr ops i j x -> shows no nr ops (S i) j x' ->
      (forall b, x = RTo (Some os) b -> x' = RNull) /\
      ((N.to_nat os < no)%nat -> (forall b, x <> RTo (Some os) b) -> x' = x).
Proof. exact destroy_nulls_exactly. Qed.
Print Assumptions C12_destroy_nulls_exactly_the_references_to_it.

(* "From then on": a reference that reads null keeps reading null (dead once it is destroyed)
   whatever happens to objects and to other references, until an operation constructs or
   assigns that very slot. *)
Theorem C12_null_stays_null_until_written :
  forall (no nr : nat) (ops : list op) (i k j : nat),
    (i <= k < length ops)%nat ->
    shows no nr ops i j RNull ->
    (forall m o, (i < m <= k)%nat -> nth_error ops m = Some o ->
                 writes_ref (N.of_nat j) o = false) ->
    exists x, shows no nr ops k j x /\
              (x = RNull \/ x = RDead) /\
              ((forall m, (i < m <= k)%nat -> nth_error ops m <> Some (ODelRef (N.of_nat j))) ->
               x = RNull).
Proof. exact stays_null. Qed.
Print Assumptions C12_null_stays_null_until_written.

(* Constructing, copying, reassigning, clearing or destroying one weak reference never changes
   what any other reference slot points to (dead / null / which object). *)
Theorem C12_reference_operations_do_not_disturb_the_others :
  forall (no nr : nat) (ops : list op) (i : nat) (o : op) (rs : N),
    nth_error ops (S i) = Some o -> op_ref o = Some rs ->
    forall (j : nat) (x x' : robs),
      N.of_nat j <> rs ->
      shows no nr ops i j x -> shows no nr ops (S i) j x' ->
      target_of x' = target_of x.
Proof. exact frame_other_refs. Qed.
Print Assumptions C12_reference_operations_do_not_disturb_the_others.

(* Creating an object changes nothing that any reference shows (a fresh object is never
   mistaken for the target of an existing reference). *)
Theorem C12_new_object_changes_no_reference :
  forall (no nr : nat) (ops : list op) (i : nat) (os : N),
    nth_error ops (S i) = Some (ONewObj os) ->
    forall (j : nat) (x x' : robs),
      shows no nr ops i j x -> shows no nr ops (S i) j x' -> x' = x.
Proof. exact new_object_changes_nothing. Qed.
Print Assumptions C12_new_object_changes_no_reference.

(* "Is this the last reference" is true exactly when one weak reference to the object remains:
   when all references of the history live in observed slots, the flag of a slot showing the
   object of slot os is true iff exactly one slot of that observation shows that object. *)
Theorem C12_is_last_iff_exactly_one_reference :
  forall (no nr : nat) (ops : list op),
    refs_below nr ops = true ->
    forall (i : nat) (obs : list robs),
      nth_error (run no nr ops) i = Some (Some obs) ->
      forall (j : nat) (os : N) (b : bool),
        nth_error obs j = Some (RTo (Some os) b) ->
        (b = true <-> count_shown os obs = 1%nat).
Proof. exact last_reference_exact. Qed.
Print Assumptions C12_is_last_iff_exactly_one_reference.

(* the side conditions hold for the history of C12_model_history (2 object slots, 3 reference
   slots), and object slot 0 is dead / object slot 1 alive at its end *)
Example C12_history_side_conditions :
  let h := [ONewObj 0; ONewObj 1;
            ONewRef 0 (SObj 0); ONewRef 1 (SRef 0); ONewRef 2 (SObj 1);
            OAssign 1 (SObj 0); OClear 1; OAssign 1 (SRef 0);
            ODelObj 0; ODelRef 0] in
  (objs_below 2 h, refs_below 3 h, obj_alive h 0, obj_alive h 1,
   obj_alive (firstn 8 h) 0, count_shown 0 [RTo (Some 0) false; RTo (Some 0) false; RTo (Some 1) true]) =
  (true, true, false, true, true, 2%nat).
Proof. vm_compute. reflexivity. Qed.

(* the side condition of the last-reference theorem is needed: a reference in an unobserved
   slot (slot 1, nr = 1) is a live reference too *)
Example C12_unobserved_reference_counts :
  (refs_below 1 [ONewObj 0; ONewRef 0 (SObj 0); ONewRef 1 (SObj 0)],
   run 1 1 [ONewObj 0; ONewRef 0 (SObj 0); ONewRef 1 (SObj 0)]) =
  (false, [Some [RDead]; Some [RTo (Some 0) true]; Some [RTo (Some 0) false]]).
Proof. vm_compute. reflexivity. Qed.
