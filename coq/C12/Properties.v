From Morfuse Require Import C12.Model C12.Spec.
