(* C12/Properties.v — the property theorems of C12, and nothing else.
   Every theorem is closed by [exact <lemma>] and followed by Print Assumptions. *)
From Coq Require Import NArith List Bool.
From Morfuse Require Import Base.Arr C12.Model C12.Spec C12.Proofs.
Import ListNotations.
Local Open Scope N_scope.

(* For EVERY sequence of client operations (create / destroy objects, construct / assign /
   clear / destroy weak references from null, an object or another reference), after every
   operation the model of the intrusive ring implementation (SafePtrBase prev/next/ptr,
   AbstractClass::SafePtrList) shows, for every reference slot, exactly what the finite-map
   specification shows: dead / null / the object slot it points to, and whether it is the
   last reference to that object.  In particular destroying an object nulls exactly the
   references to it, and the destructor loop always terminates within its fuel (no entry of
   the model's run is [None]). *)
Theorem C12_weak_references_refine_the_map :
  forall (no nr : nat) (ops : list op),
    run no nr ops = map Some (spec_run no nr ops).
Proof. exact run_refines_spec. Qed.
Print Assumptions C12_weak_references_refine_the_map.

(* The statement is not vacuous: a concrete history in the model.  Two references (slots 0
   and 1) to the object in slot 0 and one reference (slot 2) to the object in slot 1; a
   redundant assignment changes nothing; clearing slot 1 makes slot 0 the last reference,
   re-assigning it undoes that; destroying object 0 nulls slots 0 and 1 and leaves slot 2
   alone; finally reference 0 is destroyed. *)
Example C12_model_history :
  run 2 3 [ONewObj 0; ONewObj 1;
           ONewRef 0 (SObj 0); ONewRef 1 (SRef 0); ONewRef 2 (SObj 1);
           OAssign 1 (SObj 0); OClear 1; OAssign 1 (SRef 0);
           ODelObj 0; ODelRef 0] =
  [Some [RDead; RDead; RDead];
   Some [RDead; RDead; RDead];
   Some [RTo (Some 0) true; RDead; RDead];
   Some [RTo (Some 0) false; RTo (Some 0) false; RDead];
   Some [RTo (Some 0) false; RTo (Some 0) false; RTo (Some 1) true];
   Some [RTo (Some 0) false; RTo (Some 0) false; RTo (Some 1) true];
   Some [RTo (Some 0) true; RNull; RTo (Some 1) true];
   Some [RTo (Some 0) false; RTo (Some 0) false; RTo (Some 1) true];
   Some [RNull; RNull; RTo (Some 1) true];
   Some [RDead; RNull; RTo (Some 1) true]].
Proof. vm_compute. reflexivity. Qed.

(* the same history in the specification *)
Example C12_spec_history :
  spec_run 2 3 [ONewObj 0; ONewObj 1;
                ONewRef 0 (SObj 0); ONewRef 1 (SRef 0); ONewRef 2 (SObj 1);
                OAssign 1 (SObj 0); OClear 1; OAssign 1 (SRef 0);
                ODelObj 0; ODelRef 0] =
  [[RDead; RDead; RDead];
   [RDead; RDead; RDead];
   [RTo (Some 0) true; RDead; RDead];
   [RTo (Some 0) false; RTo (Some 0) false; RDead];
   [RTo (Some 0) false; RTo (Some 0) false; RTo (Some 1) true];
   [RTo (Some 0) false; RTo (Some 0) false; RTo (Some 1) true];
   [RTo (Some 0) true; RNull; RTo (Some 1) true];
   [RTo (Some 0) false; RTo (Some 0) false; RTo (Some 1) true];
   [RNull; RNull; RTo (Some 1) true];
   [RDead; RNull; RTo (Some 1) true]].
Proof. vm_compute. reflexivity. Qed.
