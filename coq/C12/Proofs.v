(* C12/Proofs.v — the weak-reference model (C12/Model.v) refines the finite-map
   specification (C12/Spec.v): for every operation sequence the observations coincide and
   the destructor loop never runs out of fuel. *)
From Coq Require Import NArith PeanoNat List Bool Lia Permutation.
From Morfuse Require Import Base.Arr Base.ListX Base.Ring C12.Model C12.Spec C12.ProofsLib.
Import ListNotations.
Local Open Scope N_scope.

(* ---- the heap-level invariant: every object's SafePtrList is a ring ---------------------- *)
Definition lists (nx pv : arr N) (ol : arr (option N)) (L : N -> list N) : Prop :=
  forall o, match get ol o with
            | None => L o = []
            | Some h => ring nx pv h (L o)
            end.

Notation slists s L := (lists (rnx s) (rpv s) (olist s) L).

Definition owned (pt : arr (option N)) (L : N -> list N) : Prop :=
  forall x o, In x (L o) <-> get pt x = Some o.

Definition owned_but (pt : arr (option N)) (r : N) (L : N -> list N) : Prop :=
  forall x o, In x (L o) <-> get pt x = Some o /\ x <> r.

Definition disj (L : N -> list N) : Prop :=
  forall x o o', In x (L o) -> In x (L o') -> o = o'.

Definition same_slots (s s' : st) : Prop :=
  oslot s' = oslot s /\ rslot s' = rslot s /\
  next_obj s' = next_obj s /\ next_ref s' = next_ref s.

Lemma same_slots_refl s : same_slots s s.
Proof. repeat split. Qed.

Lemma lists_nodup nx pv ol L o : lists nx pv ol L -> NoDup (L o).
Proof.
  intro H. specialize (H o). destruct (get ol o).
  - eapply ring_nodup; eauto.
  - rewrite H. constructor.
Qed.

Lemma lists_head nx pv ol L o r :
  lists nx pv ol L -> In r (L o) -> exists h, get ol o = Some h /\ ring nx pv h (L o).
Proof.
  intros H Hin. specialize (H o). destruct (get ol o) as [h|]; [eauto|].
  rewrite H in Hin. destruct Hin.
Qed.

Lemma owned_disj pt L : owned pt L -> disj L.
Proof.
  intros H x o o' H1 H2. apply H in H1. apply H in H2. congruence.
Qed.

Lemma owned_but_disj pt r L : owned_but pt r L -> disj L.
Proof.
  intros H x o o' H1 H2. apply H in H1. apply H in H2.
  destruct H1 as [H1 _]. destruct H2 as [H2 _]. congruence.
Qed.

Lemma disj_ne L o o' i j : disj L -> o' <> o -> In i (L o') -> In j (L o) -> i <> j.
Proof. intros HD Hne Hi Hj E. subst. apply Hne. eapply HD; eauto. Qed.

(* re-linking the ring of one object leaves every other object's ring intact *)
Lemma lists_relink nx pv ol L nx' pv' ol' o l' :
  lists nx pv ol L ->
  (forall i o'', o'' <> o -> In i (L o'') -> get nx' i = get nx i /\ get pv' i = get pv i) ->
  (forall o'', o'' <> o -> get ol' o'' = get ol o'') ->
  match get ol' o with None => l' = [] | Some h => ring nx' pv' h l' end ->
  lists nx' pv' ol' (upd L o l').
Proof.
  intros HL Hag Hol Ho o''. destruct (N.eq_dec o'' o) as [->|Hne].
  - rewrite upd_same. exact Ho.
  - rewrite upd_other by exact Hne. rewrite (Hol _ Hne).
    specialize (HL o''). destruct (get ol o'') as [h|]; [|exact HL].
    eapply ring_agree; [| |exact HL]; intros i Hi; apply (Hag i o''); auto.
Qed.

(* ---- frames --------------------------------------------------------------------------- *)
Lemma remove_reference_frame s r o :
  rptr (remove_reference s r o) = rptr s /\ same_slots s (remove_reference s r o).
Proof.
  unfold remove_reference, same_slots.
  destruct (get (olist s) o) as [h|]; [destruct (N.eqb h r); [destruct (N.eqb _ r)|]|];
    cbn; repeat split.
Qed.

Lemma add_reference_frame s r o :
  rptr (add_reference s r o) = rptr s /\ same_slots s (add_reference s r o).
Proof.
  unfold add_reference, same_slots.
  destruct (get (olist s) o) as [h|]; cbn; repeat split.
Qed.

(* ---- RemoveReference -------------------------------------------------------------------- *)
Lemma remove_reference_lists s L r o :
  slists s L -> disj L -> In r (L o) ->
  exists l', slists (remove_reference s r o) (upd L o l') /\
             (forall x, In x l' <-> In x (L o) /\ x <> r).
Proof.
  intros HL HD Hr.
  destruct (lists_head _ _ _ _ _ _ HL Hr) as [h [Eh R]].
  unfold remove_reference. cbv zeta. rewrite Eh.
  assert (Hframe : forall i o'', o'' <> o -> In i (L o'') -> forall j, In j (L o) -> i <> j).
  { intros i o'' Hne Hi j Hj. eapply disj_ne; eauto. }
  destruct (N.eqb_spec h r) as [->|Hhr].
  - destruct (N.eqb_spec (get (rnx s) r) r) as [Hn|Hn].
    + assert (El : L o = [r]) by (eapply ring_single_iff; eauto).
      exists []. split.
      * cbn [rnx rpv olist].
        apply (lists_relink (rnx s) (rpv s) (olist s) L); auto.
        -- intros o'' Hne. apply gso. exact Hne.
        -- now rewrite gss.
      * intro x. rewrite El. cbn. split; [tauto|]. intros [[<-|[]] H]. congruence.
    + assert (Hm : In (get (rnx s) r) (L o)) by (eapply ring_closed; eauto).
      destruct (ring_unlink_any _ _ _ _ r (get (rnx s) r) R Hr Hm Hn)
        as (Hnl & Hpl & l' & R' & El').
      exists l'. split; [|exact El'].
      cbn [rnx rpv olist].
      apply (lists_relink (rnx s) (rpv s) (olist s) L); auto.
      * intros i o'' Hne Hi. pose proof (Hframe i o'' Hne Hi) as Hd.
        split; rewrite !gso by (apply Hd; assumption); reflexivity.
      * intros o'' Hne. apply gso. exact Hne.
      * rewrite gss. exact R'.
  - assert (Hm : In h (L o)) by (eapply ring_in_head; eauto).
    destruct (ring_unlink_any _ _ _ _ r h R Hr Hm Hhr) as (Hnl & Hpl & l' & R' & El').
    exists l'. split; [|exact El'].
    cbn [rnx rpv olist].
    apply (lists_relink (rnx s) (rpv s) (olist s) L); auto.
    * intros i o'' Hne Hi. pose proof (Hframe i o'' Hne Hi) as Hd.
      split; rewrite !gso by (apply Hd; assumption); reflexivity.
    * rewrite Eh. exact R'.
Qed.

(* ---- AddReference ----------------------------------------------------------------------- *)
Lemma add_reference_lists s L r o :
  slists s L -> disj L -> (forall o', ~ In r (L o')) ->
  slists (add_reference s r o) (upd L o (L o ++ [r])).
Proof.
  intros HL HD Hr. unfold add_reference. pose proof (HL o) as Ho.
  destruct (get (olist s) o) as [h|] eqn:Eh.
  - destruct (ring_insert_tail _ _ _ _ r Ho (Hr o)) as [Hp R'].
    assert (Hh : In h (L o)) by (eapply ring_in_head; eauto).
    cbv zeta. cbn [rnx rpv olist].
    apply (lists_relink (rnx s) (rpv s) (olist s) L); auto.
    + intros i o'' Hne Hi.
      assert (Hir : i <> r) by (intro; subst i; eapply Hr; eauto).
      assert (Hd : forall j, In j (L o) -> i <> j)
        by (intros j Hj; exact (disj_ne L o o'' i j HD Hne Hi Hj)).
      split; rewrite !gso by (try exact Hir; apply Hd; assumption); reflexivity.
    + rewrite Eh. eapply ring_ext; [| |exact R'].
      * intro i. rewrite !get_set.
        destruct (N.eqb_spec i r) as [Ei|Hi];
          destruct (N.eqb_spec i (get (rpv s) h)) as [E|Hi']; try reflexivity.
        exfalso. apply (Hr o). rewrite <- Ei, E. exact Hp.
      * intro i. rewrite !get_set.
        destruct (N.eqb_spec i r) as [Ei|Hi];
          destruct (N.eqb_spec i h) as [E|Hi']; try reflexivity.
        exfalso. apply (Hr o). rewrite <- Ei, E. exact Hh.
  - rewrite Ho. cbn [app rnx rpv olist].
    apply (lists_relink (rnx s) (rpv s) (olist s) L); auto.
    + intros i o'' Hne Hi.
      assert (Hir : i <> r) by (intro; subst i; eapply Hr; eauto).
      split; rewrite gso by exact Hir; reflexivity.
    + intros o'' Hne. apply gso. exact Hne.
    + rewrite gss. apply ring_single.
Qed.

(* ---- detaching a reference from its object, attaching it to another ------------------- *)
Lemma detach_some s L r o :
  slists s L -> owned (rptr s) L -> get (rptr s) r = Some o ->
  exists L1, slists (remove_reference s r o) L1 /\ owned_but (rptr s) r L1.
Proof.
  intros HL HO Er.
  assert (Hr : In r (L o)) by (apply HO; exact Er).
  destruct (remove_reference_lists s L r o HL (owned_disj _ _ HO) Hr) as [l' [HL' El']].
  exists (upd L o l'). split; [exact HL'|].
  intros x o'. unfold upd. destruct (N.eqb_spec o' o) as [->|Hne].
  - rewrite El', (HO x o). tauto.
  - rewrite (HO x o'). split; [|tauto]. intro H. split; [exact H|].
    intro; subst x. congruence.
Qed.

Lemma detach_none s L r :
  owned (rptr s) L -> get (rptr s) r = None -> owned_but (rptr s) r L.
Proof.
  intros HO Er x o. rewrite (HO x o). split; [|tauto].
  intro H. split; [exact H|]. intro; subst x. congruence.
Qed.

Definition attach (s1 : st) (r : N) (v : option N) : st :=
  match v with
  | Some o => add_reference (set_ptr s1 r v) r o
  | None => set_ptr s1 r v
  end.

Lemma attach_ok s1 L1 r v :
  slists s1 L1 -> owned_but (rptr s1) r L1 ->
  exists L3, slists (attach s1 r v) L3 /\ owned (rptr (attach s1 r v)) L3 /\
             rptr (attach s1 r v) = set (rptr s1) r v /\ same_slots s1 (attach s1 r v).
Proof.
  intros HL HO. unfold attach. destruct v as [o|].
  - assert (Hr : forall o', ~ In r (L1 o')) by (intros o' H; apply HO in H; tauto).
    destruct (add_reference_frame (set_ptr s1 r (Some o)) r o) as [Ep Hs].
    exists (upd L1 o (L1 o ++ [r])). split; [|split; [|split]].
    + apply add_reference_lists; [exact HL | eapply owned_but_disj; eauto | exact Hr].
    + rewrite Ep. cbn [rptr set_ptr]. intros x o'. rewrite get_set. unfold upd.
      destruct (N.eqb_spec o' o) as [->|Hne]; destruct (N.eqb_spec x r) as [->|Hx].
      * rewrite in_app_iff. cbn. split; auto.
      * rewrite in_app_iff, (HO x o). cbn. split.
        -- intros [[H _]|[E|[]]]; [exact H|congruence].
        -- intro H. left. tauto.
      * split; [intro H; apply Hr in H; tauto | intro E; congruence].
      * rewrite (HO x o'). tauto.
    + rewrite Ep. reflexivity.
    + exact Hs.
  - exists L1. split; [exact HL|]. split; [|split; [reflexivity | repeat split]].
    cbn [rptr set_ptr]. intros x o'. rewrite get_set, (HO x o').
    destruct (N.eqb_spec x r) as [->|Hx]; split; try tauto.
    + discriminate.
Qed.

(* ---- Clear ------------------------------------------------------------------------------ *)
Lemma clear_ok s L r :
  slists s L -> owned (rptr s) L ->
  exists L', slists (clear s r) L' /\ owned (rptr (clear s r)) L' /\
             (forall x, get (rptr (clear s r)) x =
                        if N.eqb x r then None else get (rptr s) x) /\
             same_slots s (clear s r).
Proof.
  intros HL HO. unfold clear. destruct (get (rptr s) r) as [o|] eqn:Er.
  - destruct (detach_some s L r o HL HO Er) as [L1 [HL1 HO1]].
    destruct (remove_reference_frame s r o) as [Ep (Eo & Ers & Eno & Enr)].
    rewrite <- Ep in HO1.
    destruct (attach_ok _ L1 r None HL1 HO1) as [L3 (HL3 & HO3 & Ep3 & (Eo3 & Ers3 & Eno3 & Enr3))].
    unfold attach in *.
    exists L3. split; [exact HL3|]. split; [exact HO3|]. split.
    + intro x. rewrite Ep3, Ep. apply get_set.
    + repeat split; congruence.
  - exists L. split; [exact HL|]. split; [exact HO|]. split; [|apply same_slots_refl].
    intro x. destruct (N.eqb_spec x r) as [->|]; [exact Er|reflexivity].
Qed.

(* ---- InitSafePtr -------------------------------------------------------------------------- *)
Lemma init_safe_ptr_ok s L r v :
  slists s L -> owned (rptr s) L ->
  exists L', slists (init_safe_ptr s r v) L' /\ owned (rptr (init_safe_ptr s r v)) L' /\
             (forall x, get (rptr (init_safe_ptr s r v)) x =
                        if N.eqb x r then v else get (rptr s) x) /\
             same_slots s (init_safe_ptr s r v).
Proof.
  intros HL HO. unfold init_safe_ptr.
  destruct (opt_eqb_spec (get (rptr s) r) v) as [E|E].
  - exists L. split; [exact HL|]. split; [exact HO|]. split; [|apply same_slots_refl].
    intro x. destruct (N.eqb_spec x r) as [->|]; [exact E|reflexivity].
  - cbv zeta.
    change (match v with
            | Some o => add_reference (set_ptr ?s1 r v) r o
            | None => set_ptr ?s1 r v
            end) with (attach s1 r v).
    destruct (get (rptr s) r) as [o|] eqn:Er.
    + destruct (detach_some s L r o HL HO Er) as [L1 [HL1 HO1]].
      destruct (remove_reference_frame s r o) as [Ep (Eo & Ers & Eno & Enr)].
      rewrite <- Ep in HO1.
      destruct (attach_ok _ L1 r v HL1 HO1) as [L3 (HL3 & HO3 & Ep3 & (Eo3 & Ers3 & Eno3 & Enr3))].
      exists L3. split; [exact HL3|]. split; [exact HO3|]. split.
      * intro x. rewrite Ep3, Ep. apply get_set.
      * repeat split; congruence.
    + pose proof (detach_none s L r HO Er) as HO1.
      destruct (attach_ok s L r v HL HO1) as [L3 (HL3 & HO3 & Ep3 & Hs3)].
      exists L3. split; [exact HL3|]. split; [exact HO3|]. split; [|exact Hs3].
      intro x. rewrite Ep3. apply get_set.
Qed.

(* ---- the destructor loop ------------------------------------------------------------------ *)
Lemma destroy_loop_ok o : forall fuel s L,
  slists s L -> owned (rptr s) L -> (length (L o) <= fuel)%nat ->
  exists s' L', destroy_loop fuel s o = Some s' /\
    slists s' L' /\ owned (rptr s') L' /\
    (forall x, get (rptr s') x =
               if opt_eqb (get (rptr s) x) (Some o) then None else get (rptr s) x) /\
    same_slots s s'.
Proof.
  induction fuel as [|f IH]; intros s L HL HO Hlen.
  - pose proof (HL o) as Ho. cbn [destroy_loop].
    destruct (get (olist s) o) as [h|] eqn:Eh.
    + exfalso. destruct Ho as (_ & [t Et] & _). rewrite Et in Hlen. cbn in Hlen. lia.
    + exists s, L. split; [reflexivity|]. split; [exact HL|]. split; [exact HO|].
      split; [|apply same_slots_refl].
      intro x. destruct (opt_eqb_spec (get (rptr s) x) (Some o)) as [E|E]; [|reflexivity].
      apply HO in E. rewrite Ho in E. destruct E.
  - pose proof (HL o) as Ho. cbn [destroy_loop].
    destruct (get (olist s) o) as [h|] eqn:Eh.
    + assert (Hh : In h (L o)) by (eapply ring_in_head; eauto).
      assert (Eph : get (rptr s) h = Some o) by (apply HO; exact Hh).
      destruct (clear_ok s L h HL HO) as [L1 (HL1 & HO1 & Ep1 & (Eo1 & Ers1 & Eno1 & Enr1))].
      assert (Hlen1 : (length (L1 o) <= f)%nat).
      { assert (Hlt : (length (L1 o) < length (L o))%nat).
        { apply (nodup_strict_sub_length _ _ h); [eapply lists_nodup; eauto | exact Hh|].
          intros x Hx. apply HO1 in Hx. rewrite Ep1 in Hx. revert Hx.
          destruct (N.eqb_spec x h) as [Exh|Hne]; intro Hx; [discriminate|].
          split; [apply HO; exact Hx | exact Hne]. }
        lia. }
      destruct (IH (clear s h) L1 HL1 HO1 Hlen1)
        as [s' [L' (Ed & HL' & HO' & Ep' & (Eo' & Ers' & Eno' & Enr'))]].
      exists s', L'. split; [exact Ed|]. split; [exact HL'|]. split; [exact HO'|]. split.
      * intro x. rewrite Ep', Ep1.
        destruct (N.eqb_spec x h) as [->|Hne]; [|reflexivity].
        rewrite Eph. cbn. now rewrite N.eqb_refl.
      * repeat split; congruence.
    + exists s, L. split; [reflexivity|]. split; [exact HL|]. split; [exact HO|].
      split; [|apply same_slots_refl].
      intro x. destruct (opt_eqb_spec (get (rptr s) x) (Some o)) as [E|E]; [|reflexivity].
      apply HO in E. rewrite Ho in E. destruct E.
Qed.

(* ---- the simulation relation ---------------------------------------------------------------- *)
Record inv (s : st) (a : abs) : Prop := {
  iv_core : exists L, slists s L /\ owned (rptr s) L;
  iv_rlive : forall r o, get (rptr s) r = Some o -> exists rs, get (rslot s) rs = Some r;
  iv_olive : forall r o, get (rptr s) r = Some o -> exists os, get (oslot s) os = Some o;
  iv_olt : forall os o, get (oslot s) os = Some o -> o < next_obj s;
  iv_rlt : forall rs r, get (rslot s) rs = Some r -> r < next_ref s;
  iv_rinj : forall rs rs' r,
      get (rslot s) rs = Some r -> get (rslot s) rs' = Some r -> rs = rs';
  iv_objs : forall os, alookup os (aobjs a) = get (oslot s) os;
  iv_refs : forall rs, alookup rs (arefs a) =
                       option_map (fun r => get (rptr s) r) (get (rslot s) rs);
  iv_next : anext a = next_obj s;
  iv_nd : NoDup (map fst (arefs a)) }.

Lemma inv_init : inv init abs_init.
Proof.
  constructor; cbn [init abs_init rnx rpv rptr olist oslot rslot next_obj next_ref
                    aobjs arefs anext alookup map].
  - exists (fun _ => []). split.
    + intro o. now rewrite get_empty.
    + intros x o. rewrite get_empty. cbn. split; [tauto|discriminate].
  - intros r o. rewrite get_empty. discriminate.
  - intros r o. rewrite get_empty. discriminate.
  - intros os o. rewrite get_empty. discriminate.
  - intros rs r. rewrite get_empty. discriminate.
  - intros rs rs' r. rewrite get_empty. discriminate.
  - intro os. now rewrite get_empty.
  - intro rs. now rewrite get_empty.
  - reflexivity.
  - constructor.
Qed.

Lemma asrc_ok s a f : inv s a -> asrc a f = src_ptr s f.
Proof.
  intros [IC IRL IOL IOLT IRLT IRI IOB IRF INX IND]. destruct f as [|os|rs]; cbn [asrc src_ptr].
  - reflexivity.
  - apply IOB.
  - rewrite IRF. destruct (get (rslot s) rs); reflexivity.
Qed.

Lemma src_ptr_live s a f o :
  inv s a -> src_ptr s f = Some o -> exists os, get (oslot s) os = Some o.
Proof.
  intros [IC IRL IOL IOLT IRLT IRI IOB IRF INX IND]. destruct f as [|os|rs]; cbn [src_ptr].
  - discriminate.
  - eauto.
  - destruct (get (rslot s) rs) as [r|]; [|discriminate]. apply IOL.
Qed.

(* assignment / clear: the reference in slot [rs] is re-targeted to [v] *)
Lemma inv_retarget s a s' rs r v :
  inv s a -> get (rslot s) rs = Some r ->
  (exists L', slists s' L' /\ owned (rptr s') L') ->
  (forall x, get (rptr s') x = if N.eqb x r then v else get (rptr s) x) ->
  same_slots s s' ->
  (forall o, v = Some o -> exists os, get (oslot s) os = Some o) ->
  inv s' (mkAbs (aobjs a) (aset rs v (arefs a)) (anext a)).
Proof.
  intros [IC IRL IOL IOLT IRLT IRI IOB IRF INX IND] Hrs HC Hp (Eo & Er & Eno & Enr) Hv.
  constructor; cbn [aobjs arefs anext]; rewrite ?Eo, ?Er, ?Eno, ?Enr.
  - exact HC.
  - intros x o Hx. rewrite Hp in Hx. revert Hx.
    destruct (N.eqb_spec x r) as [E|Hne]; intro Hx; [subst x; eauto | eapply IRL; eauto].
  - intros x o Hx. rewrite Hp in Hx. revert Hx.
    destruct (N.eqb_spec x r) as [E|Hne]; intro Hx; [apply Hv; exact Hx | eapply IOL; eauto].
  - exact IOLT.
  - exact IRLT.
  - exact IRI.
  - exact IOB.
  - intro rs'. rewrite alookup_aset. destruct (N.eqb_spec rs' rs) as [E|Hne].
    + subst rs'. rewrite Hrs. cbn [option_map]. rewrite Hp, N.eqb_refl. reflexivity.
    + rewrite IRF. destruct (get (rslot s) rs') as [r'|] eqn:E; cbn [option_map]; [|reflexivity].
      rewrite Hp. destruct (N.eqb_spec r' r) as [E'|]; [|reflexivity].
      exfalso. apply Hne. subst r'. eapply IRI; eauto.
  - exact INX.
  - apply nodup_keys_aset. exact IND.
Qed.

Lemma inv_new_obj s a os :
  inv s a -> get (oslot s) os = None ->
  inv (mkSt (rnx s) (rpv s) (rptr s) (set (olist s) (next_obj s) None)
            (set (oslot s) os (Some (next_obj s))) (rslot s)
            (next_obj s + 1) (next_ref s))
      (mkAbs ((os, anext a) :: aobjs a) (arefs a) (anext a + 1)).
Proof.
  intros [IC IRL IOL IOLT IRLT IRI IOB IRF INX IND] Hos.
  constructor; cbn [rnx rpv rptr olist oslot rslot next_obj next_ref aobjs arefs anext].
  - destruct IC as [L [HL HO]]. exists L. split; [|exact HO].
    intro o. rewrite get_set. destruct (N.eqb_spec o (next_obj s)) as [E|Hne]; [|apply HL].
    subst o. destruct (L (next_obj s)) as [|x t] eqn:El; [reflexivity|]. exfalso.
    assert (Hx : In x (L (next_obj s))) by (rewrite El; now left).
    apply HO in Hx. destruct (IOL _ _ Hx) as [os' Hos']. apply IOLT in Hos'. lia.
  - exact IRL.
  - intros r o Hr. destruct (IOL _ _ Hr) as [os' Hos']. exists os'.
    rewrite gso; [exact Hos'|]. intro; subst os'. congruence.
  - intros os' o. rewrite get_set. destruct (N.eqb_spec os' os) as [E|Hne]; intro H.
    + injection H as <-. lia.
    + apply IOLT in H. lia.
  - exact IRLT.
  - exact IRI.
  - intro os'. cbn [alookup]. rewrite get_set.
    destruct (N.eqb os' os); [now rewrite INX | apply IOB].
  - exact IRF.
  - now rewrite INX.
  - exact IND.
Qed.

Lemma inv_del_obj s a s' os o :
  inv s a -> get (oslot s) os = Some o ->
  (exists L', slists s' L' /\ owned (rptr s') L') ->
  (forall x, get (rptr s') x =
             if opt_eqb (get (rptr s) x) (Some o) then None else get (rptr s) x) ->
  same_slots s s' ->
  inv (mkSt (rnx s') (rpv s') (rptr s') (olist s') (set (oslot s') os None)
            (rslot s') (next_obj s') (next_ref s'))
      (mkAbs (aremove os (aobjs a))
             (map (fun p => (fst p, if opt_eqb (snd p) (Some o) then None else snd p))
                  (arefs a))
             (anext a)).
Proof.
  intros [IC IRL IOL IOLT IRLT IRI IOB IRF INX IND] Hos HC Hp (Eo & Er & Eno & Enr).
  set (g := fun t : option N => if opt_eqb t (Some o) then None else t).
  change (fun p : N * option N => (fst p, if opt_eqb (snd p) (Some o) then None else snd p))
    with (fun p : N * option N => (fst p, g (snd p))).
  constructor; cbn [rnx rpv rptr olist oslot rslot next_obj next_ref aobjs arefs anext];
    rewrite ?Eo, ?Er, ?Eno, ?Enr.
  - exact HC.
  - intros x o' Hx. rewrite Hp in Hx. revert Hx.
    destruct (opt_eqb (get (rptr s) x) (Some o)); intro Hx; [discriminate | eapply IRL; eauto].
  - intros x o' Hx. rewrite Hp in Hx. revert Hx.
    destruct (opt_eqb_spec (get (rptr s) x) (Some o)) as [E|E]; intro Hx; [discriminate|].
    destruct (IOL _ _ Hx) as [os' Hos']. exists os'.
    rewrite gso; [exact Hos'|]. intro; subst os'. congruence.
  - intros os' o'. rewrite get_set. destruct (N.eqb os' os); [discriminate | apply IOLT].
  - exact IRLT.
  - exact IRI.
  - intro os'. rewrite alookup_aremove, get_set.
    destruct (N.eqb os' os); [reflexivity | apply IOB].
  - intro rs. rewrite (alookup_map_snd g), IRF.
    destruct (get (rslot s) rs) as [r|]; cbn [option_map]; [|reflexivity].
    rewrite Hp. reflexivity.
  - exact INX.
  - rewrite (map_fst_map_snd g). exact IND.
Qed.

Lemma inv_new_ref s a s' rs v :
  inv s a -> get (rslot s) rs = None ->
  (exists L', slists s' L' /\ owned (rptr s') L') ->
  (forall x, get (rptr s') x = if N.eqb x (next_ref s) then v else get (rptr s) x) ->
  oslot s' = oslot s -> rslot s' = set (rslot s) rs (Some (next_ref s)) ->
  next_obj s' = next_obj s -> next_ref s' = next_ref s + 1 ->
  (forall o, v = Some o -> exists os, get (oslot s) os = Some o) ->
  inv s' (mkAbs (aobjs a) ((rs, v) :: arefs a) (anext a)).
Proof.
  intros [IC IRL IOL IOLT IRLT IRI IOB IRF INX IND] Hrs HC Hp Eo Er Eno Enr Hv.
  constructor; cbn [aobjs arefs anext]; rewrite ?Eo, ?Er, ?Eno, ?Enr.
  - exact HC.
  - intros x o Hx. rewrite Hp in Hx. revert Hx.
    destruct (N.eqb_spec x (next_ref s)) as [E|Hne]; intro Hx.
    + subst x. exists rs. apply gss.
    + destruct (IRL _ _ Hx) as [rs' Hrs']. exists rs'.
      rewrite gso; [exact Hrs'|]. intro; subst rs'. congruence.
  - intros x o Hx. rewrite Hp in Hx. revert Hx.
    destruct (N.eqb_spec x (next_ref s)) as [E|Hne]; intro Hx;
      [apply Hv; exact Hx | eapply IOL; eauto].
  - exact IOLT.
  - intros rs' r. rewrite get_set. destruct (N.eqb rs' rs); intro H.
    + injection H as <-. lia.
    + apply IRLT in H. lia.
  - intros rs1 rs2 r. rewrite !get_set.
    destruct (N.eqb_spec rs1 rs) as [E1|N1]; destruct (N.eqb_spec rs2 rs) as [E2|N2];
      intros H1 H2.
    + congruence.
    + injection H1 as <-. apply IRLT in H2. lia.
    + injection H2 as <-. apply IRLT in H1. lia.
    + eapply IRI; eauto.
  - exact IOB.
  - intro rs'. cbn [alookup]. rewrite get_set.
    destruct (N.eqb_spec rs' rs) as [E|Hne]; cbn [option_map].
    + rewrite Hp, N.eqb_refl. reflexivity.
    + rewrite IRF. destruct (get (rslot s) rs') as [r'|] eqn:E; cbn [option_map]; [|reflexivity].
      rewrite Hp. apply IRLT in E.
      destruct (N.eqb_spec r' (next_ref s)); [lia|reflexivity].
  - exact INX.
  - cbn [map fst]. constructor; [|exact IND].
    apply alookup_none_iff. rewrite IRF, Hrs. reflexivity.
Qed.

Lemma inv_del_ref_absent s a rs :
  inv s a -> get (rslot s) rs = None ->
  inv s (mkAbs (aobjs a) (aremove rs (arefs a)) (anext a)).
Proof.
  intros [IC IRL IOL IOLT IRLT IRI IOB IRF INX IND] Hrs.
  constructor; cbn [aobjs arefs anext]; auto.
  - intro rs'. rewrite alookup_aremove. destruct (N.eqb_spec rs' rs) as [E|Hne]; [|apply IRF].
    subst rs'. now rewrite Hrs.
  - apply nodup_keys_aremove. exact IND.
Qed.

Lemma inv_del_ref s a s' rs r :
  inv s a -> get (rslot s) rs = Some r ->
  (exists L', slists s' L' /\ owned (rptr s') L') ->
  (forall x, get (rptr s') x = if N.eqb x r then None else get (rptr s) x) ->
  same_slots s s' ->
  inv (mkSt (rnx s') (rpv s') (rptr s') (olist s') (oslot s')
            (set (rslot s') rs None) (next_obj s') (next_ref s'))
      (mkAbs (aobjs a) (aremove rs (arefs a)) (anext a)).
Proof.
  intros [IC IRL IOL IOLT IRLT IRI IOB IRF INX IND] Hrs HC Hp (Eo & Er & Eno & Enr).
  constructor; cbn [rnx rpv rptr olist oslot rslot next_obj next_ref aobjs arefs anext];
    rewrite ?Eo, ?Er, ?Eno, ?Enr.
  - exact HC.
  - intros x o Hx. rewrite Hp in Hx. revert Hx.
    destruct (N.eqb_spec x r) as [E|Hne]; intro Hx; [discriminate|].
    destruct (IRL _ _ Hx) as [rs' Hrs']. exists rs'.
    rewrite gso; [exact Hrs'|]. intro; subst rs'. congruence.
  - intros x o Hx. rewrite Hp in Hx. revert Hx.
    destruct (N.eqb x r); intro Hx; [discriminate | eapply IOL; eauto].
  - exact IOLT.
  - intros rs' r'. rewrite get_set. destruct (N.eqb rs' rs); [discriminate | apply IRLT].
  - intros rs1 rs2 r'. rewrite !get_set.
    destruct (N.eqb rs1 rs); [discriminate|]. destruct (N.eqb rs2 rs); [discriminate|].
    apply IRI.
  - exact IOB.
  - intro rs'. rewrite alookup_aremove, get_set.
    destruct (N.eqb_spec rs' rs) as [E|Hne]; [reflexivity|].
    rewrite IRF. destruct (get (rslot s) rs') as [r'|] eqn:E; cbn [option_map]; [|reflexivity].
    rewrite Hp. destruct (N.eqb_spec r' r) as [E'|]; [|reflexivity].
    exfalso. apply Hne. subst r'. eapply IRI; eauto.
  - exact INX.
  - apply nodup_keys_aremove. exact IND.
Qed.

(* ---- every step preserves the simulation, and the destructor loop has enough fuel ---------- *)
Lemma step_ok s a (o : op) :
  inv s a -> exists s', step s o = Some s' /\ inv s' (spec_step a o).
Proof.
  intro I. pose proof I as [IC IRL IOL IOLT IRLT IRI IOB IRF INX IND].
  destruct o as [os|os|rs f|rs f|rs|rs]; cbn [step spec_step].
  - (* ONewObj *)
    rewrite IOB. destruct (get (oslot s) os) as [o|] eqn:Eos.
    + exists s. split; [reflexivity | exact I].
    + eexists. split; [reflexivity|]. apply inv_new_obj; assumption.
  - (* ODelObj *)
    rewrite IOB. destruct (get (oslot s) os) as [o|] eqn:Eos.
    + destruct IC as [L [HL HO]].
      assert (Hlen : (length (L o) <= S (N.to_nat (next_ref s)))%nat).
      { assert (H : (length (L o) <= N.to_nat (next_ref s))%nat); [|lia].
        apply nodup_lt_length; [eapply lists_nodup; eauto|].
        intros x Hx. apply HO in Hx. destruct (IRL _ _ Hx) as [rs Hrs]. eapply IRLT; eauto. }
      destruct (destroy_loop_ok o _ s L HL HO Hlen) as [s' [L' (Ed & HL' & HO' & Ep' & Hs')]].
      rewrite Ed. eexists. split; [reflexivity|].
      apply (inv_del_obj s a s' os o); eauto.
    + exists s. split; [reflexivity | exact I].
  - (* ONewRef *)
    rewrite IRF. destruct (get (rslot s) rs) as [r0|] eqn:Ers; cbn [option_map].
    + exists s. split; [reflexivity | exact I].
    + eexists. split; [reflexivity|].
      rewrite (asrc_ok s a f I).
      set (r := next_ref s). set (v := src_ptr s f).
      set (s0 := mkSt (rnx s) (rpv s) (rptr s) (olist s) (oslot s)
                      (set (rslot s) rs (Some r)) (next_obj s) (r + 1)).
      change (match v with
              | Some o => add_reference ?s1 r o
              | None => ?s1
              end) with (attach s0 r v).
      destruct IC as [L [HL HO]].
      assert (Efresh : get (rptr s) r = None).
      { destruct (get (rptr s) r) as [o|] eqn:E; [|reflexivity]. exfalso.
        destruct (IRL _ _ E) as [rs' Hrs']. apply IRLT in Hrs'. unfold r in Hrs'. lia. }
      pose proof (detach_none s L r HO Efresh) as HO1.
      destruct (attach_ok s0 L r v HL HO1) as [L3 (HL3 & HO3 & Ep3 & (Eo3 & Ers3 & Eno3 & Enr3))].
      apply (inv_new_ref s a (attach s0 r v) rs v); eauto.
      * intro x. rewrite Ep3. apply get_set.
      * intros o Hv. eapply src_ptr_live; eauto.
  - (* OAssign *)
    rewrite IRF. destruct (get (rslot s) rs) as [r|] eqn:Ers; cbn [option_map].
    + eexists. split; [reflexivity|].
      rewrite (asrc_ok s a f I).
      destruct IC as [L [HL HO]].
      destruct (init_safe_ptr_ok s L r (src_ptr s f) HL HO) as [L' (HL' & HO' & Ep' & Hs')].
      apply (inv_retarget s a _ rs r); eauto.
      intros o Hv. eapply src_ptr_live; eauto.
    + exists s. split; [reflexivity | exact I].
  - (* OClear *)
    rewrite IRF. destruct (get (rslot s) rs) as [r|] eqn:Ers; cbn [option_map].
    + eexists. split; [reflexivity|].
      destruct IC as [L [HL HO]].
      destruct (clear_ok s L r HL HO) as [L' (HL' & HO' & Ep' & Hs')].
      apply (inv_retarget s a _ rs r); eauto.
      intros o Hv. discriminate.
    + exists s. split; [reflexivity | exact I].
  - (* ODelRef *)
    destruct (get (rslot s) rs) as [r|] eqn:Ers.
    + eexists. split; [reflexivity|].
      destruct IC as [L [HL HO]].
      destruct (clear_ok s L r HL HO) as [L' (HL' & HO' & Ep' & Hs')].
      apply (inv_del_ref s a (clear s r) rs r); eauto.
    + exists s. split; [reflexivity|]. apply inv_del_ref_absent; assumption.
Qed.

(* ---- observations ----------------------------------------------------------------------------- *)
Lemma find_oslot_ok s a o : inv s a -> forall n, find_oslot s o n = afind_oslot a o n.
Proof.
  intros I n. induction n as [|m IH]; cbn [find_oslot afind_oslot]; [reflexivity|].
  rewrite (iv_objs _ _ I), IH. reflexivity.
Qed.

Lemma slot_keys s a o : inv s a -> forall rs,
  In rs (map fst (filter (fun p => opt_eqb (snd p) (Some o)) (arefs a))) <->
  exists r, get (rslot s) rs = Some r /\ get (rptr s) r = Some o.
Proof.
  intros [IC IRL IOL IOLT IRLT IRI IOB IRF INX IND] rs. split.
  - intro H. apply in_map_iff in H. destruct H as [[k t] [Ek Hin]]. cbn [fst] in Ek. subst k.
    apply filter_In in Hin. destruct Hin as [Hin Ht]. cbn [snd] in Ht.
    apply opt_eqb_eq in Ht. subst t.
    apply in_alookup in Hin; [|exact IND]. rewrite IRF in Hin.
    destruct (get (rslot s) rs) as [r|]; cbn [option_map] in Hin; [|discriminate].
    exists r. split; congruence.
  - intros [r [Hr Hp]]. apply in_map_iff. exists (rs, Some o). split; [reflexivity|].
    apply filter_In. split; [|cbn [snd opt_eqb]; apply N.eqb_refl].
    apply alookup_in. rewrite IRF, Hr. cbn [option_map]. now rewrite Hp.
Qed.

Lemma count_ok s a L o :
  inv s a -> slists s L -> owned (rptr s) L -> count_to a o = length (L o).
Proof.
  intros I HL HO. pose proof (slot_keys s a o I) as HK.
  pose proof I as [IC IRL IOL IOLT IRLT IRI IOB IRF INX IND].
  unfold count_to.
  set (M := filter (fun p => opt_eqb (snd p) (Some o)) (arefs a)) in *.
  set (f := fun rs => match get (rslot s) rs with Some r => r | None => 0 end).
  rewrite <- (map_length fst M), <- (map_length f (map fst M)).
  apply same_members_length.
  - apply nodup_map_inj_on; [|apply nodup_keys_filter; exact IND].
    intros x y Hx Hy E. apply HK in Hx. apply HK in Hy.
    destruct Hx as [r1 [Hx1 Hx2]]. destruct Hy as [r2 [Hy1 Hy2]].
    unfold f in E. rewrite Hx1, Hy1 in E. subst r2. eapply IRI; eauto.
  - eapply lists_nodup; eauto.
  - intro x. rewrite in_map_iff. split.
    + intros [rs [E Hin]]. apply HK in Hin. destruct Hin as [r [Hr Hp]].
      unfold f in E. rewrite Hr in E. subst x. apply HO. exact Hp.
    + intro Hx. apply HO in Hx. destruct (IRL _ _ Hx) as [rs Hrs].
      exists rs. split; [unfold f; now rewrite Hrs|]. apply HK. eauto.
Qed.

Lemma is_last_ok s a r o :
  inv s a -> get (rptr s) r = Some o ->
  (N.eqb (get (rnx s) r) r && N.eqb (get (rpv s) r) r) = Nat.eqb (count_to a o) 1.
Proof.
  intros I Hp. destruct (iv_core _ _ I) as [L [HL HO]].
  rewrite (count_ok s a L o I HL HO).
  assert (Hr : In r (L o)) by (apply HO; exact Hp).
  destruct (lists_head _ _ _ _ _ _ HL Hr) as [h [Eh R]].
  destruct (N.eqb_spec (get (rnx s) r) r) as [Hn|Hn]; cbn [andb].
  - assert (El : L o = [r]) by (eapply ring_single_iff; eauto).
    rewrite El. cbn [length Nat.eqb].
    pose proof (ring_pv_nx _ _ _ _ _ R Hr) as Hpv. rewrite Hn in Hpv.
    rewrite Hpv. apply N.eqb_refl.
  - symmetry. apply Nat.eqb_neq. intro Hlen. apply Hn.
    eapply ring_single_iff; eauto.
    destruct (L o) as [|x [|y t]]; cbn in Hlen; try discriminate.
    destruct Hr as [->|[]]. reflexivity.
Qed.

Lemma observe_ref_ok no s a rs : inv s a -> observe_ref no s rs = aobserve_ref no a rs.
Proof.
  intro I. unfold observe_ref, aobserve_ref. rewrite (iv_refs _ _ I).
  destruct (get (rslot s) rs) as [r|] eqn:Ers; cbn [option_map]; [|reflexivity].
  destruct (get (rptr s) r) as [o|] eqn:Ep; [|reflexivity].
  rewrite (find_oslot_ok s a o I), (is_last_ok s a r o I Ep). reflexivity.
Qed.

Lemma observe_ok no nr s a : inv s a -> observe no nr s = aobserve no nr a.
Proof.
  intro I. unfold observe, aobserve. apply map_ext. intro i. now apply observe_ref_ok.
Qed.

(* ---- the refinement theorem ----------------------------------------------------------------- *)
Lemma run_from_refines no nr : forall ops s a,
  inv s a -> run_from no nr s ops = map Some (spec_from no nr a ops).
Proof.
  induction ops as [|o ops IH]; intros s a I; cbn [run_from spec_from map]; [reflexivity|].
  destruct (step_ok s a o I) as [s' [E I']]. rewrite E. cbv zeta. cbn [map]. f_equal.
  - f_equal. now apply observe_ok.
  - now apply IH.
Qed.

Theorem run_refines_spec : forall (no nr : nat) (ops : list op),
  run no nr ops = map Some (spec_run no nr ops).
Proof.
  intros no nr ops. unfold run, spec_run. apply run_from_refines. exact inv_init.
Qed.

