(* C12/Proofs.v — the weak-reference model (C12/Model.v) refines the finite-map
   specification (C12/Spec.v): for every operation sequence the observations coincide and
   the destructor loop never runs out of fuel. *)
From Coq Require Import NArith List Bool Lia Permutation.
From Morfuse Require Import Base.Arr Base.ListX Base.Ring C12.Model C12.Spec C12.ProofsLib.
Import ListNotations.
Local Open Scope N_scope.

(* ---- the heap-level invariant: every object's SafePtrList is a ring ---------------------- *)
Definition lists (nx pv : arr N) (ol : arr (option N)) (L : N -> list N) : Prop :=
  forall o, match get ol o with
            | None => L o = []
            | Some h => ring nx pv h (L o)
            end.

Notation slists s L := (lists (rnx s) (rpv s) (olist s) L).

Definition owned (pt : arr (option N)) (L : N -> list N) : Prop :=
  forall x o, In x (L o) <-> get pt x = Some o.

Definition owned_but (pt : arr (option N)) (r : N) (L : N -> list N) : Prop :=
  forall x o, In x (L o) <-> get pt x = Some o /\ x <> r.

Definition disj (L : N -> list N) : Prop :=
  forall x o o', In x (L o) -> In x (L o') -> o = o'.

Definition same_slots (s s' : st) : Prop :=
  oslot s' = oslot s /\ rslot s' = rslot s /\
  next_obj s' = next_obj s /\ next_ref s' = next_ref s.

Lemma same_slots_refl s : same_slots s s.
Proof. repeat split. Qed.

Lemma lists_nodup nx pv ol L o : lists nx pv ol L -> NoDup (L o).
Proof.
  intro H. specialize (H o). destruct (get ol o).
  - eapply ring_nodup; eauto.
  - rewrite H. constructor.
Qed.

Lemma lists_head nx pv ol L o r :
  lists nx pv ol L -> In r (L o) -> exists h, get ol o = Some h /\ ring nx pv h (L o).
Proof.
  intros H Hin. specialize (H o). destruct (get ol o) as [h|]; [eauto|].
  rewrite H in Hin. destruct Hin.
Qed.

Lemma owned_disj pt L : owned pt L -> disj L.
Proof.
  intros H x o o' H1 H2. apply H in H1. apply H in H2. congruence.
Qed.

Lemma owned_but_disj pt r L : owned_but pt r L -> disj L.
Proof.
  intros H x o o' H1 H2. apply H in H1. apply H in H2.
  destruct H1 as [H1 _]. destruct H2 as [H2 _]. congruence.
Qed.

Lemma disj_ne L o o' i j : disj L -> o' <> o -> In i (L o') -> In j (L o) -> i <> j.
Proof. intros HD Hne Hi Hj E. subst. apply Hne. eapply HD; eauto. Qed.

(* re-linking the ring of one object leaves every other object's ring intact *)
Lemma lists_relink nx pv ol L nx' pv' ol' o l' :
  lists nx pv ol L ->
  (forall i o'', o'' <> o -> In i (L o'') -> get nx' i = get nx i /\ get pv' i = get pv i) ->
  (forall o'', o'' <> o -> get ol' o'' = get ol o'') ->
  match get ol' o with None => l' = [] | Some h => ring nx' pv' h l' end ->
  lists nx' pv' ol' (upd L o l').
Proof.
  intros HL Hag Hol Ho o''. destruct (N.eq_dec o'' o) as [->|Hne].
  - rewrite upd_same. exact Ho.
  - rewrite upd_other by exact Hne. rewrite (Hol _ Hne).
    specialize (HL o''). destruct (get ol o'') as [h|]; [|exact HL].
    eapply ring_agree; [| |exact HL]; intros i Hi; apply (Hag i o''); auto.
Qed.

(* ---- frames --------------------------------------------------------------------------- *)
Lemma remove_reference_frame s r o :
  rptr (remove_reference s r o) = rptr s /\ same_slots s (remove_reference s r o).
Proof.
  unfold remove_reference, same_slots.
  destruct (get (olist s) o) as [h|]; [destruct (N.eqb h r); [destruct (N.eqb _ r)|]|];
    cbn; repeat split.
Qed.

Lemma add_reference_frame s r o :
  rptr (add_reference s r o) = rptr s /\ same_slots s (add_reference s r o).
Proof.
  unfold add_reference, same_slots.
  destruct (get (olist s) o) as [h|]; cbn; repeat split.
Qed.

(* ---- RemoveReference -------------------------------------------------------------------- *)
Lemma remove_reference_lists s L r o :
  slists s L -> disj L -> In r (L o) ->
  exists l', slists (remove_reference s r o) (upd L o l') /\
             (forall x, In x l' <-> In x (L o) /\ x <> r).
Proof.
  intros HL HD Hr.
  destruct (lists_head _ _ _ _ _ _ HL Hr) as [h [Eh R]].
  unfold remove_reference. cbv zeta. rewrite Eh.
  assert (Hframe : forall i o'', o'' <> o -> In i (L o'') -> forall j, In j (L o) -> i <> j).
  { intros i o'' Hne Hi j Hj. eapply disj_ne; eauto. }
  destruct (N.eqb_spec h r) as [->|Hhr].
  - destruct (N.eqb_spec (get (rnx s) r) r) as [Hn|Hn].
    + assert (El : L o = [r]) by (eapply ring_single_iff; eauto).
      exists []. split.
      * cbn [rnx rpv olist].
        apply (lists_relink (rnx s) (rpv s) (olist s) L); auto.
        -- intros o'' Hne. apply gso. exact Hne.
        -- now rewrite gss.
      * intro x. rewrite El. cbn. split; [tauto|]. intros [[<-|[]] H]. congruence.
    + assert (Hm : In (get (rnx s) r) (L o)) by (eapply ring_closed; eauto).
      destruct (ring_unlink_any _ _ _ _ r (get (rnx s) r) R Hr Hm Hn)
        as (Hnl & Hpl & l' & R' & El').
      exists l'. split; [|exact El'].
      cbn [rnx rpv olist].
      apply (lists_relink (rnx s) (rpv s) (olist s) L); auto.
      * intros i o'' Hne Hi. pose proof (Hframe i o'' Hne Hi) as Hd.
        split; rewrite !gso by (apply Hd; assumption); reflexivity.
      * intros o'' Hne. apply gso. exact Hne.
      * rewrite gss. exact R'.
  - assert (Hm : In h (L o)) by (eapply ring_in_head; eauto).
    destruct (ring_unlink_any _ _ _ _ r h R Hr Hm Hhr) as (Hnl & Hpl & l' & R' & El').
    exists l'. split; [|exact El'].
    cbn [rnx rpv olist].
    apply (lists_relink (rnx s) (rpv s) (olist s) L); auto.
    * intros i o'' Hne Hi. pose proof (Hframe i o'' Hne Hi) as Hd.
      split; rewrite !gso by (apply Hd; assumption); reflexivity.
    * rewrite Eh. exact R'.
Qed.

(* ---- AddReference ----------------------------------------------------------------------- *)
Lemma add_reference_lists s L r o :
  slists s L -> disj L -> (forall o', ~ In r (L o')) ->
  slists (add_reference s r o) (upd L o (L o ++ [r])).
Proof.
  intros HL HD Hr. unfold add_reference. pose proof (HL o) as Ho.
  destruct (get (olist s) o) as [h|] eqn:Eh.
  - destruct (ring_insert_tail _ _ _ _ r Ho (Hr o)) as [Hp R'].
    assert (Hh : In h (L o)) by (eapply ring_in_head; eauto).
    cbv zeta. cbn [rnx rpv olist].
    apply (lists_relink (rnx s) (rpv s) (olist s) L); auto.
    + intros i o'' Hne Hi.
      assert (Hir : i <> r) by (intro; subst i; eapply Hr; eauto).
      assert (Hd : forall j, In j (L o) -> i <> j) by (intros j Hj; eapply disj_ne; eauto).
      split; rewrite !gso by (try exact Hir; apply Hd; assumption); reflexivity.
    + rewrite Eh. eapply ring_ext; [| |exact R'].
      * intro i. rewrite !get_set.
        destruct (N.eqb_spec i r) as [->|Hi];
          destruct (N.eqb_spec i (get (rpv s) h)) as [E|Hi']; try reflexivity.
        exfalso. apply (Hr o). rewrite E. exact Hp.
      * intro i. rewrite !get_set.
        destruct (N.eqb_spec i r) as [->|Hi];
          destruct (N.eqb_spec i h) as [E|Hi']; try reflexivity.
        exfalso. apply (Hr o). rewrite E. exact Hh.
  - rewrite Ho. cbn [app rnx rpv olist].
    apply (lists_relink (rnx s) (rpv s) (olist s) L); auto.
    + intros i o'' Hne Hi.
      assert (Hir : i <> r) by (intro; subst i; eapply Hr; eauto).
      split; rewrite gso by exact Hir; reflexivity.
    + intros o'' Hne. apply gso. exact Hne.
    + rewrite gss. apply ring_single.
Qed.
