(* C12/ProofsLib.v — generally useful lemmas for the weak-reference refinement proof:
   small list facts, extensionality / re-heading / unlinking of rings (on top of
   Base/Ring.v), function update, and the association lists of C12/Spec.v. *)
From Coq Require Import NArith List Bool Lia Permutation.
From Morfuse Require Import Base.Arr Base.ListX Base.Ring C12.Model C12.Spec.
Import ListNotations.
Local Open Scope N_scope.

(* ---- lists --------------------------------------------------------------------------- *)
Lemma nodup_lt_length (l : list N) (n : N) :
  NoDup l -> (forall x, In x l -> x < n) -> (length l <= N.to_nat n)%nat.
Proof.
  intros Hnd Hlt.
  rewrite <- (seq_length (N.to_nat n) 0), <- (map_length N.of_nat).
  apply NoDup_incl_length; [exact Hnd|].
  intros x Hx. apply in_map_iff. exists (N.to_nat x). split; [lia|].
  apply in_seq. specialize (Hlt x Hx). lia.
Qed.

Lemma nodup_strict_sub_length (l' l : list N) (r : N) :
  NoDup l' -> In r l -> (forall x, In x l' -> In x l /\ x <> r) ->
  (length l' < length l)%nat.
Proof.
  intros Hnd Hr Hsub.
  assert (H : (length (r :: l') <= length l)%nat).
  { apply NoDup_incl_length.
    - constructor; [|exact Hnd]. intro Hin. apply Hsub in Hin. tauto.
    - intros x [<-|Hx]; [exact Hr|]. apply Hsub in Hx. tauto. }
  cbn in H. lia.
Qed.

Lemma nodup_map_inj_on {A B} (f : A -> B) (l : list A) :
  (forall x y, In x l -> In y l -> f x = f y -> x = y) -> NoDup l -> NoDup (map f l).
Proof.
  induction l as [|a l IH]; cbn; intros Hinj Hnd; [constructor|].
  inversion Hnd as [|x l0 Hn Hd]; subst. constructor.
  - intro Hin. apply in_map_iff in Hin. destruct Hin as [y [E Hy]].
    assert (y = a) by (apply Hinj; auto). subst y. contradiction.
  - apply IH; [|exact Hd]. intros x y Hx Hy. apply Hinj; auto.
Qed.

Lemma same_members_length (l1 l2 : list N) :
  NoDup l1 -> NoDup l2 -> (forall x, In x l1 <-> In x l2) -> length l1 = length l2.
Proof.
  intros H1 H2 H. apply Permutation_length. now apply NoDup_Permutation.
Qed.

(* ---- function update ------------------------------------------------------------------ *)
Definition upd {A} (L : N -> A) (o : N) (v : A) : N -> A :=
  fun x => if N.eqb x o then v else L x.

Lemma upd_same {A} (L : N -> A) o v : upd L o v o = v.
Proof. unfold upd. now rewrite N.eqb_refl. Qed.

Lemma upd_other {A} (L : N -> A) o v x : x <> o -> upd L o v x = L x.
Proof. unfold upd. intro H. destruct (N.eqb_spec x o); [contradiction|reflexivity]. Qed.

(* ---- rings: extensionality, re-heading, unlinking an arbitrary node ------------------- *)
Lemma seg_ext f g l : forall x y,
  (forall i, get f i = get g i) -> seg f x l y -> seg g x l y.
Proof.
  induction l as [|a l IH]; cbn; intros x y E H; [exact H|].
  destruct H as [-> H]. split; [reflexivity|]. rewrite <- E. now apply IH.
Qed.

Lemma ring_ext nx pv nx' pv' h l :
  (forall i, get nx i = get nx' i) -> (forall i, get pv i = get pv' i) ->
  ring nx pv h l -> ring nx' pv' h l.
Proof.
  intros En Ep (Hnd & Ht & Hs & Hp). repeat split; auto.
  - eapply seg_ext; eauto.
  - intros x Hx. rewrite <- En, <- Ep. now apply Hp.
Qed.

Lemma ring_nodup nx pv h l : ring nx pv h l -> NoDup l.
Proof. now intros (H & _). Qed.

Lemma ring_nonempty nx pv h l : ring nx pv h l -> l <> [].
Proof. intros (_ & [t ->] & _). congruence. Qed.

Lemma ring_pv_nx nx pv h l x : ring nx pv h l -> In x l -> get pv (get nx x) = x.
Proof. intros (_ & _ & _ & Hp). apply Hp. Qed.

(* any member can be made the head *)
Lemma ring_rehead nx pv h l m :
  ring nx pv h l -> In m l ->
  exists l', ring nx pv m l' /\ (forall x, In x l' <-> In x l).
Proof.
  intros R Hm. apply in_split in Hm. destruct Hm as [l1 [l2 ->]].
  exists (m :: l2 ++ l1). split; [eapply ring_rot; exact R|].
  intro x. change (m :: l2 ++ l1) with ((m :: l2) ++ l1).
  rewrite !in_app_iff. tauto.
Qed.

(* unlink an arbitrary node [r]; [m] is any other member, which heads the remaining ring *)
Lemma ring_unlink_any nx pv h l r m :
  ring nx pv h l -> In r l -> In m l -> m <> r ->
  let n := get nx r in
  let p := get pv r in
  In n l /\ In p l /\
  exists l',
    ring (set (set nx p n) r r) (set (set pv n p) r r) m l' /\
    (forall x, In x l' <-> In x l /\ x <> r).
Proof.
  intros R Hr Hm Hmr. cbv zeta.
  destruct (ring_rehead _ _ _ _ r R Hr) as [l0 [R0 E0]].
  pose proof R0 as (Hnd0 & [t Et] & _). subst l0.
  assert (Hmt : In m t).
  { apply E0 in Hm. destruct Hm as [Hm|Hm]; [congruence|exact Hm]. }
  destruct t as [|n t]; [destruct Hmt|].
  destruct (ring_unlink_head _ _ _ _ _ R0) as (Hn & Hp & R1).
  rewrite Hn.
  split; [apply E0; right; now left|].
  split; [apply E0; right; exact Hp|].
  assert (Hrt : ~ In r (n :: t)) by (inversion Hnd0; assumption).
  assert (R2 : ring (set (set nx (get pv r) n) r r) (set (set pv n (get pv r)) r r) n (n :: t)).
  { apply ring_frame_nx; [|exact Hrt]. apply ring_frame_pv; [|exact Hrt]. exact R1. }
  destruct (ring_rehead _ _ _ _ m R2 Hmt) as [l' [R3 E3]].
  exists l'. split; [exact R3|].
  intro x. rewrite E3, <- E0. split.
  - intro Hx. split; [now right|]. intro; subst x. contradiction.
  - intros [[Hx|Hx] Hne]; [congruence|exact Hx].
Qed.

(* ---- boolean equality of optional identities ------------------------------------------ *)
Lemma opt_eqb_eq a c : opt_eqb a c = true <-> a = c.
Proof.
  destruct a as [x|], c as [y|]; cbn; try (split; congruence).
  rewrite N.eqb_eq. split; congruence.
Qed.

Lemma opt_eqb_spec a c : reflect (a = c) (opt_eqb a c).
Proof. apply iff_reflect. symmetry. apply opt_eqb_eq. Qed.

(* ---- association lists of the specification ------------------------------------------- *)
Section Assoc.
  Context {V : Type}.
  Implicit Types (l : list (N * V)) (k : N).

  Lemma alookup_none_iff k l : alookup k l = None <-> ~ In k (map fst l).
  Proof.
    induction l as [|[k' v] l IH]; cbn; [tauto|].
    destruct (N.eqb_spec k k') as [->|H].
    - split; [discriminate | intro Hn; exfalso; apply Hn; now left].
    - rewrite IH. split; [intros Hn [E|Hin]; [congruence|tauto] | tauto].
  Qed.

  Lemma alookup_in k v l : alookup k l = Some v -> In (k, v) l.
  Proof.
    induction l as [|[k' v'] l IH]; cbn; [discriminate|].
    destruct (N.eqb_spec k k') as [->|H].
    - intro E. injection E as ->. now left.
    - intro E. right. now apply IH.
  Qed.

  Lemma in_alookup k v l : NoDup (map fst l) -> In (k, v) l -> alookup k l = Some v.
  Proof.
    induction l as [|[k' v'] l IH]; cbn; intros Hnd Hin; [destruct Hin|].
    inversion Hnd as [|x l0 Hn Hd]; subst.
    destruct Hin as [E|Hin].
    - injection E as -> ->. now rewrite N.eqb_refl.
    - destruct (N.eqb_spec k k') as [->|H]; [|now apply IH].
      exfalso. apply Hn. apply in_map_iff. exists (k', v). auto.
  Qed.

  Lemma alookup_aremove k k' l :
    alookup k (aremove k' l) = if N.eqb k k' then None else alookup k l.
  Proof.
    induction l as [|[k0 v0] l IH]; cbn.
    - now destruct (N.eqb k k').
    - destruct (N.eqb_spec k' k0) as [->|H0].
      + rewrite IH. destruct (N.eqb_spec k k0); reflexivity.
      + cbn. rewrite IH. destruct (N.eqb_spec k k0) as [->|H1].
        * destruct (N.eqb_spec k0 k'); [congruence|reflexivity].
        * reflexivity.
  Qed.

  Lemma alookup_aset k k' v l :
    alookup k (aset k' v l) = if N.eqb k k' then Some v else alookup k l.
  Proof.
    unfold aset. cbn. rewrite alookup_aremove. now destruct (N.eqb k k').
  Qed.

  Lemma in_keys_aremove k k' l :
    In k (map fst (aremove k' l)) <-> In k (map fst l) /\ k <> k'.
  Proof.
    induction l as [|[k0 v0] l IH]; cbn; [tauto|].
    destruct (N.eqb_spec k' k0) as [->|H0].
    - rewrite IH. split; [tauto|]. intros [[E|H] Hne]; [congruence|tauto].
    - cbn. rewrite IH. split.
      + intros [E|[H Hne]]; [subst; split; [now left|congruence] | tauto].
      + intros [[E|H] Hne]; tauto.
  Qed.

  Lemma nodup_keys_aremove k l : NoDup (map fst l) -> NoDup (map fst (aremove k l)).
  Proof.
    induction l as [|[k0 v0] l IH]; cbn; intro Hnd; [constructor|].
    inversion Hnd as [|x l0 Hn Hd]; subst.
    destruct (N.eqb k k0); [now apply IH|].
    cbn. constructor; [|now apply IH].
    intro Hin. apply in_keys_aremove in Hin. tauto.
  Qed.

  Lemma nodup_keys_aset k v l : NoDup (map fst l) -> NoDup (map fst (aset k v l)).
  Proof.
    intro Hnd. unfold aset. cbn. constructor; [|now apply nodup_keys_aremove].
    intro Hin. apply in_keys_aremove in Hin. tauto.
  Qed.

  Lemma nodup_keys_filter (P : N * V -> bool) l :
    NoDup (map fst l) -> NoDup (map fst (filter P l)).
  Proof.
    induction l as [|p l IH]; cbn; intro Hnd; [constructor|].
    inversion Hnd as [|x l0 Hn Hd]; subst.
    destruct (P p); [|now apply IH].
    cbn. constructor; [|now apply IH].
    intro Hin. apply Hn. apply in_map_iff in Hin. destruct Hin as [q [E Hq]].
    apply filter_In in Hq. apply in_map_iff. exists q. tauto.
  Qed.
End Assoc.

Lemma alookup_map_snd {V W} (g : V -> W) k (l : list (N * V)) :
  alookup k (map (fun p => (fst p, g (snd p))) l) = option_map g (alookup k l).
Proof.
  induction l as [|[k' v] l IH]; cbn; [reflexivity|].
  destruct (N.eqb k k'); [reflexivity | exact IH].
Qed.

Lemma map_fst_map_snd {V W} (g : V -> W) (l : list (N * V)) :
  map fst (map (fun p => (fst p, g (snd p))) l) = map fst l.
Proof. rewrite map_map. cbn. reflexivity. Qed.

(* ---- a ring only depends on the cells of its own nodes ---------------------------------- *)
Lemma seg_agree f g l : forall x y,
  (forall i, In i l -> get g i = get f i) -> seg f x l y -> seg g x l y.
Proof.
  induction l as [|a l IH]; cbn; intros x y E H; [exact H|].
  destruct H as [-> H]. split; [reflexivity|].
  rewrite (E a) by now left. apply IH; [|exact H]. intros i Hi. apply E. now right.
Qed.

Lemma ring_agree nx pv nx' pv' h l :
  (forall i, In i l -> get nx' i = get nx i) ->
  (forall i, In i l -> get pv' i = get pv i) ->
  ring nx pv h l -> ring nx' pv' h l.
Proof.
  intros En Ep R. pose proof R as (Hnd & Ht & Hs & Hp). repeat split; auto.
  - eapply seg_agree; eauto.
  - intros x Hx. rewrite (En x Hx).
    rewrite Ep by (eapply ring_closed; eauto). now apply Hp.
Qed.
