(* C12/Model.v — executable model of SafePtrBase / AbstractClass::SafePtrList
   (src/Common/SafePtr.cpp, src/Common/AbstractClass.cpp) at the level of the code:
   every weak reference is a node {prev, next, ptr}; every object owns the head pointer
   SafePtrList of a circular doubly linked ring of the references that point to it.

   Identities: objects and references get fresh ids (never reused), the client names them by
   slot (3 object slots, 5 reference slots in the harness; the model does not bound them).
   [prev]/[next] of a reference constructed from a null pointer are NOT initialised by the
   C++ constructor: the model leaves whatever the arrays hold (reading them is outside the
   property: IsLastReference is only observed on references that point to an object). *)
From Coq Require Import NArith List Bool.
From Morfuse Require Import Base.Arr.
Import ListNotations.
Local Open Scope N_scope.

Record st := mkSt {
  rnx : arr N;                 (* SafePtrBase::next, by reference id *)
  rpv : arr N;                 (* SafePtrBase::prev *)
  rptr : arr (option N);       (* SafePtrBase::ptr : object id *)
  olist : arr (option N);      (* AbstractClass::SafePtrList, by object id *)
  oslot : arr (option N);      (* object slot -> live object id *)
  rslot : arr (option N);      (* reference slot -> live reference id *)
  next_obj : N;
  next_ref : N }.

Definition init : st :=
  mkSt (aempty 0) (aempty 0) (aempty None) (aempty None) (aempty None) (aempty None) 0 0.

(* SafePtrBase::AddReference (this = r, classPtr = o) *)
Definition add_reference (s : st) (r o : N) : st :=
  match get (olist s) o with
  | None =>
      mkSt (set (rnx s) r r) (set (rpv s) r r) (rptr s) (set (olist s) o (Some r))
           (oslot s) (rslot s) (next_obj s) (next_ref s)
  | Some h =>
      (* next = head; prev = head->prev; head->prev->next = this; head->prev = this *)
      let p := get (rpv s) h in
      let nx1 := set (rnx s) r h in
      let pv1 := set (rpv s) r p in
      let nx2 := set nx1 p r in
      let pv2 := set pv1 h r in
      mkSt nx2 pv2 (rptr s) (olist s) (oslot s) (rslot s) (next_obj s) (next_ref s)
  end.

(* SafePtrBase::RemoveReference *)
Definition remove_reference (s : st) (r o : N) : st :=
  let unlink (ol : arr (option N)) :=
    let n := get (rnx s) r in
    let p := get (rpv s) r in
    let nx1 := set (rnx s) p n in
    let pv1 := set (rpv s) n p in
    mkSt (set nx1 r r) (set pv1 r r) (rptr s) ol (oslot s) (rslot s) (next_obj s) (next_ref s) in
  match get (olist s) o with
  | Some h =>
      if N.eqb h r then
        if N.eqb (get (rnx s) h) r then
          mkSt (rnx s) (rpv s) (rptr s) (set (olist s) o None) (oslot s) (rslot s)
               (next_obj s) (next_ref s)
        else unlink (set (olist s) o (Some (get (rnx s) r)))
      else unlink (olist s)
  | None => unlink (olist s)       (* not reachable: a reference to o is in o's list *)
  end.

Definition set_ptr (s : st) (r : N) (v : option N) : st :=
  mkSt (rnx s) (rpv s) (set (rptr s) r v) (olist s) (oslot s) (rslot s) (next_obj s) (next_ref s).

(* SafePtrBase::Clear *)
Definition clear (s : st) (r : N) : st :=
  match get (rptr s) r with
  | Some o => set_ptr (remove_reference s r o) r None
  | None => s
  end.

Definition opt_eqb (a c : option N) : bool :=
  match a, c with
  | None, None => true
  | Some x, Some y => N.eqb x y
  | _, _ => false
  end.

(* SafePtrBase::InitSafePtr *)
Definition init_safe_ptr (s : st) (r : N) (newptr : option N) : st :=
  if opt_eqb (get (rptr s) r) newptr then s
  else
    let s1 := match get (rptr s) r with
              | Some o => remove_reference s r o
              | None => s
              end in
    let s2 := set_ptr s1 r newptr in
    match newptr with
    | None => s2
    | Some o => add_reference s2 r o
    end.

(* AbstractClass::~AbstractClass : while (SafePtrList) SafePtrList->Clear(); *)
Fixpoint destroy_loop (fuel : nat) (s : st) (o : N) : option st :=
  match get (olist s) o with
  | None => Some s
  | Some h =>
      match fuel with
      | O => None                      (* the loop did not terminate within the fuel *)
      | S f => destroy_loop f (clear s h) o
      end
  end.

(* ---- the client level ------------------------------------------------------------------ *)
Inductive src := SNull | SObj (os : N) | SRef (rs : N).

Inductive op :=
| ONewObj (os : N)
| ODelObj (os : N)
| ONewRef (rs : N) (from : src)      (* the three SafePtr constructors *)
| OAssign (rs : N) (from : src)      (* both assignment operators *)
| OClear (rs : N)
| ODelRef (rs : N).

(* the pointer value a source denotes: the object in the slot / the Pointer() of the ref *)
Definition src_ptr (s : st) (f : src) : option N :=
  match f with
  | SNull => None
  | SObj os => get (oslot s) os
  | SRef rs => match get (rslot s) rs with
               | Some r => get (rptr s) r
               | None => None
               end
  end.

Definition step (s : st) (o : op) : option st :=
  match o with
  | ONewObj os =>
      match get (oslot s) os with
      | Some _ => Some s
      | None =>
          Some (mkSt (rnx s) (rpv s) (rptr s) (set (olist s) (next_obj s) None)
                     (set (oslot s) os (Some (next_obj s))) (rslot s)
                     (next_obj s + 1) (next_ref s))
      end
  | ODelObj os =>
      match get (oslot s) os with
      | None => Some s
      | Some o =>
          match destroy_loop (S (N.to_nat (next_ref s))) s o with
          | Some s' =>
              Some (mkSt (rnx s') (rpv s') (rptr s') (olist s') (set (oslot s') os None)
                         (rslot s') (next_obj s') (next_ref s'))
          | None => None
          end
      end
  | ONewRef rs f =>
      match get (rslot s) rs with
      | Some _ => Some s
      | None =>
          let r := next_ref s in
          let p := src_ptr s f in
          let s1 := mkSt (rnx s) (rpv s) (set (rptr s) r p) (olist s) (oslot s)
                         (set (rslot s) rs (Some r)) (next_obj s) (r + 1) in
          Some (match p with Some o => add_reference s1 r o | None => s1 end)
      end
  | OAssign rs f =>
      match get (rslot s) rs with
      | None => Some s
      | Some r => Some (init_safe_ptr s r (src_ptr s f))
      end
  | OClear rs =>
      match get (rslot s) rs with
      | None => Some s
      | Some r => Some (clear s r)
      end
  | ODelRef rs =>
      match get (rslot s) rs with
      | None => Some s
      | Some r =>
          let s' := clear s r in
          Some (mkSt (rnx s') (rpv s') (rptr s') (olist s') (oslot s')
                     (set (rslot s') rs None) (next_obj s') (next_ref s'))
      end
  end.

(* ---- observation: for every reference slot 0..nr-1: dead | null | (object slot, IsLast) -- *)
Inductive robs := RDead | RNull | RTo (target : option N) (is_last : bool).
(* target = Some object-slot when the pointer is a live object's, None = dangling *)

Fixpoint find_oslot (s : st) (o : N) (n : nat) : option N :=
  match n with
  | O => None
  | S m => match get (oslot s) (N.of_nat m) with
           | Some o' => if N.eqb o o' then Some (N.of_nat m) else find_oslot s o m
           | None => find_oslot s o m
           end
  end.

Definition observe_ref (no : nat) (s : st) (rs : N) : robs :=
  match get (rslot s) rs with
  | None => RDead
  | Some r =>
      match get (rptr s) r with
      | None => RNull
      | Some o =>
          RTo (find_oslot s o no)
              (N.eqb (get (rnx s) r) r && N.eqb (get (rpv s) r) r)
      end
  end.

Definition observe (no nr : nat) (s : st) : list robs :=
  map (fun i => observe_ref no s (N.of_nat i)) (seq 0 nr).

(* run: None entries = the destructor loop of the model ran out of fuel *)
Fixpoint run_from (no nr : nat) (s : st) (ops : list op) : list (option (list robs)) :=
  match ops with
  | [] => []
  | o :: ops' =>
      match step s o with
      | Some s' => Some (observe no nr s') :: run_from no nr s' ops'
      | None => [None]
      end
  end.

Definition run (no nr : nat) (ops : list op) := run_from no nr init ops.
