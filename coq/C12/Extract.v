(* C12/Extract.v — extraction of the model and the specification (ExtrOcamlBasic only). *)
Require Extraction.
Require Import ExtrOcamlBasic.
From Morfuse Require Import C12.Model C12.Spec.
Extraction "C12_model.ml" run spec_run.
