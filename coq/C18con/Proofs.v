(* C18con/Proofs.v - the simulation between the model of con::Container and the list
   specification, the refinement theorem for every history that avoids the defective
   operations, the capacity invariant, and the refutations for the defective operations. *)
From Coq Require Import NArith ZArith List Bool Lia.
From Morfuse Require Import Base.Arr C18con.Model C18con.Spec C18con.ProofsLib
  C18con.ProofsCells C18con.ProofsOps.
Import ListNotations.
Local Open Scope N_scope.

(* ---- the simulation relation ------------------------------------------------------------- *)
Definition R (ns : N) (s : st) (a : abs) : Prop :=
  (forall i, cont_ok (get (slots s) i) (get a i))
  /\ live (cn s) = total ns a
  /\ bad (cn s) = 0.

Lemma sum_len_init : forall n i, sum_len abs_init (seqN i n) = 0%Z.
Proof.
  induction n as [|n IH]; intro i; [reflexivity|].
  cbn [seqN sum_len fold_right]. fold (sum_len abs_init (seqN (i + 1) n)). rewrite IH.
  unfold abs_init. rewrite get_empty. reflexivity.
Qed.

Lemma R_init ns : R ns init abs_init.
Proof.
  split; [|split].
  - intro i. unfold init, abs_init; cbn [slots]. rewrite !get_empty. apply cont_ok_empty.
  - rewrite total_eq. unfold slot_ids. rewrite sum_len_init. reflexivity.
  - reflexivity.
Qed.

Lemma R_put ns s a i c' k' l' :
  R ns s a -> i < ns -> cont_ok c' l' ->
  cnt_rel (cn s) k' (Z.of_N (len l') - Z.of_N (len (get a i))) ->
  R ns (mkSt (set (slots s) i c') k') (set a i l').
Proof.
  intros (Hs & Hl & Hb) Hi Hok [Hl' Hb']. split; [|split]; cbn [slots cn].
  - intro j. rewrite !get_set. destruct (N.eqb_spec j i); [exact Hok | apply Hs].
  - rewrite total_set by exact Hi. lia.
  - congruence.
Qed.

Lemma R_cnt ns s a k' : R ns s a -> k' = cn s -> R ns (mkSt (slots s) k') a.
Proof. intros H ->. destruct s. exact H. Qed.

Lemma set_same {A} (a : arr A) i j : get (set a i (get a i)) j = get a j.
Proof. rewrite get_set. destruct (N.eqb_spec j i) as [->|]; reflexivity. Qed.

(* replacing a slot by a container that represents the same list, counters unchanged *)
Lemma R_keep ns s a i c' k' :
  R ns s a -> cont_ok c' (get a i) -> cnt_rel (cn s) k' 0 ->
  R ns (mkSt (set (slots s) i c') k') a.
Proof.
  intros (Hs & Hl & Hb) Hok [Hl' Hb']. split; [|split]; cbn [slots cn].
  - intro j. rewrite get_set. destruct (N.eqb_spec j i) as [->|]; [exact Hok | apply Hs].
  - lia.
  - congruence.
Qed.

Lemma observe_eq ns s a r : R ns s a -> observe ns s r = aobserve ns a r.
Proof.
  intros (Hs & Hl & Hb). unfold observe, aobserve. rewrite Hl, Hb. f_equal.
  apply map_ext. intro i. apply contents_ok. apply Hs.
Qed.

Lemma slots_ok_1 ns o s : slots_ok ns o = true -> op_slots o = [s] -> s < ns.
Proof.
  unfold slots_ok. intros H E. rewrite E in H. cbn [forallb] in H. apply andb_true_iff in H.
  destruct H as [H _]. now apply N.ltb_lt.
Qed.

Lemma slots_ok_2 ns o s t : slots_ok ns o = true -> op_slots o = [s; t] -> s < ns /\ t < ns.
Proof.
  unfold slots_ok. intros H E. rewrite E in H. cbn [forallb] in H. apply andb_true_iff in H.
  destruct H as [H1 H]. apply andb_true_iff in H. destruct H as [H2 _].
  split; now apply N.ltb_lt.
Qed.

(* ---- one step ---------------------------------------------------------------------------------- *)
Ltac inv_step Hstep Hspec :=
  inversion Hstep; subst; clear Hstep; inversion Hspec; subst; clear Hspec.

Lemma step_sim ns s a o s' r a' r' :
  R ns s a -> negb (slots_ok ns o) || safe_op a o = true ->
  step ns s o = (s', r) -> spec_step ns a o = (a', r') ->
  R ns s' a' /\ r = r'.
Proof.
  intros HR Hsafe Hstep Hspec. pose proof HR as (Hs & Hl & Hb).
  unfold step in Hstep. unfold spec_step in Hspec.
  destruct (slots_ok ns o) eqn:Eok; cbn [negb] in *;
    [| inv_step Hstep Hspec; split; [exact HR | reflexivity]].
  cbn [orb] in Hsafe.
  destruct o as [i v|i|i v|i v|i x v|i x v|i x v|i x|i v|i off|i x|i v|i v|i n|i n|i n v|i|i|i|i
                 |i|i n|i j|i j|i j|i j];
    try (assert (Hi : i < ns) by (eapply slots_ok_1; [exact Eok | reflexivity]));
    try (assert (Hij : i < ns /\ j < ns) by (eapply slots_ok_2; [exact Eok | reflexivity]));
    pose proof (Hs i) as Hoki.
  - (* OAdd *)
    destruct (c_add (get (slots s) i) v (cn s)) as [[c' k'] x] eqn:E.
    destruct (c_add_ok _ _ _ _ _ _ _ Hoki E) as (Hok' & -> & Hc).
    cbn [put_r] in Hstep. inv_step Hstep Hspec. split.
    + apply R_put; try assumption. eapply cnt_rel_conv; [exact Hc|]. rewrite len_app, len_cons, len_nil. lia.
    + rewrite len_app, len_cons, len_nil. f_equal; lia.
  - (* OAddDef *)
    destruct (c_add_def (get (slots s) i) (cn s)) as [[c' k'] x] eqn:E.
    destruct (c_add_def_ok _ _ _ _ _ _ Hoki E) as (Hok' & -> & Hc).
    cbn [put_r] in Hstep. inv_step Hstep Hspec. split; [|reflexivity].
    apply R_put; try assumption. eapply cnt_rel_conv; [exact Hc|]. rewrite len_app, len_cons, len_nil. lia.
  - (* OAddNew *)
    destruct (c_add_new (get (slots s) i) v (cn s)) as [[c' k'] x] eqn:E.
    destruct (c_add_new_ok _ _ _ _ _ _ _ Hoki E) as (Hok' & -> & Hc).
    cbn [put_r] in Hstep. inv_step Hstep Hspec. split.
    + apply R_put; try assumption. eapply cnt_rel_conv; [exact Hc|]. rewrite len_app, len_cons, len_nil. lia.
    + rewrite len_app, len_cons, len_nil. f_equal; lia.
  - (* OAddUnique *)
    destruct (c_add_unique (get (slots s) i) v (cn s)) as [[c' k'] x] eqn:E.
    apply c_add_unique_ok with (l := get a i) in E; [|exact Hoki].
    cbn [put_r] in Hstep.
    destruct (index_of v (get a i) =? 0).
    + destruct E as (Hok' & -> & Hc). inv_step Hstep Hspec. split; [|reflexivity].
      apply R_put; try assumption. eapply cnt_rel_conv; [exact Hc|]. rewrite len_app, len_cons, len_nil. lia.
    + destruct E as (-> & -> & ->). inv_step Hstep Hspec. split; [|reflexivity].
      apply R_keep; [exact HR | exact Hoki | apply cnt_rel_refl].
  - (* OAddAt *)
    destruct (N.eqb_spec x 0) as [Hz|Hnz]; [inv_step Hstep Hspec; split; [exact HR | reflexivity]|].
    destruct (c_add_at (get (slots s) i) x v (cn s)) as [c' k'] eqn:E.
    apply c_add_at_ok with (l := get a i) in E; [|exact Hoki|exact Hnz].
    unfold put in Hstep; cbn [fst snd] in Hstep.
    destruct (N.leb_spec x (len (get a i))).
    + destruct E as [Hok' ->]. inv_step Hstep Hspec. split; [|reflexivity].
      apply R_put; try assumption. eapply cnt_rel_conv; [apply cnt_rel_refl|].
      unfold len. rewrite update_nth_length by (unfold len in *; lia). lia.
    + destruct E as [Hok' Hc]. inv_step Hstep Hspec. split; [|reflexivity].
      apply R_put; try assumption. eapply cnt_rel_conv; [exact Hc|].
      unfold len. rewrite update_nth_length by (rewrite set_len_length; lia).
      rewrite set_len_length. lia.
  - (* OInsertAt *)
    destruct (c_insert (get (slots s) i) x v (cn s)) as [c' k'] eqn:E.
    apply c_insert_ok with (l := get a i) in E; [|exact Hoki].
    unfold put in Hstep; cbn [fst snd] in Hstep.
    destruct ((x =? 0) || (len (get a i) + 1 <? x)) eqn:Eb.
    + destruct E as [-> ->]. inv_step Hstep Hspec. split; [|reflexivity].
      apply R_keep; [exact HR | exact Hoki | apply cnt_rel_refl].
    + apply orb_false_iff in Eb. destruct Eb as [Eb1 Eb2].
      apply N.eqb_neq in Eb1. apply N.ltb_ge in Eb2.
      destruct E as [Hok' Hc]. inv_step Hstep Hspec. split; [|reflexivity].
      apply R_put; try assumption. eapply cnt_rel_conv; [exact Hc|].
      unfold len. rewrite insert_nth_length by (unfold len in *; lia). lia.
  - (* OSetAt *)
    destruct Hoki as (Hn & _). rewrite Hn in Hstep.
    destruct ((x =? 0) || (len (get a i) <? x)) eqn:Eb;
      [inv_step Hstep Hspec; split; [exact HR | reflexivity]|].
    apply orb_false_iff in Eb. destruct Eb as [Eb1 Eb2].
    apply N.eqb_neq in Eb1. apply N.ltb_ge in Eb2.
    destruct (c_set_at (get (slots s) i) x v (cn s)) as [c' k'] eqn:E.
    apply c_set_at_ok with (l := get a i) in E; [|apply Hs|lia].
    destruct E as [Hok' ->]. unfold put in Hstep; cbn [fst snd] in Hstep.
    inv_step Hstep Hspec. split; [|reflexivity].
    apply R_put; try assumption. eapply cnt_rel_conv; [apply cnt_rel_refl|].
    unfold len. rewrite update_nth_length by (unfold len in *; lia). lia.
  - (* ORemoveAt *)
    destruct (c_remove_at (get (slots s) i) x (cn s)) as [[c' k'] e] eqn:E.
    apply c_remove_at_ok with (l := get a i) in E; [|exact Hoki].
    cbn [put_e] in Hstep.
    destruct ((x =? 0) || (len (get a i) <? x)) eqn:Eb.
    + destruct E as (-> & -> & ->). inv_step Hstep Hspec. split; [|reflexivity].
      apply R_keep; [exact HR | exact Hoki | apply cnt_rel_refl].
    + apply orb_false_iff in Eb. destruct Eb as [Eb1 Eb2].
      apply N.eqb_neq in Eb1. apply N.ltb_ge in Eb2.
      destruct E as (Hok' & Hc & ->). inv_step Hstep Hspec. split; [|reflexivity].
      apply R_put; try assumption. eapply cnt_rel_conv; [exact Hc|].
      unfold len. rewrite remove_nth_length by (unfold len in *; lia). unfold len in *. lia.
  - (* ORemove *)
    destruct (c_remove (get (slots s) i) v (cn s)) as [[c' k'] e] eqn:E.
    apply c_remove_ok with (l := get a i) in E; [|exact Hoki].
    cbn [put_e] in Hstep. destruct E as [-> E].
    destruct (N.eqb_spec (index_of v (get a i)) 0) as [Hz|Hnz].
    + destruct E as (-> & ->). inv_step Hstep Hspec. split; [|reflexivity].
      apply R_keep; [exact HR | exact Hoki | apply cnt_rel_refl].
    + destruct E as (Hok' & Hc). inv_step Hstep Hspec. split; [|reflexivity].
      destruct (index_of_range v (get a i)) as [|Hr]; [contradiction|].
      apply R_put; try assumption. eapply cnt_rel_conv; [exact Hc|].
      unfold len. rewrite remove_nth_length by (unfold len in *; lia). unfold len in *. lia.
  - (* ORemovePtr *)
    pose proof Hoki as (Hn & _). rewrite Hn in Hstep.
    destruct (N.ltb_spec (len (get a i)) off);
      [inv_step Hstep Hspec; split; [exact HR | reflexivity]|].
    destruct (c_remove_ptr (get (slots s) i) off (cn s)) as [[c' k'] e] eqn:E.
    apply c_remove_ptr_ok with (l := get a i) in E; [|exact Hoki].
    cbn [put_e] in Hstep. destruct E as [-> E].
    destruct (N.leb_spec (len (get a i)) off).
    + destruct E as (-> & ->). inv_step Hstep Hspec. split; [|reflexivity].
      apply R_keep; [exact HR | exact Hoki | apply cnt_rel_refl].
    + destruct E as (Hok' & Hc). inv_step Hstep Hspec. split; [|reflexivity].
      apply R_put; try assumption. eapply cnt_rel_conv; [exact Hc|].
      unfold len. rewrite remove_nth_length by (unfold len in *; lia). unfold len in *. lia.
  - (* OObjectAt *)
    pose proof Hoki as (Hn & _ & _ & Hr). rewrite Hn in Hstep.
    destruct ((x =? 0) || (len (get a i) <? x)) eqn:Eb;
      [inv_step Hstep Hspec; split; [exact HR | reflexivity]|].
    apply orb_false_iff in Eb. destruct Eb as [Eb1 Eb2].
    apply N.eqb_neq in Eb1. apply N.ltb_ge in Eb2.
    inv_step Hstep Hspec. split; [exact HR|]. rewrite Hr by lia. reflexivity.
  - (* OIndexOf *)
    rewrite (c_index_of_ok _ _ _ _ Hoki) in Hstep. inv_step Hstep Hspec.
    split; [|reflexivity]. apply R_cnt; [exact HR | reflexivity].
  - (* OInList *)
    rewrite (c_index_of_ok _ _ _ _ Hoki) in Hstep. inv_step Hstep Hspec.
    split; [|reflexivity]. apply R_cnt; [exact HR | reflexivity].
  - (* OResize *)
    cbn [safe_op] in Hsafe. unfold put in Hstep; cbn [fst snd] in Hstep.
    destruct (c_resize (get (slots s) i) n (cn s)) as [c' k'] eqn:E.
    cbn [fst snd] in Hstep. inv_step Hstep Hspec. split; [|reflexivity].
    destruct (N.eqb_spec n 0) as [->|Hnz].
    + cbn [negb orb] in Hsafe. apply N.eqb_eq in Hsafe.
      rewrite c_resize_zero in E. destruct (c_free_ok _ _ _ _ _ Hoki E) as [-> Hc].
      apply R_keep; [exact HR | | eapply cnt_rel_conv; [exact Hc | lia]].
      rewrite (len0_nil _ Hsafe). apply cont_ok_empty.
    + destruct (c_resize_ok _ _ _ _ _ _ Hoki Hnz E) as (Hok' & _ & Hc).
      apply R_keep; assumption.
  - (* OSetNum *)
    destruct (c_set_num (get (slots s) i) n (cn s)) as [c' k'] eqn:E.
    destruct (c_set_num_ok _ _ _ _ _ _ Hoki E) as [Hok' Hc].
    unfold put in Hstep; cbn [fst snd] in Hstep. inv_step Hstep Hspec. split; [|reflexivity].
    apply R_put; try assumption. eapply cnt_rel_conv; [exact Hc|].
    unfold len. rewrite set_len_length. lia.
  - (* OSetNumU *)
    destruct (c_set_num_u (get (slots s) i) n v (cn s)) as [c' k'] eqn:E.
    destruct (c_set_num_u_ok _ _ _ _ _ _ _ Hoki E) as [Hok' Hc].
    unfold put in Hstep; cbn [fst snd] in Hstep. inv_step Hstep Hspec. split; [|reflexivity].
    apply R_put; try assumption. eapply cnt_rel_conv; [exact Hc|].
    unfold len. rewrite set_len_length. lia.
  - (* OShrink *)
    destruct (c_shrink (get (slots s) i) (cn s)) as [c' k'] eqn:E.
    destruct (c_shrink_ok _ _ _ _ _ Hoki E) as [Hok' Hc].
    unfold put in Hstep; cbn [fst snd] in Hstep. inv_step Hstep Hspec. split; [|reflexivity].
    apply R_keep; assumption.
  - (* OClear *)
    destruct (c_clear (get (slots s) i) (cn s)) as [c' k'] eqn:E.
    destruct (c_clear_ok _ _ _ _ _ Hoki E) as [Hok' Hc].
    unfold put in Hstep; cbn [fst snd] in Hstep. inv_step Hstep Hspec. split; [|reflexivity].
    apply R_put; try assumption; try (eapply cnt_rel_conv; [exact Hc|]; rewrite len_nil; lia).
  - (* OFree *)
    destruct (c_free (get (slots s) i) (cn s)) as [c' k'] eqn:E.
    destruct (c_free_ok _ _ _ _ _ Hoki E) as [-> Hc].
    unfold put in Hstep; cbn [fst snd] in Hstep. inv_step Hstep Hspec. split; [|reflexivity].
    apply R_put; try assumption; try apply cont_ok_empty;
      try (eapply cnt_rel_conv; [exact Hc|]; rewrite len_nil; lia).
  - (* OSort *)
    destruct (c_sort (get (slots s) i) (cn s)) as [c' k'] eqn:E.
    destruct (c_sort_ok _ _ _ _ _ Hoki E) as [Hok' ->].
    unfold put in Hstep; cbn [fst snd] in Hstep. inv_step Hstep Hspec. split; [|reflexivity].
    apply R_put; try assumption. eapply cnt_rel_conv; [apply cnt_rel_refl|].
    unfold len. rewrite zsort_length. lia.
  - (* OCtor *)
    destruct (c_free (get (slots s) i) (cn s)) as [c' k'] eqn:E.
    destruct (c_free_ok _ _ _ _ _ Hoki E) as [-> Hc].
    unfold put in Hstep; cbn [fst snd] in Hstep. inv_step Hstep Hspec. split; [|reflexivity].
    apply R_put; try assumption; try apply cont_ok_empty;
      try (eapply cnt_rel_conv; [exact Hc|]; rewrite len_nil; lia).
  - (* OCtorN *)
    destruct (c_free (get (slots s) i) (cn s)) as [c0 k1] eqn:E.
    destruct (c_free_ok _ _ _ _ _ Hoki E) as [-> Hc].
    destruct (c_resize cempty n k1) as [c' k'] eqn:E2.
    unfold put in Hstep; cbn [fst snd] in Hstep. inv_step Hstep Hspec. split; [|reflexivity].
    destruct (N.eqb_spec n 0) as [->|Hnz].
    + rewrite c_resize_zero in E2. destruct (c_free_ok _ _ _ _ _ cont_ok_empty E2) as [-> Hc2].
      apply R_put; try assumption; [apply cont_ok_empty|].
      eapply cnt_rel_trans; [exact Hc | exact Hc2 | rewrite len_nil; lia].
    + destruct (c_resize_ok _ _ _ _ _ _ cont_ok_empty Hnz E2) as (Hok' & _ & Hc2).
      apply R_put; try assumption.
      eapply cnt_rel_trans; [exact Hc | exact Hc2 | rewrite len_nil; lia].
  - (* OCopyCtor *)
    destruct Hij as [Hi Hj].
    destruct (N.eqb_spec i j) as [->|Hne]; [inv_step Hstep Hspec; split; [exact HR | reflexivity]|].
    destruct (c_free (get (slots s) i) (cn s)) as [c0 k1] eqn:E.
    destruct (c_free_ok _ _ _ _ _ Hoki E) as [-> Hc].
    destruct (c_copy cempty (get (slots s) j) k1) as [c' k'] eqn:E2.
    destruct (c_copy_ok _ _ _ _ _ _ _ cont_ok_empty (Hs j) E2) as (Hok' & _ & Hc2).
    unfold put in Hstep; cbn [fst snd] in Hstep. inv_step Hstep Hspec. split; [|reflexivity].
    apply R_put; try assumption.
    eapply cnt_rel_trans; [exact Hc | exact Hc2 | rewrite len_nil; lia].
  - (* OMoveCtor *)
    destruct Hij as [Hi Hj].
    destruct (N.eqb_spec i j) as [->|Hne]; [inv_step Hstep Hspec; split; [exact HR | reflexivity]|].
    destruct (c_free (get (slots s) i) (cn s)) as [c0 k1] eqn:E.
    destruct (c_free_ok _ _ _ _ _ Hoki E) as [-> Hc].
    inv_step Hstep Hspec. split; [|reflexivity].
    assert (Hd : forall c : cont, mkC (objlist c) (num c) (maxo c) = c) by (intros []; reflexivity).
    rewrite Hd. destruct Hc as [Hc1 Hc2].
    split; [|split]; cbn [slots cn].
    + intro x. rewrite !get_set. destruct (N.eqb_spec x j); [apply cont_ok_empty|].
      destruct (N.eqb_spec x i); [apply Hs | apply Hs].
    + rewrite !total_set by assumption. rewrite gso by congruence. rewrite len_nil. lia.
    + congruence.
  - (* OCopyAssign *)
    destruct Hij as [Hi Hj].
    destruct (N.eqb_spec i j) as [->|Hne].
    + inv_step Hstep Hspec. split; [|reflexivity].
      split; [|split]; try assumption.
      * intro x. rewrite get_set. destruct (N.eqb_spec x j) as [->|]; apply Hs.
      * rewrite total_set by assumption. lia.
    + destruct (c_copy (get (slots s) i) (get (slots s) j) (cn s)) as [c' k'] eqn:E2.
      destruct (c_copy_ok _ _ _ _ _ _ _ Hoki (Hs j) E2) as (Hok' & _ & Hc2).
      unfold put in Hstep; cbn [fst snd] in Hstep. inv_step Hstep Hspec. split; [|reflexivity].
      apply R_put; assumption.
  - (* OMoveAssign *)
    destruct Hij as [Hi Hj].
    destruct (c_free (get (slots s) i) (cn s)) as [c0 k1] eqn:E.
    destruct (c_free_ok _ _ _ _ _ Hoki E) as [-> Hc].
    inv_step Hstep Hspec. split; [|reflexivity].
    assert (Hd : forall c : cont, mkC (objlist c) (num c) (maxo c) = c) by (intros []; reflexivity).
    rewrite Hd. destruct Hc as [Hc1 Hc2].
    split; [|split]; cbn [slots cn].
    + intro x. rewrite !get_set. destruct (N.eqb_spec x j); [apply cont_ok_empty|].
      destruct (N.eqb_spec x i) as [->|]; [|apply Hs].
      destruct (N.eqb_spec j i); [congruence | apply Hs].
    + rewrite !total_set by assumption. rewrite get_set. rewrite len_nil.
      destruct (N.eqb_spec j i) as [->|]; lia.
    + congruence.
Qed.

(* ---- all histories -------------------------------------------------------------------------------- *)
Lemma run_from_sim ns : forall ops s a,
  R ns s a -> safe_from ns a ops = true ->
  map fst (run_from ns s ops) = spec_from ns a ops.
Proof.
  induction ops as [|o ops IH]; intros s a HR Hsafe; [reflexivity|].
  cbn [run_from spec_from safe_from] in *.
  apply andb_true_iff in Hsafe. destruct Hsafe as [Hs1 Hs2].
  destruct (step ns s o) as [s' r] eqn:E1. destruct (spec_step ns a o) as [a' r'] eqn:E2.
  destruct (step_sim _ _ _ _ _ _ _ _ HR Hs1 E1 E2) as [HR' ->].
  cbn [map fst]. cbn [fst] in Hs2.
  f_equal; [apply observe_eq; exact HR' | apply IH; assumption].
Qed.

Theorem run_refines_spec ns ops :
  safe_hist ns ops = true -> run ns ops = spec_run ns ops.
Proof.
  intro H. unfold run, run_full, spec_run. apply run_from_sim; [apply R_init | exact H].
Qed.

(* ---- MaxObjects() >= NumObjects() for every container after every operation ------------------------ *)
Definition caps_ok (p : obs * list N) : Prop :=
  Forall2 (fun l c => len l <= c) (o_slots (fst p)) (snd p).

Lemma Forall2_map_ids {A B} (P : A -> B -> Prop) (f : N -> A) (g : N -> B) (ids : list N) :
  (forall i, P (f i) (g i)) -> Forall2 P (map f ids) (map g ids).
Proof. intro H. induction ids; cbn [map]; constructor; auto. Qed.

Lemma caps_from_sim ns : forall ops s a,
  R ns s a -> safe_from ns a ops = true -> Forall caps_ok (run_from ns s ops).
Proof.
  induction ops as [|o ops IH]; intros s a HR Hsafe; [constructor|].
  cbn [run_from safe_from] in *.
  apply andb_true_iff in Hsafe. destruct Hsafe as [Hs1 Hs2].
  destruct (step ns s o) as [s' r] eqn:E1. destruct (spec_step ns a o) as [a' r'] eqn:E2.
  destruct (step_sim _ _ _ _ _ _ _ _ HR Hs1 E1 E2) as [HR' ->].
  cbn [fst] in Hs2. constructor; [|eapply IH; eassumption].
  unfold caps_ok, observe, caps; cbn [fst snd o_slots].
  apply Forall2_map_ids. intro i. destruct HR' as (Hs & _).
  rewrite (contents_ok _ _ (Hs i)). destruct (Hs i) as (Hn & Hm & _). lia.
Qed.

Theorem capacity_covers_contents ns ops :
  safe_hist ns ops = true -> Forall caps_ok (run_full ns ops).
Proof. intro H. unfold run_full. eapply caps_from_sim; [apply R_init | exact H]. Qed.

(* ---- the defective operation ------------------------------------------------------------------------ *)
(* Resize(0) destroys the contents *)
Lemma resize_zero_refuted :
  exists ops, run 1 ops <> spec_run 1 ops.
Proof. exists [OAdd 0 1%Z; OResize 0 0]. vm_compute. intro H. discriminate H. Qed.

(* ---- histories without a Resize(0) call are safe ------------------------------------------ *)
Definition plain_op (o : op) : bool :=
  match o with
  | OResize _ n => negb (n =? 0)
  | _ => true
  end.

Lemma plain_safe ns : forall ops a, forallb plain_op ops = true -> safe_from ns a ops = true.
Proof.
  induction ops as [|o ops IH]; intros a H; [reflexivity|].
  cbn [forallb safe_from] in *. apply andb_true_iff in H. destruct H as [H1 H2].
  apply andb_true_iff. split; [|apply IH; exact H2].
  apply orb_true_iff. right. destruct o; try reflexivity.
  cbn [plain_op] in H1. cbn [safe_op]. rewrite H1. reflexivity.
Qed.

Theorem run_refines_spec_plain ns ops :
  forallb plain_op ops = true -> run ns ops = spec_run ns ops.
Proof. intro H. apply run_refines_spec. apply plain_safe. exact H. Qed.
