(* C18con/Extract.v - extraction of the model and the specification (ExtrOcamlBasic only). *)
Require Extraction.
Require Import ExtrOcamlBasic.
From Morfuse Require Import C18con.Model C18con.Spec.
Extraction "C18con_model.ml" run run_full spec_run safe_hist.
