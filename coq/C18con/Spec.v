(* C18con/Spec.v - the abstract specification of con::Container: every container variable
   (slot) is a plain list of values; positions are 1-based.  The number of live elements is
   the total length of the lists, and no element operation ever touches storage that does
   not hold a live element ([o_bad] = 0).  Capacity (MaxObjects) is not part of the
   specification. *)
From Coq Require Import NArith ZArith List Bool.
From Morfuse Require Import Base.Arr C18con.Model.
Import ListNotations.
Local Open Scope N_scope.

Definition len (l : list Z) : N := N.of_nat (length l).

(* 1-based position of the first occurrence of v counted from i + 1, 0 = absent *)
Fixpoint index_from (i : N) (v : Z) (l : list Z) : N :=
  match l with
  | [] => 0
  | x :: l' => if Z.eqb x v then i + 1 else index_from (i + 1) v l'
  end.

Definition index_of (v : Z) (l : list Z) : N := index_from 0 v l.

Definition remove_nth (n : nat) (l : list Z) : list Z := firstn n l ++ skipn (S n) l.

Definition update_nth (n : nat) (v : Z) (l : list Z) : list Z :=
  firstn n l ++ v :: skipn (S n) l.

Definition insert_nth (n : nat) (v : Z) (l : list Z) : list Z :=
  firstn n l ++ v :: skipn n l.

(* cut to n elements or pad with v up to n elements *)
Definition set_len (n : nat) (v : Z) (l : list Z) : list Z :=
  firstn n l ++ repeat v (n - length l).

Fixpoint zinsert (x : Z) (l : list Z) : list Z :=
  match l with
  | [] => [x]
  | y :: l' => if Z.leb x y then x :: l else y :: zinsert x l'
  end.

Fixpoint zsort (l : list Z) : list Z :=
  match l with [] => [] | x :: l' => zinsert x (zsort l') end.

Definition abs := arr (list Z).

Definition abs_init : abs := aempty [].

Definition spec_step (ns : N) (a : abs) (o : op) : abs * ret :=
  if negb (slots_ok ns o) then (a, RPre)
  else
    match o with
    | OAdd s v => let l := get a s ++ [v] in (set a s l, RVal (Z.of_N (len l)))
    | OAddDef s => let l := get a s in (set a s (l ++ [defv]), RVal (Z.of_N (len l)))
    | OAddNew s v => let l := get a s ++ [v] in (set a s l, RVal (Z.of_N (len l)))
    | OAddUnique s v =>
        let l := get a s in
        if index_of v l =? 0 then (set a s (l ++ [v]), RVal (Z.of_N (len l + 1)))
        else (a, RVal (Z.of_N (index_of v l)))
    | OAddAt s i v =>
        let l := get a s in
        if i =? 0 then (a, RPre)
        else if i <=? len l then (set a s (update_nth (N.to_nat (i - 1)) v l), RNone)
        else (set a s (update_nth (N.to_nat (i - 1)) v (set_len (N.to_nat i) defv l)), RNone)
    | OInsertAt s i v =>
        let l := get a s in
        if (i =? 0) || (len l + 1 <? i) then (a, RNone)
        else (set a s (insert_nth (N.to_nat (i - 1)) v l), RNone)
    | OSetAt s i v =>
        let l := get a s in
        if (i =? 0) || (len l <? i) then (a, RPre)
        else (set a s (update_nth (N.to_nat (i - 1)) v l), RNone)
    | ORemoveAt s i =>
        let l := get a s in
        if (i =? 0) || (len l <? i) then (a, RErr i)
        else (set a s (remove_nth (N.to_nat (i - 1)) l), RNone)
    | ORemove s v =>
        let l := get a s in
        if index_of v l =? 0 then (a, RNone)
        else (set a s (remove_nth (N.to_nat (index_of v l - 1)) l), RNone)
    | ORemovePtr s off =>
        let l := get a s in
        if len l <? off then (a, RPre)
        else if len l <=? off then (a, RNone)
        else (set a s (remove_nth (N.to_nat off) l), RNone)
    | OObjectAt s i =>
        let l := get a s in
        if (i =? 0) || (len l <? i) then (a, RPre)
        else (a, RVal (nth (N.to_nat (i - 1)) l 0%Z))
    | OIndexOf s v => (a, RVal (Z.of_N (index_of v (get a s))))
    | OInList s v => (a, RVal (if index_of v (get a s) =? 0 then 0%Z else 1%Z))
    | OResize s n => (a, RNone)
    | OSetNum s n => (set a s (set_len (N.to_nat n) defv (get a s)), RNone)
    | OSetNumU s n v => (set a s (set_len (N.to_nat n) v (get a s)), RNone)
    | OShrink s => (a, RNone)
    | OClear s => (set a s [], RNone)
    | OFree s => (set a s [], RNone)
    | OSort s => (set a s (zsort (get a s)), RNone)
    | OCtor s => (set a s [], RNone)
    | OCtorN s n => (set a s [], RNone)
    | OCopyCtor s t => if s =? t then (a, RPre) else (set a s (get a t), RNone)
    | OMoveCtor s t => if s =? t then (a, RPre) else (set (set a s (get a t)) t [], RNone)
    | OCopyAssign s t => (set a s (get a t), RNone)
    | OMoveAssign s t => (set (set a s (get a t)) t [], RNone)
    end.

Definition total (ns : N) (a : abs) : Z :=
  fold_right (fun i acc => (Z.of_N (len (get a i)) + acc)%Z) 0%Z (slot_ids ns).

Definition aobserve (ns : N) (a : abs) (r : ret) : obs :=
  mkObs r (map (fun i => get a i) (slot_ids ns)) (total ns a) 0.

Fixpoint spec_from (ns : N) (a : abs) (ops : list op) : list obs :=
  match ops with
  | [] => []
  | o :: ops' =>
      let '(a', r) := spec_step ns a o in aobserve ns a' r :: spec_from ns a' ops'
  end.

Definition spec_run (ns : N) (ops : list op) : list obs := spec_from ns abs_init ops.

(* ---- the operations whose implementation is known to be defective (see Properties.v):
   Resize(0) of a non-empty container (it frees the list).
   [safe_hist] is stated on the specification state only. *)
Definition safe_op (a : abs) (o : op) : bool :=
  match o with
  | OResize s n => negb (n =? 0) || (len (get a s) =? 0)
  | _ => true
  end.

Fixpoint safe_from (ns : N) (a : abs) (ops : list op) : bool :=
  match ops with
  | [] => true
  | o :: ops' => (negb (slots_ok ns o) || safe_op a o) && safe_from ns (fst (spec_step ns a o)) ops'
  end.

Definition safe_hist (ns : N) (ops : list op) : bool := safe_from ns abs_init ops.
