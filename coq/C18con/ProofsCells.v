(* C18con/ProofsCells.v - what the element primitives and the loops of the model do to a
   block whose relevant cells hold live elements. *)
From Coq Require Import NArith ZArith List Bool Lia.
From Morfuse Require Import Base.Arr C18con.Model C18con.Spec C18con.ProofsLib.
Import ListNotations.
Local Open Scope N_scope.

(* counters: live changed by d, no lifetime error *)
Definition cnt_rel (k k' : cnt) (d : Z) : Prop :=
  live k' = (live k + d)%Z /\ bad k' = bad k.

Lemma cnt_rel_refl k : cnt_rel k k 0.
Proof. split; [lia | reflexivity]. Qed.

Lemma cnt_rel_trans k1 k2 k3 d1 d2 d :
  cnt_rel k1 k2 d1 -> cnt_rel k2 k3 d2 -> d = (d1 + d2)%Z -> cnt_rel k1 k3 d.
Proof. intros [H1 H2] [H3 H4] ->. split; [lia | congruence]. Qed.

(* the block holds the list l in its first cells *)
Definition rep (a : blk) (l : list Z) : Prop :=
  forall j, j < len l -> get a j = CLive (nth (N.to_nat j) l 0%Z).

Lemma rep_nil a : rep a [].
Proof. intros j H. rewrite len_nil in H. lia. Qed.


(* case analysis of the "inside the range" tests of the loop lemmas *)
Ltac range_solve :=
  repeat match goal with
  | |- context [N.leb ?x ?y] => destruct (N.leb_spec x y)
  | |- context [N.ltb ?x ?y] => destruct (N.ltb_spec x y)
  end; cbn [andb];
  first [ reflexivity
        | rewrite !gso by lia; reflexivity
        | match goal with |- get (set _ ?i _) ?j = _ => replace j with i by lia; apply gss end
        | lia ].

(* ---- primitives ------------------------------------------------------------------------- *)
Lemma rd_live a i v k : get a i = CLive v -> rd a i k = (v, k).
Proof. intro H. unfold rd. now rewrite H. Qed.

Lemma take_live a i v k : get a i = CLive v -> take a i k = (v, set a i (CLive movedv), k).
Proof. intro H. unfold take. now rewrite H. Qed.

Lemma destroy_live a i v k : get a i = CLive v -> destroy a i k = (set a i CDead, dec_live k).
Proof. intro H. unfold destroy. now rewrite H. Qed.

Lemma assign_live a i v w k : get a i = CLive w -> assign a i v k = (set a i (CLive v), k).
Proof. intro H. unfold assign. now rewrite H. Qed.

(* ---- construct a range ------------------------------------------------------------------ *)
Lemma construct_range v : forall n i a k a' k',
  iter_up (construct_step v) n i (a, k) = (a', k') ->
  (forall j, get a' j = if (i <=? j) && (j <? i + N.of_nat n) then CLive v else get a j)
  /\ cnt_rel k k' (Z.of_nat n).
Proof.
  induction n as [|n IH]; intros i a k a' k' H; cbn [iter_up] in H.
  - inversion H; subst. split; [|apply cnt_rel_refl].
    intro j. range_solve.
  - cbn [construct_step] in H. unfold construct in H. apply IH in H. destruct H as [Hg [Hl Hb]].
    split.
    + intro j. rewrite Hg. range_solve.
    + split; cbn [inc_live live bad] in *; [lia | exact Hb].
Qed.

(* ---- destroy a range of live cells ------------------------------------------------------- *)
Lemma destroy_range : forall n i a k a' k',
  (forall j, i <= j < i + N.of_nat n -> exists v, get a j = CLive v) ->
  iter_up destroy_step n i (a, k) = (a', k') ->
  (forall j, get a' j = if (i <=? j) && (j <? i + N.of_nat n) then CDead else get a j)
  /\ cnt_rel k k' (- Z.of_nat n).
Proof.
  induction n as [|n IH]; intros i a k a' k' Hl H; cbn [iter_up] in H.
  - inversion H; subst. split; [|apply cnt_rel_refl].
    intro j. range_solve.
  - cbn [destroy_step] in H. destruct (Hl i) as [v Hv]; [lia|].
    rewrite (destroy_live _ _ _ _ Hv) in H. apply IH in H.
    + destruct H as [Hg [Hli Hb]]. split.
      * intro j. rewrite Hg. range_solve.
      * split; cbn [dec_live live bad] in *; [lia | exact Hb].
    + intros j Hj. rewrite gso by lia. apply Hl. lia.
Qed.

(* ---- move a range into another block, destructing the source ------------------------------ *)
Lemma move_destroy_range (g : N -> Z) : forall n i src dst k src' dst' k',
  (forall j, i <= j < i + N.of_nat n -> get src j = CLive (g j)) ->
  iter_up move_destroy_step n i (src, dst, k) = (src', dst', k') ->
  (forall j, get dst' j = if (i <=? j) && (j <? i + N.of_nat n) then CLive (g j) else get dst j)
  /\ cnt_rel k k' 0.
Proof.
  induction n as [|n IH]; intros i src dst k src' dst' k' Hl H; cbn [iter_up] in H.
  - inversion H; subst. split; [|apply cnt_rel_refl].
    intro j. range_solve.
  - cbn [move_destroy_step] in H.
    rewrite (take_live _ _ _ _ (Hl i ltac:(lia))) in H.
    unfold construct in H.
    rewrite (destroy_live _ _ movedv) in H by apply gss.
    apply IH in H.
    + destruct H as [Hg [Hli Hb]]. split.
      * intro j. rewrite Hg. range_solve.
      * split; cbn [dec_live inc_live live bad] in *; [lia | exact Hb].
    + intros j Hj. rewrite !gso by lia. apply Hl. lia.
Qed.

(* the loop touches the source block only at the indices it visits *)
Lemma take_frame a i k x a' k' j : take a i k = (x, a', k') -> j <> i -> get a' j = get a j.
Proof.
  unfold take. destruct (get a i); intros H Hj; inversion H; subst; try reflexivity.
  now rewrite gso.
Qed.

Lemma destroy_frame a i k a' k' j : destroy a i k = (a', k') -> j <> i -> get a' j = get a j.
Proof.
  unfold destroy. destruct (get a i); intros H Hj; inversion H; subst; now rewrite gso.
Qed.

Lemma move_destroy_src_frame : forall n i src dst k src' dst' k',
  iter_up move_destroy_step n i (src, dst, k) = (src', dst', k') ->
  forall j, i + N.of_nat n <= j -> get src' j = get src j.
Proof.
  induction n as [|n IH]; intros i src dst k src' dst' k' H j Hj; cbn [iter_up] in H.
  - inversion H; subst. reflexivity.
  - cbn [move_destroy_step] in H.
    destruct (take src i k) as [[x src1] k1] eqn:E1.
    destruct (construct dst i x k1) as [dst1 k2] eqn:E2.
    destruct (destroy src1 i k2) as [src2 k3] eqn:E3.
    apply IH with (j := j) in H; [|lia]. rewrite H.
    rewrite (destroy_frame _ _ _ _ _ _ E3) by lia.
    apply (take_frame _ _ _ _ _ _ _ E1). lia.
Qed.

(* the same with the destination shifted by off (InsertObjectAt's second loop) *)
Lemma move_destroy_off_range (g : N -> Z) (off : N) : forall n i src dst k src' dst' k',
  (forall j, i <= j < i + N.of_nat n -> get src j = CLive (g j)) ->
  iter_up (move_destroy_off_step off) n i (src, dst, k) = (src', dst', k') ->
  (forall j, get dst' j = if (i + off <=? j) && (j <? i + off + N.of_nat n) then CLive (g (j - off)) else get dst j)
  /\ cnt_rel k k' 0.
Proof.
  induction n as [|n IH]; intros i src dst k src' dst' k' Hl H; cbn [iter_up] in H.
  - inversion H; subst. split; [|apply cnt_rel_refl].
    intro j. range_solve.
  - cbn [move_destroy_off_step] in H.
    rewrite (take_live _ _ _ _ (Hl i ltac:(lia))) in H.
    unfold construct in H.
    rewrite (destroy_live _ _ movedv) in H by apply gss.
    apply IH in H.
    + destruct H as [Hg [Hli Hb]]. split.
      * intro j. rewrite Hg.
        destruct (N.eq_dec j (i + off)) as [->|Hne].
        -- rewrite gss. replace (i + off - off) with i by lia. range_solve.
        -- rewrite gso by exact Hne. range_solve.
      * split; cbn [dec_live inc_live live bad] in *; [lia | exact Hb].
    + intros j Hj. rewrite !gso by lia. apply Hl. lia.
Qed.

(* ---- copy-construct a range from another block --------------------------------------------- *)
Lemma copy_range (g : N -> Z) (src : blk) : forall n i a k a' k',
  (forall j, i <= j < i + N.of_nat n -> get src j = CLive (g j)) ->
  iter_up (copy_ctor_step src) n i (a, k) = (a', k') ->
  (forall j, get a' j = if (i <=? j) && (j <? i + N.of_nat n) then CLive (g j) else get a j)
  /\ cnt_rel k k' (Z.of_nat n).
Proof.
  induction n as [|n IH]; intros i a k a' k' Hl H; cbn [iter_up] in H.
  - inversion H; subst. split; [|apply cnt_rel_refl].
    intro j. range_solve.
  - cbn [copy_ctor_step] in H.
    rewrite (rd_live _ _ _ _ (Hl i ltac:(lia))) in H. unfold construct in H.
    apply IH in H.
    + destruct H as [Hg [Hli Hb]]. split.
      * intro j. rewrite Hg. range_solve.
      * split; cbn [inc_live live bad] in *; [lia | exact Hb].
    + intros j Hj. apply Hl. lia.
Qed.

(* ---- RemoveObjectAt's loop: cells i+1..i+n move one down ------------------------------------ *)
Lemma shift_down_range (g : N -> Z) : forall n i a k x a' k',
  get a i = CLive x ->
  (forall j, i < j <= i + N.of_nat n -> get a j = CLive (g j)) ->
  iter_up shift_down_step n i (a, k) = (a', k') ->
  (forall j, i <= j < i + N.of_nat n -> get a' j = CLive (g (j + 1)))
  /\ (exists y, get a' (i + N.of_nat n) = CLive y)
  /\ (forall j, ~ (i <= j <= i + N.of_nat n) -> get a' j = get a j)
  /\ cnt_rel k k' 0.
Proof.
  induction n as [|n IH]; intros i a k x a' k' Hx Hl H; cbn [iter_up] in H.
  - inversion H; subst. repeat split.
    + intros j Hj. lia.
    + exists x. replace (i + N.of_nat 0) with i by lia. exact Hx.
    + lia.
  - cbn [shift_down_step] in H. unfold move_within in H.
    rewrite (take_live _ _ _ _ (Hl (i + 1) ltac:(lia))) in H.
    rewrite (assign_live _ _ _ x) in H by (rewrite gso by lia; exact Hx).
    apply IH with (x := movedv) in H.
    + destruct H as [Hg [[y Hy] [Ho Hc]]]. repeat split.
      * intros j Hj. destruct (N.eq_dec j i) as [->|Hne].
        -- rewrite Ho by lia. apply gss.
        -- apply Hg. lia.
      * exists y. replace (i + N.of_nat (S n)) with (i + 1 + N.of_nat n) by lia. exact Hy.
      * intros j Hj. rewrite Ho by lia. rewrite !gso by lia. reflexivity.
      * apply Hc.
      * apply Hc.
    + rewrite gso by lia. apply gss.
    + intros j Hj. rewrite !gso by lia. apply Hl. lia.
Qed.

(* ---- InsertObjectAt's loop: cells i-n .. i-1 move one up, from the top ------------------------ *)
Lemma shift_up_range (g : N -> Z) : forall n i a k x a' k',
  N.of_nat n <= i ->
  get a i = CLive x ->
  (forall j, i - N.of_nat n <= j < i -> get a j = CLive (g j)) ->
  iter_down shift_up_step n i (a, k) = (a', k') ->
  (forall j, i - N.of_nat n < j <= i -> get a' j = CLive (g (j - 1)))
  /\ (exists y, get a' (i - N.of_nat n) = CLive y)
  /\ (forall j, ~ (i - N.of_nat n <= j <= i) -> get a' j = get a j)
  /\ cnt_rel k k' 0.
Proof.
  induction n as [|n IH]; intros i a k x a' k' Hn Hx Hl H; cbn [iter_down] in H.
  - inversion H; subst. repeat split.
    + intros j Hj. lia.
    + exists x. replace (i - N.of_nat 0) with i by lia. exact Hx.
    + lia.
  - cbn [shift_up_step] in H. unfold move_within in H.
    rewrite (take_live _ _ _ _ (Hl (i - 1) ltac:(lia))) in H.
    rewrite (assign_live _ _ _ x) in H by (rewrite gso by lia; exact Hx).
    apply IH with (x := movedv) in H.
    + destruct H as [Hg [[y Hy] [Ho Hc]]]. repeat split.
      * intros j Hj. destruct (N.eq_dec j i) as [->|Hne].
        -- rewrite Ho by lia. apply gss.
        -- apply Hg. lia.
      * exists y. replace (i - N.of_nat (S n)) with (i - 1 - N.of_nat n) by lia. exact Hy.
      * intros j Hj. rewrite Ho by lia. rewrite !gso by lia. reflexivity.
      * apply Hc.
      * apply Hc.
    + lia.
    + rewrite gso by lia. apply gss.
    + intros j Hj. rewrite !gso by lia. apply Hl. lia.
Qed.

(* ---- IndexOfObject's loop -------------------------------------------------------------------- *)
Lemma find_loop_spec v a k : forall l i,
  (forall j, j < len l -> get a (i + j) = CLive (nth (N.to_nat j) l 0%Z)) ->
  find_loop (length l) i a v k = (index_from i v l, k).
Proof.
  induction l as [|x l IH]; intros i H; [reflexivity|].
  cbn [length find_loop index_from].
  assert (Hx : get a i = CLive x).
  { specialize (H 0). rewrite len_cons in H. rewrite N.add_0_r in H. apply H. lia. }
  rewrite (rd_live _ _ _ _ Hx). destruct (Z.eqb x v); [reflexivity|].
  apply IH. intros j Hj. specialize (H (j + 1)). rewrite len_cons in H.
  replace (i + (j + 1)) with (i + 1 + j) in H by lia. rewrite H by lia.
  replace (N.to_nat (j + 1)) with (S (N.to_nat j)) by lia. reflexivity.
Qed.

(* ---- reading a block back ---------------------------------------------------------------------- *)
Lemma read_back a : forall l i,
  (forall j, j < len l -> get a (i + j) = CLive (nth (N.to_nat j) l 0%Z)) ->
  map (fun j => peek (get a j)) (seqN i (length l)) = l.
Proof.
  induction l as [|x l IH]; intros i H; [reflexivity|].
  cbn [length seqN map]. f_equal.
  - specialize (H 0). rewrite len_cons, N.add_0_r in H. rewrite H by lia. reflexivity.
  - apply IH. intros j Hj. specialize (H (j + 1)). rewrite len_cons in H.
    replace (i + (j + 1)) with (i + 1 + j) in H by lia. rewrite H by lia.
    replace (N.to_nat (j + 1)) with (S (N.to_nat j)) by lia. reflexivity.
Qed.

Lemma cells_back a : forall l i,
  (forall j, j < len l -> get a (i + j) = CLive (nth (N.to_nat j) l 0%Z)) ->
  map (get a) (seqN i (length l)) = map CLive l.
Proof.
  induction l as [|x l IH]; intros i H; [reflexivity|].
  cbn [length seqN map]. f_equal.
  - specialize (H 0). rewrite len_cons, N.add_0_r in H. rewrite H by lia. reflexivity.
  - apply IH. intros j Hj. specialize (H (j + 1)). rewrite len_cons in H.
    replace (i + (j + 1)) with (i + 1 + j) in H by lia. rewrite H by lia.
    replace (N.to_nat (j + 1)) with (S (N.to_nat j)) by lia. reflexivity.
Qed.

Lemma write_list_get : forall l a i j,
  get (write_list a i (map CLive l)) j =
  if (i <=? j) && (j <? i + len l) then CLive (nth (N.to_nat (j - i)) l 0%Z) else get a j.
Proof.
  induction l as [|x l IH]; intros a i j; cbn [map write_list].
  - rewrite len_nil. destruct (N.leb_spec i j); destruct (N.ltb_spec j (i + 0)); cbn [andb];
      try reflexivity; lia.
  - rewrite IH. rewrite len_cons.
    destruct (N.eq_dec j i) as [->|Hne].
    + rewrite gss. replace (N.to_nat (i - i)) with 0%nat by lia. range_solve.
    + rewrite gso by exact Hne.
      destruct (N.leb_spec (i + 1) j); destruct (N.ltb_spec j (i + 1 + len l));
        destruct (N.leb_spec i j); destruct (N.ltb_spec j (i + (len l + 1))); cbn [andb];
        try reflexivity; try lia.
      replace (N.to_nat (j - i)) with (S (N.to_nat (j - (i + 1)))) by lia. reflexivity.
Qed.
