(* C18con/ProofsLib.v - list facts used by the refinement proof (lengths and nth of the
   specification's list functions, sorting, the element total). *)
From Coq Require Import NArith ZArith List Bool Lia.
From Morfuse Require Import Base.Arr C18con.Model C18con.Spec.
Import ListNotations.
Local Open Scope N_scope.

Lemma len_app l1 l2 : len (l1 ++ l2) = len l1 + len l2.
Proof. unfold len. rewrite app_length. lia. Qed.

Lemma len_nil : len [] = 0.
Proof. reflexivity. Qed.

Lemma len_cons x l : len (x :: l) = len l + 1.
Proof. unfold len. cbn [length]. lia. Qed.

(* ---- nth ------------------------------------------------------------------------------ *)
Lemma nth_firstn_lt {A} (l : list A) : forall n j d, (j < n)%nat -> nth j (firstn n l) d = nth j l d.
Proof.
  induction l as [|x l IH]; intros n j d H.
  - rewrite firstn_nil. reflexivity.
  - destruct n as [|n]; [lia|]. cbn [firstn]. destruct j as [|j]; [reflexivity|].
    cbn [nth]. apply IH. lia.
Qed.

Lemma nth_skipn_add {A} (l : list A) : forall n j d, nth j (skipn n l) d = nth (n + j) l d.
Proof.
  induction l as [|x l IH]; intros n j d.
  - rewrite skipn_nil. destruct j, n; reflexivity.
  - destruct n as [|n]; [reflexivity|]. cbn [skipn plus nth]. apply IH.
Qed.

Lemma nth_repeat_lt {A} (v d : A) : forall m j, (j < m)%nat -> nth j (repeat v m) d = v.
Proof.
  induction m as [|m IH]; intros j H; [lia|].
  cbn [repeat]. destruct j as [|j]; [reflexivity|]. cbn [nth]. apply IH. lia.
Qed.

Lemma firstn_length_le {A} (l : list A) n : (n <= length l)%nat -> length (firstn n l) = n.
Proof. intro H. rewrite firstn_length. lia. Qed.

(* update_nth *)
Lemma update_nth_length n v l : (n < length l)%nat -> length (update_nth n v l) = length l.
Proof.
  intro H. unfold update_nth. rewrite app_length, firstn_length. cbn [length].
  rewrite skipn_length. lia.
Qed.

Lemma nth_update_nth n v l j d :
  (n < length l)%nat ->
  nth j (update_nth n v l) d = if Nat.eqb j n then v else nth j l d.
Proof.
  intro H. unfold update_nth.
  destruct (Nat.eqb_spec j n) as [->|Hne].
  - rewrite app_nth2; rewrite firstn_length_le by lia; [|lia].
    replace (n - n)%nat with 0%nat by lia. reflexivity.
  - destruct (Nat.lt_ge_cases j n) as [Hlt|Hge].
    + rewrite app_nth1 by (rewrite firstn_length_le; lia). apply nth_firstn_lt. exact Hlt.
    + rewrite app_nth2; rewrite firstn_length_le by lia; [|lia].
      destruct (j - n)%nat as [|m] eqn:E; [lia|]. cbn [nth].
      rewrite nth_skipn_add. f_equal. lia.
Qed.

(* remove_nth *)
Lemma remove_nth_length n l : (n < length l)%nat -> length (remove_nth n l) = (length l - 1)%nat.
Proof.
  intro H. unfold remove_nth. rewrite app_length, firstn_length, skipn_length. lia.
Qed.

Lemma nth_remove_nth n l j d :
  (n < length l)%nat ->
  nth j (remove_nth n l) d = if Nat.ltb j n then nth j l d else nth (S j) l d.
Proof.
  intro H. unfold remove_nth.
  destruct (Nat.ltb_spec j n) as [Hlt|Hge].
  - rewrite app_nth1 by (rewrite firstn_length_le; lia). apply nth_firstn_lt. exact Hlt.
  - rewrite app_nth2; rewrite firstn_length_le by lia; [|lia].
    rewrite nth_skipn_add. f_equal. lia.
Qed.

(* insert_nth *)
Lemma insert_nth_length n v l : (n <= length l)%nat -> length (insert_nth n v l) = S (length l).
Proof.
  intro H. unfold insert_nth. rewrite app_length, firstn_length. cbn [length].
  rewrite skipn_length. lia.
Qed.

Lemma nth_insert_nth n v l j d :
  (n <= length l)%nat ->
  nth j (insert_nth n v l) d =
  if Nat.ltb j n then nth j l d else if Nat.eqb j n then v else nth (j - 1) l d.
Proof.
  intro H. unfold insert_nth.
  destruct (Nat.ltb_spec j n) as [Hlt|Hge].
  - rewrite app_nth1 by (rewrite firstn_length_le; lia). apply nth_firstn_lt. exact Hlt.
  - rewrite app_nth2; rewrite firstn_length_le by lia; [|lia].
    destruct (Nat.eqb_spec j n) as [->|Hne].
    + replace (n - n)%nat with 0%nat by lia. reflexivity.
    + destruct (j - n)%nat as [|m] eqn:E; [lia|]. cbn [nth].
      rewrite nth_skipn_add. f_equal. lia.
Qed.

(* set_len *)
Lemma set_len_length n v l : length (set_len n v l) = n.
Proof. unfold set_len. rewrite app_length, firstn_length, repeat_length. lia. Qed.

Lemma nth_set_len n v l j d :
  (j < n)%nat ->
  nth j (set_len n v l) d = if Nat.ltb j (length l) then nth j l d else v.
Proof.
  intro H. unfold set_len.
  destruct (Nat.ltb_spec j (length l)) as [Hlt|Hge].
  - rewrite app_nth1 by (rewrite firstn_length; lia). apply nth_firstn_lt. exact H.
  - rewrite app_nth2; rewrite firstn_length; [|lia]. apply nth_repeat_lt. lia.
Qed.

Lemma nth_app_last l (v d : Z) j :
  nth j (l ++ [v]) d = if Nat.ltb j (length l) then nth j l d
                       else if Nat.eqb j (length l) then v else d.
Proof.
  destruct (Nat.ltb_spec j (length l)) as [Hlt|Hge].
  - apply app_nth1. exact Hlt.
  - rewrite app_nth2 by lia. destruct (Nat.eqb_spec j (length l)) as [->|Hne].
    + replace (length l - length l)%nat with 0%nat by lia. reflexivity.
    + destruct (j - length l)%nat as [|m] eqn:E; [lia|]. cbn [nth]. destruct m; reflexivity.
Qed.

(* ---- index_from ------------------------------------------------------------------------ *)
Lemma index_from_range v : forall l i,
  index_from i v l = 0 \/ (i < index_from i v l <= i + len l).
Proof.
  induction l as [|x l IH]; intro i; cbn [index_from]; [left; reflexivity|].
  rewrite len_cons. destruct (Z.eqb x v).
  - right. lia.
  - destruct (IH (i + 1)) as [H|H]; [left; exact H | right; lia].
Qed.

Lemma index_from_nth v : forall l i,
  index_from i v l <> 0 ->
  nth (N.to_nat (index_from i v l - 1 - i)) l 0%Z = v.
Proof.
  induction l as [|x l IH]; intros i H; cbn [index_from] in *; [congruence|].
  destruct (Z.eqb_spec x v) as [->|Hne].
  - replace (i + 1 - 1 - i) with 0 by lia. reflexivity.
  - specialize (IH (i + 1) H).
    destruct (index_from_range v l (i + 1)) as [H0|Hr]; [congruence|].
    replace (N.to_nat (index_from (i + 1) v l - 1 - i))
      with (S (N.to_nat (index_from (i + 1) v l - 1 - (i + 1)))) by lia.
    exact IH.
Qed.

(* ---- sorting ---------------------------------------------------------------------------- *)
Lemma cinsert_map x l : cinsert (CLive x) (map CLive l) = map CLive (zinsert x l).
Proof.
  induction l as [|y l IH]; [reflexivity|].
  cbn [map cinsert zinsert peek]. destruct (Z.leb x y); [reflexivity|].
  cbn [map]. now rewrite IH.
Qed.

Lemma csort_map l : csort (map CLive l) = map CLive (zsort l).
Proof.
  induction l as [|x l IH]; [reflexivity|].
  cbn [map csort zsort]. rewrite IH. apply cinsert_map.
Qed.

Lemma zinsert_length x l : length (zinsert x l) = S (length l).
Proof.
  induction l as [|y l IH]; [reflexivity|].
  cbn [zinsert]. destruct (Z.leb x y); cbn [length]; [reflexivity | now rewrite IH].
Qed.

Lemma zsort_length l : length (zsort l) = length l.
Proof.
  induction l as [|x l IH]; [reflexivity|].
  cbn [zsort]. rewrite zinsert_length. cbn [length]. now rewrite IH.
Qed.

(* ---- seqN ------------------------------------------------------------------------------- *)
Lemma seqN_length n : forall i, length (seqN i n) = n.
Proof. induction n as [|n IH]; intro i; cbn [seqN length]; [reflexivity | now rewrite IH]. Qed.

Lemma in_seqN n : forall i j, In j (seqN i n) <-> i <= j < i + N.of_nat n.
Proof.
  induction n as [|n IH]; intros i j; cbn [seqN In].
  - split; [tauto | lia].
  - rewrite IH. split; [intros [->|H]; lia | intro H].
    destruct (N.eq_dec i j) as [->|Hne]; [now left | right; lia].
Qed.

(* ---- the element total ------------------------------------------------------------------- *)
Definition sum_len (a : abs) (ids : list N) : Z :=
  fold_right (fun i acc => (Z.of_N (len (get a i)) + acc)%Z) 0%Z ids.

Lemma total_eq ns a : total ns a = sum_len a (slot_ids ns).
Proof. reflexivity. Qed.

Lemma sum_len_set_out a s l' : forall n i,
  ~ (i <= s < i + N.of_nat n) ->
  sum_len (set a s l') (seqN i n) = sum_len a (seqN i n).
Proof.
  induction n as [|n IH]; intros i H; cbn [seqN sum_len fold_right]; [reflexivity|].
  fold (sum_len (set a s l') (seqN (i + 1) n)). fold (sum_len a (seqN (i + 1) n)).
  rewrite IH by lia. rewrite gso by lia. reflexivity.
Qed.

Lemma sum_len_set_in a s l' : forall n i,
  i <= s < i + N.of_nat n ->
  sum_len (set a s l') (seqN i n)
  = (sum_len a (seqN i n) - Z.of_N (len (get a s)) + Z.of_N (len l'))%Z.
Proof.
  induction n as [|n IH]; intros i H; [lia|].
  cbn [seqN sum_len fold_right].
  fold (sum_len (set a s l') (seqN (i + 1) n)). fold (sum_len a (seqN (i + 1) n)).
  destruct (N.eq_dec i s) as [->|Hne].
  - rewrite gss. rewrite sum_len_set_out by lia. lia.
  - rewrite gso by congruence. rewrite IH by lia. lia.
Qed.

Lemma total_set ns a s l' :
  s < ns ->
  total ns (set a s l') = (total ns a - Z.of_N (len (get a s)) + Z.of_N (len l'))%Z.
Proof.
  intro H. rewrite !total_eq. unfold slot_ids. apply sum_len_set_in. lia.
Qed.
