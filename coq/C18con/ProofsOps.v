(* C18con/ProofsOps.v - every container operation of the model, run on a container that
   represents the list l, leaves a container that represents the list the specification
   computes, changes the live counter by the change of length and raises no lifetime error. *)
From Coq Require Import NArith ZArith List Bool Lia.
From Morfuse Require Import Base.Arr C18con.Model C18con.Spec C18con.ProofsLib C18con.ProofsCells.
Import ListNotations.
Local Open Scope N_scope.

(* the representation invariant of one container *)
Definition cont_ok (c : cont) (l : list Z) : Prop :=
  num c = len l /\ num c <= maxo c /\ (objlist c = None <-> maxo c = 0) /\ rep (blk_of c) l.

Ltac in_range :=
  repeat match goal with
  | |- context [N.leb ?x ?y] => destruct (N.leb_spec x y)
  | |- context [N.ltb ?x ?y] => destruct (N.ltb_spec x y)
  end; cbn [andb].

Lemma cnt_rel_conv k k' d d' : cnt_rel k k' d -> d = d' -> cnt_rel k k' d'.
Proof. intros H <-. exact H. Qed.

Lemma cont_ok_empty : cont_ok cempty [].
Proof.
  unfold cont_ok, cempty; cbn. repeat split; try lia; try reflexivity. apply rep_nil.
Qed.

Lemma blk_of_some c a : objlist c = Some a -> blk_of c = a.
Proof. intro H. unfold blk_of. now rewrite H. Qed.

Lemma cont_ok_num0 c l : cont_ok c l -> num c = 0 -> cont_ok c [].
Proof.
  intros (Hn & Hm & Ho & Hr) H0. split; [rewrite len_nil; exact H0|].
  split; [exact Hm|]. split; [exact Ho | apply rep_nil].
Qed.

Lemma blk_of_mk c n m : blk_of (mkC (objlist c) n m) = blk_of c.
Proof. reflexivity. Qed.

Lemma cont_ok_some c l :
  cont_ok c l -> 0 < maxo c -> exists a, objlist c = Some a /\ rep a l.
Proof.
  intros (Hn & Hm & Ho & Hr) H. destruct (objlist c) as [a|] eqn:E.
  - exists a. split; [reflexivity|]. unfold blk_of in Hr. now rewrite E in Hr.
  - assert (maxo c = 0) by (apply Ho; reflexivity). lia.
Qed.

Lemma cont_ok_none c l : cont_ok c l -> objlist c = None -> len l = 0 /\ num c = 0 /\ maxo c = 0.
Proof.
  intros (Hn & Hm & Ho & Hr) H. assert (maxo c = 0) by (apply Ho; exact H). lia.
Qed.

Lemma len0_nil l : len l = 0 -> l = [].
Proof. destruct l; [reflexivity|]. rewrite len_cons. lia. Qed.

Lemma mk_ok a n m l : rep a l -> n = len l -> n <= m -> 0 < m -> cont_ok (mkC (Some a) n m) l.
Proof.
  intros Hr Hn Hm H0. unfold cont_ok; cbn [num maxo objlist blk_of].
  repeat split; try assumption; try congruence; try lia.
Qed.

Lemma to_nat_num c l : cont_ok c l -> N.to_nat (num c) = length l.
Proof. intros (Hn & _). rewrite Hn. unfold len. lia. Qed.

Lemma contents_ok c l : cont_ok c l -> contents c = l.
Proof.
  intro H. unfold contents. rewrite (to_nat_num _ _ H).
  apply read_back. intros j Hj. rewrite N.add_0_l. destruct H as (_ & _ & _ & Hr). apply Hr. exact Hj.
Qed.

(* ---- FreeObjectList ------------------------------------------------------------------------ *)
Lemma c_free_ok c l k c' k' :
  cont_ok c l -> c_free c k = (c', k') -> c' = cempty /\ cnt_rel k k' (- Z.of_N (len l)).
Proof.
  intros Hok H. pose proof Hok as (Hn & Hm & Ho & Hr). unfold c_free in H.
  destruct (objlist c) as [a|] eqn:E.
  - destruct (iter_up destroy_step (N.to_nat (num c)) 0 (a, k)) as [a1 k1] eqn:L.
    inversion H; subst. split; [reflexivity|].
    apply destroy_range in L.
    + destruct L as [_ Hc]. eapply cnt_rel_conv; [exact Hc | lia].
    + intros j Hj. eexists. rewrite (blk_of_some _ _ E) in Hr. apply Hr. lia.
  - inversion H; subst. split; [reflexivity|].
    destruct (cont_ok_none _ _ Hok E) as (H0 & _). eapply cnt_rel_conv; [apply cnt_rel_refl | lia].
Qed.

(* ---- Resize ---------------------------------------------------------------------------------- *)
Lemma c_resize_ok c l n k c' k' :
  cont_ok c l -> n <> 0 -> c_resize c n k = (c', k') ->
  cont_ok c' l /\ maxo c' = N.max n (num c) /\ cnt_rel k k' 0.
Proof.
  intros Hok Hn0 H. pose proof Hok as (Hn & Hm & Ho & Hr). unfold c_resize in H.
  destruct (N.eqb_spec n 0) as [|_]; [contradiction|].
  destruct (objlist c) as [temp|] eqn:E.
  - destruct (iter_up move_destroy_step (N.to_nat (num c)) 0 (temp, fresh, k)) as [[src dst] k1] eqn:L.
    inversion H; subst; clear H.
    apply (move_destroy_range (fun j => nth (N.to_nat j) l 0%Z)) in L.
    + destruct L as [Hg Hc]. split; [|split; [|exact Hc]].
      * apply mk_ok.
        -- intros j Hj. rewrite Hg. in_range; try lia. reflexivity.
        -- exact Hn.
        -- destruct (N.ltb_spec n (num c)); lia.
        -- destruct (N.ltb_spec n (num c)); lia.
      * cbn [maxo num]. destruct (N.ltb_spec n (num c)); lia.
    + intros j Hj. rewrite (blk_of_some _ _ E) in Hr. apply Hr. lia.
  - inversion H; subst; clear H. destruct (cont_ok_none _ _ Hok E) as (H0 & H1 & H2).
    split; [|split; [cbn [maxo num]; lia | apply cnt_rel_refl]].
    apply mk_ok; try lia. intros j Hj. lia.
Qed.

Lemma c_resize_zero c k : c_resize c 0 k = c_free c k.
Proof. reflexivity. Qed.

(* ---- appending / padding --------------------------------------------------------------------- *)
Lemma rep_set_len a a' l n v :
  rep a l -> len l <= n ->
  (forall j, get a' j = if (len l <=? j) && (j <? len l + N.of_nat (N.to_nat (n - len l))) then CLive v else get a j) ->
  rep a' (set_len (N.to_nat n) v l).
Proof.
  intros Hr Hle Hg j Hj. unfold len in Hj. rewrite set_len_length in Hj.
  rewrite Hg. rewrite nth_set_len by lia.
  destruct (Nat.ltb_spec (N.to_nat j) (length l)); in_range; unfold len in *; try lia.
  - apply Hr. unfold len. lia.
  - reflexivity.
Qed.

Lemma rep_app_last a l v : rep a l -> rep (set a (len l) (CLive v)) (l ++ [v]).
Proof.
  intros Hr j Hj. rewrite len_app in Hj. rewrite nth_app_last.
  destruct (Nat.ltb_spec (N.to_nat j) (length l)).
  - rewrite gso by (unfold len; lia). apply Hr. unfold len. lia.
  - destruct (Nat.eqb_spec (N.to_nat j) (length l)); [|unfold len in Hj; cbn [length] in Hj; lia].
    replace j with (len l) by (unfold len; lia). apply gss.
Qed.

Lemma rep_update a l i v :
  rep a l -> i < len l -> rep (set a i (CLive v)) (update_nth (N.to_nat i) v l).
Proof.
  intros Hr Hi j Hj. unfold len in *. rewrite update_nth_length in Hj by lia.
  rewrite nth_update_nth by lia.
  destruct (Nat.eqb_spec (N.to_nat j) (N.to_nat i)).
  - replace j with i by lia. apply gss.
  - rewrite gso by lia. apply Hr. exact Hj.
Qed.

(* construct a value at the end of a container with spare capacity *)
Lemma push_ok c l v k a k' :
  cont_ok c l -> num c < maxo c ->
  construct (blk_of c) (num c) v k = (a, k') ->
  cont_ok (upd_blk (mkC (objlist c) (num c + 1) (maxo c)) a) (l ++ [v]) /\ cnt_rel k k' 1.
Proof.
  intros Hok Hlt H. pose proof Hok as (Hn & Hm & Ho & Hr).
  destruct (cont_ok_some _ _ Hok) as (a0 & E & Hr0); [lia|].
  unfold construct in H. inversion H; subst; clear H.
  unfold upd_blk; cbn [objlist num maxo]. rewrite E. rewrite (blk_of_some _ _ E). split.
  - apply mk_ok; [| rewrite len_app, len_cons, len_nil; lia | lia | lia].
    rewrite Hn. apply rep_app_last. exact Hr0.
  - split; cbn [inc_live live bad]; [lia | reflexivity].
Qed.

(* ---- AddObject(const Type&) -------------------------------------------------------------------- *)
Lemma c_add_ok c l v k c' k' r :
  cont_ok c l -> c_add c v k = (c', k', r) ->
  cont_ok c' (l ++ [v]) /\ r = len l + 1 /\ cnt_rel k k' 1.
Proof.
  intros Hok H. pose proof Hok as (Hn & Hm & Ho & Hr). unfold c_add in H.
  destruct (if maxo c <=? num c then c_resize c ((num c + 1) * 2) k else (c, k)) as [c1 k1] eqn:E1.
  assert (H1 : cont_ok c1 l /\ num c1 < maxo c1 /\ cnt_rel k k1 0).
  { destruct (N.leb_spec (maxo c) (num c)).
    - apply c_resize_ok with (l := l) in E1; [|exact Hok|lia].
      destruct E1 as (Hok1 & Hmax & Hc). split; [exact Hok1|]. split; [|exact Hc].
      destruct Hok1 as (Hn1 & _). lia.
    - inversion E1; subst. split; [exact Hok|]. split; [lia | apply cnt_rel_refl]. }
  destruct H1 as (Hok1 & Hlt & Hc1).
  destruct (construct (blk_of c1) (num c1) v k1) as [a k2] eqn:E2.
  inversion H; subst; clear H.
  destruct (push_ok _ _ _ _ _ _ Hok1 Hlt E2) as [Hok2 Hc2].
  split; [exact Hok2|]. split.
  - destruct Hok1 as (Hn1 & _). lia.
  - eapply cnt_rel_trans; [exact Hc1 | exact Hc2 | lia].
Qed.

(* ---- AddObjectUninitialized ------------------------------------------------------------------------ *)
Lemma c_add_uninit_ok c l k c' k' r :
  cont_ok c l -> c_add_uninit c k = (c', k', r) ->
  exists c2, cont_ok c2 l /\ num c2 < maxo c2 /\ c' = mkC (objlist c2) (num c2 + 1) (maxo c2)
             /\ r = len l + 1 /\ cnt_rel k k' 0.
Proof.
  intros Hok H. unfold c_add_uninit in H.
  destruct (match objlist c with None => c_resize c 10 k | Some _ => (c, k) end) as [c1 k1] eqn:E1.
  assert (H1 : cont_ok c1 l /\ 0 < maxo c1 /\ cnt_rel k k1 0).
  { destruct (objlist c) as [a|] eqn:E.
    - inversion E1; subst. split; [exact Hok|]. split; [|apply cnt_rel_refl].
      destruct Hok as (_ & _ & Ho & _). destruct (N.eq_dec (maxo c1) 0) as [Hz|]; [|lia].
      apply Ho in Hz. congruence.
    - apply c_resize_ok with (l := l) in E1; [|exact Hok|lia].
      destruct E1 as (Hok1 & Hmax & Hc). split; [exact Hok1|]. split; [lia | exact Hc]. }
  destruct H1 as (Hok1 & Hpos & Hc1).
  destruct (if maxo c1 <=? num c1 then c_resize c1 (num c1 * 2) k1 else (c1, k1)) as [c2 k2] eqn:E2.
  assert (H2 : cont_ok c2 l /\ num c2 < maxo c2 /\ cnt_rel k1 k2 0).
  { destruct (N.leb_spec (maxo c1) (num c1)).
    - apply c_resize_ok with (l := l) in E2; [|exact Hok1|lia].
      destruct E2 as (Hok2 & Hmax & Hc). split; [exact Hok2|]. split; [|exact Hc].
      destruct Hok2 as (Hn2 & _). destruct Hok1 as (Hn1 & _). lia.
    - inversion E2; subst. split; [exact Hok1|]. split; [lia | apply cnt_rel_refl]. }
  destruct H2 as (Hok2 & Hlt & Hc2).
  inversion H; subst; clear H. exists c2. split; [exact Hok2|]. split; [exact Hlt|].
  split; [reflexivity|]. split.
  - destruct Hok2 as (Hn2 & _). lia.
  - eapply cnt_rel_trans; [exact Hc1 | exact Hc2 | lia].
Qed.

Lemma construct_after_uninit c2 l v k a k' :
  cont_ok c2 l -> num c2 < maxo c2 ->
  construct (blk_of (mkC (objlist c2) (num c2 + 1) (maxo c2))) (len l + 1 - 1) v k = (a, k') ->
  cont_ok (upd_blk (mkC (objlist c2) (num c2 + 1) (maxo c2)) a) (l ++ [v]) /\ cnt_rel k k' 1.
Proof.
  intros Hok Hlt H. replace (len l + 1 - 1) with (num c2) in H by (destruct Hok as (Hn & _); lia).
  apply (push_ok _ _ _ _ _ _ Hok Hlt). exact H.
Qed.

(* AddObject() *)
Lemma c_add_def_ok c l k c' k' r :
  cont_ok c l -> c_add_def c k = (c', k', r) ->
  cont_ok c' (l ++ [defv]) /\ r = len l /\ cnt_rel k k' 1.
Proof.
  intros Hok H. unfold c_add_def in H.
  destruct (c_add_uninit c k) as [[c1 k1] r1] eqn:E1.
  destruct (c_add_uninit_ok _ _ _ _ _ _ Hok E1) as (c2 & Hok2 & Hlt & -> & -> & Hc1).
  destruct (construct _ (len l + 1 - 1) defv k1) as [a k2] eqn:E2.
  inversion H; subst; clear H.
  destruct (construct_after_uninit _ _ _ _ _ _ Hok2 Hlt E2) as [Hok3 Hc2].
  split; [exact Hok3|]. split; [lia|]. eapply cnt_rel_trans; [exact Hc1 | exact Hc2 | lia].
Qed.

(* new(container) Type(v) *)
Lemma c_add_new_ok c l v k c' k' r :
  cont_ok c l -> c_add_new c v k = (c', k', r) ->
  cont_ok c' (l ++ [v]) /\ r = len l + 1 /\ cnt_rel k k' 1.
Proof.
  intros Hok H. unfold c_add_new in H.
  destruct (c_add_uninit c k) as [[c1 k1] r1] eqn:E1.
  destruct (c_add_uninit_ok _ _ _ _ _ _ Hok E1) as (c2 & Hok2 & Hlt & -> & -> & Hc1).
  destruct (construct _ (len l + 1 - 1) v k1) as [a k2] eqn:E2.
  inversion H; subst; clear H.
  destruct (construct_after_uninit _ _ _ _ _ _ Hok2 Hlt E2) as [Hok3 Hc2].
  split; [exact Hok3|]. split; [reflexivity|]. eapply cnt_rel_trans; [exact Hc1 | exact Hc2 | lia].
Qed.

(* ---- IndexOfObject ------------------------------------------------------------------------------------ *)
Lemma c_index_of_ok c l v k : cont_ok c l -> c_index_of c v k = (index_of v l, k).
Proof.
  intro Hok. unfold c_index_of. destruct (objlist c) as [a|] eqn:E.
  - rewrite (to_nat_num _ _ Hok). unfold index_of. apply find_loop_spec.
    intros j Hj. rewrite N.add_0_l. destruct Hok as (_ & _ & _ & Hr).
    rewrite (blk_of_some _ _ E) in Hr. apply Hr. exact Hj.
  - destruct (cont_ok_none _ _ Hok E) as (H0 & _). rewrite (len0_nil _ H0). reflexivity.
Qed.

Lemma index_of_range v l : index_of v l = 0 \/ (1 <= index_of v l <= len l).
Proof. unfold index_of. destruct (index_from_range v l 0); [left; assumption | right; lia]. Qed.

(* AddUniqueObject *)
Lemma c_add_unique_ok c l v k c' k' r :
  cont_ok c l -> c_add_unique c v k = (c', k', r) ->
  if index_of v l =? 0
  then cont_ok c' (l ++ [v]) /\ r = len l + 1 /\ cnt_rel k k' 1
  else c' = c /\ r = index_of v l /\ k' = k.
Proof.
  intros Hok H. unfold c_add_unique in H. rewrite (c_index_of_ok _ _ _ _ Hok) in H.
  destruct (index_of v l =? 0).
  - eapply c_add_ok; eassumption.
  - inversion H; subst. repeat split.
Qed.

(* ---- SetObjectAt ------------------------------------------------------------------------------------------ *)
Lemma c_set_at_ok c l i v k c' k' :
  cont_ok c l -> 1 <= i <= len l -> c_set_at c i v k = (c', k') ->
  cont_ok c' (update_nth (N.to_nat (i - 1)) v l) /\ k' = k.
Proof.
  intros Hok Hi H. pose proof Hok as (Hn & Hm & Ho & Hr).
  destruct (cont_ok_some _ _ Hok) as (a0 & E & Hr0); [lia|].
  unfold c_set_at in H. rewrite (blk_of_some _ _ E) in H.
  rewrite (assign_live _ _ _ (nth (N.to_nat (i - 1)) l 0%Z)) in H by (apply Hr0; lia).
  inversion H; subst; clear H. split; [|reflexivity].
  unfold upd_blk. rewrite E. apply mk_ok; try lia.
  - apply rep_update; [exact Hr0 | lia].
  - unfold len in *. rewrite update_nth_length by lia. exact Hn.
Qed.

(* ---- construct a range at the end (AddObjectAt, SetNumObjects, OSetNumU) ------------------------------------ *)
Lemma pad_ok c l n v k a k' :
  cont_ok c l -> len l <= n -> n <= maxo c ->
  iter_up (construct_step v) (N.to_nat (n - num c)) (num c) (blk_of c, k) = (a, k') ->
  cont_ok (upd_blk (mkC (objlist c) n (maxo c)) a) (set_len (N.to_nat n) v l)
  /\ cnt_rel k k' (Z.of_N n - Z.of_N (len l)).
Proof.
  intros Hok Hle Hcap H. pose proof Hok as (Hn & Hm & Ho & Hr).
  apply construct_range in H. destruct H as [Hg Hc].
  split; [|eapply cnt_rel_conv; [exact Hc | lia]].
  assert (Hlen : len (set_len (N.to_nat n) v l) = n) by (unfold len; rewrite set_len_length; lia).
  destruct (objlist c) as [a0|] eqn:E.
  - unfold upd_blk; cbn [objlist num maxo].
    apply mk_ok; try lia.
    + eapply rep_set_len; [| exact Hle |].
      * rewrite (blk_of_some _ _ E) in Hr. exact Hr.
      * intro j. rewrite Hg. rewrite (blk_of_some _ _ E). rewrite Hn. reflexivity.
    + destruct (N.eq_dec (maxo c) 0) as [Hz|]; [|lia]. apply Ho in Hz. congruence.
  - destruct (cont_ok_none _ _ Hok E) as (H0 & H1 & H2).
    unfold upd_blk; cbn [objlist].
    unfold cont_ok; cbn [num maxo objlist]. rewrite Hlen. repeat split; try lia; try congruence.
    intros j Hj. lia.
Qed.

(* ---- AddObjectAt --------------------------------------------------------------------------------------------- *)
Lemma c_add_at_ok c l i v k c' k' :
  cont_ok c l -> i <> 0 -> c_add_at c i v k = (c', k') ->
  if i <=? len l
  then cont_ok c' (update_nth (N.to_nat (i - 1)) v l) /\ k' = k
  else cont_ok c' (update_nth (N.to_nat (i - 1)) v (set_len (N.to_nat i) defv l))
       /\ cnt_rel k k' (Z.of_N i - Z.of_N (len l)).
Proof.
  intros Hok Hi0 H. pose proof Hok as (Hn & Hm & Ho & Hr). unfold c_add_at in H.
  destruct (if maxo c <? i then c_resize c i k else (c, k)) as [c1 k1] eqn:E1.
  assert (H1 : cont_ok c1 l /\ i <= maxo c1 /\ cnt_rel k k1 0 /\ (i <= len l -> c1 = c /\ k1 = k)).
  { destruct (N.ltb_spec (maxo c) i).
    - apply c_resize_ok with (l := l) in E1; [|exact Hok|exact Hi0].
      destruct E1 as (Hok1 & Hmax & Hc).
      split; [exact Hok1|]. split; [lia|]. split; [exact Hc|]. intro. exfalso. lia.
    - inversion E1; subst.
      split; [exact Hok|]. split; [lia|]. split; [apply cnt_rel_refl|]. intro. split; reflexivity. }
  destruct H1 as (Hok1 & Hcap & Hc1 & Hsame). pose proof Hok1 as (Hn1 & _).
  destruct (N.leb_spec i (len l)) as [Hle|Hgt].
  - destruct (Hsame Hle) as [-> ->].
    destruct (N.ltb_spec (num c) i); [lia|].
    apply c_set_at_ok with (l := l) in H; [exact H | exact Hok | lia].
  - destruct (N.ltb_spec (num c1) i); [|lia].
    destruct (iter_up (construct_step defv) (N.to_nat (i - num c1)) (num c1) (blk_of c1, k1)) as [a k2] eqn:E2.
    assert (Hle' : len l <= i) by lia.
    destruct (pad_ok _ _ _ _ _ _ _ Hok1 Hle' Hcap E2) as [Hok2 Hc2].
    apply c_set_at_ok with (l := set_len (N.to_nat i) defv l) in H; [|exact Hok2|].
    + destruct H as [Hok3 ->]. split; [exact Hok3|].
      eapply cnt_rel_trans; [exact Hc1 | exact Hc2 | lia].
    + unfold len. rewrite set_len_length. lia.
Qed.

(* ---- RemoveObjectAt --------------------------------------------------------------------------------------------- *)
Lemma c_remove_at_ok c l i k c' k' e :
  cont_ok c l -> c_remove_at c i k = (c', k', e) ->
  if (i =? 0) || (len l <? i)
  then c' = c /\ k' = k /\ e = Some i
  else cont_ok c' (remove_nth (N.to_nat (i - 1)) l) /\ cnt_rel k k' (-1) /\ e = None.
Proof.
  intros Hok H. pose proof Hok as (Hn & Hm & Ho & Hr). unfold c_remove_at in H. rewrite Hn in H.
  destruct ((i =? 0) || (len l <? i)) eqn:Eb.
  - inversion H; subst. repeat split.
  - apply orb_false_iff in Eb. destruct Eb as [Eb1 Eb2].
    apply N.eqb_neq in Eb1. apply N.ltb_ge in Eb2.
    destruct (cont_ok_some _ _ Hok) as (a0 & E & Hr0); [lia|].
    rewrite (blk_of_some _ _ E) in H.
    destruct (iter_up shift_down_step (N.to_nat (len l - 1 - (i - 1))) (i - 1) (a0, k)) as [a k1] eqn:E1.
    apply (shift_down_range (fun j => nth (N.to_nat j) l 0%Z)) with (x := nth (N.to_nat (i - 1)) l 0%Z) in E1.
    + destruct E1 as (Hg & (y & Hy) & Hout & Hc1).
      replace (i - 1 + N.of_nat (N.to_nat (len l - 1 - (i - 1)))) with (len l - 1) in * by lia.
      rewrite (destroy_live _ _ _ _ Hy) in H. inversion H; subst; clear H.
      split; [|split; [|reflexivity]].
      * unfold upd_blk; cbn [objlist num maxo]. rewrite E.
        assert (Hlen : len (remove_nth (N.to_nat (i - 1)) l) = len l - 1).
        { unfold len in *. rewrite remove_nth_length by lia. lia. }
        apply mk_ok; try lia.
        intros j Hj. rewrite Hlen in Hj. rewrite gso by lia.
        rewrite nth_remove_nth by (unfold len in *; lia).
        destruct (Nat.ltb_spec (N.to_nat j) (N.to_nat (i - 1))).
        -- rewrite Hout by lia. apply Hr0. lia.
        -- rewrite Hg by lia. f_equal. f_equal. lia.
      * destruct Hc1 as [Hl Hb]. split; cbn [dec_live live bad]; [lia | exact Hb].
    + apply Hr0. lia.
    + intros j Hj. apply Hr0. lia.
Qed.

(* RemoveObject(const Type&) *)
Lemma c_remove_ok c l v k c' k' e :
  cont_ok c l -> c_remove c v k = (c', k', e) ->
  e = None /\
  if index_of v l =? 0 then c' = c /\ k' = k
  else cont_ok c' (remove_nth (N.to_nat (index_of v l - 1)) l) /\ cnt_rel k k' (-1).
Proof.
  intros Hok H. unfold c_remove in H. rewrite (c_index_of_ok _ _ _ _ Hok) in H.
  destruct (N.eqb_spec (index_of v l) 0) as [Hz|Hnz].
  - inversion H; subst. repeat split.
  - apply c_remove_at_ok with (l := l) in H; [|exact Hok].
    destruct (index_of_range v l) as [|Hr]; [contradiction|].
    destruct (N.eqb_spec (index_of v l) 0); [contradiction|].
    destruct (N.ltb_spec (len l) (index_of v l)); [lia|]. cbn [orb] in H.
    destruct H as (R1 & R2 & R3). split; [exact R3|]. split; [exact R1 | exact R2].
Qed.

(* RemoveObject(const Type* ) *)
Lemma c_remove_ptr_ok c l off k c' k' e :
  cont_ok c l -> c_remove_ptr c off k = (c', k', e) ->
  e = None /\
  if len l <=? off then c' = c /\ k' = k
  else cont_ok c' (remove_nth (N.to_nat off) l) /\ cnt_rel k k' (-1).
Proof.
  intros Hok H. pose proof Hok as (Hn & _). unfold c_remove_ptr in H. rewrite Hn in H.
  destruct (N.leb_spec (len l) off).
  - inversion H; subst. repeat split.
  - apply c_remove_at_ok with (l := l) in H; [|exact Hok].
    destruct (N.eqb_spec (off + 1) 0); [lia|].
    destruct (N.ltb_spec (len l) (off + 1)); [lia|]. cbn [orb] in H.
    replace (off + 1 - 1) with off in H by lia.
    destruct H as (R1 & R2 & R3). split; [exact R3|]. split; [exact R1 | exact R2].
Qed.

(* ---- SetNumObjectsUninitialized in its caller's protocol ----------------------------------------------------------- *)
Lemma rep_firstn a a' l n :
  rep a l -> n <= len l -> (forall j, j < n -> get a' j = get a j) ->
  rep a' (set_len (N.to_nat n) 0%Z l).
Proof.
  intros Hr Hle Hg j Hj. unfold len in *. rewrite set_len_length in Hj.
  rewrite nth_set_len by lia. destruct (Nat.ltb_spec (N.to_nat j) (length l)); [|lia].
  rewrite Hg by lia. apply Hr. unfold len. lia.
Qed.

Lemma set_len_cut n v w l : (n <= length l)%nat -> set_len n v l = set_len n w l.
Proof.
  intro H. unfold set_len. replace (n - length l)%nat with 0%nat by lia. reflexivity.
Qed.

(* ---- SetNumObjects ------------------------------------------------------------------------------------------------ *)
Lemma c_set_num_ok c l n k c' k' :
  cont_ok c l -> c_set_num c n k = (c', k') ->
  cont_ok c' (set_len (N.to_nat n) defv l) /\ cnt_rel k k' (Z.of_N n - Z.of_N (len l)).
Proof.
  intros Hok H. pose proof Hok as (Hn & Hm & Ho & Hr). unfold c_set_num in H.
  destruct (if maxo c <? n then c_resize c n k else (c, k)) as [c1 k1] eqn:E1.
  assert (H1 : cont_ok c1 l /\ n <= maxo c1 /\ cnt_rel k k1 0).
  { destruct (N.ltb_spec (maxo c) n).
    - apply c_resize_ok with (l := l) in E1; [|exact Hok|lia].
      destruct E1 as (Hok1 & Hmax & Hc). split; [exact Hok1|]. split; [lia | exact Hc].
    - inversion E1; subst. split; [exact Hok|]. split; [lia | apply cnt_rel_refl]. }
  destruct H1 as (Hok1 & Hcap & Hc1). pose proof Hok1 as (Hn1 & Hm1 & Ho1 & Hr1).
  destruct (iter_up destroy_step (N.to_nat (num c1 - n)) n (blk_of c1, k1)) as [a0 k2] eqn:E2.
  destruct (N.le_gt_cases (len l) n) as [Hle|Hgt].
  - (* growing or equal: nothing is destructed *)
    replace (N.to_nat (num c1 - n)) with 0%nat in E2 by lia. cbn [iter_up] in E2.
    inversion E2; subst a0 k2; clear E2.
    destruct (iter_up (construct_step defv) (N.to_nat (n - num c1)) (num c1) (blk_of c1, k1)) as [a k3] eqn:E3.
    inversion H; subst; clear H.
    destruct (pad_ok _ _ _ _ _ _ _ Hok1 Hle Hcap E3) as [Hok2 Hc2].
    split; [exact Hok2|]. eapply cnt_rel_trans; [exact Hc1 | exact Hc2 | lia].
  - (* cutting: cells n .. num-1 are destructed, nothing is constructed *)
    replace (N.to_nat (n - num c1)) with 0%nat in H by lia. cbn [iter_up] in H.
    inversion H; subst; clear H.
    apply destroy_range in E2.
    + destruct E2 as [Hg Hc2].
      destruct (cont_ok_some _ _ Hok1) as (a1 & E & Hr0); [lia|].
      unfold upd_blk; cbn [objlist num maxo]. rewrite E. split.
      * rewrite (set_len_cut _ defv 0%Z) by (unfold len in *; lia).
        apply mk_ok; try lia.
        -- apply rep_firstn with (a := a1); [exact Hr0 | lia |].
           intros j Hj. rewrite Hg. rewrite (blk_of_some _ _ E). in_range; try lia; reflexivity.
        -- unfold len. rewrite set_len_length. lia.
      * eapply cnt_rel_trans; [exact Hc1 | exact Hc2 | lia].
    + intros j Hj. eexists. apply Hr1. lia.
Qed.

Lemma c_set_num_u_ok c l n v k c' k' :
  cont_ok c l -> c_set_num_u c n v k = (c', k') ->
  cont_ok c' (set_len (N.to_nat n) v l) /\ cnt_rel k k' (Z.of_N n - Z.of_N (len l)).
Proof.
  intros Hok H. pose proof Hok as (Hn & Hm & Ho & Hr). unfold c_set_num_u in H.
  destruct (iter_up destroy_step (N.to_nat (num c - n)) n (blk_of c, k)) as [a k1] eqn:E1.
  destruct (N.le_gt_cases (len l) n) as [Hle|Hgt].
  - (* growing or equal: nothing is destructed *)
    replace (N.to_nat (num c - n)) with 0%nat in E1 by lia. cbn [iter_up] in E1.
    inversion E1; subst a k1; clear E1.
    assert (Hu : upd_blk c (blk_of c) = c).
    { unfold upd_blk, blk_of. destruct c as [[b|] nn mm]; reflexivity. }
    rewrite Hu in H. unfold c_set_num_uninit in H.
    destruct (if maxo c <? n then c_resize c n k else (c, k)) as [c1 k2] eqn:E2.
    assert (H1 : cont_ok c1 l /\ n <= maxo c1 /\ cnt_rel k k2 0).
    { destruct (N.ltb_spec (maxo c) n).
      - apply c_resize_ok with (l := l) in E2; [|exact Hok|lia].
        destruct E2 as (Hok1 & Hmax & Hc). split; [exact Hok1|]. split; [lia | exact Hc].
      - inversion E2; subst. split; [exact Hok|]. split; [lia | apply cnt_rel_refl]. }
    destruct H1 as (Hok1 & Hcap & Hc1). pose proof Hok1 as (Hn1 & _).
    rewrite blk_of_mk in H. replace (num c) with (num c1) in H by lia.
    destruct (iter_up (construct_step v) (N.to_nat (n - num c1)) (num c1) (blk_of c1, k2)) as [a3 k3] eqn:E3.
    inversion H; subst; clear H.
    destruct (pad_ok _ _ _ _ _ _ _ Hok1 Hle Hcap E3) as [Hok2 Hc2].
    split; [exact Hok2|].
    eapply cnt_rel_trans; [exact Hc1 | exact Hc2 | lia].
  - (* cutting: cells n .. num-1 are destructed, nothing is constructed *)
    apply destroy_range in E1.
    + destruct E1 as [Hg Hc1].
      destruct (cont_ok_some _ _ Hok) as (a0 & E & Hr0); [lia|].
      unfold upd_blk in H. rewrite E in H. unfold c_set_num_uninit in H. cbn [maxo num objlist] in H.
      destruct (N.ltb_spec (maxo c) n); [lia|].
      cbn [blk_of objlist num maxo] in H.
      replace (N.to_nat (n - num c)) with 0%nat in H by lia. cbn [iter_up] in H.
      inversion H; subst; clear H. cbn [objlist].
      split.
      * rewrite (set_len_cut _ v 0%Z) by (unfold len in *; lia).
        apply mk_ok; try lia.
        -- apply rep_firstn with (a := a0); [exact Hr0 | lia |].
           intros j Hj. rewrite Hg. rewrite (blk_of_some _ _ E). in_range; try lia; reflexivity.
        -- unfold len. rewrite set_len_length. lia.
      * eapply cnt_rel_conv; [exact Hc1 | lia].
    + intros j Hj. eexists. apply Hr. lia.
Qed.

(* ---- Shrink -------------------------------------------------------------------------------------------------------- *)
Lemma c_shrink_ok c l k c' k' :
  cont_ok c l -> c_shrink c k = (c', k') -> cont_ok c' l /\ cnt_rel k k' 0.
Proof.
  intros Hok H. pose proof Hok as (Hn & Hm & Ho & Hr). unfold c_shrink in H.
  destruct (objlist c) as [a|] eqn:E.
  - destruct (N.eqb_spec (num c) 0).
    + inversion H; subst. split; [exact Hok | apply cnt_rel_refl].
    + destruct (iter_up move_destroy_step (N.to_nat (num c)) 0 (a, fresh, k)) as [[src dst] k1] eqn:L.
      inversion H; subst; clear H.
      apply (move_destroy_range (fun j => nth (N.to_nat j) l 0%Z)) in L.
      * destruct L as [Hg Hc]. split; [|exact Hc].
        apply mk_ok; try lia.
        intros j Hj. rewrite Hg. in_range; try lia. reflexivity.
      * intros j Hj. rewrite (blk_of_some _ _ E) in Hr. apply Hr. lia.
  - inversion H; subst. split; [exact Hok | apply cnt_rel_refl].
Qed.

(* ---- ClearObjectList ------------------------------------------------------------------------------------------------- *)
Lemma c_clear_ok c l k c' k' :
  cont_ok c l -> c_clear c k = (c', k') -> cont_ok c' [] /\ cnt_rel k k' (- Z.of_N (len l)).
Proof.
  intros Hok H. pose proof Hok as (Hn & Hm & Ho & Hr). unfold c_clear in H.
  destruct (objlist c) as [a|] eqn:E.
  - destruct (N.eqb_spec (num c) 0) as [Hz|Hnz].
    + inversion H; subst. split.
      * apply (cont_ok_num0 _ _ Hok Hz).
      * eapply cnt_rel_conv; [apply cnt_rel_refl | lia].
    + destruct (iter_up destroy_step (N.to_nat (num c)) 0 (a, k)) as [a1 k1] eqn:L.
      inversion H; subst; clear H.
      apply destroy_range in L.
      * destruct L as [_ Hc]. split; [|eapply cnt_rel_conv; [exact Hc | lia]].
        apply mk_ok; [apply rep_nil | reflexivity | lia | lia].
      * intros j Hj. eexists. rewrite (blk_of_some _ _ E) in Hr. apply Hr. lia.
  - inversion H; subst. destruct (cont_ok_none _ _ Hok E) as (H0 & H1 & H2). split.
    + apply (cont_ok_num0 _ _ Hok H1).
    + eapply cnt_rel_conv; [apply cnt_rel_refl | lia].
Qed.

(* ---- Sort ---------------------------------------------------------------------------------------------------------------- *)
Lemma c_sort_ok c l k c' k' :
  cont_ok c l -> c_sort c k = (c', k') -> cont_ok c' (zsort l) /\ k' = k.
Proof.
  intros Hok H. pose proof Hok as (Hn & Hm & Ho & Hr). unfold c_sort in H.
  destruct (objlist c) as [a|] eqn:E.
  - inversion H; subst; clear H. split; [|reflexivity].
    rewrite (to_nat_num _ _ Hok).
    rewrite (blk_of_some _ _ E) in Hr.
    rewrite (cells_back a l 0) by (intros j Hj; rewrite N.add_0_l; apply Hr; exact Hj).
    rewrite csort_map.
    assert (Hlen : len (zsort l) = len l) by (unfold len; now rewrite zsort_length).
    assert (0 < maxo c).
    { destruct (N.eq_dec (maxo c) 0) as [Hz|]; [|lia]. apply Ho in Hz. congruence. }
    apply mk_ok; try lia.
    intros j Hj. rewrite write_list_get. in_range; try lia. now rewrite N.sub_0_r.
  - inversion H; subst. destruct (cont_ok_none _ _ Hok E) as (H0 & _).
    rewrite (len0_nil _ H0). split; [|reflexivity]. rewrite (len0_nil _ H0) in Hok. exact Hok.
Qed.

(* ---- Copy -------------------------------------------------------------------------------------------------------------------- *)
Lemma c_copy_ok c l d ld k c' k' :
  cont_ok c l -> cont_ok d ld -> c_copy c d k = (c', k') ->
  cont_ok c' ld /\ maxo c' = maxo d /\ cnt_rel k k' (Z.of_N (len ld) - Z.of_N (len l)).
Proof.
  intros Hok Hokd H. pose proof Hokd as (Hn & Hm & Ho & Hr). unfold c_copy in H.
  destruct (c_free c k) as [c0 k1] eqn:E0.
  destruct (c_free_ok _ _ _ _ _ Hok E0) as [_ Hc0].
  destruct (objlist d) as [da|] eqn:E.
  - assert (Hpos : maxo d <> 0).
    { intro Hz. apply Ho in Hz. congruence. }
    destruct (N.eqb_spec (maxo d) 0); [contradiction|].
    unfold c_resize in H. destruct (N.eqb_spec (maxo d) 0); [contradiction|].
    cbn [objlist num maxo] in H.
    rewrite (blk_of_some _ _ E) in Hr.
    destruct (N.eqb_spec (num d) 0) as [Hz|Hnz].
    + inversion H; subst; clear H. split; [|split; [reflexivity|]].
      * apply mk_ok; try lia. intros j Hj. lia.
      * eapply cnt_rel_conv; [exact Hc0 | lia].
    + cbn [blk_of objlist] in H.
      destruct (iter_up (copy_ctor_step da) (N.to_nat (num d)) 0 (fresh, k1)) as [a k3] eqn:L.
      inversion H; subst; clear H.
      apply (copy_range (fun j => nth (N.to_nat j) ld 0%Z)) in L.
      * destruct L as [Hg Hc]. unfold upd_blk; cbn [objlist num maxo].
        split; [|split; [reflexivity|]].
        -- apply mk_ok; try lia. intros j Hj. rewrite Hg. in_range; try lia. reflexivity.
        -- eapply cnt_rel_trans; [exact Hc0 | exact Hc | lia].
      * intros j Hj. apply Hr. lia.
  - destruct (cont_ok_none _ _ Hokd E) as (H0 & H1 & H2).
    inversion H; subst; clear H. split; [|split; [reflexivity|]].
    + unfold cont_ok; cbn [num maxo objlist]. repeat split; try lia; try congruence.
      intros j Hj. lia.
    + eapply cnt_rel_conv; [exact Hc0 | lia].
Qed.

(* ---- InsertObjectAt ------------------------------------------------------------------------------------------------------------------ *)
Lemma rep_insert a' l ai v :
  ai <= len l ->
  (forall j, j < ai -> get a' j = CLive (nth (N.to_nat j) l 0%Z)) ->
  get a' ai = CLive v ->
  (forall j, ai < j <= len l -> get a' j = CLive (nth (N.to_nat (j - 1)) l 0%Z)) ->
  rep a' (insert_nth (N.to_nat ai) v l).
Proof.
  intros Hai Hlo Hat Hhi j Hj. unfold len in *. rewrite insert_nth_length in Hj by lia.
  rewrite nth_insert_nth by lia.
  destruct (Nat.ltb_spec (N.to_nat j) (N.to_nat ai)).
  - apply Hlo. lia.
  - destruct (Nat.eqb_spec (N.to_nat j) (N.to_nat ai)).
    + replace j with ai by lia. exact Hat.
    + rewrite Hhi by lia. f_equal. f_equal. lia.
Qed.

Lemma c_insert_ok c l i v k c' k' :
  cont_ok c l -> c_insert c i v k = (c', k') ->
  if (i =? 0) || (len l + 1 <? i)
  then c' = c /\ k' = k
  else cont_ok c' (insert_nth (N.to_nat (i - 1)) v l) /\ cnt_rel k k' 1.
Proof.
  intros Hok H. pose proof Hok as (Hn & Hm & Ho & Hr). unfold c_insert in H. rewrite Hn in H.
  destruct ((i =? 0) || (len l + 1 <? i)) eqn:Eb.
  - inversion H; subst. split; reflexivity.
  - apply orb_false_iff in Eb. destruct Eb as [Eb1 Eb2].
    apply N.eqb_neq in Eb1. apply N.ltb_ge in Eb2.
    assert (Hlen : len (insert_nth (N.to_nat (i - 1)) v l) = len l + 1).
    { unfold len in *. rewrite insert_nth_length by lia. lia. }
    destruct (N.ltb_spec (maxo c) (len l + 1)) as [Hgrow|Hfit].
    + destruct (objlist c) as [temp|] eqn:E.
      * (* reallocation *)
        rewrite (blk_of_some _ _ E) in Hr.
        destruct (iter_up move_destroy_step (N.to_nat (i - 1)) 0 (temp, fresh, k)) as [[t1 d1] k1] eqn:L1.
        pose proof L1 as L1'.
        apply (move_destroy_range (fun j => nth (N.to_nat j) l 0%Z)) in L1;
          [|intros j Hj; apply Hr; lia].
        destruct L1 as [Hg1 Hc1].
        (* the source cells from i-1 on are untouched by the first loop *)
        assert (Ht1 : forall j, i - 1 <= j < len l -> get t1 j = CLive (nth (N.to_nat j) l 0%Z)).
        { intros j Hj. rewrite (move_destroy_src_frame _ _ _ _ _ _ _ _ L1') by lia. apply Hr. lia. }
        unfold construct in H. cbv beta iota in H.
        match type of H with context [iter_up (move_destroy_off_step 1) ?n0 ?i0 ?s0] =>
          destruct (iter_up (move_destroy_off_step 1) n0 i0 s0) as [[t3 d3] k3] eqn:L2 end.
        apply (move_destroy_off_range (fun j => nth (N.to_nat j) l 0%Z)) in L2;
          [|intros j Hj; apply Ht1; lia].
        destruct L2 as [Hg2 Hc2]. inversion H; subst; clear H. split.
        -- apply mk_ok; try lia.
           apply rep_insert; [lia | | |].
           ++ intros j Hj. rewrite Hg2. in_range; try lia. rewrite gso by lia. rewrite Hg1.
              in_range; try lia. reflexivity.
           ++ rewrite Hg2. in_range; try lia; apply gss.
           ++ intros j Hj. rewrite Hg2. in_range; try lia. reflexivity.
        -- destruct Hc1 as [A1 B1]. destruct Hc2 as [A2 B2]. cbn [inc_live live bad] in *.
           split; [lia | congruence].
      * (* no storage yet *)
        destruct (cont_ok_none _ _ Hok E) as (H0 & H1 & H2).
        replace (N.to_nat (i - 1)) with 0%nat in * by lia. cbn [iter_up] in H.
        unfold construct in H. inversion H; subst; clear H.
        replace (i - 1) with 0 by lia. rewrite (len0_nil _ H0). cbn. split.
        -- apply mk_ok; try (cbn; lia). intros j Hj. cbn in Hj.
           replace j with 0 by lia. rewrite gss. reflexivity.
        -- split; cbn [inc_live live bad]; [lia | reflexivity].
    + (* in place *)
      destruct (cont_ok_some _ _ Hok) as (a0 & E & Hr0); [lia|].
      rewrite (blk_of_some _ _ E) in H.
      replace (len l + 1 - 1) with (len l) in H by lia.
      destruct (N.eqb_spec (i - 1) (len l)) as [Hlast|Hmid].
      * unfold construct in H. inversion H; subst; clear H.
        unfold upd_blk; cbn [objlist num maxo]. rewrite E. split.
        -- apply mk_ok; try lia.
           apply rep_insert; [lia | | |].
           ++ intros j Hj. rewrite gso by lia. apply Hr0. lia.
           ++ rewrite Hlast. apply gss.
           ++ intros j Hj. lia.
        -- split; cbn [inc_live live bad]; [lia | reflexivity].
      * rewrite (take_live _ _ _ _ (Hr0 (len l - 1) ltac:(lia))) in H.
        unfold construct in H.
        cbv beta iota in H.
        match type of H with context [iter_down shift_up_step ?n0 ?i0 ?s0] =>
          destruct (iter_down shift_up_step n0 i0 s0) as [a2 k2] eqn:L end.
        apply (shift_up_range (fun j => nth (N.to_nat j) l 0%Z)) with (x := movedv) in L.
        -- destruct L as (Hg & (y & Hy) & Hout & Hc).
           replace (len l - 1 - N.of_nat (N.to_nat (len l - 1 - (i - 1)))) with (i - 1) in * by lia.
           rewrite (assign_live _ _ _ _ _ Hy) in H. inversion H; subst; clear H.
           unfold upd_blk; cbn [objlist num maxo]. rewrite E. split.
           ++ apply mk_ok; try lia.
              apply rep_insert; [lia | | |].
              ** intros j Hj. rewrite gso by lia. rewrite Hout by lia. rewrite !gso by lia. apply Hr0. lia.
              ** apply gss.
              ** intros j Hj. rewrite gso by lia.
                 destruct (N.eq_dec j (len l)) as [->|Hne].
                 --- rewrite Hout by lia. apply gss.
                 --- apply Hg. lia.
           ++ destruct Hc as [A B]. cbn [inc_live live bad] in *. split; [lia | exact B].
        -- lia.
        -- rewrite gso by lia. apply gss.
        -- intros j Hj. rewrite !gso by lia. apply Hr0. lia.
Qed.
