(* C18con/Properties.v - placeholder while the model is validated against the code. *)
From Coq Require Import NArith ZArith List Bool.
From Morfuse Require Import Base.Arr C18con.Model C18con.Spec.
Import ListNotations.
Local Open Scope N_scope.

Example C18con_smoke : run 1 [OAdd 0 1%Z] = spec_run 1 [OAdd 0 1%Z].
Proof. vm_compute. reflexivity. Qed.
