(* C18con/Properties.v - the property theorems of unit C18con (con::Container<T>), and
   nothing else.  Every theorem is closed by [exact <lemma>] and followed by Print Assumptions. *)
From Coq Require Import NArith ZArith List Bool.
From Morfuse Require Import Base.Arr C18con.Model C18con.Spec C18con.Proofs.
Import ListNotations.
Local Open Scope N_scope.

(* The full statement
     forall ns ops, run ns ops = spec_run ns ops
   ("after every operation of every history on ns container variables the model of
   con::Container shows the return value / exception, the contents of every container, the
   number of live elements and the absence of lifetime errors that the list specification
   shows") is FALSE of the faithful model in exactly one respect: Resize(0) on a non-empty
   container frees the list (the code's inherited idiom) where the specification keeps the
   contents (C18con_Resize_zero_refuted, confirmed on the real code by harness/C18con.cpp).
   It is proved for every history without such a call; [safe_hist] is decided on the
   specification state alone.  SetNumObjects below the length and InsertObjectAt are covered
   since the repairs of /repo commits ae1a912 and 9c833c0: see the regression Examples. *)
Theorem C18con_container_refines_list_on_safe_histories :
  forall (ns : N) (ops : list op),
    safe_hist ns ops = true -> run ns ops = spec_run ns ops.
Proof. exact run_refines_spec. Qed.
Print Assumptions C18con_container_refines_list_on_safe_histories.

(* in particular for ALL histories over all 26 operations in which no Resize has the argument 0
   ([plain_op] is a test on the operation alone) *)
Theorem C18con_container_refines_list_without_Resize_zero :
  forall (ns : N) (ops : list op),
    forallb plain_op ops = true -> run ns ops = spec_run ns ops.
Proof. exact run_refines_spec_plain. Qed.
Print Assumptions C18con_container_refines_list_without_Resize_zero.

(* MaxObjects() >= NumObjects() for every container after every operation of a safe history *)
Theorem C18con_capacity_covers_contents :
  forall (ns : N) (ops : list op),
    safe_hist ns ops = true ->
    Forall (fun p => Forall2 (fun l c => len l <= c) (o_slots (fst p)) (snd p)) (run_full ns ops).
Proof. exact capacity_covers_contents. Qed.
Print Assumptions C18con_capacity_covers_contents.

(* Resize(0) (= reserve(0)) destroys all elements, Resize(n) for 0 < n < NumObjects() keeps them *)
Theorem C18con_Resize_zero_refuted :
  exists ops, run 1 ops <> spec_run 1 ops.
Proof. exact resize_zero_refuted. Qed.
Print Assumptions C18con_Resize_zero_refuted.

(* ---- non-vacuity: a concrete safe history on two containers ----------------------------------- *)
Definition demo : list op :=
  [OAdd 0 3%Z; OAdd 0 1%Z; OAdd 0 2%Z; OAddUnique 0 1%Z; OAddAt 0 5 7%Z; ORemoveAt 0 9;
   ORemove 0 0%Z; OSort 0; OCopyCtor 1 0; ORemoveAt 0 1; OMoveAssign 0 1; OSetNumU 0 2 9%Z;
   OShrink 0; OAddDef 0; OIndexOf 0 0%Z; OFree 0].

Example C18con_demo_is_safe : safe_hist 2 demo = true.
Proof. vm_compute. reflexivity. Qed.

Example C18con_demo_contents :
  map (fun o => (o_ret o, o_slots o, o_live o, o_bad o)) (run 2 demo) =
  [(RVal 1, [[3]; []], 1, 0%N);
   (RVal 2, [[3; 1]; []], 2, 0%N);
   (RVal 3, [[3; 1; 2]; []], 3, 0%N);
   (RVal 2, [[3; 1; 2]; []], 3, 0%N);
   (RNone, [[3; 1; 2; 0; 7]; []], 5, 0%N);
   (RErr 9, [[3; 1; 2; 0; 7]; []], 5, 0%N);
   (RNone, [[3; 1; 2; 7]; []], 4, 0%N);
   (RNone, [[1; 2; 3; 7]; []], 4, 0%N);
   (RNone, [[1; 2; 3; 7]; [1; 2; 3; 7]], 8, 0%N);
   (RNone, [[2; 3; 7]; [1; 2; 3; 7]], 7, 0%N);
   (RNone, [[1; 2; 3; 7]; []], 4, 0%N);
   (RNone, [[1; 2]; []], 2, 0%N);
   (RNone, [[1; 2]; []], 2, 0%N);
   (RVal 2, [[1; 2; 0]; []], 3, 0%N);
   (RVal 3, [[1; 2; 0]; []], 3, 0%N);
   (RNone, [[]; []], 0, 0%N)]%Z.
Proof. vm_compute. reflexivity. Qed.

Example C18con_demo_capacities :
  map snd (run_full 2 demo) =
  [[2; 0]; [2; 0]; [6; 0]; [6; 0]; [6; 0]; [6; 0]; [6; 0]; [6; 0]; [6; 6]; [6; 6]; [6; 0];
   [6; 0]; [2; 0]; [4; 0]; [4; 0]; [0; 0]].
Proof. vm_compute. reflexivity. Qed.

(* ---- regression: the former witness against SetNumObjects (n < NumObjects()) -------------------- *)
Example C18con_SetNumObjects_shrink :
  safe_hist 1 [OAdd 0 1%Z; OAdd 0 2%Z; OAdd 0 3%Z; OSetNum 0 1; OAdd 0 7%Z; OSetNum 0 0] = true /\
  run 1 [OAdd 0 1%Z; OAdd 0 2%Z; OAdd 0 3%Z; OSetNum 0 1; OAdd 0 7%Z; OSetNum 0 0] =
  spec_run 1 [OAdd 0 1%Z; OAdd 0 2%Z; OAdd 0 3%Z; OSetNum 0 1; OAdd 0 7%Z; OSetNum 0 0] /\
  map (fun o => (o_slots o, o_live o, o_bad o))
      (run 1 [OAdd 0 1%Z; OAdd 0 2%Z; OAdd 0 3%Z; OSetNum 0 1; OAdd 0 7%Z; OSetNum 0 0]) =
  [([[1]], 1, 0%N); ([[1; 2]], 2, 0%N); ([[1; 2; 3]], 3, 0%N); ([[1]], 1, 0%N);
   ([[1; 7]], 2, 0%N); ([[]], 0, 0%N)]%Z.
Proof. vm_compute. repeat split; reflexivity. Qed.

Example C18con_SetNumObjects_old_witness :
  run 1 [OAdd 0 1%Z; OSetNum 0 0] = spec_run 1 [OAdd 0 1%Z; OSetNum 0 0].
Proof. vm_compute. reflexivity. Qed.

(* ---- regression: the former witnesses against InsertObjectAt now agree with the specification -- *)
Example C18con_InsertObjectAt_in_place_old_witness :
  run 1 [OAdd 0 1%Z; OInsertAt 0 1 5%Z] = spec_run 1 [OAdd 0 1%Z; OInsertAt 0 1 5%Z] /\
  map (fun o => (o_slots o, o_live o, o_bad o)) (run 1 [OAdd 0 1%Z; OInsertAt 0 1 5%Z]) =
  [([[1]], 1, 0%N); ([[5; 1]], 2, 0%N)]%Z.
Proof. vm_compute. split; reflexivity. Qed.

Example C18con_InsertObjectAt_realloc_old_witness :
  run 1 [OAdd 0 1%Z; OAdd 0 2%Z; OInsertAt 0 1 5%Z] = spec_run 1 [OAdd 0 1%Z; OAdd 0 2%Z; OInsertAt 0 1 5%Z] /\
  map (fun o => (o_slots o, o_live o, o_bad o)) (run 1 [OAdd 0 1%Z; OAdd 0 2%Z; OInsertAt 0 1 5%Z]) =
  [([[1]], 1, 0%N); ([[1; 2]], 2, 0%N); ([[5; 1; 2]], 3, 0%N)]%Z.
Proof. vm_compute. split; reflexivity. Qed.

(* front, middle, append and out-of-range insertions, in place and with reallocation *)
Example C18con_InsertObjectAt_positions :
  safe_hist 1 [OInsertAt 0 1 9%Z; OInsertAt 0 1 8%Z; OInsertAt 0 3 7%Z; OInsertAt 0 2 6%Z; OResize 0 8;
               OInsertAt 0 5 5%Z; OInsertAt 0 3 4%Z; OInsertAt 0 1 3%Z; OInsertAt 0 9 2%Z; OInsertAt 0 0 2%Z] = true /\
  map o_slots (run 1 [OInsertAt 0 1 9%Z; OInsertAt 0 1 8%Z; OInsertAt 0 3 7%Z; OInsertAt 0 2 6%Z; OResize 0 8;
               OInsertAt 0 5 5%Z; OInsertAt 0 3 4%Z; OInsertAt 0 1 3%Z; OInsertAt 0 9 2%Z; OInsertAt 0 0 2%Z]) =
  [[[9]]; [[8; 9]]; [[8; 9; 7]]; [[8; 6; 9; 7]]; [[8; 6; 9; 7]]; [[8; 6; 9; 7; 5]]; [[8; 6; 4; 9; 7; 5]];
   [[3; 8; 6; 4; 9; 7; 5]]; [[3; 8; 6; 4; 9; 7; 5]]; [[3; 8; 6; 4; 9; 7; 5]]]%Z.
Proof. vm_compute. split; reflexivity. Qed.

(* ---- what the model (and the real code) shows on the remaining witness ------------------------- *)
Example C18con_witness_Resize_zero :
  map (fun o => (o_slots o, o_live o, o_bad o)) (run 1 [OAdd 0 1%Z; OResize 0 0]) =
  [([[1]], 1, 0%N); ([[]], 0, 0%N)]%Z.                          (* specification: [1], live = 1 *)
Proof. vm_compute. reflexivity. Qed.
