(* C18con/Model.v - executable model of con::Container<Type, Allocator>
   (include/morfuse/Container/Container.h) at the level of the code.

   What is modelled
   - a container = the three fields {objlist, numobjects, maxobjects}; objlist is either
     null ([None]) or a heap block ([Some blk]); a block is a total map index -> cell;
   - a cell is raw memory, a live element holding a value, or a destructed element
     ([CRaw | CLive v | CDead]): every placement-new, copy/move construction, assignment,
     comparison and explicit destructor call of the C++ is one primitive below
     ([construct], [rd], [take], [assign], [destroy]), executed in the order of the code;
   - two global counters kept by the element type of the harness: [live] = constructions
     minus destructions, [bad] = number of element operations applied to storage that does
     not hold a live element (read of / assignment to / destruction of raw or destructed
     storage).  A read of such storage yields [poison], an assignment to it is dropped;
   - a moved-from element stays live and holds [movedv];
   - every loop of the code is [iter_up]/[iter_down]/[find_loop] with the trip count of the
     C++ loop; the 1-based indices, every early return and the exception of RemoveObjectAt
     ([RErr]); the growth policy (MaxObjects is part of [run_full]);
   - container variables are named by slot; "construct" operations on a slot destroy the
     variable first ( ~Container = FreeObjectList ) and construct it again in place.

   What is abstracted
   - the allocator: a fresh block is all-raw, freeing a block drops it (elements that were
     never destructed stay counted in [live]); allocation never fails;
   - qsort with the harness' comparison function is a sorting function on the values
     (insertion sort here; live elements with equal values are indistinguishable);
   - asserted preconditions (the build has NDEBUG): ObjectAt / SetObjectAt / AddObjectAt
     with an index outside 1..NumObjects (AddObjectAt: index 0), RemoveObject(pointer) with
     a pointer outside [Data(), Data()+NumObjects()] are not executed by the client: [RPre];
   - a write through a null objlist is dropped (not reachable: see Proofs, cont_ok);
   - SetNumObjectsUninitialized / AddressOfObjectAt are used in the protocol of their
     callers: the client destructs the elements it cuts off and constructs the elements it
     adds ([OSetNumU]); AddObjectUninitialized through the placement operator new of
     Container.h ([OAddNew]). *)
From Coq Require Import NArith ZArith List Bool.
From Morfuse Require Import Base.Arr.
Import ListNotations.
Local Open Scope N_scope.

(* ---- elements ------------------------------------------------------------------------ *)
Inductive cell := CRaw | CLive (v : Z) | CDead.

Definition poison : Z := (-99)%Z.     (* what a read of non-live storage yields *)
Definition movedv : Z := (-7)%Z.      (* value of a moved-from element *)
Definition defv : Z := 0%Z.           (* value of a default-constructed element *)

Record cnt := mkCnt { live : Z; bad : N }.
Definition inc_live (k : cnt) := mkCnt (live k + 1) (bad k).
Definition dec_live (k : cnt) := mkCnt (live k - 1) (bad k).
Definition bump (k : cnt) := mkCnt (live k) (bad k + 1).

Definition blk := arr cell.
Definition fresh : blk := aempty CRaw.

(* const access: copy-construction source, operator== *)
Definition rd (a : blk) (i : N) (k : cnt) : Z * cnt :=
  match get a i with
  | CLive v => (v, k)
  | _ => (poison, bump k)
  end.

(* move access: source of a move construction / move assignment *)
Definition take (a : blk) (i : N) (k : cnt) : Z * blk * cnt :=
  match get a i with
  | CLive v => (v, set a i (CLive movedv), k)
  | _ => (poison, a, bump k)
  end.

(* placement new *)
Definition construct (a : blk) (i : N) (v : Z) (k : cnt) : blk * cnt :=
  (set a i (CLive v), inc_live k).

(* explicit destructor call *)
Definition destroy (a : blk) (i : N) (k : cnt) : blk * cnt :=
  match get a i with
  | CLive _ => (set a i CDead, dec_live k)
  | _ => (set a i CDead, bump (dec_live k))
  end.

(* operator= on the element at i *)
Definition assign (a : blk) (i : N) (v : Z) (k : cnt) : blk * cnt :=
  match get a i with
  | CLive _ => (set a i (CLive v), k)
  | _ => (a, bump k)
  end.

(* objlist[dst] = std::move(objlist[src]) *)
Definition move_within (a : blk) (dst src : N) (k : cnt) : blk * cnt :=
  let '(x, a1, k1) := take a src k in assign a1 dst x k1.

(* observation only (does not count) *)
Definition peek (c : cell) : Z :=
  match c with CLive v => v | _ => poison end.

(* ---- loops --------------------------------------------------------------------------- *)
(* for (j = i; <n times>; j++) s = f j s *)
Fixpoint iter_up {S : Type} (f : N -> S -> S) (n : nat) (i : N) (s : S) : S :=
  match n with
  | O => s
  | S n' => iter_up f n' (i + 1) (f i s)
  end.

(* for (j = i; <n times>; j--) s = f j s *)
Fixpoint iter_down {S : Type} (f : N -> S -> S) (n : nat) (i : N) (s : S) : S :=
  match n with
  | O => s
  | S n' => iter_down f n' (i - 1) (f i s)
  end.

Definition construct_step (v : Z) (j : N) (s : blk * cnt) : blk * cnt :=
  let '(a, k) := s in construct a j v k.

Definition destroy_step (j : N) (s : blk * cnt) : blk * cnt :=
  let '(a, k) := s in destroy a j k.

(* new(dst + j) Type(std::move_if_noexcept(src[j])); src[j].~Type(); *)
Definition move_destroy_step (j : N) (s : blk * blk * cnt) : blk * blk * cnt :=
  let '(src, dst, k) := s in
  let '(x, src1, k1) := take src j k in
  let '(dst1, k2) := construct dst j x k1 in
  let '(src2, k3) := destroy src1 j k2 in
  (src2, dst1, k3).

(* new(dst + j + off) Type(std::move_if_noexcept(src[j])); src[j].~Type(); *)
Definition move_destroy_off_step (off : N) (j : N) (s : blk * blk * cnt) : blk * blk * cnt :=
  let '(src, dst, k) := s in
  let '(x, src1, k1) := take src j k in
  let '(dst1, k2) := construct dst (j + off) x k1 in
  let '(src2, k3) := destroy src1 j k2 in
  (src2, dst1, k3).

(* new(dst + j) Type(src[j]); *)
Definition copy_ctor_step (src : blk) (j : N) (s : blk * cnt) : blk * cnt :=
  let '(a, k) := s in
  let '(x, k1) := rd src j k in construct a j x k1.

(* objlist[j] = std::move(objlist[j + 1]) *)
Definition shift_down_step (j : N) (s : blk * cnt) : blk * cnt :=
  let '(a, k) := s in move_within a j (j + 1) k.

(* objlist[j] = std::move(objlist[j - 1]) *)
Definition shift_up_step (j : N) (s : blk * cnt) : blk * cnt :=
  let '(a, k) := s in move_within a j (j - 1) k.

(* IndexOfObject's loop: 1-based position of the first element equal to v, 0 = none *)
Fixpoint find_loop (n : nat) (i : N) (a : blk) (v : Z) (k : cnt) : N * cnt :=
  match n with
  | O => (0, k)
  | S n' =>
      let '(x, k1) := rd a i k in
      if Z.eqb x v then (i + 1, k1) else find_loop n' (i + 1) a v k1
  end.

(* ---- the container ------------------------------------------------------------------- *)
Record cont := mkC { objlist : option blk; num : N; maxo : N }.

Definition cempty : cont := mkC None 0 0.

Definition blk_of (c : cont) : blk :=
  match objlist c with Some a => a | None => fresh end.

(* store through objlist (dropped when objlist is null) *)
Definition upd_blk (c : cont) (a : blk) : cont :=
  match objlist c with
  | Some _ => mkC (Some a) (num c) (maxo c)
  | None => c
  end.

(* FreeObjectList *)
Definition c_free (c : cont) (k : cnt) : cont * cnt :=
  match objlist c with
  | Some a =>
      let '(_, k1) := iter_up destroy_step (N.to_nat (num c)) 0 (a, k) in
      (cempty, k1)
  | None => (cempty, k)
  end.

(* Resize *)
Definition c_resize (c : cont) (n : N) (k : cnt) : cont * cnt :=
  if n =? 0 then c_free c k
  else
    match objlist c with
    | None => (mkC (Some fresh) (num c) n, k)
    | Some temp =>
        let m := if n <? num c then num c else n in
        let '(_, dst, k1) := iter_up move_destroy_step (N.to_nat (num c)) 0 (temp, fresh, k) in
        (mkC (Some dst) (num c) m, k1)
    end.

(* AddObject(const Type&) : returns the new numobjects *)
Definition c_add (c : cont) (v : Z) (k : cnt) : cont * cnt * N :=
  let '(c1, k1) := if maxo c <=? num c then c_resize c ((num c + 1) * 2) k else (c, k) in
  let '(a, k2) := construct (blk_of c1) (num c1) v k1 in
  (upd_blk (mkC (objlist c1) (num c1 + 1) (maxo c1)) a, k2, num c1 + 1).

(* AddObjectUninitialized : returns the new numobjects *)
Definition c_add_uninit (c : cont) (k : cnt) : cont * cnt * N :=
  let '(c1, k1) := match objlist c with None => c_resize c 10 k | Some _ => (c, k) end in
  let '(c2, k2) := if maxo c1 <=? num c1 then c_resize c1 (num c1 * 2) k1 else (c1, k1) in
  (mkC (objlist c2) (num c2 + 1) (maxo c2), k2, num c2 + 1).

(* AddObject() : returns the 0-based index *)
Definition c_add_def (c : cont) (k : cnt) : cont * cnt * N :=
  let '(c1, k1, r) := c_add_uninit c k in
  let index := r - 1 in
  let '(a, k2) := construct (blk_of c1) index defv k1 in
  (upd_blk c1 a, k2, index).

(* new(container) Type(v) : &ObjectAt(AddObjectUninitialized()), then the constructor;
   returns the 1-based position of the returned address *)
Definition c_add_new (c : cont) (v : Z) (k : cnt) : cont * cnt * N :=
  let '(c1, k1, r) := c_add_uninit c k in
  let '(a, k2) := construct (blk_of c1) (r - 1) v k1 in
  (upd_blk c1 a, k2, r).

(* IndexOfObject *)
Definition c_index_of (c : cont) (v : Z) (k : cnt) : N * cnt :=
  match objlist c with
  | None => (0, k)
  | Some a => find_loop (N.to_nat (num c)) 0 a v k
  end.

(* AddUniqueObject *)
Definition c_add_unique (c : cont) (v : Z) (k : cnt) : cont * cnt * N :=
  let '(index, k1) := c_index_of c v k in
  if index =? 0 then c_add c v k1 else (c, k1, index).

(* SetObjectAt (index in range) *)
Definition c_set_at (c : cont) (i : N) (v : Z) (k : cnt) : cont * cnt :=
  let '(a, k1) := assign (blk_of c) (i - 1) v k in (upd_blk c a, k1).

(* AddObjectAt (index > 0) *)
Definition c_add_at (c : cont) (i : N) (v : Z) (k : cnt) : cont * cnt :=
  let '(c1, k1) := if maxo c <? i then c_resize c i k else (c, k) in
  let '(c2, k2) :=
    if num c1 <? i then
      let '(a, k') := iter_up (construct_step defv) (N.to_nat (i - num c1)) (num c1) (blk_of c1, k1) in
      (upd_blk (mkC (objlist c1) i (maxo c1)) a, k')
    else (c1, k1) in
  c_set_at c2 i v k2.

(* InsertObjectAt *)
Definition c_insert (c : cont) (i : N) (v : Z) (k : cnt) : cont * cnt :=
  if (i =? 0) || (num c + 1 <? i) then (c, k)
  else
    let n1 := num c + 1 in
    let ai := i - 1 in
    if maxo c <? n1 then
      match objlist c with
      | None =>
          let '(a, k1) := iter_up (construct_step defv) (N.to_nat ai) 0 (fresh, k) in
          let '(a2, k2) := construct a ai v k1 in
          (mkC (Some a2) n1 n1, k2)
      | Some temp =>
          let '(t1, d1, k1) := iter_up move_destroy_step (N.to_nat ai) 0 (temp, fresh, k) in
          let '(d2, k2) := construct d1 ai v k1 in
          let '(_, d3, k3) := iter_up (move_destroy_off_step 1) (N.to_nat (n1 - 1 - ai)) ai (t1, d2, k2) in
          (mkC (Some d3) n1 n1, k3)
      end
    else
      let last := n1 - 1 in
      if ai =? last then
        (* appended: the cell behind the last element holds no object yet *)
        let '(a1, k1) := construct (blk_of c) last v k in
        (upd_blk (mkC (objlist c) n1 (maxo c)) a1, k1)
      else
        (* new(objlist + last) Type(std::move_if_noexcept(objlist[last - 1])) *)
        let '(x, a0, k0) := take (blk_of c) (last - 1) k in
        let '(a1, k1) := construct a0 last x k0 in
        let '(a2, k2) := iter_down shift_up_step (N.to_nat (last - 1 - ai)) (last - 1) (a1, k1) in
        let '(a3, k3) := assign a2 ai v k2 in
        (upd_blk (mkC (objlist c) n1 (maxo c)) a3, k3).

(* RemoveObjectAt : Some i = OutOfRangeContainerException(i) *)
Definition c_remove_at (c : cont) (i : N) (k : cnt) : cont * cnt * option N :=
  if (i =? 0) || (num c <? i) then (c, k, Some i)
  else
    let n1 := num c - 1 in
    let '(a, k1) := iter_up shift_down_step (N.to_nat (n1 - (i - 1))) (i - 1) (blk_of c, k) in
    let '(a2, k2) := destroy a n1 k1 in
    (upd_blk (mkC (objlist c) n1 (maxo c)) a2, k2, None).

(* RemoveObject(const Type&) *)
Definition c_remove (c : cont) (v : Z) (k : cnt) : cont * cnt * option N :=
  let '(index, k1) := c_index_of c v k in
  if index =? 0 then (c, k1, None) else c_remove_at c index k1.

(* RemoveObject(const Type* ) with the pointer objlist + off *)
Definition c_remove_ptr (c : cont) (off : N) (k : cnt) : cont * cnt * option N :=
  if num c <=? off then (c, k, None) else c_remove_at c (off + 1) k.

(* SetNumObjects *)
Definition c_set_num (c : cont) (n : N) (k : cnt) : cont * cnt :=
  let '(c1, k1) := if maxo c <? n then c_resize c n k else (c, k) in
  let start := num c1 in
  (* shrinking: for (i = numelements; i < startNum; ++i) objlist[i].~Type(); *)
  let '(a0, k2) := iter_up destroy_step (N.to_nat (start - n)) n (blk_of c1, k1) in
  (* numobjects = numelements; growing: for (i = startNum; i < numobjects; ++i) new(objlist + i) Type(); *)
  let '(a, k3) := iter_up (construct_step defv) (N.to_nat (n - start)) start (a0, k2) in
  (upd_blk (mkC (objlist c1) n (maxo c1)) a, k3).

(* SetNumObjectsUninitialized *)
Definition c_set_num_uninit (c : cont) (n : N) (k : cnt) : cont * cnt :=
  let '(c1, k1) := if maxo c <? n then c_resize c n k else (c, k) in
  (mkC (objlist c1) n (maxo c1), k1).

(* the caller's protocol around SetNumObjectsUninitialized: destruct what is cut off
   (through AddressOfObjectAt, which does not change numobjects for an index <= numobjects),
   resize, construct what was added with v *)
Definition c_set_num_u (c : cont) (n : N) (v : Z) (k : cnt) : cont * cnt :=
  let old := num c in
  let '(a, k1) := iter_up destroy_step (N.to_nat (old - n)) n (blk_of c, k) in
  let '(c2, k2) := c_set_num_uninit (upd_blk c a) n k1 in
  let '(a3, k3) := iter_up (construct_step v) (N.to_nat (n - old)) old (blk_of c2, k2) in
  (upd_blk c2 a3, k3).

(* Shrink *)
Definition c_shrink (c : cont) (k : cnt) : cont * cnt :=
  match objlist c with
  | None => (c, k)
  | Some a =>
      if num c =? 0 then (c, k)
      else
        let '(_, dst, k1) := iter_up move_destroy_step (N.to_nat (num c)) 0 (a, fresh, k) in
        (mkC (Some dst) (num c) (num c), k1)
  end.

(* ClearObjectList *)
Definition c_clear (c : cont) (k : cnt) : cont * cnt :=
  match objlist c with
  | None => (c, k)
  | Some a =>
      if num c =? 0 then (c, k)
      else
        let '(a1, k1) := iter_up destroy_step (N.to_nat (num c)) 0 (a, k) in
        (mkC (Some a1) 0 (maxo c), k1)
  end.

(* Sort: qsort(objlist, numobjects, sizeof(Type), compare) *)
Fixpoint seqN (i : N) (n : nat) : list N :=
  match n with O => [] | S n' => i :: seqN (i + 1) n' end.

Fixpoint cinsert (x : cell) (l : list cell) : list cell :=
  match l with
  | [] => [x]
  | y :: l' => if Z.leb (peek x) (peek y) then x :: l else y :: cinsert x l'
  end.

Fixpoint csort (l : list cell) : list cell :=
  match l with [] => [] | x :: l' => cinsert x (csort l') end.

Fixpoint write_list (a : blk) (i : N) (l : list cell) : blk :=
  match l with [] => a | x :: l' => write_list (set a i x) (i + 1) l' end.

Definition c_sort (c : cont) (k : cnt) : cont * cnt :=
  match objlist c with
  | None => (c, k)
  | Some a =>
      let cells := map (get a) (seqN 0 (N.to_nat (num c))) in
      (mkC (Some (write_list a 0 (csort cells))) (num c) (maxo c), k)
  end.

(* Copy(container) for this <> &container; c = this, d = container *)
Definition c_copy (c d : cont) (k : cnt) : cont * cnt :=
  let '(_, k1) := c_free c k in
  (* numobjects = container.numobjects; maxobjects = container.maxobjects; objlist = nullptr *)
  let c1 := mkC None (num d) (maxo d) in
  match objlist d with
  | None => (c1, k1)
  | Some da =>
      if maxo d =? 0 then (c1, k1)
      else
        let '(c2, k2) := c_resize c1 (maxo d) k1 in
        if num d =? 0 then (c2, k2)
        else
          let '(a, k3) := iter_up (copy_ctor_step da) (N.to_nat (num d)) 0 (blk_of c2, k2) in
          (upd_blk c2 a, k3)
  end.

(* ---- the client ---------------------------------------------------------------------- *)
Inductive op :=
| OAdd (s : N) (v : Z)              (* AddObject(const Type&) *)
| OAddDef (s : N)                   (* AddObject() *)
| OAddNew (s : N) (v : Z)           (* new(container) Type(v) *)
| OAddUnique (s : N) (v : Z)
| OAddAt (s i : N) (v : Z)
| OInsertAt (s i : N) (v : Z)
| OSetAt (s i : N) (v : Z)
| ORemoveAt (s i : N)
| ORemove (s : N) (v : Z)           (* RemoveObject(const Type&) *)
| ORemovePtr (s off : N)            (* RemoveObject(Data() + off) *)
| OObjectAt (s i : N)
| OIndexOf (s : N) (v : Z)
| OInList (s : N) (v : Z)
| OResize (s n : N)
| OSetNum (s n : N)
| OSetNumU (s n : N) (v : Z)        (* SetNumObjectsUninitialized in its caller's protocol *)
| OShrink (s : N)
| OClear (s : N)
| OFree (s : N)
| OSort (s : N)
| OCtor (s : N)                     (* s.~Container(); new (&s) Container() *)
| OCtorN (s n : N)                  (* s.~Container(); new (&s) Container(n) *)
| OCopyCtor (s t : N)               (* s.~Container(); new (&s) Container(t) *)
| OMoveCtor (s t : N)               (* s.~Container(); new (&s) Container(std::move(t)) *)
| OCopyAssign (s t : N)             (* s = t *)
| OMoveAssign (s t : N).            (* s = std::move(t) *)

Inductive ret := RNone | RVal (z : Z) | RErr (i : N) | RPre.

Record st := mkSt { slots : arr cont; cn : cnt }.

Definition init : st := mkSt (aempty cempty) (mkCnt 0 0).

Definition put (s : st) (i : N) (ck : cont * cnt) : st :=
  mkSt (set (slots s) i (fst ck)) (snd ck).

Definition put_r (s : st) (i : N) (r : cont * cnt * N) : st * ret :=
  let '(c, k, x) := r in (mkSt (set (slots s) i c) k, RVal (Z.of_N x)).

Definition put_e (s : st) (i : N) (r : cont * cnt * option N) : st * ret :=
  let '(c, k, e) := r in
  (mkSt (set (slots s) i c) k, match e with Some x => RErr x | None => RNone end).

(* the slots an operation names *)
Definition op_slots (o : op) : list N :=
  match o with
  | OAdd s _ | OAddDef s | OAddNew s _ | OAddUnique s _ | OAddAt s _ _ | OInsertAt s _ _
  | OSetAt s _ _ | ORemoveAt s _ | ORemove s _ | ORemovePtr s _ | OObjectAt s _
  | OIndexOf s _ | OInList s _ | OResize s _ | OSetNum s _ | OSetNumU s _ _ | OShrink s
  | OClear s | OFree s | OSort s | OCtor s | OCtorN s _ => [s]
  | OCopyCtor s t | OMoveCtor s t | OCopyAssign s t | OMoveAssign s t => [s; t]
  end.

Definition slots_ok (ns : N) (o : op) : bool :=
  forallb (fun s => s <? ns) (op_slots o).

Definition step (ns : N) (s : st) (o : op) : st * ret :=
  if negb (slots_ok ns o) then (s, RPre)
  else
    let sl := slots s in
    let k := cn s in
    match o with
    | OAdd i v => put_r s i (c_add (get sl i) v k)
    | OAddDef i => put_r s i (c_add_def (get sl i) k)
    | OAddNew i v => put_r s i (c_add_new (get sl i) v k)
    | OAddUnique i v => put_r s i (c_add_unique (get sl i) v k)
    | OAddAt i x v =>
        if x =? 0 then (s, RPre) else (put s i (c_add_at (get sl i) x v k), RNone)
    | OInsertAt i x v => (put s i (c_insert (get sl i) x v k), RNone)
    | OSetAt i x v =>
        if (x =? 0) || (num (get sl i) <? x) then (s, RPre)
        else (put s i (c_set_at (get sl i) x v k), RNone)
    | ORemoveAt i x => put_e s i (c_remove_at (get sl i) x k)
    | ORemove i v => put_e s i (c_remove (get sl i) v k)
    | ORemovePtr i off =>
        if num (get sl i) <? off then (s, RPre) else put_e s i (c_remove_ptr (get sl i) off k)
    | OObjectAt i x =>
        let c := get sl i in
        if (x =? 0) || (num c <? x) then (s, RPre)
        else (s, RVal (peek (get (blk_of c) (x - 1))))
    | OIndexOf i v =>
        let '(r, k1) := c_index_of (get sl i) v k in (mkSt sl k1, RVal (Z.of_N r))
    | OInList i v =>
        let '(r, k1) := c_index_of (get sl i) v k in
        (mkSt sl k1, RVal (if r =? 0 then 0%Z else 1%Z))
    | OResize i n => (put s i (c_resize (get sl i) n k), RNone)
    | OSetNum i n => (put s i (c_set_num (get sl i) n k), RNone)
    | OSetNumU i n v => (put s i (c_set_num_u (get sl i) n v k), RNone)
    | OShrink i => (put s i (c_shrink (get sl i) k), RNone)
    | OClear i => (put s i (c_clear (get sl i) k), RNone)
    | OFree i => (put s i (c_free (get sl i) k), RNone)
    | OSort i => (put s i (c_sort (get sl i) k), RNone)
    | OCtor i => (put s i (c_free (get sl i) k), RNone)
    | OCtorN i n =>
        let '(_, k1) := c_free (get sl i) k in
        (put s i (c_resize cempty n k1), RNone)
    | OCopyCtor i j =>
        if i =? j then (s, RPre)
        else
          let '(_, k1) := c_free (get sl i) k in
          (put s i (c_copy cempty (get sl j) k1), RNone)
    | OMoveCtor i j =>
        if i =? j then (s, RPre)
        else
          let '(_, k1) := c_free (get sl i) k in
          let d := get sl j in
          (mkSt (set (set sl i (mkC (objlist d) (num d) (maxo d))) j cempty) k1, RNone)
    | OCopyAssign i j =>
        if i =? j then (s, RNone)                      (* Copy: &container == this *)
        else (put s i (c_copy (get sl i) (get sl j) k), RNone)
    | OMoveAssign i j =>
        let '(c1, k1) := c_free (get sl i) k in
        let sl1 := set sl i c1 in
        let d := get sl1 j in
        (mkSt (set (set sl1 i (mkC (objlist d) (num d) (maxo d))) j cempty) k1, RNone)
    end.

(* ---- observation --------------------------------------------------------------------- *)
Record obs := mkObs { o_ret : ret; o_slots : list (list Z); o_live : Z; o_bad : N }.

Definition contents (c : cont) : list Z :=
  map (fun i => peek (get (blk_of c) i)) (seqN 0 (N.to_nat (num c))).

Definition slot_ids (ns : N) : list N := seqN 0 (N.to_nat ns).

Definition observe (ns : N) (s : st) (r : ret) : obs :=
  mkObs r (map (fun i => contents (get (slots s) i)) (slot_ids ns)) (live (cn s)) (bad (cn s)).

Definition caps (ns : N) (s : st) : list N :=
  map (fun i => maxo (get (slots s) i)) (slot_ids ns).

(* observation and MaxObjects() of every slot after every operation *)
Fixpoint run_from (ns : N) (s : st) (ops : list op) : list (obs * list N) :=
  match ops with
  | [] => []
  | o :: ops' =>
      let '(s', r) := step ns s o in
      (observe ns s' r, caps ns s') :: run_from ns s' ops'
  end.

Definition run_full (ns : N) (ops : list op) : list (obs * list N) := run_from ns init ops.

Definition run (ns : N) (ops : list op) : list obs := map fst (run_full ns ops).
