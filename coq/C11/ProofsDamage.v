(* C11/ProofsDamage.v - truncation, type-tag and header substitution of a written archive:
   instances of the generic theorems of C11/ProofsGeneric.v, through the round-trip lemma of
   C10 (the reader succeeds on the intact archive and consumes all of it) and the layout
   theorem of C11/ProofsLayout.v. *)
From Coq Require Import ZArith NArith List Bool Lia.
From Morfuse Require Import Base.Arr Base.ListX C10.Model C10.Spec C10.ProofsLib C10.ProofsWrite C10.ProofsRead C10.Proofs.
From Morfuse Require Import C11.Generated C11.Model C11.Spec C11.ProofsGeneric C11.ProofsLayout.
Import ListNotations.
Local Open Scope N_scope.

(* ------------------------------------------------------- the written bytes are bytes *)

Lemma small_le_encode w v : small (le_encode w v).
Proof. apply le_encode_bytes. Qed.

Lemma small_rec t p : small p -> small (rec_bytes t p).
Proof. intro H. unfold rec_bytes. apply small_app. split; [apply small_le_encode|exact H]. Qed.

Lemma small_wf_bytes bs : wf_bytes bs = true -> small bs.
Proof.
  unfold wf_bytes, small. rewrite forallb_forall, Forall_forall. intros H x Hx. apply N.ltb_lt. now apply H.
Qed.

Lemma small_wf_cstr bs : wf_cstr bs = true -> small bs.
Proof.
  unfold wf_cstr, small. rewrite forallb_forall, Forall_forall. intros H x Hx.
  specialize (H x Hx). apply andb_true_iff in H as [_ H]. now apply N.ltb_lt.
Qed.

Lemma small_w_str bs : small bs -> small (w_str bs).
Proof.
  intro H. unfold w_str. apply small_app. split; [apply small_rec, small_le_encode|].
  destruct bs; [constructor|now apply small_rec].
Qed.

Lemma small_class_name c : small (class_name c).
Proof.
  destruct (N.ltb_spec c 3) as [L|L].
  - assert (c = 0 \/ c = 1 \/ c = 2) as [ -> | [ -> | -> ] ] by lia; repeat constructor.
  - rewrite class_name_big by exact L. repeat constructor.
Qed.

Lemma small_w_cstr s : (forall bs, s = Some bs -> small bs) -> small (w_cstr s).
Proof.
  intro H. destruct s as [bs|]; cbn [w_cstr].
  - apply small_app. split; [repeat constructor|]. apply small_w_str. now apply H.
  - repeat constructor.
Qed.

Lemma small_enc_ptr F safe t : small (enc_ptr F safe t).
Proof. unfold enc_ptr. apply small_rec, small_le_encode. Qed.

Lemma small_enc_ptrs F ts : small (enc_ptrs F ts).
Proof.
  induction ts as [|t r IH]; cbn [enc_ptrs]; [constructor|].
  apply small_app. split; [apply small_enc_ptr|exact IH].
Qed.

Lemma small_u32 v : small (u32 v).
Proof. unfold u32. apply small_rec, small_le_encode. Qed.

Lemma small_enc_new F hid c : small c -> small (enc_new F hid c).
Proof.
  intro H. unfold enc_new. apply small_app. split; [repeat constructor|].
  apply small_app. split; [apply small_rec, small_le_encode|exact H].
Qed.

Lemma small_enc_tbody F b : wf_body b = true -> small (enc_tbody F b).
Proof.
  destruct b as [|bs|k v|s|k x|hid rc tl thr tli count|hid rc size|pid ts|k [hid|]|bs]; cbn [enc_tbody wf_body]; intro H.
  - constructor.
  - now apply small_w_str, small_wf_bytes.
  - apply small_rec, small_le_encode.
  - apply small_w_cstr. intros bs ->. now apply small_wf_bytes.
  - apply small_enc_ptr.
  - apply small_enc_new. repeat (apply small_app; split; [apply small_u32|]). apply small_rec, small_le_encode.
  - apply small_enc_new. apply small_app. split; apply small_u32.
  - apply small_enc_new. apply small_app. split; [apply small_u32|apply small_enc_ptrs].
  - apply small_app. split; [repeat constructor|apply small_enc_ptr].
  - constructor.
  - apply andb_true_iff in H as [H _]. apply small_wf_bytes in H.
    repeat (apply small_app; split; [now apply small_rec|]). now apply small_rec.
Qed.

Lemma small_enc_toks F ts : forallb (fun t => wf_body (t_body t)) ts = true -> small (enc_toks F ts).
Proof.
  induction ts as [|t r IH]; cbn [forallb enc_toks]; intro H; [constructor|].
  apply andb_true_iff in H as [H1 H2]. apply small_app. split; [|now apply IH].
  unfold enc_tok. apply small_app. split; [apply small_rec, small_le_encode|].
  apply small_app. split; [|now apply small_enc_tbody].
  apply small_rec. constructor; [|constructor].
  destruct (t_body t) as [|bs|[]|s|[]|hid rc tl thr tli count|hid rc size|pid ts|[]|bs]; vm_compute; reflexivity.
Qed.

Lemma small_enc_leaf F l : wf_leaf l = true -> small (enc_leaf F l).
Proof.
  destruct l as [k v|bs|bs|s [t|]|id|key toks]; cbn [enc_leaf wf_leaf]; intro H;
    try (apply small_rec, small_le_encode).
  - now apply small_rec, small_wf_bytes.
  - now apply small_w_str, small_wf_bytes.
  - apply andb_true_iff in H as [H _]. apply andb_true_iff in H as [Hk Hb].
    apply small_app. split; [|now apply small_enc_toks].
    destruct key as [k|]; cbn [w_key]; [|constructor].
    apply small_w_cstr. intros bs ->. now apply small_wf_bytes.
Qed.

Lemma small_enc_leaves F ls : forallb wf_leaf ls = true -> small (enc_leaves F ls).
Proof.
  induction ls as [|l r IH]; cbn [forallb enc_leaves]; intro H; [constructor|].
  apply andb_true_iff in H as [H1 H2]. apply small_app. split; [now apply small_enc_leaf|now apply IH].
Qed.

Lemma small_enc_item F it : wf_item it = true -> small (enc_item F it).
Proof.
  destruct it as [l|c id body]; cbn [enc_item wf_item]; intro H; [now apply small_enc_leaf|].
  assert (Hb : small (enc_body F c body)).
  { unfold enc_body, listener_flag. apply small_app. split; [|now apply small_enc_leaves].
    destruct (is_listener c); [repeat constructor|constructor]. }
  apply small_app; split; [apply small_le_encode|].
  apply small_app; split; [apply small_le_encode|].
  apply small_app; split; [apply small_w_str, small_class_name|].
  apply small_app; split; [apply small_rec, small_le_encode|exact Hb].
Qed.

Lemma small_enc_items F its : forallb wf_item its = true -> small (enc_items F its).
Proof.
  induction its as [|l r IH]; cbn [forallb enc_items]; intro H; [constructor|].
  apply andb_true_iff in H as [H1 H2]. apply small_app. split; [now apply small_enc_item|now apply IH].
Qed.

Lemma small_write_header h n : wf_hdr h = true -> small (write_header h n).
Proof.
  unfold wf_hdr. intro H.
  repeat match goal with Hx : (_ && _) = true |- _ => apply andb_true_iff in Hx; destruct Hx end.
  unfold write_header.
  apply small_app; split; [now apply small_wf_cstr|].
  apply small_app; split; [apply small_rec, small_le_encode|].
  apply small_app; split; [apply small_rec, small_le_encode|].
  apply small_app; split; [now apply small_w_str, small_wf_cstr|apply small_rec, small_le_encode].
Qed.

(* ---------------------------------------------------- the facts about an intact archive *)

Record intact_facts (h : hdr) (its : list item) (F : list N) : Prop := {
  if_bytes : write h its = write_header h (nlen F) ++ enc_items F its;
  if_ok : Forall (item_ok F) its;
  if_F : nlen F < 2147483648;
  if_ver : h_version h < 65536;
  if_name : nlen (h_name h) < 256 ^ 8;
  if_small : small (write h its);
  if_ids : incl (flat_map ids_item its) F }.

Lemma intact h its : wf_case h its = true -> exists F, intact_facts h its F.
Proof.
  intro Hwf. pose proof Hwf as H. unfold wf_case, wf_hdr, wf_items in H.
  repeat match goal with Hx : (_ && _) = true |- _ => apply andb_true_iff in Hx; destruct Hx end.
  repeat match goal with Hx : (_ <? _) = true |- _ => apply N.ltb_lt in Hx end.
  destruct (write_as_enc h its) as (F & Hw & Hin & Hlen); [assumption|].
  pose proof (count_le_size_items its) as Hc.
  exists F. constructor; try assumption.
  - now apply items_ok.
  - lia.
  - change (256 ^ 8) with 18446744073709551616. lia.
  - rewrite Hw. apply small_app. split; [|now apply small_enc_items].
    apply small_write_header. unfold wf_case in Hwf. now apply andb_true_iff in Hwf as [Hh _].
Qed.

Lemma intact_run caf vor h its F :
  intact_facts h its F ->
  run caf (reader vor h (shape its)) (Good 0 (write h its)) =
  Ok (reg_ids F (regs_items its) (st0 F), map (pend_item F) its)
     (Good (Z.of_N (nlen (write_header h (nlen F)) + nlen (enc_items F its))) []).
Proof.
  intros [Hb Hok HF Hv Hn _ _]. rewrite Hb.
  pose proof (reader_enc caf vor h F its [] Hv Hn Hok HF) as R. now rewrite app_nil_r in R.
Qed.

(* -------------------------------------------------------------------- truncation *)

Theorem truncation_detected h its n :
  wf_case h its = true -> n < nlen (write h its) ->
  read_damaged h its (DTrunc n) = OErr ReadStreamFail.
Proof.
  intros Hwf Hn. destruct (intact h its Hwf) as (F & I).
  unfold read_damaged, read_cur, read, apply_damage.
  change check_after_read with true.
  rewrite (truncation_generic _ 0 (write h its) _ _ [] n (intact_run true _ h its F I)); [reflexivity|].
  change (nlen (@nil N)) with 0. lia.
Qed.

(* ------------------------------------------------------- type tags and the header *)

Lemma read_of_run_err caf vor h shs bytes e :
  run caf (reader vor h shs) (Good 0 bytes) = Err e -> read caf vor h shs bytes = OErr e.
Proof. intro H. unfold read. now rewrite H. Qed.

Theorem tag_substitution_detected h its i v o :
  wf_case h its = true ->
  nth_N (wlayout h its) i = Some CTag -> nth_N (write h its) i = Some o -> v <> o -> v < 256 ->
  exists t f, read_damaged h its (DSubst [(i, v)]) = OErr (TypeError t f).
Proof.
  intros Hwf Hl Hb Hne Hv. destruct (intact h its Hwf) as (F & I).
  rewrite <- (rlayout_is_wlayout h its Hwf) in Hl. unfold rlayout in Hl.
  destruct (tag_header_generic check_after_read _ 0 (write h its) _ _ i v o
              (intact_run check_after_read version_test_is_or h its F I) (if_small _ _ _ I) Hv Hb Hne) as [T _].
  specialize (T Hl). unfold is_type_error in T.
  unfold read_damaged, read_cur, apply_damage. cbn [fold_left fst snd].
  destruct (run check_after_read (reader version_test_is_or h (shape its)) (Good 0 (subst1 (write h its) i v))) as [a s|e|] eqn:E;
    try contradiction.
  destruct e; try contradiction. exists expected, found. now apply read_of_run_err.
Qed.

Theorem header_substitution_detected h its i v o :
  wf_case h its = true ->
  nth_N (wlayout h its) i = Some CHeader -> nth_N (write h its) i = Some o -> v <> o -> v < 256 ->
  read_damaged h its (DSubst [(i, v)]) = OErr InvalidArchiveHeader.
Proof.
  intros Hwf Hl Hb Hne Hv. destruct (intact h its Hwf) as (F & I).
  rewrite <- (rlayout_is_wlayout h its Hwf) in Hl. unfold rlayout in Hl.
  destruct (tag_header_generic check_after_read _ 0 (write h its) _ _ i v o
              (intact_run check_after_read version_test_is_or h its F I) (if_small _ _ _ I) Hv Hb Hne) as [_ T].
  specialize (T Hl).
  unfold read_damaged, read_cur, apply_damage. cbn [fold_left fst snd]. now apply read_of_run_err.
Qed.
