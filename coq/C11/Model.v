(* C11/Model.v - damaged archives.  The reader is the one of C10/Model.v (the program
   [reader], interpreted by [run]) with the two decisions taken as C11/Generated.v reads
   them off /repo/src/Script/Archiver.cpp.  This file adds: the damage operations
   (truncation at a byte, substitution of bytes), the byte layout of an archive - the
   class of every byte: header, type tag, version payload, object size bracket, class
   name, other payload - once as the writer lays the bytes out ([wlayout]) and once as
   the reader consumes them ([classes]), and the outcome of reading a damaged archive.
   Abstractions: those of C10/Model.v. *)
From Coq Require Import ZArith NArith List Bool.
From Morfuse Require Import Base.Arr C10.Model C11.Generated.
Import ListNotations.
Local Open Scope N_scope.

Inductive fclass := CHeader | CTag | CP (c : pclass).

(* ------------------------------------------------------------ layout, writer side *)

Definition lay_rec (c : pclass) (n : nat) : list fclass := repeat CTag 4 ++ repeat (CP c) n.

Definition lay_str (c : pclass) (bs : list N) : list fclass :=
  lay_rec POther 8 ++ match bs with [] => [] | _ => lay_rec c (length bs) end.

(* script variables: tags and payloads only *)
Definition lay_ptr : list fclass := lay_rec POther 4.

Definition lay_cstr (s : option (list N)) : list fclass :=
  lay_rec POther 1 ++ match s with Some bs => lay_str POther bs | None => [] end.

Definition lay_new (content : list fclass) : list fclass :=
  lay_rec POther 1 ++ lay_rec POther 4 ++ content.

Definition lay_tbody (b : tbody (option N)) : list fclass :=
  match b with
  | TNone => []
  | TStr bs => lay_str POther bs
  | TPrim k _ => lay_rec POther (vp_width k)
  | TCStr s => lay_cstr s
  | TPtr _ _ => lay_ptr
  | TArrayNew _ _ _ _ _ _ =>
      lay_new (lay_rec POther 4 ++ lay_rec POther 4 ++ lay_rec POther 4 ++ lay_rec POther 4 ++ lay_rec POther 2)
  | TConstArrayNew _ _ _ => lay_new (lay_rec POther 4 ++ lay_rec POther 4)
  | TPointerNew _ ts => lay_new (lay_rec POther 4 ++ flat_map (fun _ => lay_ptr) ts)
  | THolderRef _ None => []
  | THolderRef _ (Some _) => lay_rec POther 1 ++ lay_ptr
  | TVector bs => lay_rec POther (length bs) ++ lay_rec POther (length bs) ++ lay_rec POther (length bs)
  end.

Definition lay_tok (t : tok (option N)) : list fclass :=
  lay_rec POther 4 ++ lay_rec POther 1 ++ lay_tbody (t_body t).

Definition lay_key (key : option (option (list N))) : list fclass :=
  match key with None => [] | Some k => lay_cstr k end.

Definition lay_leaf (l : leaf) : list fclass :=
  match l with
  | LPrim k _ => lay_rec POther (pwidth k)
  | LRaw bs => lay_rec POther (length bs)
  | LStr bs => lay_str POther bs
  | LPtr _ _ => lay_rec POther 4
  | LPos _ => lay_rec POther 4
  | LVar key toks => lay_key key ++ flat_map lay_tok toks
  end.

Definition lay_item (it : item) : list fclass :=
  match it with
  | ILeaf l => lay_leaf l
  | IObj c _ body =>
      repeat CTag 4 ++ repeat (CP PSize) 8 ++ lay_str PName (class_name c) ++ lay_rec POther 4 ++
      (if is_listener c then lay_rec POther 1 else []) ++ flat_map lay_leaf body
  end.

Definition lay_header (h : hdr) : list fclass :=
  repeat CHeader (length (h_magic h)) ++ lay_rec PVer 2 ++ lay_rec PVer 2 ++
  lay_str POther (h_name h) ++ lay_rec POther 4.

Definition wlayout (h : hdr) (its : list item) : list fclass :=
  lay_header h ++ flat_map lay_item its.

(* ------------------------------------------------------------ layout, reader side *)

(* the class of every byte the program consumes on its (successful) way through bs *)
Fixpoint classes {A} (p : prog A) (pos : Z) (bs : list N) : list fclass :=
  match p with
  | Ret _ => []
  | Fail _ => []
  | Undefined => []
  | Tell cont => classes (cont pos) pos bs
  | Read c k cont =>
      match take bs k with
      | Some (a, b) => repeat (CP c) (length a) ++ classes (cont (Bytes a)) (pos + Z.of_N k) b
      | None => []
      end
  | ReadTag t cont =>
      match take bs 4 with
      | Some (a, b) => if le_decode a =? t then repeat CTag 4 ++ classes cont (pos + 4) b else []
      | None => []
      end
  | ReadMagic m cont =>
      match take bs (nlen m) with
      | Some (a, b) =>
          if list_eqb a m then repeat CHeader (length m) ++ classes cont (pos + Z.of_N (nlen m)) b else []
      | None => []
      end
  end.

Definition rlayout (h : hdr) (its : list item) : list fclass :=
  classes (reader version_test_is_or h (shape its)) 0 (write h its).

(* --------------------------------------------------------------------- damage *)

Inductive damage :=
| DTrunc (n : N)                       (* the first n bytes survive *)
| DSubst (l : list (N * N)).           (* (position, new byte) *)

Fixpoint subst1 (bs : list N) (i : N) (v : N) : list N :=
  match bs with
  | [] => []
  | x :: r => if i =? 0 then v :: r else x :: subst1 r (i - 1) v
  end.

Definition truncate (bs : list N) (n : N) : list N :=
  match take bs n with Some (a, _) => a | None => bs end.

Definition apply_damage (d : damage) (bs : list N) : list N :=
  match d with
  | DTrunc n => truncate bs n
  | DSubst l => fold_left (fun b iv => subst1 b (fst iv) (snd iv)) l bs
  end.

(* reading with the current code's decisions *)
Definition read_cur (h : hdr) (its : list item) (bytes : list N) : outcome :=
  read check_after_read version_test_is_or h (shape its) bytes.

Definition read_damaged (h : hdr) (its : list item) (d : damage) : outcome :=
  read_cur h its (apply_damage d (write h its)).

Definition run_damages (h : hdr) (its : list item) (ds : list damage) : list outcome :=
  map (read_damaged h its) ds.
