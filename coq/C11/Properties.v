(* placeholder until the proofs are in *)
From Coq Require Import NArith List.
From Morfuse Require Import C10.Model C11.Model C11.Spec.
