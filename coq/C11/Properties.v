(* C11/Properties.v - the property theorems of C11, and nothing else.
   Every theorem is closed by [exact <lemma>] and followed by Print Assumptions.
   [read_damaged h its d] reads the archive [write h its] after damage d with the call
   sequence of its, under the decisions that C11/Generated.v reads off Archiver.cpp
   (check_after_read, version_test_is_or): if a repair is reverted there, Generated.v
   changes and the theorems below no longer check.  Positions are classified by the
   writer's layout [wlayout]; [C11_the_reader_consumes_the_bytes_as_the_writer_laid_them_out]
   shows it is also the way the reader consumes the archive. *)
From Coq Require Import ZArith NArith List Bool.
From Morfuse Require Import C10.Model C10.Spec C11.Generated C11.Model C11.Spec.
From Morfuse Require Import C11.ProofsGeneric C11.ProofsLayout C11.ProofsDamage C11.ProofsStruct C11.ProofsObject C11.Proofs.
Import ListNotations.
Local Open Scope N_scope.

(* an archive cut off at ANY byte - every strict prefix of every representable archive -
   ends the read with ReadStreamFail: it neither completes nor runs on unwritten memory *)
Theorem C11_truncation_detected :
  forall h its n, wf_case h its = true -> n < nlen (write h its) ->
    read_damaged h its (DTrunc n) = OErr ReadStreamFail.
Proof. exact truncation_detected. Qed.
Print Assumptions C11_truncation_detected.

(* any other byte value in any byte of any type tag (of the version records, of every
   primitive / string / raw / pointer / position / object record, inside object bodies) *)
Theorem C11_tag_substitution_detected :
  forall h its i v o, wf_case h its = true ->
    nth_N (wlayout h its) i = Some CTag -> nth_N (write h its) i = Some o -> v <> o -> v < 256 ->
    exists t f, read_damaged h its (DSubst [(i, v)]) = OErr (TypeError t f).
Proof. exact tag_substitution_detected. Qed.
Print Assumptions C11_tag_substitution_detected.

Theorem C11_header_substitution_detected :
  forall h its i v o, wf_case h its = true ->
    nth_N (wlayout h its) i = Some CHeader -> nth_N (write h its) i = Some o -> v <> o -> v < 256 ->
    read_damaged h its (DSubst [(i, v)]) = OErr InvalidArchiveHeader.
Proof. exact header_substitution_detected. Qed.
Print Assumptions C11_header_substitution_detected.

(* one changed byte in the engine version OR in the program version: WrongVersion *)
Theorem C11_version_substitution_detected :
  forall h its i v o, wf_case h its = true ->
    nth_N (wlayout h its) i = Some (CP PVer) -> nth_N (write h its) i = Some o -> v <> o -> v < 256 ->
    read_damaged h its (DSubst [(i, v)]) = OErr WrongVersion.
Proof. exact version_substitution_detected. Qed.
Print Assumptions C11_version_substitution_detected.

Theorem C11_size_substitution_detected :
  forall h its i v o, wf_case h its = true ->
    nth_N (wlayout h its) i = Some (CP PSize) -> nth_N (write h its) i = Some o -> v <> o -> v < 256 ->
    read_damaged h its (DSubst [(i, v)]) = OErr ReadPastEndObject \/
    read_damaged h its (DSubst [(i, v)]) = OErr NotReadEntireDataObject.
Proof. exact size_substitution_detected. Qed.
Print Assumptions C11_size_substitution_detected.

(* a changed class-name byte: InvalidClass or ObjectClassError - unless it is the same
   letter in the other case (ClassDef::GetClass compares with str::icmp): then the name
   still resolves to the same class and the archive reads exactly as the intact one *)
Theorem C11_class_name_substitution_detected :
  forall h its i v o, wf_case h its = true ->
    nth_N (wlayout h its) i = Some (CP PName) -> nth_N (write h its) i = Some o -> v <> o -> v < 256 ->
    (upper v <> upper o ->
       read_damaged h its (DSubst [(i, v)]) = OErr InvalidClass \/
       read_damaged h its (DSubst [(i, v)]) = OErr ObjectClassError) /\
    (upper v = upper o -> read_damaged h its (DSubst [(i, v)]) = OOk (spec_items its)).
Proof. exact class_name_substitution_detected. Qed.
Print Assumptions C11_class_name_substitution_detected.

(* all of the above against the executable expectation of C11/Spec.v (the "s" lines) *)
Theorem C11_a_single_damage_meets_the_expectation :
  forall h its d, wf_case h its = true ->
    (match d with DTrunc _ => True | DSubst [(i, v)] => v < 256 | DSubst _ => False end) ->
    match expect_of h its d with
    | EErr => is_err (read_damaged h its d)
    | EOkSame => read_damaged h its d = OOk (spec_items its)
    | EAny => True
    end.
Proof. exact single_damage_meets_expectation. Qed.
Print Assumptions C11_a_single_damage_meets_the_expectation.

Theorem C11_the_reader_consumes_the_bytes_as_the_writer_laid_them_out :
  forall h its, wf_case h its = true -> rlayout h its = wlayout h its.
Proof. exact rlayout_is_wlayout. Qed.
Print Assumptions C11_the_reader_consumes_the_bytes_as_the_writer_laid_them_out.

(* generic: ANY reader program that succeeds on a stream fails with ReadStreamFail on every
   strict prefix of what it consumed, as long as short reads are reported *)
Theorem C11_any_reader_reports_any_truncation :
  forall (A : Type) (p : prog A) pos bs a pos' r n,
    run true p (Good pos bs) = Ok a (Good pos' r) -> n + nlen r < nlen bs ->
    run true p (Good pos (truncate bs n)) = Err ReadStreamFail.
Proof. exact @truncation_generic. Qed.
Print Assumptions C11_any_reader_reports_any_truncation.

(* why the two repairs matter (the code before them, caf = false / vor = false) *)
Theorem C11_truncation_refuted_when_unchecked :
  exists h its n, wf_case h its = true /\ n < nlen (write h its) /\
    forall e, read false true h (shape its) (truncate (write h its) n) <> OErr e.
Proof. exact truncation_refuted_when_unchecked. Qed.
Print Assumptions C11_truncation_refuted_when_unchecked.

Theorem C11_version_refuted_when_and :
  exists h its i v o, wf_case h its = true /\ nth_N (wlayout h its) i = Some (CP PVer) /\
    nth_N (write h its) i = Some o /\ v <> o /\ v < 256 /\
    read true false h (shape its) (subst1 (write h its) i v) = OOk (spec_items its).
Proof. exact version_refuted_when_and. Qed.
Print Assumptions C11_version_refuted_when_and.

(* non-vacuity *)
Definition ex_items : list item :=
  [ ILeaf (LPtr true (Some 5)); IObj 2 5 [LPrim KUInt8 0; LPrim KInt16 32768; LPtr false (Some 5); LStr [200; 1]]; ILeaf (LStr []) ].

Example C11_example_layout :
  wf_case ex_h ex_items = true /\ nlen (write ex_h ex_items) = 140 /\
  nth_N (wlayout ex_h ex_items) 0 = Some CHeader /\ nth_N (wlayout ex_h ex_items) 14 = Some (CP PVer) /\
  nth_N (wlayout ex_h ex_items) 51 = Some CTag /\ nth_N (wlayout ex_h ex_items) 55 = Some (CP PSize) /\
  nth_N (wlayout ex_h ex_items) 79 = Some (CP PName).
Proof. vm_compute. repeat split; reflexivity. Qed.

Example C11_example_outcomes :
  run_damages ex_h ex_items [DTrunc 0; DTrunc 60; DTrunc 126; DSubst [(0, 0)]; DSubst [(14, 2)]; DSubst [(51, 12)];
                             DSubst [(55, 0)]; DSubst [(55, 200)]; DSubst [(79, 118)]; DSubst [(79, 0)]; DSubst [(80, 111)]] =
  [OErr ReadStreamFail; OErr ReadStreamFail; OErr ReadStreamFail; OErr InvalidArchiveHeader; OErr WrongVersion;
   OErr (TypeError 13 12); OErr ReadPastEndObject; OErr NotReadEntireDataObject; OOk ex_items; OErr InvalidClass;
   OErr InvalidClass].
Proof. vm_compute. reflexivity. Qed.
