(* C11/ProofsObject.v - substitution in the size bracket or the class name of an object. *)
From Coq Require Import ZArith NArith List Bool Lia.
From Morfuse Require Import Base.Arr Base.ListX C10.Model C10.Spec C10.ProofsLib C10.ProofsWrite C10.ProofsRead C10.Proofs.
From Morfuse Require Import C11.Generated C11.Model C11.Spec C11.ProofsGeneric C11.ProofsLayout C11.ProofsDamage C11.ProofsStruct.
Import ListNotations.
Local Open Scope N_scope.

Lemma reader_header_run caf vor h n shs rest :
  h_version h < 65536 -> nlen (h_name h) < 256 ^ 8 -> n < 4294967296 ->
  run caf (reader vor h shs) (Good 0 (write_header h n ++ rest)) =
  run caf (r_items shs (mkRst n (aempty None)) (fun st vs => Ret (st, vs)))
      (Good (Z.of_N (nlen (write_header h n))) rest).
Proof.
  intros Hv Hname Hn. rewrite nlen_write_header.
  unfold reader, write_header. rewrite <- !app_assoc.
  rewrite run_ReadMagic.
  rewrite run_record; [|vm_compute; reflexivity|apply nlen_le_encode].
  rewrite run_record; [|vm_compute; reflexivity|apply nlen_le_encode].
  rewrite le_decode_encode by (vm_compute; reflexivity).
  rewrite le_decode_encode by (change (256 ^ N.of_nat 2) with 65536; exact Hv).
  rewrite !N.eqb_refl. cbn [negb orb andb].
  assert (Hif : (if vor then false else false) = false) by (destruct vor; reflexivity).
  rewrite Hif.
  rewrite r_str_enc by exact Hname.
  rewrite run_record; [|vm_compute; reflexivity|apply nlen_le_encode].
  rewrite le_decode_encode by (change (256 ^ N.of_nat 4) with 4294967296; exact Hn).
  f_equal. f_equal. rewrite nlen_w_str. change (N.of_nat 2) with 2. change (N.of_nat 4) with 4. lia.
Qed.

Lemma r_items_prefix {A} caf F pre : forall more st (cont : rst -> list pitem -> prog A) pos tail,
  Forall (item_ok F) pre -> r_num st = nlen F -> nlen F < 2147483648 ->
  run caf (r_items (shape pre ++ more) st cont) (Good pos (enc_items F pre ++ tail)) =
  run caf (r_items more (reg_ids F (regs_items pre) st) (fun st2 vs => cont st2 (map (pend_item F) pre ++ vs)))
      (Good (pos + Z.of_N (nlen (enc_items F pre))) tail).
Proof.
  unfold shape, regs_items.
  induction pre as [|it r IH]; intros more st cont pos tail Hok Hn HF; cbn [map app r_items enc_items flat_map].
  - cbn [reg_ids fold_left]. f_equal. f_equal. unfold nlen; cbn. lia.
  - inversion Hok as [|? ? Hl Hr]; subst. rewrite <- app_assoc.
    rewrite r_item_enc by assumption.
    rewrite IH; [|assumption|now rewrite reg_ids_num|assumption].
    rewrite reg_ids_app. f_equal. f_equal. rewrite nlen_app. lia.
Qed.

Definition obj_bytes (F : list N) (c id : N) (body : list leaf) (sz' nm' : list N) : list N :=
  le_encode 4 T_Object ++ sz' ++ w_str nm' ++ rec_bytes T_UInteger (le_encode 4 (idx F id)) ++ enc_body F c body.

(* how reading an object ends when its size bracket / class name hold arbitrary bytes *)
Definition obj_verdict {A} (c : N) (actual : N) (sz' nm' : list N) (X : res A) : res A :=
  match lookup_class nm' with
  | None => Err InvalidClass
  | Some c' =>
      if negb (c' =? norm_class c) then Err ObjectClassError
      else if (to_signed64 (le_decode sz') <? Z.of_N actual)%Z then Err ReadPastEndObject
      else if (Z.of_N actual <? to_signed64 (le_decode sz'))%Z then Err NotReadEntireDataObject
      else X
  end.

Lemma r_obj_general {A} caf F st c id body (cont : rst -> pitem -> prog A) pos tail sz' nm' :
  Forall (leaf_ok F) body -> In id F -> r_num st = nlen F -> nlen F < 2147483648 ->
  nlen sz' = 8 -> nm' <> [] -> nlen nm' = nlen (class_name c) ->
  run caf (r_item st (IObj c id (map shape_leaf body)) cont) (Good pos (obj_bytes F c id body sz' nm' ++ tail)) =
  obj_verdict c (nlen (enc_body F c body)) sz' nm'
    (run caf (cont (reg_ids F (flat_map reg_leaf body ++ [id]) st) (PObj c id (map (pend_leaf F) body)))
         (Good (pos + Z.of_N (4 + 8 + nlen (w_str (class_name c)) + 8 + nlen (enc_body F c body))) tail)).
Proof.
  intros Hb Hid Hn HF Hsz Hne Hnm.
  pose proof (idx_in_range F id Hid) as R.
  assert (Hws : nlen (w_str nm') = nlen (w_str (class_name c))).
  { rewrite !nlen_w_str. unfold size_str. destruct nm' as [|x nm']; [contradiction|].
    destruct (class_name c) as [|y cn] eqn:En; [rewrite nlen_cons in Hnm; change (nlen (@nil N)) with 0 in Hnm; lia|].
    rewrite !nlen_cons in *. lia. }
  unfold obj_bytes, obj_verdict. cbn [r_item]. rewrite <- !app_assoc.
  rewrite run_ReadTag by (vm_compute; reflexivity).
  rewrite run_Read by exact Hsz.
  rewrite r_str_enc by (rewrite Hnm; apply class_name_len).
  destruct (lookup_class nm') as [c'|]; [|reflexivity].
  destruct (negb (c' =? norm_class c)); [reflexivity|].
  rewrite run_record; [|vm_compute; reflexivity|apply nlen_le_encode].
  rewrite run_Tell.
  change (enc_body F c body ++ tail) with ((listener_flag c ++ enc_leaves F body) ++ tail).
  rewrite <- app_assoc.
  rewrite r_listener_flag_enc.
  rewrite r_leaves_enc by assumption.
  rewrite run_Tell.
  match goal with
  | |- context [(?a + Z.of_N (nlen (listener_flag c)) + Z.of_N (nlen (enc_leaves F body)) - ?a)%Z] =>
      replace (a + Z.of_N (nlen (listener_flag c)) + Z.of_N (nlen (enc_leaves F body)) - a)%Z
        with (Z.of_N (nlen (enc_body F c body))) by (unfold enc_body; rewrite nlen_app; lia)
  end.
  destruct (to_signed64 (le_decode sz') <? Z.of_N (nlen (enc_body F c body)))%Z; [reflexivity|].
  destruct (Z.of_N (nlen (enc_body F c body)) <? to_signed64 (le_decode sz'))%Z; [reflexivity|].
  rewrite le_decode_encode by (change (256 ^ N.of_nat 4) with 4294967296; lia).
  rewrite add_at_reg; [|assumption|now rewrite reg_ids_num].
  rewrite <- reg_ids_app.
  f_equal. f_equal. rewrite Hws. unfold enc_body. rewrite nlen_app. change (N.of_nat 4) with 4. lia.
Qed.

(* the run of the whole reader over an archive whose object y = IObj c id body (between pre
   and post) holds arbitrary bytes in its size bracket and class name *)
Lemma damaged_obj_run caf vor h F pre c id body post :
  intact_facts h (pre ++ IObj c id body :: post) F ->
  exists X : res (rst * list pitem), forall sz' nm',
    nlen sz' = 8 -> nm' <> [] -> nlen nm' = nlen (class_name c) ->
    run caf (reader vor h (shape (pre ++ IObj c id body :: post)))
        (Good 0 (write_header h (nlen F) ++ enc_items F pre ++ obj_bytes F c id body sz' nm' ++ enc_items F post)) =
    obj_verdict c (nlen (enc_body F c body)) sz' nm' X.
Proof.
  intros [Hb Hok HF Hv Hn _ Hids].
  apply Forall_app in Hok as [Hpre Hrest]. inversion Hrest as [|? ? Hy Hpost]; subst.
  destruct Hy as (Hbody & Hid & Hsz).
  eexists. intros sz' nm' H1 H2 H3.
  rewrite reader_header_run; [|assumption|assumption|lia].
  unfold shape at 1. rewrite map_app. cbn [map]. fold (shape pre). fold (shape post).
  rewrite r_items_prefix; [|assumption|reflexivity|assumption].
  cbn [r_items shape_item].
  rewrite r_obj_general; [|assumption|assumption|now rewrite reg_ids_num|assumption|assumption|assumption|assumption].
  reflexivity.
Qed.

Lemma obj_bytes_intact F c id body :
  enc_item F (IObj c id body) = obj_bytes F c id body (le_encode 8 (nlen (enc_body F c body))) (class_name c).
Proof. reflexivity. Qed.

Lemma class_name_nonempty c : class_name c <> [].
Proof.
  destruct (N.ltb_spec c 3) as [Lc|Lc].
  - assert (c = 0 \/ c = 1 \/ c = 2) as [ -> | [ -> | -> ] ] by lia; discriminate.
  - rewrite class_name_big by exact Lc. discriminate.
Qed.

Lemma le_decode_bound l : small l -> le_decode l < 256 ^ nlen l.
Proof.
  induction l as [|x l IH]; intro H; [vm_compute; reflexivity|].
  inversion H; subst. cbn [le_decode]. rewrite nlen_cons.
  replace (1 + nlen l) with (N.succ (nlen l)) by lia. rewrite N.pow_succ_r'. specialize (IH H3). lia.
Qed.

(* a wrong size always trips one of the two checks *)
Lemma wrong_size_verdict {A} c actual sz' (X : res A) :
  actual < 2147483648 -> le_decode sz' < 256 ^ 8 -> le_decode sz' <> actual ->
  obj_verdict c actual sz' (class_name c) X = Err ReadPastEndObject \/
  obj_verdict c actual sz' (class_name c) X = Err NotReadEntireDataObject.
Proof.
  intros Ha Hd Hne. unfold obj_verdict. rewrite lookup_class_name, N.eqb_refl. cbn [negb].
  unfold to_signed64. change (256 ^ 8) with 18446744073709551616 in Hd.
  destruct (N.ltb_spec (le_decode sz') 9223372036854775808) as [L|L].
  - destruct (Z.ltb_spec (Z.of_N (le_decode sz')) (Z.of_N actual)); [now left|].
    destruct (Z.ltb_spec (Z.of_N actual) (Z.of_N (le_decode sz'))); [now right|]. lia.
  - destruct (Z.ltb_spec (Z.of_N (le_decode sz') - 18446744073709551616) (Z.of_N actual)); [now left|]. lia.
Qed.

Lemma intact_verdict {A} c actual (X : res A) :
  actual < 2147483648 -> obj_verdict c actual (le_encode 8 actual) (class_name c) X = X.
Proof.
  intro Ha. unfold obj_verdict. rewrite lookup_class_name, N.eqb_refl. cbn [negb].
  rewrite le_decode_encode by (change (256 ^ N.of_nat 8) with 18446744073709551616; lia).
  rewrite to_signed64_small by lia. now rewrite Z.ltb_irrefl.
Qed.

(* --------------------------------------------------------------------- class names *)

Lemma until_nul_subst nm k v o :
  Forall (fun b => b <> 0) nm -> nth_N nm k = Some o ->
  map upper (until_nul (subst1 nm k v)) = map upper nm -> upper v = upper o.
Proof.
  revert k. induction nm as [|x nm IH]; intros k Hnz Hk E; cbn [nth_N subst1] in *; [discriminate|].
  inversion Hnz as [|? ? Hx Hnz']; subst.
  destruct (N.eqb_spec k 0).
  - inversion Hk; subst. cbn [until_nul] in E. destruct (N.eqb_spec v 0); cbn [map] in E; [discriminate|].
    now inversion E.
  - cbn [until_nul] in E. destruct (N.eqb_spec x 0); [contradiction|]. cbn [map] in E. inversion E.
    eapply IH; eauto.
Qed.

Lemma name_matches_eq nm c : name_matches nm c = true -> map upper (until_nul nm) = map upper (class_name c).
Proof. unfold name_matches. apply list_eqb_eq. Qed.

Lemma lookup_class_matches nm c' : lookup_class nm = Some c' -> name_matches nm c' = true.
Proof.
  unfold lookup_class.
  destruct (name_matches nm 0) eqn:E0; [intro H; inversion H; now subst|].
  destruct (name_matches nm 1) eqn:E1; [intro H; inversion H; now subst|].
  destruct (name_matches nm 2) eqn:E2; [intro H; inversion H; now subst|].
  destruct (name_matches nm 3) eqn:E3; [intro H; inversion H; now subst|discriminate].
Qed.

Lemma class_name_norm c : class_name (norm_class c) = class_name c.
Proof.
  unfold norm_class. destruct (N.ltb_spec c 3) as [L|L]; [reflexivity|]. now rewrite (class_name_big c L).
Qed.

Lemma class_name_nonzero c : Forall (fun b => b <> 0) (class_name c).
Proof.
  destruct (N.ltb_spec c 3) as [Lc|Lc].
  - assert (c = 0 \/ c = 1 \/ c = 2) as [ -> | [ -> | -> ] ] by lia; repeat constructor; discriminate.
  - rewrite class_name_big by exact Lc. repeat constructor; discriminate.
Qed.

(* ------------------------------------------------------------- the two theorems *)

Section Located.
  Variables (h : hdr) (F : list N) (pre post : list item) (c id : N) (body : list leaf).
  Let its := pre ++ IObj c id body :: post.
  Hypothesis I : intact_facts h its F.

  Let actual := nlen (enc_body F c body).

  Lemma actual_small : actual < 2147483648.
  Proof.
    destruct I as [_ Hok _ _ _ _ _]. apply Forall_app in Hok as [_ Hr]. inversion Hr as [|? ? Hy _]; subst.
    destruct Hy as (_ & _ & Hsz). cbn [size_item] in Hsz. unfold actual. rewrite nlen_enc_body. lia.
  Qed.

  Lemma bytes_split :
    write h its = write_header h (nlen F) ++ enc_items F pre ++
                  obj_bytes F c id body (le_encode 8 actual) (class_name c) ++ enc_items F post.
  Proof. rewrite (if_bytes _ _ _ I). unfold its. rewrite enc_items_app. cbn [enc_items]. reflexivity. Qed.

  (* offset of the object in the archive = offset of its layout *)
  Lemma obj_offset : nlen (lay_header h) + nlen (flat_map lay_item pre) = nlen (write_header h (nlen F) ++ enc_items F pre).
  Proof. rewrite nlen_app, (nlen_lay_header h (nlen F)), (nlen_lay_items F). reflexivity. Qed.

  Lemma size_damage k v o :
    k < 8 -> v < 256 -> v <> o ->
    nth_N (write h its) (nlen (lay_header h) + (nlen (flat_map lay_item pre) + (4 + k))) = Some o ->
    read_damaged h its (DSubst [(nlen (lay_header h) + (nlen (flat_map lay_item pre) + (4 + k)), v)]) = OErr ReadPastEndObject \/
    read_damaged h its (DSubst [(nlen (lay_header h) + (nlen (flat_map lay_item pre) + (4 + k)), v)]) = OErr NotReadEntireDataObject.
  Proof.
    intros Hk Hv Hne Hb.
    unfold read_damaged, read_cur, apply_damage. cbn [fold_left fst snd].
    rewrite bytes_split in *.
    set (PRE := (write_header h (nlen F) ++ enc_items F pre) ++ le_encode 4 T_Object).
    set (FLD := le_encode 8 actual) in *.
    set (POST := w_str (class_name c) ++ rec_bytes T_UInteger (le_encode 4 (idx F id)) ++ enc_body F c body ++ enc_items F post).
    assert (E : write_header h (nlen F) ++ enc_items F pre ++ obj_bytes F c id body FLD (class_name c) ++ enc_items F post =
                PRE ++ FLD ++ POST).
    { unfold PRE, FLD, POST, obj_bytes. now rewrite <- !app_assoc. }
    assert (Hp : nlen (lay_header h) + (nlen (flat_map lay_item pre) + (4 + k)) = nlen PRE + k).
    { unfold PRE. rewrite nlen_app, <- obj_offset, nlen_le_encode. change (N.of_nat 4) with 4. lia. }
    rewrite E, Hp in *. clear E Hp.
    assert (Hkf : k < nlen FLD) by (unfold FLD; rewrite nlen_le_encode; exact Hk).
    rewrite field_nth in Hb by exact Hkf. rewrite field_subst by exact Hkf.
    assert (E2 : PRE ++ subst1 FLD k v ++ POST =
                 write_header h (nlen F) ++ enc_items F pre ++ obj_bytes F c id body (subst1 FLD k v) (class_name c) ++ enc_items F post).
    { unfold PRE, POST, obj_bytes. now rewrite <- !app_assoc. }
    rewrite E2. clear E2.
    destruct (damaged_obj_run check_after_read version_test_is_or h F pre c id body post I) as (X & HX).
    fold its in HX.
    assert (Hsm : small (subst1 FLD k v)) by (apply subst1_small; [apply small_le_encode|exact Hv]).
    pose proof (le_decode_bound _ Hsm) as Hbd. rewrite nlen_subst1 in Hbd. unfold FLD in Hbd at 2. rewrite nlen_le_encode in Hbd.
    assert (Hdn : le_decode (subst1 FLD k v) <> actual).
    { intro E. apply (decode_subst_neq FLD k v o); try assumption; [apply small_le_encode|].
      rewrite E. unfold FLD. rewrite le_decode_encode; [reflexivity|].
      pose proof actual_small. change (256 ^ N.of_nat 8) with 18446744073709551616. lia. }
    destruct (wrong_size_verdict c actual (subst1 FLD k v) X actual_small Hbd Hdn) as [W|W]; [left|right];
      apply read_of_run_err; rewrite HX; try exact W;
      try (rewrite nlen_subst1; apply nlen_le_encode); try apply class_name_nonempty; try reflexivity.
  Qed.

  Lemma name_damage k v o :
    k < nlen (class_name c) -> v < 256 -> v <> o -> wf_case h its = true ->
    nth_N (write h its) (nlen (lay_header h) + (nlen (flat_map lay_item pre) + (4 + 8 + 12 + 4 + k))) = Some o ->
    let d := DSubst [(nlen (lay_header h) + (nlen (flat_map lay_item pre) + (4 + 8 + 12 + 4 + k)), v)] in
    nth_N (class_name c) k = Some o /\
    read_damaged h its d =
      match lookup_class (subst1 (class_name c) k v) with
      | None => OErr InvalidClass
      | Some c' => if c' =? norm_class c then OOk (spec_items its) else OErr ObjectClassError
      end.
  Proof.
    intros Hk Hv Hne Hwf Hb d. subst d.
    unfold read_damaged, read_cur, apply_damage. cbn [fold_left fst snd].
    pose proof (round_trip check_after_read version_test_is_or h its Hwf) as RT. unfold read in RT.
    rewrite bytes_split in *.
    pose proof (class_name_nonempty c) as Hne0.
    set (PRE := (write_header h (nlen F) ++ enc_items F pre) ++ le_encode 4 T_Object ++ le_encode 8 actual ++
                rec_bytes T_Size (le_encode 8 (nlen (class_name c))) ++ le_encode 4 T_Raw).
    set (POST := rec_bytes T_UInteger (le_encode 4 (idx F id)) ++ enc_body F c body ++ enc_items F post).
    assert (Hw : forall nm, nm <> [] -> nlen nm = nlen (class_name c) ->
                 write_header h (nlen F) ++ enc_items F pre ++ obj_bytes F c id body (le_encode 8 actual) nm ++ enc_items F post =
                 PRE ++ nm ++ POST).
    { intros nm Hn0 Hnl. unfold PRE, POST, obj_bytes, w_str. destruct nm as [|x nm]; [contradiction|].
      rewrite Hnl. unfold rec_bytes. now rewrite <- !app_assoc. }
    assert (Hp : nlen (lay_header h) + (nlen (flat_map lay_item pre) + (4 + 8 + 12 + 4 + k)) = nlen PRE + k).
    { unfold PRE. rewrite nlen_app, <- obj_offset. rewrite !nlen_app, nlen_rec, !nlen_le_encode.
      change (N.of_nat 4) with 4. change (N.of_nat 8) with 8. lia. }
    rewrite (Hw (class_name c) Hne0 eq_refl), Hp in *. clear Hp.
    rewrite field_nth in Hb by exact Hk. rewrite field_subst by exact Hk.
    assert (Hn1 : subst1 (class_name c) k v <> []).
    { intro E. apply (f_equal (@length N)) in E. rewrite subst1_length in E.
      destruct (class_name c); [contradiction|discriminate]. }
    assert (Hn2 : nlen (subst1 (class_name c) k v) = nlen (class_name c)) by apply nlen_subst1.
    rewrite <- (Hw _ Hn1 Hn2). rewrite <- (Hw (class_name c) Hne0 eq_refl) in RT.
    destruct (damaged_obj_run check_after_read version_test_is_or h F pre c id body post I) as (X & HX).
    fold its in HX.
    rewrite (HX (le_encode 8 actual) (class_name c)) in RT; [|apply nlen_le_encode|exact Hne0|reflexivity].
    rewrite intact_verdict in RT by exact actual_small.
    unfold read. rewrite (HX (le_encode 8 actual) (subst1 (class_name c) k v)); [|apply nlen_le_encode|exact Hn1|exact Hn2].
    split; [exact Hb|].
    unfold obj_verdict.
    destruct (lookup_class (subst1 (class_name c) k v)) as [c'|] eqn:El; [|reflexivity].
    destruct (N.eqb_spec c' (norm_class c)) as [Ec|Ec]; cbn [negb]; [|reflexivity].
    rewrite le_decode_encode by (pose proof actual_small; change (256 ^ N.of_nat 8) with 18446744073709551616; lia).
    rewrite to_signed64_small by (pose proof actual_small; lia). unfold actual. rewrite !Z.ltb_irrefl. exact RT.
  Qed.
End Located.
