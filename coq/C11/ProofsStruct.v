(* C11/ProofsStruct.v - substitution in a version record, an object size bracket, a class
   name.  The position is located in the writer's layout; the reader's run is followed
   through the header and the intact items in front of the damaged object (the CPS lemmas
   of C10/ProofsRead.v are frame lemmas), then through the damaged object itself. *)
From Coq Require Import ZArith NArith List Bool Lia.
From Morfuse Require Import Base.Arr Base.ListX C10.Model C10.Spec C10.ProofsLib C10.ProofsWrite C10.ProofsRead C10.Proofs.
From Morfuse Require Import C11.Generated C11.Model C11.Spec C11.ProofsGeneric C11.ProofsLayout C11.ProofsDamage.
Import ListNotations.
Local Open Scope N_scope.

(* --------------------------------------------------------------- lists and positions *)

Lemma nth_N_app_r {A} (a b : list A) j : nth_N (a ++ b) (nlen a + j) = nth_N b j.
Proof. rewrite nth_N_app. destruct (N.ltb_spec (nlen a + j) (nlen a)); [lia|]. f_equal. lia. Qed.

Lemma nth_N_app_l {A} (a b : list A) i : i < nlen a -> nth_N (a ++ b) i = nth_N a i.
Proof. intro H. rewrite nth_N_app. destruct (N.ltb_spec i (nlen a)); [reflexivity|lia]. Qed.

Lemma subst1_app_r a b j v : subst1 (a ++ b) (nlen a + j) v = a ++ subst1 b j v.
Proof. rewrite subst1_app. destruct (N.ltb_spec (nlen a + j) (nlen a)); [lia|]. do 2 f_equal. lia. Qed.

Lemma subst1_app_l a b i v : i < nlen a -> subst1 (a ++ b) i v = subst1 a i v ++ b.
Proof. intro H. rewrite subst1_app. destruct (N.ltb_spec i (nlen a)); [reflexivity|lia]. Qed.

Lemma nth_N_app_cases {A} (a b : list A) i x :
  nth_N (a ++ b) i = Some x ->
  (i < nlen a /\ nth_N a i = Some x) \/ (exists j, i = nlen a + j /\ nth_N b j = Some x).
Proof.
  rewrite nth_N_app. destruct (N.ltb_spec i (nlen a)) as [L|L]; intro H; [left; now split|].
  right. exists (i - nlen a). split; [lia|assumption].
Qed.

Lemma nth_N_in {A} (l : list A) i x : nth_N l i = Some x -> In x l.
Proof.
  revert i. induction l as [|y l IH]; intros i H; cbn [nth_N] in H; [discriminate|].
  destruct (i =? 0); [inversion H; now left|right; eapply IH; eauto].
Qed.

(* a field inside pre ++ fld ++ post *)
Lemma field_subst pre fld post j v :
  j < nlen fld -> subst1 (pre ++ fld ++ post) (nlen pre + j) v = pre ++ subst1 fld j v ++ post.
Proof. intro H. rewrite subst1_app_r. now rewrite subst1_app_l. Qed.

Lemma field_nth {A} (pre fld post : list A) j :
  j < nlen fld -> nth_N (pre ++ fld ++ post) (nlen pre + j) = nth_N fld j.
Proof. intro H. rewrite nth_N_app_r. now rewrite nth_N_app_l. Qed.

(* ------------------------------------------------------- which classes occur where *)

Lemma in_lay_rec c n x : In x (lay_rec c n) -> x = CTag \/ x = CP c.
Proof. unfold lay_rec. intro H. apply in_app_or in H as [H|H]; apply repeat_spec in H; auto. Qed.

Lemma in_lay_str c bs x : In x (lay_str c bs) -> x = CTag \/ x = CP POther \/ x = CP c.
Proof.
  unfold lay_str. intro H. apply in_app_or in H as [H|H].
  - apply in_lay_rec in H as [H|H]; auto.
  - destruct bs; [destruct H|]. apply in_lay_rec in H as [H|H]; auto.
Qed.

Lemma in_lay_cstr s x : In x (lay_cstr s) -> x = CTag \/ x = CP POther.
Proof.
  unfold lay_cstr. intro H. apply in_app_or in H as [H|H]; [apply in_lay_rec in H as [H|H]; auto|].
  destruct s; [|destruct H]. apply in_lay_str in H as [H|[H|H]]; auto.
Qed.

Lemma in_lay_new c x : (In x c -> x = CTag \/ x = CP POther) -> In x (lay_new c) -> x = CTag \/ x = CP POther.
Proof.
  intros Hc H. unfold lay_new in H. apply in_app_or in H as [H|H]; [apply in_lay_rec in H as [H|H]; auto|].
  apply in_app_or in H as [H|H]; [apply in_lay_rec in H as [H|H]; auto|auto].
Qed.

Ltac lay_apps H :=
  repeat (apply in_app_or in H as [H|H]; [apply in_lay_rec in H as [H|H]; auto|]).

Lemma in_lay_tbody b x : In x (lay_tbody b) -> x = CTag \/ x = CP POther.
Proof.
  destruct b as [|bs|k v|s|k t|hid rc tl thr tli count|hid rc size|pid ts|k [hid|]|bs]; cbn [lay_tbody]; intro H.
  - destruct H.
  - apply in_lay_str in H as [H|[H|H]]; auto.
  - apply in_lay_rec in H as [H|H]; auto.
  - now apply in_lay_cstr in H.
  - apply in_lay_rec in H as [H|H]; auto.
  - revert H. apply in_lay_new. intro H. lay_apps H. apply in_lay_rec in H as [H|H]; auto.
  - revert H. apply in_lay_new. intro H. lay_apps H. apply in_lay_rec in H as [H|H]; auto.
  - revert H. apply in_lay_new. intro H. lay_apps H.
    rewrite in_flat_map in H. destruct H as (t & _ & H). apply in_lay_rec in H as [H|H]; auto.
  - lay_apps H. apply in_lay_rec in H as [H|H]; auto.
  - destruct H.
  - lay_apps H. apply in_lay_rec in H as [H|H]; auto.
Qed.

Lemma in_lay_tok t x : In x (lay_tok t) -> x = CTag \/ x = CP POther.
Proof. unfold lay_tok. intro H. lay_apps H. now apply in_lay_tbody in H. Qed.

Lemma in_lay_leaf l x : In x (lay_leaf l) -> x = CTag \/ x = CP POther.
Proof.
  destruct l as [k v|bs|bs|s t|id|key toks]; cbn [lay_leaf]; intro H;
    try (apply in_lay_rec in H as [H|H]; auto; fail).
  - apply in_lay_str in H as [H|[H|H]]; auto.
  - apply in_app_or in H as [H|H].
    + destruct key as [k|]; cbn [lay_key] in H; [now apply in_lay_cstr in H|destruct H].
    + rewrite in_flat_map in H. destruct H as (t & _ & H). now apply in_lay_tok in H.
Qed.

Lemma in_lay_leaves ls x : In x (flat_map lay_leaf ls) -> x = CTag \/ x = CP POther.
Proof. rewrite in_flat_map. intros (l & _ & H). eapply in_lay_leaf; eauto. Qed.

Lemma nlen_lay_rec c n : nlen (lay_rec c n) = 4 + N.of_nat n.
Proof. unfold lay_rec. rewrite nlen_app, !nlen_repeat. reflexivity. Qed.

Lemma nlen_lay_str c bs : nlen (lay_str c bs) = size_str bs.
Proof.
  unfold lay_str, size_str. rewrite nlen_app, nlen_lay_rec.
  destruct bs; [unfold nlen; cbn; lia|]. rewrite nlen_lay_rec. fold (nlen (n :: bs)). change (N.of_nat 8) with 8. lia.
Qed.

Lemma nlen_lay_cstr s : nlen (lay_cstr s) = size_cstr s.
Proof.
  unfold lay_cstr, size_cstr. rewrite nlen_app, nlen_lay_rec. destruct s; [rewrite nlen_lay_str|]; change (nlen (@nil fclass)) with 0;
    change (N.of_nat 1) with 1; lia.
Qed.

Lemma nlen_lay_ptrs (ts : list (option N)) : nlen (flat_map (fun _ => lay_ptr) ts) = 8 * nlen ts.
Proof.
  induction ts as [|t r IH]; cbn [flat_map]; [reflexivity|].
  rewrite nlen_app, IH, nlen_cons. unfold lay_ptr. rewrite nlen_lay_rec. change (N.of_nat 4) with 4. lia.
Qed.

Lemma nlen_lay_tbody b : nlen (lay_tbody b) = size_body b.
Proof.
  destruct b as [|bs|k v|s|k t|hid rc tl thr tli count|hid rc size|pid ts|k [hid|]|bs]; cbn [lay_tbody size_body];
    unfold lay_new, lay_ptr;
    rewrite ?nlen_app, ?nlen_lay_str, ?nlen_lay_cstr, ?nlen_lay_ptrs, ?nlen_lay_rec; try reflexivity;
    change (N.of_nat 4) with 4; change (N.of_nat 2) with 2; change (N.of_nat 1) with 1; try lia.
  fold (nlen bs). lia.
Qed.

Lemma nlen_lay_toks ts : nlen (flat_map lay_tok ts) = size_toks ts.
Proof.
  induction ts as [|t r IH]; cbn [flat_map size_toks]; [reflexivity|].
  rewrite nlen_app, IH. unfold lay_tok. rewrite !nlen_app, !nlen_lay_rec, nlen_lay_tbody.
  change (N.of_nat 4) with 4. change (N.of_nat 1) with 1. lia.
Qed.

Lemma nlen_lay_leaf l : nlen (lay_leaf l) = size_leaf l.
Proof.
  destruct l as [k v|bs|bs|s t|id|key toks]; cbn [lay_leaf size_leaf]; rewrite ?nlen_lay_str, ?nlen_lay_rec; try reflexivity.
  rewrite nlen_app, nlen_lay_toks. destruct key as [k|]; cbn [lay_key size_key]; [now rewrite nlen_lay_cstr|reflexivity].
Qed.

Lemma nlen_lay_leaves ls : nlen (flat_map lay_leaf ls) = size_leaves ls.
Proof.
  induction ls as [|l r IH]; cbn [flat_map size_leaves]; [reflexivity|].
  now rewrite nlen_app, nlen_lay_leaf, IH.
Qed.

Lemma nlen_lay_item it : nlen (lay_item it) = size_item it.
Proof.
  destruct it as [l|c id body]; cbn [lay_item size_item]; [apply nlen_lay_leaf|].
  rewrite !nlen_app, !nlen_repeat, nlen_lay_str, nlen_lay_rec, nlen_lay_leaves.
  destruct (is_listener c); [rewrite nlen_lay_rec|]; change (N.of_nat 4) with 4; change (N.of_nat 8) with 8;
    change (N.of_nat 1) with 1; change (nlen (@nil fclass)) with 0; lia.
Qed.

Lemma nlen_lay_items F its : nlen (flat_map lay_item its) = nlen (enc_items F its).
Proof.
  induction its as [|it r IH]; cbn [flat_map enc_items]; [reflexivity|].
  now rewrite !nlen_app, nlen_lay_item, nlen_enc_item, IH.
Qed.

Lemma nlen_lay_header h n : nlen (lay_header h) = nlen (write_header h n).
Proof.
  rewrite nlen_write_header. unfold lay_header.
  rewrite !nlen_app, nlen_repeat, !nlen_lay_rec, nlen_lay_str. fold (nlen (h_magic h)).
  change (N.of_nat 2) with 2. change (N.of_nat 4) with 4. lia.
Qed.

Lemma enc_items_app F a b : enc_items F (a ++ b) = enc_items F a ++ enc_items F b.
Proof. induction a as [|x a IH]; cbn [app enc_items]; [reflexivity|]. now rewrite IH, app_assoc. Qed.

(* locating a class in the items *)
Lemma locate_item its : forall j x,
  nth_N (flat_map lay_item its) j = Some x ->
  exists pre y post o, its = pre ++ y :: post /\ j = nlen (flat_map lay_item pre) + o /\ nth_N (lay_item y) o = Some x.
Proof.
  induction its as [|it r IH]; intros j x H; cbn [flat_map] in H; [discriminate|].
  apply nth_N_app_cases in H as [[L H]|(j' & -> & H)].
  - exists [], it, r, j. split; [reflexivity|]. split; [cbn; unfold nlen; cbn; lia|assumption].
  - destruct (IH _ _ H) as (pre & y & post & o & -> & -> & Ho).
    exists (it :: pre), y, post, o. split; [reflexivity|]. split; [|assumption].
    cbn [flat_map]. rewrite nlen_app. lia.
Qed.

(* in an object: where the size bracket and the class name are *)
Lemma locate_in_obj c id body o x :
  nth_N (lay_item (IObj c id body)) o = Some x -> x = CP PSize \/ x = CP PName ->
  (x = CP PSize /\ exists k, k < 8 /\ o = 4 + k) \/
  (x = CP PName /\ exists k, k < nlen (class_name c) /\ o = 4 + 8 + 12 + 4 + k).
Proof.
  cbn [lay_item]. intros H Hx.
  apply nth_N_app_cases in H as [[L H]|(o1 & -> & H)].
  { apply nth_N_repeat in H. destruct Hx; congruence. }
  rewrite nlen_repeat. change (N.of_nat 4) with 4.
  apply nth_N_app_cases in H as [[L H]|(o2 & -> & H)].
  { rewrite nlen_repeat in L. apply nth_N_repeat in H. left. split; [assumption|]. exists o1. split; [exact L|reflexivity]. }
  rewrite nlen_repeat. change (N.of_nat 8) with 8.
  apply nth_N_app_cases in H as [[L H]|(o3 & -> & H)].
  { unfold lay_str in H. apply nth_N_app_cases in H as [[L1 H]|(o4 & -> & H)].
    - apply nth_N_in, in_lay_rec in H. destruct H, Hx; congruence.
    - rewrite nlen_lay_rec. change (N.of_nat 8) with 8.
      assert (Hne : class_name c <> []).
      { destruct (N.ltb_spec c 3) as [Lc|Lc].
        - assert (c = 0 \/ c = 1 \/ c = 2) as [ -> | [ -> | -> ] ] by lia; discriminate.
        - rewrite class_name_big by exact Lc. discriminate. }
      destruct (class_name c) as [|b0 nm] eqn:En; [contradiction|]. rewrite <- En in *.
      unfold lay_rec in H. apply nth_N_app_cases in H as [[L2 H]|(o5 & -> & H)].
      + apply nth_N_repeat in H. destruct Hx; congruence.
      + rewrite nlen_repeat. change (N.of_nat 4) with 4.
        pose proof (nth_N_some_lt _ _ _ H) as L3. rewrite nlen_repeat in L3. fold (nlen (class_name c)) in L3.
        apply nth_N_repeat in H. right. split; [assumption|]. exists o5. split; [exact L3|lia]. }
  apply nth_N_app_cases in H as [[L H]|(o4 & -> & H)].
  { apply nth_N_in, in_lay_rec in H. destruct H, Hx; congruence. }
  apply nth_N_app_cases in H as [[L H]|(o5 & -> & H)].
  { destruct (is_listener c); [|discriminate]. apply nth_N_in, in_lay_rec in H. destruct H, Hx; congruence. }
  apply nth_N_in, in_lay_leaves in H. destruct H, Hx; congruence.
Qed.

Lemma no_obj_class_in_leaf l o x : nth_N (lay_leaf l) o = Some x -> x <> CP PSize /\ x <> CP PName /\ x <> CP PVer /\ x <> CHeader.
Proof. intro H. apply nth_N_in, in_lay_leaf in H. destruct H; subst; repeat split; discriminate. Qed.

Lemma header_classes h i x :
  nth_N (lay_header h) i = Some x -> x <> CP PSize /\ x <> CP PName.
Proof.
  unfold lay_header. intro H. apply nth_N_in in H.
  apply in_app_or in H as [H|H]; [apply repeat_spec in H; subst; split; discriminate|].
  apply in_app_or in H as [H|H]; [apply in_lay_rec in H as [H|H]; subst; split; discriminate|].
  apply in_app_or in H as [H|H]; [apply in_lay_rec in H as [H|H]; subst; split; discriminate|].
  apply in_app_or in H as [H|H]; [apply in_lay_str in H as [H|[H|H]]; subst; split; discriminate|].
  apply in_lay_rec in H as [H|H]; subst; split; discriminate.
Qed.

Lemma item_classes it o x : nth_N (lay_item it) o = Some x -> x <> CP PVer /\ x <> CHeader.
Proof.
  destruct it as [l|c id body]; [intro H; now apply no_obj_class_in_leaf in H|].
  cbn [lay_item]. intro H. apply nth_N_in in H.
  apply in_app_or in H as [H|H]; [apply repeat_spec in H; subst; split; discriminate|].
  apply in_app_or in H as [H|H]; [apply repeat_spec in H; subst; split; discriminate|].
  apply in_app_or in H as [H|H]; [apply in_lay_str in H as [H|[H|H]]; subst; split; discriminate|].
  apply in_app_or in H as [H|H]; [apply in_lay_rec in H as [H|H]; subst; split; discriminate|].
  apply in_app_or in H as [H|H].
  - destruct (is_listener c); [|destruct H]. apply in_lay_rec in H as [H|H]; subst; split; discriminate.
  - apply in_lay_leaves in H as [H|H]; subst; split; discriminate.
Qed.

(* ---------------------------------------------------------------- version records *)

Lemma reader_wrong_version caf h shs a1 a2 rest :
  nlen a1 = 2 -> nlen a2 = 2 -> le_decode a1 <> ARCHIVE_VERSION \/ le_decode a2 <> h_version h ->
  run caf (reader true h shs)
      (Good 0 (h_magic h ++ rec_bytes T_UShort a1 ++ rec_bytes T_UShort a2 ++ rest)) = Err WrongVersion.
Proof.
  intros H1 H2 Hbad. unfold reader. rewrite run_ReadMagic.
  rewrite run_record; [|vm_compute; reflexivity|exact H1].
  rewrite run_record; [|vm_compute; reflexivity|exact H2].
  destruct (N.eqb_spec (le_decode a1) ARCHIVE_VERSION); destruct (N.eqb_spec (le_decode a2) (h_version h));
    cbn [negb orb]; try reflexivity. destruct Hbad; contradiction.
Qed.

Lemma locate_version h its i :
  nth_N (wlayout h its) i = Some (CP PVer) ->
  exists k, k < 2 /\ (i = nlen (h_magic h) + 4 + k \/ i = nlen (h_magic h) + 6 + 4 + k).
Proof.
  unfold wlayout. intro H.
  apply nth_N_app_cases in H as [[L H]|(j & -> & H)].
  2:{ apply locate_item in H as (pre & y & post & o & _ & _ & Ho). apply item_classes in Ho. destruct Ho as [Ho _]. congruence. }
  unfold lay_header in H.
  apply nth_N_app_cases in H as [[L1 H]|(j1 & -> & H)]; [apply nth_N_repeat in H; discriminate|].
  rewrite nlen_repeat. fold (nlen (h_magic h)).
  apply nth_N_app_cases in H as [[L2 H]|(j2 & -> & H)].
  { unfold lay_rec in H. apply nth_N_app_cases in H as [[L3 H]|(j3 & -> & H)]; [apply nth_N_repeat in H; discriminate|].
    rewrite nlen_repeat. change (N.of_nat 4) with 4.
    apply nth_N_some_lt in H. rewrite nlen_repeat in H. change (N.of_nat 2) with 2 in H.
    exists j3. split; [exact H|left; lia]. }
  rewrite nlen_lay_rec. change (N.of_nat 2) with 2.
  apply nth_N_app_cases in H as [[L3 H]|(j3 & -> & H)].
  { unfold lay_rec in H. apply nth_N_app_cases in H as [[L4 H]|(j4 & -> & H)]; [apply nth_N_repeat in H; discriminate|].
    rewrite nlen_repeat. change (N.of_nat 4) with 4.
    apply nth_N_some_lt in H. rewrite nlen_repeat in H. change (N.of_nat 2) with 2 in H.
    exists j4. split; [exact H|right; lia]. }
  apply nth_N_in in H. apply in_app_or in H as [H|H].
  - apply in_lay_str in H as [H|[H|H]]; discriminate.
  - apply in_lay_rec in H as [H|H]; discriminate.
Qed.

Theorem version_substitution_detected h its i v o :
  wf_case h its = true ->
  nth_N (wlayout h its) i = Some (CP PVer) -> nth_N (write h its) i = Some o -> v <> o -> v < 256 ->
  read_damaged h its (DSubst [(i, v)]) = OErr WrongVersion.
Proof.
  intros Hwf Hl Hb Hne Hv. destruct (intact h its Hwf) as (F & I).
  destruct (locate_version h its i Hl) as (k & Hk & Hi).
  unfold read_damaged, read_cur, apply_damage. cbn [fold_left fst snd].
  apply read_of_run_err. change version_test_is_or with true.
  rewrite (if_bytes _ _ _ I) in *. unfold write_header in *.
  set (REST := w_str (h_name h) ++ rec_bytes T_UInteger (le_encode 4 (nlen F))) in *.
  destruct Hi as [-> | ->].
  - (* engine version *)
    assert (E : (h_magic h ++ rec_bytes T_UShort (le_encode 2 ARCHIVE_VERSION) ++ rec_bytes T_UShort (le_encode 2 (h_version h)) ++ REST) ++ enc_items F its =
                (h_magic h ++ le_encode 4 T_UShort) ++ le_encode 2 ARCHIVE_VERSION ++
                (rec_bytes T_UShort (le_encode 2 (h_version h)) ++ REST ++ enc_items F its)).
    { unfold rec_bytes. now rewrite <- !app_assoc. }
    rewrite E in *. clear E.
    assert (Hp : nlen (h_magic h) + 4 + k = nlen (h_magic h ++ le_encode 4 T_UShort) + k)
      by (rewrite nlen_app, nlen_le_encode; reflexivity).
    rewrite Hp in *. rewrite field_nth in Hb by (rewrite nlen_le_encode; exact Hk).
    rewrite field_subst by (rewrite nlen_le_encode; exact Hk).
    rewrite <- app_assoc. change (le_encode 4 T_UShort ++ subst1 (le_encode 2 ARCHIVE_VERSION) k v ++ ?x)
      with (le_encode 4 T_UShort ++ subst1 (le_encode 2 ARCHIVE_VERSION) k v ++ x).
    replace (le_encode 4 T_UShort ++ (subst1 (le_encode 2 ARCHIVE_VERSION) k v ++
              rec_bytes T_UShort (le_encode 2 (h_version h)) ++ REST ++ enc_items F its))
      with (rec_bytes T_UShort (subst1 (le_encode 2 ARCHIVE_VERSION) k v) ++
            rec_bytes T_UShort (le_encode 2 (h_version h)) ++ (REST ++ enc_items F its))
      by (unfold rec_bytes; now rewrite <- !app_assoc).
    apply reader_wrong_version; [now rewrite nlen_subst1|apply nlen_le_encode|left].
    intro E. apply (decode_subst_neq (le_encode 2 ARCHIVE_VERSION) k v o); try assumption. apply small_le_encode.
  - (* program version *)
    assert (E : (h_magic h ++ rec_bytes T_UShort (le_encode 2 ARCHIVE_VERSION) ++ rec_bytes T_UShort (le_encode 2 (h_version h)) ++ REST) ++ enc_items F its =
                (h_magic h ++ rec_bytes T_UShort (le_encode 2 ARCHIVE_VERSION) ++ le_encode 4 T_UShort) ++ le_encode 2 (h_version h) ++
                (REST ++ enc_items F its)).
    { unfold rec_bytes. now rewrite <- !app_assoc. }
    rewrite E in *. clear E.
    assert (Hp : nlen (h_magic h) + 6 + 4 + k =
                 nlen (h_magic h ++ rec_bytes T_UShort (le_encode 2 ARCHIVE_VERSION) ++ le_encode 4 T_UShort) + k).
    { rewrite !nlen_app, nlen_rec, !nlen_le_encode. change (N.of_nat 2) with 2. change (N.of_nat 4) with 4. lia. }
    rewrite Hp in *. rewrite field_nth in Hb by (rewrite nlen_le_encode; exact Hk).
    rewrite field_subst by (rewrite nlen_le_encode; exact Hk).
    replace ((h_magic h ++ rec_bytes T_UShort (le_encode 2 ARCHIVE_VERSION) ++ le_encode 4 T_UShort) ++
             subst1 (le_encode 2 (h_version h)) k v ++ REST ++ enc_items F its)
      with (h_magic h ++ rec_bytes T_UShort (le_encode 2 ARCHIVE_VERSION) ++
            rec_bytes T_UShort (subst1 (le_encode 2 (h_version h)) k v) ++ (REST ++ enc_items F its))
      by (unfold rec_bytes; now rewrite <- !app_assoc).
    apply reader_wrong_version; [apply nlen_le_encode|now rewrite nlen_subst1|right].
    intro E. apply (decode_subst_neq (le_encode 2 (h_version h)) k v o); try assumption; [apply small_le_encode|].
    rewrite E. rewrite le_decode_encode; [reflexivity|]. change (256 ^ N.of_nat 2) with 65536. exact (if_ver _ _ _ I).
Qed.
