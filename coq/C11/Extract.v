(* C11/Extract.v - extraction of the model and the specification (ExtrOcamlBasic only). *)
Require Extraction.
Require Import ExtrOcamlBasic.
From Morfuse Require Import C10.Model C10.Spec C11.Generated C11.Model C11.Spec.
Extraction "C11_model.ml" run_damages spec_damages wlayout rlayout write read_cur wf_case check_after_read version_test_is_or.
