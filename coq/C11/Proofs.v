(* C11/Proofs.v - size bracket and class name theorems stated over the writer's layout, the
   single-damage summary, and the two refutations for the code before the repairs. *)
From Coq Require Import ZArith NArith List Bool Lia.
From Morfuse Require Import Base.Arr Base.ListX C10.Model C10.Spec C10.ProofsLib C10.ProofsWrite C10.ProofsRead C10.Proofs.
From Morfuse Require Import C11.Generated C11.Model C11.Spec C11.ProofsGeneric C11.ProofsLayout C11.ProofsDamage C11.ProofsStruct C11.ProofsObject.
Import ListNotations.
Local Open Scope N_scope.

(* a position of class PSize / PName lies in an object of the item list *)
Lemma locate_obj_field h its i x :
  nth_N (wlayout h its) i = Some x -> x = CP PSize \/ x = CP PName ->
  exists pre c id body post,
    its = pre ++ IObj c id body :: post /\
    ((x = CP PSize /\ exists k, k < 8 /\ i = nlen (lay_header h) + (nlen (flat_map lay_item pre) + (4 + k))) \/
     (x = CP PName /\ exists k, k < nlen (class_name c) /\
        i = nlen (lay_header h) + (nlen (flat_map lay_item pre) + (4 + 8 + 12 + 4 + k)))).
Proof.
  unfold wlayout. intros H Hx.
  apply nth_N_app_cases in H as [[L H]|(j & -> & H)].
  { apply header_classes in H. destruct H, Hx; congruence. }
  apply locate_item in H as (pre & y & post & o & -> & -> & Ho).
  destruct y as [l|c id body].
  { apply no_obj_class_in_leaf in Ho. destruct Ho as (? & ? & _), Hx; congruence. }
  exists pre, c, id, body, post. split; [reflexivity|].
  destruct (locate_in_obj c id body o x Ho Hx) as [(-> & k & Hk & ->)|(-> & k & Hk & ->)]; [left|right];
    (split; [reflexivity|exists k; split; [exact Hk|reflexivity]]).
Qed.

Theorem size_substitution_detected h its i v o :
  wf_case h its = true ->
  nth_N (wlayout h its) i = Some (CP PSize) -> nth_N (write h its) i = Some o -> v <> o -> v < 256 ->
  read_damaged h its (DSubst [(i, v)]) = OErr ReadPastEndObject \/
  read_damaged h its (DSubst [(i, v)]) = OErr NotReadEntireDataObject.
Proof.
  intros Hwf Hl Hb Hne Hv. destruct (intact h its Hwf) as (F & I).
  destruct (locate_obj_field h its i _ Hl (or_introl eq_refl)) as (pre & c & id & body & post & Hits & [(_ & k & Hk & Hi)|(E & _)]);
    [|discriminate].
  subst its i. eapply size_damage; eauto.
Qed.

(* --------------------------------------------------------------- names and case *)

Lemma upper_zero b : upper b = 0 -> b = 0.
Proof.
  unfold upper. destruct (N.leb_spec 97 b); destruct (N.leb_spec b 122); cbn [andb]; intro E; lia.
Qed.

Lemma until_nul_flip nm : forall k v o,
  Forall (fun b => b <> 0) nm -> nth_N nm k = Some o -> upper v = upper o ->
  map upper (until_nul (subst1 nm k v)) = map upper (until_nul nm).
Proof.
  induction nm as [|x nm IH]; intros k v o Hnz Hk E; cbn [nth_N subst1] in *; [discriminate|].
  inversion Hnz as [|? ? Hx Hnz']; subst.
  destruct (N.eqb_spec k 0).
  - inversion Hk; subst. cbn [until_nul].
    assert (v <> 0) by (intro; subst v; symmetry in E; apply upper_zero in E; contradiction).
    destruct (N.eqb_spec v 0); [contradiction|]. destruct (N.eqb_spec o 0); [contradiction|].
    cbn [map]. now rewrite E.
  - cbn [until_nul]. destruct (N.eqb_spec x 0); [contradiction|]. cbn [map]. f_equal. eapply IH; eauto.
Qed.

Lemma lookup_class_ext a b :
  map upper (until_nul a) = map upper (until_nul b) -> lookup_class a = lookup_class b.
Proof. intro H. unfold lookup_class, name_matches. now rewrite H. Qed.

Lemma lookup_flip c k v o :
  nth_N (class_name c) k = Some o -> upper v = upper o ->
  lookup_class (subst1 (class_name c) k v) = Some (norm_class c).
Proof.
  intros Hk E. rewrite <- (lookup_class_name c). apply lookup_class_ext.
  eapply until_nul_flip; eauto. apply class_name_nonzero.
Qed.

Lemma lookup_nonflip c k v o :
  nth_N (class_name c) k = Some o ->
  lookup_class (subst1 (class_name c) k v) = Some (norm_class c) -> upper v = upper o.
Proof.
  intros Hk El. apply lookup_class_matches, name_matches_eq in El. rewrite class_name_norm in El.
  eapply until_nul_subst; [apply class_name_nonzero|exact Hk|exact El].
Qed.

(* a damaged class name: an error, unless the byte only changed case - then the archive
   reads as if it were intact *)
Theorem class_name_substitution_detected h its i v o :
  wf_case h its = true ->
  nth_N (wlayout h its) i = Some (CP PName) -> nth_N (write h its) i = Some o -> v <> o -> v < 256 ->
  (upper v <> upper o ->
     read_damaged h its (DSubst [(i, v)]) = OErr InvalidClass \/
     read_damaged h its (DSubst [(i, v)]) = OErr ObjectClassError) /\
  (upper v = upper o -> read_damaged h its (DSubst [(i, v)]) = OOk (spec_items its)).
Proof.
  intros Hwf Hl Hb Hne Hv. destruct (intact h its Hwf) as (F & I).
  destruct (locate_obj_field h its i _ Hl (or_intror eq_refl)) as (pre & c & id & body & post & Hits & [(E & _)|(_ & k & Hk & Hi)]);
    [discriminate|].
  subst its i.
  destruct (name_damage h F pre post c id body I k v o Hk Hv Hne Hwf Hb) as [Hn R]. cbv zeta in R.
  rewrite R. split; intro Hu.
  - destruct (lookup_class (subst1 (class_name c) k v)) as [c'|] eqn:El; [|now left].
    destruct (N.eqb_spec c' (norm_class c)) as [->|_]; [|now right].
    exfalso. apply Hu. eapply lookup_nonflip; eauto.
  - rewrite (lookup_flip c k v o Hn Hu). now rewrite N.eqb_refl.
Qed.

(* ------------------------------------------- one damage against the expectation of Spec.v *)

Definition is_err (o : outcome) : Prop := match o with OErr _ => True | _ => False end.

Lemma nth_N_none_or_some {A} (l : list A) i : nth_N l i = None \/ exists x, nth_N l i = Some x.
Proof. destruct (nth_N l i); eauto. Qed.

Theorem single_damage_meets_expectation h its d :
  wf_case h its = true ->
  (match d with DTrunc _ => True | DSubst [(i, v)] => v < 256 | DSubst _ => False end) ->
  match expect_of h its d with
  | EErr => is_err (read_damaged h its d)
  | EOkSame => read_damaged h its d = OOk (spec_items its)
  | EAny => True
  end.
Proof.
  intros Hwf Hd. destruct d as [n|l].
  - cbn [expect_of]. destruct (N.ltb_spec n (nlen (write h its))) as [L|L]; [|exact I].
    rewrite truncation_detected by assumption. exact I.
  - destruct l as [|[i v] [|? ?]]; try contradiction.
    unfold expect_of. cbv zeta. cbn [filter]. unfold effective. cbn [fst snd].
    destruct (nth_N (write h its) i) as [o|] eqn:Hb; [|exact I].
    destruct (N.eqb_spec o v) as [->|Hne]; cbn [negb]; [exact I|].
    cbn [map fst nodupb memN existsb negb andb forallb].
    unfold pos_in_class, case_flip. cbn [fst snd]. rewrite Hb. rewrite !andb_true_r.
    assert (Hne' : v <> o) by congruence.
    destruct (nth_N (wlayout h its) i) as [c|] eqn:Hl; [|exact I].
    destruct c as [| |[| | |]]; cbn [in_class andb]; try exact I.
    + rewrite (header_substitution_detected h its i v o) by assumption. exact I.
    + destruct (tag_substitution_detected h its i v o Hwf Hl Hb Hne' Hd) as (t & f & ->). exact I.
    + rewrite (version_substitution_detected h its i v o) by assumption. exact I.
    + destruct (size_substitution_detected h its i v o Hwf Hl Hb Hne' Hd) as [-> | ->]; exact I.
    + destruct (class_name_substitution_detected h its i v o Hwf Hl Hb Hne' Hd) as [He Hs].
      destruct (N.eqb_spec (upper o) (upper v)) as [E|E]; cbn [andb].
      * apply Hs. congruence.
      * destruct He as [-> | ->]; [congruence|exact I|exact I].
Qed.

(* ----------------------------------------- what the two repaired decisions were for *)

Definition ex_h : hdr := mkHdr [77; 70; 85; 83] 1 [77; 111; 114].

(* without the check after the read: an archive cut inside its last record is delivered
   (with an unwritten value), an archive cut inside the header's string length runs on
   garbage - neither is an archive error *)
Lemma truncation_refuted_when_unchecked :
  exists h its n, wf_case h its = true /\ n < nlen (write h its) /\
    forall e, read false true h (shape its) (truncate (write h its) n) <> OErr e.
Proof.
  exists ex_h, [ILeaf (LPrim KUInt32 7)], 46. split; [vm_compute; reflexivity|]. split; [vm_compute; reflexivity|].
  intro e. vm_compute. discriminate.
Qed.

Lemma truncation_in_header_refuted_when_unchecked :
  exists h its n, wf_case h its = true /\ n < nlen (write h its) /\
    read false true h (shape its) (truncate (write h its) n) = OUndef.
Proof.
  exists ex_h, [ILeaf (LPrim KUInt32 7)], 22. split; [vm_compute; reflexivity|]. split; [vm_compute; reflexivity|].
  vm_compute. reflexivity.
Qed.

(* with && in the version test: one mismatching version record is accepted and the archive
   is read as if it were intact *)
Lemma version_refuted_when_and :
  exists h its i v o, wf_case h its = true /\ nth_N (wlayout h its) i = Some (CP PVer) /\
    nth_N (write h its) i = Some o /\ v <> o /\ v < 256 /\
    read true false h (shape its) (subst1 (write h its) i v) = OOk (spec_items its).
Proof.
  exists ex_h, [ILeaf (LPrim KUInt32 7)], 14, 7, 1.
  repeat split; try (vm_compute; reflexivity). discriminate.
Qed.
