(* C11/ProofsLayout.v - the layout as the reader consumes an intact archive ([classes] of
   the reader program) is the layout the writer produced ([wlayout]). *)
From Coq Require Import ZArith NArith List Bool Lia.
From Morfuse Require Import Base.Arr Base.ListX C10.Model C10.Spec C10.ProofsLib C10.ProofsWrite C10.ProofsRead C10.Proofs.
From Morfuse Require Import C11.Generated C11.Model C11.Spec C11.ProofsGeneric.
Import ListNotations.
Local Open Scope N_scope.

Section Classes.
  Context {A : Type}.

  Lemma classes_ReadTag t (cont : prog A) pos rest :
    t < 256 ^ 4 ->
    classes (ReadTag t cont) pos (le_encode 4 t ++ rest) = repeat CTag 4 ++ classes cont (pos + 4) rest.
  Proof.
    intro Ht. cbn [classes].
    change 4 with (nlen (le_encode 4 t)) at 1. rewrite take_app.
    rewrite le_decode_encode by exact Ht. now rewrite N.eqb_refl.
  Qed.

  Lemma classes_Read c k (cont : rd -> prog A) pos a rest :
    nlen a = k ->
    classes (Read c k cont) pos (a ++ rest) =
    repeat (CP c) (length a) ++ classes (cont (Bytes a)) (pos + Z.of_N k) rest.
  Proof. intros <-. cbn [classes]. now rewrite take_app. Qed.

  Lemma classes_ReadMagic m (cont : prog A) pos rest :
    classes (ReadMagic m cont) pos (m ++ rest) =
    repeat CHeader (length m) ++ classes cont (pos + Z.of_N (nlen m)) rest.
  Proof. cbn [classes]. rewrite take_app. now rewrite list_eqb_refl. Qed.

  Lemma classes_record c t k (cont : rd -> prog A) pos payload rest :
    t < 256 ^ 4 -> nlen payload = k ->
    classes (ReadTag t (Read c k cont)) pos (rec_bytes t payload ++ rest) =
    lay_rec c (length payload) ++ classes (cont (Bytes payload)) (pos + 4 + Z.of_N k) rest.
  Proof.
    intros Ht Hk. unfold rec_bytes, lay_rec. rewrite <- !app_assoc.
    rewrite classes_ReadTag by exact Ht. now rewrite classes_Read by exact Hk.
  Qed.

  Lemma c_str_enc c (cont : rd -> prog A) bs pos tail :
    nlen bs < 256 ^ 8 ->
    classes (r_str c cont) pos (w_str bs ++ tail) =
    lay_str c bs ++ classes (cont (Bytes bs)) (pos + Z.of_N (nlen (w_str bs))) tail.
  Proof.
    intro Hb. rewrite nlen_w_str. unfold r_str, w_str, size_str, lay_str. rewrite <- !app_assoc.
    rewrite classes_record; [|vm_compute; reflexivity|apply nlen_le_encode].
    rewrite le_encode_length.
    rewrite le_decode_encode by exact Hb.
    destruct bs as [|x bs].
    - cbn [app]. change (nlen [] =? 0) with true. cbv iota. f_equal. f_equal. change (N.of_nat 8) with 8. lia.
    - destruct (N.eqb_spec (nlen (x :: bs)) 0) as [E|_]; [rewrite nlen_cons in E; lia|].
      rewrite classes_record; [|vm_compute; reflexivity|reflexivity].
      f_equal. f_equal. f_equal. change (N.of_nat 8) with 8. lia.
  Qed.

  Lemma c_leaf_enc F st l (cont : rst -> pleaf -> prog A) pos tail :
    leaf_ok F l -> r_num st = nlen F -> nlen F < 2147483648 ->
    classes (r_leaf st (shape_leaf l) cont) pos (enc_leaf F l ++ tail) =
    lay_leaf l ++ classes (cont (reg_ids F (reg_leaf l) st) (pend_leaf F l))
        (pos + Z.of_N (nlen (enc_leaf F l))) tail.
  Proof.
    intros (Hwf & Hin & Hsz) Hn HF. rewrite nlen_enc_leaf.
    destruct l as [k v|bs|bs|s [t|]|id]; cbn [r_leaf shape_leaf enc_leaf reg_leaf pend_leaf size_leaf reg_ids fold_left lay_leaf].
    - rewrite classes_record; [|apply ptag_small|apply nlen_le_encode].
      rewrite le_encode_length. rewrite le_decode_encode.
      + f_equal. f_equal. lia.
      + cbn [wf_leaf] in Hwf. destruct k; try (apply N.ltb_lt in Hwf; exact Hwf).
        apply N.ltb_lt in Hwf. cbn [pwidth]. change (256 ^ N.of_nat 1) with 256. lia.
    - assert (Hrep : nlen (repeat 0 (length bs)) = nlen bs) by (unfold nlen; now rewrite repeat_length).
      rewrite Hrep.
      rewrite classes_record; [|vm_compute; reflexivity|reflexivity].
      f_equal. f_equal. lia.
    - cbn [size_leaf] in Hsz. rewrite c_str_enc.
      + now rewrite nlen_w_str.
      + unfold size_str in Hsz. destruct bs; [unfold nlen; cbn; lia|]. change (256 ^ 8) with 18446744073709551616. lia.
    - assert (Ht : In t F) by (apply Hin; now left).
      pose proof (idx_in_range F t Ht) as R.
      unfold ptr_tag. rewrite classes_record; [|destruct s; vm_compute; reflexivity|apply nlen_le_encode].
      rewrite le_encode_length.
      rewrite le_decode_encode by (change (256 ^ N.of_nat 4) with 4294967296; lia).
      destruct (N.eqb_spec (idx F t) NULLP) as [E|_]; [unfold NULLP in E; lia|].
      destruct (N.eqb_spec (idx F t) 0) as [E|_]; [lia|].
      destruct (N.ltb_spec (r_num st) (idx F t)) as [L|_]; [lia|].
      cbn [orb]. f_equal. f_equal. change (N.of_nat 4) with 4. lia.
    - unfold ptr_tag. rewrite classes_record; [|destruct s; vm_compute; reflexivity|apply nlen_le_encode].
      rewrite le_encode_length.
      rewrite le_decode_encode by (vm_compute; reflexivity).
      rewrite N.eqb_refl. f_equal. f_equal. change (N.of_nat 4) with 4. lia.
    - assert (Ht : In id F) by (apply Hin; now left).
      pose proof (idx_in_range F id Ht) as R.
      rewrite classes_record; [|vm_compute; reflexivity|apply nlen_le_encode].
      rewrite le_encode_length.
      rewrite le_decode_encode by (change (256 ^ N.of_nat 4) with 4294967296; lia).
      rewrite add_at_reg by assumption.
      cbn [reg_ids fold_left]. f_equal. f_equal. change (N.of_nat 4) with 4. lia.
  Qed.

  Lemma c_leaves_enc F ls : forall st (cont : rst -> list pleaf -> prog A) pos tail,
    Forall (leaf_ok F) ls -> r_num st = nlen F -> nlen F < 2147483648 ->
    classes (r_leaves (map shape_leaf ls) st cont) pos (enc_leaves F ls ++ tail) =
    flat_map lay_leaf ls ++
    classes (cont (reg_ids F (flat_map reg_leaf ls) st) (map (pend_leaf F) ls))
        (pos + Z.of_N (nlen (enc_leaves F ls))) tail.
  Proof.
    induction ls as [|l r IH]; intros st cont pos tail Hok Hn HF; cbn [map r_leaves enc_leaves flat_map].
    - cbn [app reg_ids fold_left]. f_equal. f_equal. unfold nlen; cbn. lia.
    - inversion Hok as [|? ? Hl Hr]; subst. rewrite <- !app_assoc.
      rewrite c_leaf_enc by assumption.
      rewrite IH; [|assumption|now rewrite reg_ids_num|assumption].
      rewrite reg_ids_app. f_equal. f_equal. f_equal. rewrite nlen_app. lia.
  Qed.

  Lemma c_listener_flag_enc c (cont : prog A) pos tail :
    classes (r_listener_flag c cont) pos (listener_flag c ++ tail) =
    (if is_listener c then lay_rec POther 1 else []) ++
    classes cont (pos + Z.of_N (nlen (listener_flag c))) tail.
  Proof.
    unfold r_listener_flag, listener_flag. destruct (is_listener c).
    - rewrite classes_record; [|vm_compute; reflexivity|reflexivity].
      change (nlen (rec_bytes T_Byte [0])) with 5. cbv iota. cbn [length]. f_equal. f_equal. lia.
    - cbn [app]. f_equal. unfold nlen; cbn. lia.
  Qed.

  Lemma c_item_enc F st it (cont : rst -> pitem -> prog A) pos tail :
    item_ok F it -> r_num st = nlen F -> nlen F < 2147483648 ->
    classes (r_item st (shape_item it) cont) pos (enc_item F it ++ tail) =
    lay_item it ++ classes (cont (reg_ids F (regs_item it) st) (pend_item F it))
        (pos + Z.of_N (nlen (enc_item F it))) tail.
  Proof.
    intros Hok Hn HF. destruct it as [l|c id body]; cbn [r_item shape_item enc_item regs_item pend_item lay_item].
    - now rewrite c_leaf_enc.
    - destruct Hok as (Hb & Hid & Hsz).
      pose proof (idx_in_range F id Hid) as R.
      pose proof (nlen_enc_item F (IObj c id body)) as Hlen. cbn [enc_item] in Hlen.
      rewrite Hlen.
      cbn [size_item] in Hsz.
      assert (Hbody : nlen (enc_body F c body) < 2147483648) by (rewrite nlen_enc_body; lia).
      rewrite <- !app_assoc.
      rewrite classes_ReadTag by (vm_compute; reflexivity).
      rewrite classes_Read by apply nlen_le_encode.
      rewrite le_encode_length.
      rewrite c_str_enc by apply class_name_len.
      rewrite lookup_class_name. rewrite N.eqb_refl. cbn [negb].
      rewrite classes_record; [|vm_compute; reflexivity|apply nlen_le_encode].
      rewrite le_encode_length.
      cbn [classes].
      change (enc_body F c body ++ tail) with ((listener_flag c ++ enc_leaves F body) ++ tail).
      rewrite <- app_assoc.
      rewrite c_listener_flag_enc.
      rewrite c_leaves_enc by assumption.
      cbn [classes].
      rewrite le_decode_encode by (change (256 ^ N.of_nat 8) with 18446744073709551616; lia).
      rewrite to_signed64_small by lia.
      match goal with
      | |- context [(?a + Z.of_N (nlen (listener_flag c)) + Z.of_N (nlen (enc_leaves F body)) - ?a)%Z] =>
          replace (a + Z.of_N (nlen (listener_flag c)) + Z.of_N (nlen (enc_leaves F body)) - a)%Z
            with (Z.of_N (nlen (enc_body F c body))) by (unfold enc_body; rewrite nlen_app; lia)
      end.
      rewrite !Z.ltb_irrefl.
      rewrite le_decode_encode by (change (256 ^ N.of_nat 4) with 4294967296; lia).
      rewrite add_at_reg; [|assumption|now rewrite reg_ids_num].
      rewrite <- reg_ids_app.
      do 7 f_equal. cbn [size_item]. rewrite nlen_w_str, nlen_listener_flag, nlen_enc_leaves. lia.
  Qed.

  Lemma c_items_enc F its : forall st (cont : rst -> list pitem -> prog A) pos tail,
    Forall (item_ok F) its -> r_num st = nlen F -> nlen F < 2147483648 ->
    classes (r_items (shape its) st cont) pos (enc_items F its ++ tail) =
    flat_map lay_item its ++
    classes (cont (reg_ids F (regs_items its) st) (map (pend_item F) its))
        (pos + Z.of_N (nlen (enc_items F its))) tail.
  Proof.
    unfold shape, regs_items.
    induction its as [|it r IH]; intros st cont pos tail Hok Hn HF; cbn [map r_items enc_items flat_map].
    - cbn [app reg_ids fold_left]. f_equal. f_equal. unfold nlen; cbn. lia.
    - inversion Hok as [|? ? Hl Hr]; subst. rewrite <- !app_assoc.
      rewrite c_item_enc by assumption.
      rewrite IH; [|assumption|now rewrite reg_ids_num|assumption].
      rewrite reg_ids_app. f_equal. f_equal. f_equal. rewrite nlen_app. lia.
  Qed.
End Classes.

Lemma classes_reader_enc vor h F its :
  h_version h < 65536 -> nlen (h_name h) < 256 ^ 8 ->
  Forall (item_ok F) its -> nlen F < 2147483648 ->
  classes (reader vor h (shape its)) 0 (write_header h (nlen F) ++ enc_items F its) = wlayout h its.
Proof.
  intros Hv Hname Hok HF.
  rewrite <- (app_nil_r (enc_items F its)).
  unfold reader, write_header, wlayout, lay_header. rewrite <- !app_assoc.
  rewrite classes_ReadMagic.
  rewrite classes_record; [|vm_compute; reflexivity|apply nlen_le_encode].
  rewrite classes_record; [|vm_compute; reflexivity|apply nlen_le_encode].
  rewrite !le_encode_length.
  rewrite le_decode_encode by (vm_compute; reflexivity).
  rewrite le_decode_encode by (change (256 ^ N.of_nat 2) with 65536; exact Hv).
  rewrite !N.eqb_refl. cbn [negb orb andb].
  assert (Hif : (if vor then false else false) = false) by (destruct vor; reflexivity).
  rewrite Hif.
  rewrite c_str_enc by exact Hname.
  rewrite classes_record; [|vm_compute; reflexivity|apply nlen_le_encode].
  rewrite le_encode_length.
  rewrite le_decode_encode by (change (256 ^ N.of_nat 4) with 4294967296; lia).
  rewrite c_items_enc; [|assumption|reflexivity|assumption].
  cbn [classes]. now rewrite app_nil_r.
Qed.

(* the two layouts agree on every representable case *)
Theorem rlayout_is_wlayout h its : wf_case h its = true -> rlayout h its = wlayout h its.
Proof.
  unfold wf_case, wf_hdr, wf_items. intro H.
  repeat match goal with Hx : (_ && _) = true |- _ => apply andb_true_iff in Hx; destruct Hx end.
  repeat match goal with Hx : (_ <? _) = true |- _ => apply N.ltb_lt in Hx end.
  destruct (write_as_enc h its) as (F & Hw & Hin & Hlen).
  pose proof (count_le_size_items its) as Hc.
  assert (HF : nlen F < 2147483648) by lia.
  unfold rlayout. rewrite Hw.
  apply classes_reader_enc; [assumption|change (256 ^ 8) with 18446744073709551616; lia|now apply items_ok|assumption].
Qed.
