(* C11/ProofsLayout.v - the layout as the reader consumes an intact archive ([classes] of
   the reader program) is the layout the writer produced ([wlayout]). *)
From Coq Require Import ZArith NArith List Bool Lia.
From Morfuse Require Import Base.Arr Base.ListX C10.Model C10.Spec C10.ProofsLib C10.ProofsWrite C10.ProofsRead C10.Proofs.
From Morfuse Require Import C11.Generated C11.Model C11.Spec C11.ProofsGeneric.
Import ListNotations.
Local Open Scope N_scope.

Section Classes.
  Context {A : Type}.

  Lemma classes_ReadTag t (cont : prog A) pos rest :
    t < 256 ^ 4 ->
    classes (ReadTag t cont) pos (le_encode 4 t ++ rest) = repeat CTag 4 ++ classes cont (pos + 4) rest.
  Proof.
    intro Ht. cbn [classes].
    change 4 with (nlen (le_encode 4 t)) at 1. rewrite take_app.
    rewrite le_decode_encode by exact Ht. now rewrite N.eqb_refl.
  Qed.

  Lemma classes_Read c k (cont : rd -> prog A) pos a rest :
    nlen a = k ->
    classes (Read c k cont) pos (a ++ rest) =
    repeat (CP c) (length a) ++ classes (cont (Bytes a)) (pos + Z.of_N k) rest.
  Proof. intros <-. cbn [classes]. now rewrite take_app. Qed.

  Lemma classes_ReadMagic m (cont : prog A) pos rest :
    classes (ReadMagic m cont) pos (m ++ rest) =
    repeat CHeader (length m) ++ classes cont (pos + Z.of_N (nlen m)) rest.
  Proof. cbn [classes]. rewrite take_app. now rewrite list_eqb_refl. Qed.

  Lemma classes_record c t k (cont : rd -> prog A) pos payload rest :
    t < 256 ^ 4 -> nlen payload = k ->
    classes (ReadTag t (Read c k cont)) pos (rec_bytes t payload ++ rest) =
    lay_rec c (length payload) ++ classes (cont (Bytes payload)) (pos + 4 + Z.of_N k) rest.
  Proof.
    intros Ht Hk. unfold rec_bytes, lay_rec. rewrite <- !app_assoc.
    rewrite classes_ReadTag by exact Ht. now rewrite classes_Read by exact Hk.
  Qed.

  Lemma c_str_enc c (cont : rd -> prog A) bs pos tail :
    nlen bs < 256 ^ 8 ->
    classes (r_str c cont) pos (w_str bs ++ tail) =
    lay_str c bs ++ classes (cont (Bytes bs)) (pos + Z.of_N (nlen (w_str bs))) tail.
  Proof.
    intro Hb. rewrite nlen_w_str. unfold r_str, w_str, size_str, lay_str. rewrite <- !app_assoc.
    rewrite classes_record; [|vm_compute; reflexivity|apply nlen_le_encode].
    rewrite le_encode_length.
    rewrite le_decode_encode by exact Hb.
    destruct bs as [|x bs].
    - cbn [app]. change (nlen [] =? 0) with true. cbv iota. f_equal. f_equal. change (N.of_nat 8) with 8. lia.
    - destruct (N.eqb_spec (nlen (x :: bs)) 0) as [E|_]; [rewrite nlen_cons in E; lia|].
      rewrite classes_record; [|vm_compute; reflexivity|reflexivity].
      f_equal. f_equal. f_equal. change (N.of_nat 8) with 8. lia.
  Qed.

  (* ------------------------------------------------------------ script variables *)

  Lemma c_ptr_enc safe st (k : ptgt -> prog A) F t pos tail :
    incl (ids_tgt t) F -> r_num st = nlen F -> nlen F < 2147483648 ->
    classes (r_ptr safe st k) pos (enc_ptr F safe t ++ tail) =
    lay_ptr ++ classes (k (pend_tgt F t)) (pos + 8) tail.
  Proof.
    intros Hin Hn HF. unfold r_ptr, enc_ptr, lay_ptr.
    rewrite classes_record; [|destruct safe; vm_compute; reflexivity|apply nlen_le_encode].
    rewrite le_encode_length.
    destruct t as [x|]; cbn [pend_tgt].
    - assert (Hx : In x F) by (apply Hin; now left).
      pose proof (idx_in_range F x Hx) as R.
      rewrite le_decode_encode by (change (256 ^ N.of_nat 4) with 4294967296; lia).
      destruct (N.eqb_spec (idx F x) NULLP) as [E|_]; [unfold NULLP in E; lia|].
      destruct (N.eqb_spec (idx F x) 0) as [E|_]; [lia|].
      destruct (N.ltb_spec (r_num st) (idx F x)) as [L|_]; [lia|].
      cbn [orb]. f_equal. f_equal. change (N.of_nat 4) with 4. lia.
    - rewrite le_decode_encode by (vm_compute; reflexivity).
      rewrite N.eqb_refl. f_equal. f_equal. change (N.of_nat 4) with 4. lia.
  Qed.

  Lemma c_ptrs_enc F st ts : forall (k : list ptgt -> prog A) pos tail,
    incl (flat_map ids_tgt ts) F -> r_num st = nlen F -> nlen F < 2147483648 ->
    classes (r_ptrs (map (fun _ => None) ts) (nlen ts) st k) pos (enc_ptrs F ts ++ tail) =
    flat_map (fun _ => lay_ptr) ts ++ classes (k (map (pend_tgt F) ts)) (pos + Z.of_N (8 * nlen ts)) tail.
  Proof.
    induction ts as [|t r IH]; intros k pos tail Hin Hn HF; cbn [map r_ptrs enc_ptrs flat_map].
    - change (nlen (@nil (option N)) =? 0) with true. cbv iota. cbn [app]. f_equal. f_equal.
      change (nlen (@nil (option N))) with 0. lia.
    - rewrite nlen_cons. destruct (N.eqb_spec (1 + nlen r) 0) as [E|_]; [lia|].
      rewrite <- !app_assoc. rewrite c_ptr_enc; [|intros x Hx; apply Hin; apply in_or_app; now left|assumption|assumption].
      replace (1 + nlen r - 1) with (nlen r) by lia.
      rewrite IH; [|intros x Hx; apply Hin; apply in_or_app; now right|assumption|assumption].
      f_equal. f_equal. f_equal. lia.
  Qed.

  Lemma c_num32_enc (k : N -> prog A) v pos tail :
    v < 4294967296 ->
    classes (r_num32 k) pos (u32 v ++ tail) = lay_rec POther 4 ++ classes (k v) (pos + 8) tail.
  Proof.
    intro Hv. unfold r_num32, u32.
    rewrite classes_record; [|vm_compute; reflexivity|apply nlen_le_encode].
    rewrite le_encode_length.
    rewrite le_decode_encode by (change (256 ^ N.of_nat 4) with 4294967296; exact Hv).
    f_equal. f_equal. change (N.of_nat 4) with 4. lia.
  Qed.

  Lemma c_position_enc F st id (k : rst -> prog A) pos tail :
    In id F -> r_num st = nlen F -> nlen F < 2147483648 ->
    classes (r_position st id k) pos (rec_bytes T_Position (le_encode 4 (idx F id)) ++ tail) =
    lay_rec POther 4 ++ classes (k (reg_ids F [id] st)) (pos + 8) tail.
  Proof.
    intros Hin Hn HF. unfold r_position. pose proof (idx_in_range F id Hin) as R.
    rewrite classes_record; [|vm_compute; reflexivity|apply nlen_le_encode].
    rewrite le_encode_length.
    rewrite le_decode_encode by (change (256 ^ N.of_nat 4) with 4294967296; lia).
    rewrite add_at_reg by assumption.
    f_equal. f_equal. change (N.of_nat 4) with 4. lia.
  Qed.

  Lemma c_cstr_enc (k : option (list N) -> prog A) s pos tail :
    (forall bs, s = Some bs -> nlen bs < 256 ^ 8) ->
    classes (r_cstr k) pos (w_cstr s ++ tail) =
    lay_cstr s ++ classes (k s) (pos + Z.of_N (size_cstr s)) tail.
  Proof.
    intro Hs. unfold r_cstr, lay_cstr. destruct s as [bs|]; cbn [w_cstr size_cstr].
    - rewrite <- !app_assoc. rewrite classes_record; [|vm_compute; reflexivity|reflexivity].
      rewrite le_decode_single. change (1 =? 0) with false. cbv iota.
      rewrite c_str_enc by (now apply Hs). rewrite nlen_w_str. cbn [length]. f_equal. f_equal. f_equal. lia.
    - rewrite classes_record; [|vm_compute; reflexivity|reflexivity].
      rewrite le_decode_single. change (0 =? 0) with true. cbv iota. cbn [length]. rewrite app_nil_r.
      f_equal; f_equal; lia.
  Qed.

  Lemma c_newref_enc (k : bool -> prog A) (b : bool) pos tail :
    classes (r_newref k) pos (rec_bytes T_Boolean [if b then 1 else 0] ++ tail) =
    lay_rec POther 1 ++ classes (k b) (pos + 5) tail.
  Proof.
    unfold r_newref. rewrite classes_record; [|vm_compute; reflexivity|reflexivity].
    destruct b; cbv iota; cbn [length]; f_equal; f_equal; lia.
  Qed.

  Lemma c_raw12_enc (k : list N -> prog A) bs pos tail :
    nlen bs = 12 ->
    classes (r_raw12 k) pos (rec_bytes T_Raw bs ++ tail) =
    lay_rec POther (length bs) ++ classes (k bs) (pos + 16) tail.
  Proof.
    intro Hb. unfold r_raw12. rewrite classes_record; [|vm_compute; reflexivity|exact Hb].
    f_equal. f_equal. lia.
  Qed.

  Lemma c_tok1_enc F st t (k : rst -> tok ptgt -> prog A) pos tail :
    tok_ok F t -> r_num st = nlen F -> nlen F < 2147483648 ->
    classes (r_tok1 (shape_tok t) st k) pos (enc_tok F t ++ tail) =
    lay_tok t ++ classes (k (reg_ids F (reg_tok t) st) (pend_tok F t))
        (pos + Z.of_N (13 + size_body (t_body t))) tail.
  Proof.
    intros (Hwf & Hin & Hsz) Hn HF.
    assert (Hvid : In (t_vid t) F) by (apply Hin; now left).
    assert (Hids : incl (ids_body (t_body t)) F) by (intros x Hx; apply Hin; now right).
    unfold r_tok1, enc_tok, pend_tok, reg_tok, shape_tok, lay_tok. cbn [t_vid t_body].
    rewrite <- !app_assoc.
    rewrite c_position_enc by assumption.
    rewrite classes_record; [|vm_compute; reflexivity|reflexivity].
    rewrite le_decode_single. cbn [length].
    set (st1 := reg_ids F [t_vid t] st).
    assert (Hn1 : r_num st1 = nlen F) by (unfold st1; now rewrite reg_ids_num).
    destruct (t_body t) as [|bs|pk v|s|pk x|hid rc tl thr tli count|hid rc size|pid ts|hk [hid|]|bs] eqn:Eb;
      cbn [vtype enc_tbody pend_body size_body ids_body wf_body lab_hid lab_targets lay_tbody] in *.
    - eqb_lits. cbn [app]. do 2 f_equal. f_equal. lia.
    - eqb_lits.
      rewrite c_str_enc.
      + rewrite nlen_w_str. do 3 f_equal. f_equal. lia.
      + unfold size_str in Hsz. destruct bs; [vm_compute; reflexivity|]. change (256 ^ 8) with 18446744073709551616. lia.
    - apply N.ltb_lt in Hwf.
      destruct pk; cbn [vtype vp_tag vp_width] in *; eqb_lits;
        (rewrite classes_record; [|vm_compute; reflexivity|apply nlen_le_encode]);
        rewrite le_encode_length;
        rewrite le_decode_encode by exact Hwf; do 3 f_equal; f_equal; lia.
    - eqb_lits.
      rewrite c_cstr_enc.
      + do 3 f_equal. f_equal. lia.
      + intros bs0 ->. cbn [size_cstr] in Hsz. unfold size_str in Hsz.
        destruct bs0; [vm_compute; reflexivity|]. change (256 ^ 8) with 18446744073709551616. lia.
    - destruct pk; cbn [vtype vptr_safe] in *; eqb_lits;
        (rewrite c_ptr_enc by assumption); do 3 f_equal; f_equal; lia.
    - repeat match goal with Hx : (_ && _) = true |- _ => apply andb_true_iff in Hx; destruct Hx end.
      repeat match goal with Hx : (_ <? _) = true |- _ => apply N.ltb_lt in Hx end.
      eqb_lits. unfold enc_new, lay_new. rewrite <- !app_assoc.
      rewrite (c_newref_enc _ true).
      rewrite c_position_enc; [|apply Hids; now left|assumption|assumption].
      rewrite !c_num32_enc by assumption.
      rewrite classes_record; [|vm_compute; reflexivity|apply nlen_le_encode].
      rewrite le_encode_length.
      rewrite le_decode_encode by (change (256 ^ N.of_nat 2) with 65536; assumption).
      assert (Hz : (tl =? 0) && (0 <? count) = false).
      { destruct (N.eqb_spec tl 0) as [->|_]; [|reflexivity]. cbn [andb].
        match goal with Hx : (0 <? 0) || (count =? 0) = true |- _ => cbn [orb] in Hx; change (0 <? 0) with false in Hx; cbn [orb] in Hx; apply N.eqb_eq in Hx; subst count end.
        reflexivity. }
      rewrite Hz. unfold st1. do 9 f_equal. f_equal. change (N.of_nat 2) with 2. lia.
    - repeat match goal with Hx : (_ && _) = true |- _ => apply andb_true_iff in Hx; destruct Hx end.
      repeat match goal with Hx : (_ <? _) = true |- _ => apply N.ltb_lt in Hx end.
      eqb_lits. unfold enc_new, lay_new. rewrite <- !app_assoc.
      rewrite (c_newref_enc _ true).
      rewrite c_position_enc; [|apply Hids; now left|assumption|assumption].
      rewrite !c_num32_enc by assumption.
      unfold st1. do 6 f_equal. f_equal. lia.
    - eqb_lits. unfold enc_new, lay_new. rewrite <- !app_assoc.
      rewrite (c_newref_enc _ true).
      rewrite c_position_enc; [|apply Hids; now left|assumption|assumption].
      rewrite c_num32_enc by lia.
      rewrite c_ptrs_enc; [|intros x Hx; apply Hids; now right|now rewrite reg_ids_num|assumption].
      unfold st1. do 6 f_equal. f_equal. lia.
    - destruct hk; cbn [vtype] in *; eqb_lits; rewrite <- !app_assoc;
        rewrite (c_newref_enc _ false); (rewrite c_ptr_enc by assumption);
        cbn [app]; do 4 f_equal; f_equal; lia.
    - discriminate.
    - apply andb_true_iff in Hwf as [_ Hl]. apply N.eqb_eq in Hl.
      eqb_lits. rewrite <- !app_assoc.
      rewrite !c_raw12_enc by exact Hl.
      cbn [app]. do 5 f_equal. f_equal. rewrite Hl. lia.
  Qed.

  Lemma c_toks_enc F toks : forall labs2 pending pend' st (cont : rst -> list (tok ptgt) -> prog A) pos tail,
    pend_after toks pending = Some pend' ->
    Forall (tok_ok F) toks -> size_toks toks < 2147483648 -> r_num st = nlen F -> nlen F < 2147483648 ->
    classes (r_toks (map shape_tok toks ++ labs2) pending st cont) pos (enc_toks F toks ++ tail) =
    flat_map lay_tok toks ++
    classes (r_toks labs2 pend' (reg_ids F (flat_map reg_tok toks) st)
                    (fun st2 more => cont st2 (map (pend_tok F) toks ++ more)))
        (pos + Z.of_N (nlen (enc_toks F toks))) tail.
  Proof.
    induction toks as [|t r IH]; intros labs2 pending pend' st cont pos tail Hp Hok Hsz Hn HF;
      cbn [map app enc_toks flat_map pend_after size_toks] in *.
    - inversion Hp; subst. cbn [reg_ids fold_left]. f_equal. f_equal. change (nlen (@nil N)) with 0. lia.
    - inversion Hok as [|? ? Ht Hr]; subst.
      destruct (N.eqb_spec pending 0) as [E|E]; [discriminate|].
      cbn [r_toks]. destruct (N.eqb_spec pending 0) as [E'|_]; [contradiction|].
      rewrite <- !app_assoc.
      rewrite c_tok1_enc by assumption.
      cbn [pend_tok t_body]. rewrite kids_pend.
      rewrite (IH labs2 _ pend'); [|exact Hp|assumption|lia|now rewrite reg_ids_num|assumption].
      rewrite reg_ids_app. f_equal. f_equal. f_equal. rewrite nlen_app, nlen_enc_tok. lia.
  Qed.

  Lemma c_key_enc key (k : option (option (list N)) -> prog A) pos tail :
    (forall bs, key = Some (Some bs) -> nlen bs < 256 ^ 8) ->
    classes (r_key (match key with None => None | Some _ => Some None end) k) pos (w_key key ++ tail) =
    lay_key key ++ classes (k key) (pos + Z.of_N (size_key key)) tail.
  Proof.
    intro Hk. destruct key as [s|]; cbn [r_key w_key size_key lay_key].
    - rewrite c_cstr_enc; [reflexivity|]. intros bs ->. now apply Hk.
    - cbn [app]. f_equal. f_equal. lia.
  Qed.

  Lemma c_leaf_enc F st l (cont : rst -> pleaf -> prog A) pos tail :
    leaf_ok F l -> r_num st = nlen F -> nlen F < 2147483648 ->
    classes (r_leaf st (shape_leaf l) cont) pos (enc_leaf F l ++ tail) =
    lay_leaf l ++ classes (cont (reg_ids F (reg_leaf l) st) (pend_leaf F l))
        (pos + Z.of_N (nlen (enc_leaf F l))) tail.
  Proof.
    intros (Hwf & Hin & Hsz) Hn HF. rewrite nlen_enc_leaf.
    destruct l as [k v|bs|bs|s [t|]|id|key toks]; cbn [r_leaf shape_leaf enc_leaf reg_leaf pend_leaf size_leaf reg_ids fold_left lay_leaf].
    7:{ cbn [wf_leaf ids_leaf size_leaf] in *.
        apply andb_true_iff in Hwf as [Hwf Hbal]. apply andb_true_iff in Hwf as [Hkey Hbodies].
        rewrite <- !app_assoc. rewrite c_key_enc.
        2:{ intros bs ->. unfold size_key, size_cstr, size_str in Hsz. destruct bs; [vm_compute; reflexivity|].
            change (256 ^ 8) with 18446744073709551616. lia. }
        unfold balanced in Hbal. destruct (pend_after toks 1) as [[|p]|] eqn:Hp; try discriminate.
        pose proof (c_toks_enc F toks [] 1 0 st (fun st' ts => cont st' (PVar key ts))) as R.
        rewrite app_nil_r in R. rewrite R; [|exact Hp| |lia|assumption|assumption].
        - cbn [r_toks]. change (0 =? 0) with true. cbv iota. rewrite app_nil_r.
          f_equal. f_equal. f_equal. rewrite nlen_enc_toks. lia.
        - rewrite forallb_forall in Hbodies. apply Forall_forall. intros t Ht. split; [now apply Hbodies|split].
          + intros x Hx. apply Hin. rewrite in_flat_map. eauto.
          + clear - Ht Hsz. induction toks as [|a r IH]; [destruct Ht|]. cbn [size_toks] in Hsz.
            destruct Ht as [->|Ht]; [lia|]. apply IH; try assumption; lia. }
    - rewrite classes_record; [|apply ptag_small|apply nlen_le_encode].
      rewrite le_encode_length. rewrite le_decode_encode.
      + f_equal. f_equal. lia.
      + cbn [wf_leaf] in Hwf. destruct k; try (apply N.ltb_lt in Hwf; exact Hwf).
        apply N.ltb_lt in Hwf. cbn [pwidth]. change (256 ^ N.of_nat 1) with 256. lia.
    - assert (Hrep : nlen (repeat 0 (length bs)) = nlen bs) by (unfold nlen; now rewrite repeat_length).
      rewrite Hrep.
      rewrite classes_record; [|vm_compute; reflexivity|reflexivity].
      f_equal. f_equal. lia.
    - cbn [size_leaf] in Hsz. rewrite c_str_enc.
      + now rewrite nlen_w_str.
      + unfold size_str in Hsz. destruct bs; [unfold nlen; cbn; lia|]. change (256 ^ 8) with 18446744073709551616. lia.
    - assert (Ht : In t F) by (apply Hin; now left).
      pose proof (idx_in_range F t Ht) as R.
      unfold ptr_tag. rewrite classes_record; [|destruct s; vm_compute; reflexivity|apply nlen_le_encode].
      rewrite le_encode_length.
      rewrite le_decode_encode by (change (256 ^ N.of_nat 4) with 4294967296; lia).
      destruct (N.eqb_spec (idx F t) NULLP) as [E|_]; [unfold NULLP in E; lia|].
      destruct (N.eqb_spec (idx F t) 0) as [E|_]; [lia|].
      destruct (N.ltb_spec (r_num st) (idx F t)) as [L|_]; [lia|].
      cbn [orb]. f_equal. f_equal. change (N.of_nat 4) with 4. lia.
    - unfold ptr_tag. rewrite classes_record; [|destruct s; vm_compute; reflexivity|apply nlen_le_encode].
      rewrite le_encode_length.
      rewrite le_decode_encode by (vm_compute; reflexivity).
      rewrite N.eqb_refl. f_equal. f_equal. change (N.of_nat 4) with 4. lia.
    - assert (Ht : In id F) by (apply Hin; now left).
      pose proof (idx_in_range F id Ht) as R.
      rewrite classes_record; [|vm_compute; reflexivity|apply nlen_le_encode].
      rewrite le_encode_length.
      rewrite le_decode_encode by (change (256 ^ N.of_nat 4) with 4294967296; lia).
      rewrite add_at_reg by assumption.
      cbn [reg_ids fold_left]. f_equal. f_equal. change (N.of_nat 4) with 4. lia.
  Qed.

  Lemma c_leaves_enc F ls : forall st (cont : rst -> list pleaf -> prog A) pos tail,
    Forall (leaf_ok F) ls -> r_num st = nlen F -> nlen F < 2147483648 ->
    classes (r_leaves (map shape_leaf ls) st cont) pos (enc_leaves F ls ++ tail) =
    flat_map lay_leaf ls ++
    classes (cont (reg_ids F (flat_map reg_leaf ls) st) (map (pend_leaf F) ls))
        (pos + Z.of_N (nlen (enc_leaves F ls))) tail.
  Proof.
    induction ls as [|l r IH]; intros st cont pos tail Hok Hn HF; cbn [map r_leaves enc_leaves flat_map].
    - cbn [app reg_ids fold_left]. f_equal. f_equal. unfold nlen; cbn. lia.
    - inversion Hok as [|? ? Hl Hr]; subst. rewrite <- !app_assoc.
      rewrite c_leaf_enc by assumption.
      rewrite IH; [|assumption|now rewrite reg_ids_num|assumption].
      rewrite reg_ids_app. f_equal. f_equal. f_equal. rewrite nlen_app. lia.
  Qed.

  Lemma c_listener_flag_enc c (cont : prog A) pos tail :
    classes (r_listener_flag c cont) pos (listener_flag c ++ tail) =
    (if is_listener c then lay_rec POther 1 else []) ++
    classes cont (pos + Z.of_N (nlen (listener_flag c))) tail.
  Proof.
    unfold r_listener_flag, listener_flag. destruct (is_listener c).
    - rewrite classes_record; [|vm_compute; reflexivity|reflexivity].
      change (nlen (rec_bytes T_Byte [0])) with 5. cbv iota. cbn [length]. f_equal. f_equal. lia.
    - cbn [app]. f_equal. unfold nlen; cbn. lia.
  Qed.

  Lemma c_item_enc F st it (cont : rst -> pitem -> prog A) pos tail :
    item_ok F it -> r_num st = nlen F -> nlen F < 2147483648 ->
    classes (r_item st (shape_item it) cont) pos (enc_item F it ++ tail) =
    lay_item it ++ classes (cont (reg_ids F (regs_item it) st) (pend_item F it))
        (pos + Z.of_N (nlen (enc_item F it))) tail.
  Proof.
    intros Hok Hn HF. destruct it as [l|c id body]; cbn [r_item shape_item enc_item regs_item pend_item lay_item].
    - now rewrite c_leaf_enc.
    - destruct Hok as (Hb & Hid & Hsz).
      pose proof (idx_in_range F id Hid) as R.
      pose proof (nlen_enc_item F (IObj c id body)) as Hlen. cbn [enc_item] in Hlen.
      rewrite Hlen.
      cbn [size_item] in Hsz.
      assert (Hbody : nlen (enc_body F c body) < 2147483648) by (rewrite nlen_enc_body; lia).
      rewrite <- !app_assoc.
      rewrite classes_ReadTag by (vm_compute; reflexivity).
      rewrite classes_Read by apply nlen_le_encode.
      rewrite le_encode_length.
      rewrite c_str_enc by apply class_name_len.
      rewrite lookup_class_name. rewrite N.eqb_refl. cbn [negb].
      rewrite classes_record; [|vm_compute; reflexivity|apply nlen_le_encode].
      rewrite le_encode_length.
      cbn [classes].
      change (enc_body F c body ++ tail) with ((listener_flag c ++ enc_leaves F body) ++ tail).
      rewrite <- app_assoc.
      rewrite c_listener_flag_enc.
      rewrite c_leaves_enc by assumption.
      cbn [classes].
      rewrite le_decode_encode by (change (256 ^ N.of_nat 8) with 18446744073709551616; lia).
      rewrite to_signed64_small by lia.
      match goal with
      | |- context [(?a + Z.of_N (nlen (listener_flag c)) + Z.of_N (nlen (enc_leaves F body)) - ?a)%Z] =>
          replace (a + Z.of_N (nlen (listener_flag c)) + Z.of_N (nlen (enc_leaves F body)) - a)%Z
            with (Z.of_N (nlen (enc_body F c body))) by (unfold enc_body; rewrite nlen_app; lia)
      end.
      rewrite !Z.ltb_irrefl.
      rewrite le_decode_encode by (change (256 ^ N.of_nat 4) with 4294967296; lia).
      rewrite add_at_reg; [|assumption|now rewrite reg_ids_num].
      rewrite <- reg_ids_app.
      do 7 f_equal. cbn [size_item]. rewrite nlen_w_str, nlen_listener_flag, nlen_enc_leaves. lia.
  Qed.

  Lemma c_items_enc F its : forall st (cont : rst -> list pitem -> prog A) pos tail,
    Forall (item_ok F) its -> r_num st = nlen F -> nlen F < 2147483648 ->
    classes (r_items (shape its) st cont) pos (enc_items F its ++ tail) =
    flat_map lay_item its ++
    classes (cont (reg_ids F (regs_items its) st) (map (pend_item F) its))
        (pos + Z.of_N (nlen (enc_items F its))) tail.
  Proof.
    unfold shape, regs_items.
    induction its as [|it r IH]; intros st cont pos tail Hok Hn HF; cbn [map r_items enc_items flat_map].
    - cbn [app reg_ids fold_left]. f_equal. f_equal. unfold nlen; cbn. lia.
    - inversion Hok as [|? ? Hl Hr]; subst. rewrite <- !app_assoc.
      rewrite c_item_enc by assumption.
      rewrite IH; [|assumption|now rewrite reg_ids_num|assumption].
      rewrite reg_ids_app. f_equal. f_equal. f_equal. rewrite nlen_app. lia.
  Qed.
End Classes.

Lemma classes_reader_enc vor h F its :
  h_version h < 65536 -> nlen (h_name h) < 256 ^ 8 ->
  Forall (item_ok F) its -> nlen F < 2147483648 ->
  classes (reader vor h (shape its)) 0 (write_header h (nlen F) ++ enc_items F its) = wlayout h its.
Proof.
  intros Hv Hname Hok HF.
  rewrite <- (app_nil_r (enc_items F its)).
  unfold reader, write_header, wlayout, lay_header. rewrite <- !app_assoc.
  rewrite classes_ReadMagic.
  rewrite classes_record; [|vm_compute; reflexivity|apply nlen_le_encode].
  rewrite classes_record; [|vm_compute; reflexivity|apply nlen_le_encode].
  rewrite !le_encode_length.
  rewrite le_decode_encode by (vm_compute; reflexivity).
  rewrite le_decode_encode by (change (256 ^ N.of_nat 2) with 65536; exact Hv).
  rewrite !N.eqb_refl. cbn [negb orb andb].
  assert (Hif : (if vor then false else false) = false) by (destruct vor; reflexivity).
  rewrite Hif.
  rewrite c_str_enc by exact Hname.
  rewrite classes_record; [|vm_compute; reflexivity|apply nlen_le_encode].
  rewrite le_encode_length.
  rewrite le_decode_encode by (change (256 ^ N.of_nat 4) with 4294967296; lia).
  rewrite c_items_enc; [|assumption|reflexivity|assumption].
  cbn [classes]. now rewrite app_nil_r.
Qed.

(* the two layouts agree on every representable case *)
Theorem rlayout_is_wlayout h its : wf_case h its = true -> rlayout h its = wlayout h its.
Proof.
  unfold wf_case, wf_hdr, wf_items. intro H.
  repeat match goal with Hx : (_ && _) = true |- _ => apply andb_true_iff in Hx; destruct Hx end.
  repeat match goal with Hx : (_ <? _) = true |- _ => apply N.ltb_lt in Hx end.
  destruct (write_as_enc h its) as (F & Hw & Hin & Hlen); [assumption|].
  pose proof (count_le_size_items its) as Hc.
  assert (HF : nlen F < 2147483648) by lia.
  unfold rlayout. rewrite Hw.
  apply classes_reader_enc; [assumption|change (256 ^ 8) with 18446744073709551616; lia|now apply items_ok|assumption].
Qed.
