(* C11/Spec.v - what the property demands of reading a damaged archive: a truncated
   archive and an archive with substituted bytes in its header, version records, type
   tags, object size brackets or class names must end in an archive error; the only
   exception is a class name that still names the same class (ClassDef::GetClass compares
   without regard to case): then everything is read as from the intact archive.  Damage
   elsewhere (payload bytes, string lengths, indices) is outside the property. *)
From Coq Require Import ZArith NArith List Bool.
From Morfuse Require Import Base.Arr C10.Model C10.Spec C11.Generated C11.Model.
Import ListNotations.
Local Open Scope N_scope.

Inductive expect := EErr | EOkSame | EAny.

Fixpoint nth_N {A} (l : list A) (i : N) : option A :=
  match l with
  | [] => None
  | x :: r => if i =? 0 then Some x else nth_N r (i - 1)
  end.

Definition in_class (c : fclass) : bool :=
  match c with
  | CHeader | CTag | CP PVer | CP PSize | CP PName => true
  | CP POther => false
  end.

Definition effective (bytes : list N) (iv : N * N) : bool :=
  match nth_N bytes (fst iv) with
  | Some o => negb (o =? snd iv)
  | None => false
  end.

Definition pos_in_class (lay : list fclass) (iv : N * N) : bool :=
  match nth_N lay (fst iv) with Some c => in_class c | None => false end.

(* a class-name byte replaced by the same letter in the other case *)
Definition case_flip (lay : list fclass) (bytes : list N) (iv : N * N) : bool :=
  match nth_N lay (fst iv), nth_N bytes (fst iv) with
  | Some (CP PName), Some o => upper o =? upper (snd iv)
  | _, _ => false
  end.

Fixpoint nodupb (l : list N) : bool :=
  match l with
  | [] => true
  | x :: r => negb (memN x r) && nodupb r
  end.

Definition expect_of (h : hdr) (its : list item) (d : damage) : expect :=
  let bytes := write h its in
  let lay := wlayout h its in
  match d with
  | DTrunc n => if n <? nlen bytes then EErr else EAny
  | DSubst l =>
      let eff := filter (effective bytes) l in
      match eff with
      | [] => EAny
      | _ =>
          if negb (nodupb (map fst l)) then EAny
          else if forallb (pos_in_class lay) eff then
                 (if forallb (case_flip lay bytes) eff then EOkSame else EErr)
          else EAny
      end
  end.

Definition spec_damages (h : hdr) (its : list item) (ds : list damage) : list expect :=
  map (expect_of h its) ds.
