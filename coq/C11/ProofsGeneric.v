(* C11/ProofsGeneric.v - facts about EVERY reader program (type prog of C10/Model.v),
   proved once by induction on the program:
   - a program that succeeds on a stream fails with ReadStreamFail on every strict prefix
     of what it consumed, when short reads are checked (caf = true);
   - substituting a byte that the program consumes as part of a type tag ends in
     TypeError, as part of the header in InvalidArchiveHeader. *)
From Coq Require Import ZArith NArith List Bool Lia.
From Morfuse Require Import Base.Arr C10.Model C10.Spec C10.ProofsLib C11.Generated C11.Model C11.Spec.
Import ListNotations.
Local Open Scope N_scope.

Definition small (l : list N) : Prop := Forall (fun b => b < 256) l.

(* ------------------------------------------------------------ nth_N, subst1, truncate *)

Lemma nth_N_app {A} (a b : list A) i :
  nth_N (a ++ b) i = if i <? nlen a then nth_N a i else nth_N b (i - nlen a).
Proof.
  revert i. induction a as [|x a IH]; intro i; cbn [app nth_N].
  - unfold nlen; cbn. destruct (N.ltb_spec i 0); [lia|]. now rewrite N.sub_0_r.
  - rewrite nlen_cons. destruct (N.eqb_spec i 0) as [->|Hi].
    + destruct (N.ltb_spec 0 (1 + nlen a)); [reflexivity|lia].
    + rewrite IH. destruct (N.ltb_spec (i - 1) (nlen a)); destruct (N.ltb_spec i (1 + nlen a)); try lia; try reflexivity.
      f_equal. lia.
Qed.

Lemma nth_N_some_lt {A} (l : list A) i x : nth_N l i = Some x -> i < nlen l.
Proof.
  revert i. induction l as [|y l IH]; intros i H; cbn [nth_N] in H; [discriminate|].
  rewrite nlen_cons. destruct (N.eqb_spec i 0); [lia|]. apply IH in H. lia.
Qed.

Lemma nth_N_lt_some {A} (l : list A) i : i < nlen l -> exists x, nth_N l i = Some x.
Proof.
  revert i. induction l as [|y l IH]; intros i H.
  - unfold nlen in H; cbn in H. lia.
  - cbn [nth_N]. rewrite nlen_cons in H. destruct (N.eqb_spec i 0); [eauto|]. apply IH. lia.
Qed.

Lemma nth_N_repeat {A} (x y : A) n i : nth_N (repeat x n) i = Some y -> y = x.
Proof.
  revert i. induction n as [|n IH]; intros i H; cbn [repeat nth_N] in H; [discriminate|].
  destruct (N.eqb_spec i 0); [congruence|]. eapply IH; eauto.
Qed.

Lemma nlen_repeat {A} (x : A) n : nlen (repeat x n) = N.of_nat n.
Proof. unfold nlen. now rewrite repeat_length. Qed.

Lemma subst1_app a b i v :
  subst1 (a ++ b) i v = if i <? nlen a then subst1 a i v ++ b else a ++ subst1 b (i - nlen a) v.
Proof.
  revert i. induction a as [|x a IH]; intro i; cbn [app subst1].
  - unfold nlen; cbn. destruct (N.ltb_spec i 0); [lia|]. now rewrite N.sub_0_r.
  - rewrite nlen_cons. destruct (N.eqb_spec i 0) as [->|Hi].
    + destruct (N.ltb_spec 0 (1 + nlen a)); [reflexivity|lia].
    + rewrite IH. destruct (N.ltb_spec (i - 1) (nlen a)); destruct (N.ltb_spec i (1 + nlen a)); try lia; try reflexivity.
      cbn [app]. do 3 f_equal. lia.
Qed.

Lemma subst1_length a i v : length (subst1 a i v) = length a.
Proof.
  revert i. induction a as [|x a IH]; intro i; cbn [subst1]; [reflexivity|].
  destruct (i =? 0); cbn [length]; [reflexivity|]. now rewrite IH.
Qed.

Lemma nlen_subst1 a i v : nlen (subst1 a i v) = nlen a.
Proof. unfold nlen. now rewrite subst1_length. Qed.

Lemma subst1_neq a i v o : nth_N a i = Some o -> v <> o -> subst1 a i v <> a.
Proof.
  revert i. induction a as [|x a IH]; intros i H Hv; cbn [nth_N subst1] in *; [discriminate|].
  destruct (N.eqb_spec i 0).
  - inversion H; subst. intro E. inversion E. contradiction.
  - intro E. inversion E. eapply IH; eauto.
Qed.

Lemma subst1_small a i v : small a -> v < 256 -> small (subst1 a i v).
Proof.
  unfold small. revert i. induction a as [|x a IH]; intros i Ha Hv; cbn [subst1]; [constructor|].
  inversion Ha; subst. destruct (i =? 0); constructor; auto.
Qed.

Lemma small_app a b : small (a ++ b) <-> small a /\ small b.
Proof. unfold small. apply Forall_app. Qed.

Lemma truncate_all bs n : nlen bs <= n -> truncate bs n = bs.
Proof.
  intro H. unfold truncate. destruct (take bs n) as [[a b]|] eqn:E; [|reflexivity].
  apply take_some in E as [-> Hn]. rewrite nlen_app in H.
  assert (nlen b = 0) by lia. destruct b; [now rewrite app_nil_r|]. rewrite nlen_cons in *. lia.
Qed.

Lemma truncate_app a b n :
  nlen a <= n -> truncate (a ++ b) n = a ++ truncate b (n - nlen a).
Proof.
  revert n. induction a as [|x a IH]; intros n H.
  - cbn [app]. unfold nlen; cbn. now rewrite N.sub_0_r.
  - rewrite nlen_cons in H. unfold truncate in *. cbn [app take].
    destruct (N.eqb_spec n 0); [lia|].
    specialize (IH (n - 1)). replace (n - (nlen (x :: a))) with (n - 1 - nlen a) by (rewrite nlen_cons; lia).
    destruct (take (a ++ b) (n - 1)) as [[a1 b1]|] eqn:E.
    + rewrite <- IH by lia. reflexivity.
    + rewrite <- IH by lia. reflexivity.
Qed.

Lemma truncate_short bs n : n <= nlen bs -> nlen (truncate bs n) = n.
Proof.
  intro H. unfold truncate. destruct (take bs n) as [[a b]|] eqn:E.
  - now apply take_some in E as [_ Hn].
  - apply take_none in E. lia.
Qed.

Lemma take_short bs k : nlen bs < k -> take bs k = None.
Proof. apply take_none. Qed.

(* --------------------------------------------------- a successful run consumes a prefix *)

Lemma run_suffix {A} caf (p : prog A) : forall pos bs a s',
  run caf p (Good pos bs) = Ok a s' -> caf = true ->
  exists c pos' r, s' = Good pos' r /\ bs = c ++ r.
Proof.
  induction p as [a0|e| |cont IH|c k cont IH|t cont IH|m cont IH]; intros pos bs a s' H Hc; cbn [run] in H.
  - inversion H; subst. exists [], pos, bs. split; reflexivity.
  - discriminate.
  - discriminate.
  - eapply IH; eauto.
  - destruct (take bs k) as [[a1 b]|] eqn:E.
    + apply take_some in E as [-> _]. destruct (IH _ _ _ _ _ H Hc) as (c' & pos' & r & -> & ->).
      exists (a1 ++ c'), pos', r. split; [reflexivity|now rewrite app_assoc].
    + subst caf. discriminate.
  - destruct (take bs 4) as [[a1 b]|] eqn:E.
    + apply take_some in E as [-> _]. destruct (le_decode a1 =? t); [|discriminate].
      destruct (IH _ _ _ _ H Hc) as (c' & pos' & r & -> & ->).
      exists (a1 ++ c'), pos', r. split; [reflexivity|now rewrite app_assoc].
    + subst caf. discriminate.
  - destruct (take bs (nlen m)) as [[a1 b]|] eqn:E.
    + apply take_some in E as [-> _]. destruct (list_eqb a1 m); [|discriminate].
      destruct (IH _ _ _ _ H Hc) as (c' & pos' & r & -> & ->).
      exists (a1 ++ c'), pos', r. split; [reflexivity|now rewrite app_assoc].
    + subst caf. discriminate.
Qed.

(* -------------------------------------------------------------------- truncation *)

Theorem truncation_generic {A} (p : prog A) : forall pos bs a pos' r n,
  run true p (Good pos bs) = Ok a (Good pos' r) ->
  n + nlen r < nlen bs ->
  run true p (Good pos (truncate bs n)) = Err ReadStreamFail.
Proof.
  induction p as [a0|e| |cont IH|c k cont IH|t cont IH|m cont IH]; intros pos bs a pos' r n H Hn; cbn [run] in H.
  - inversion H; subst. lia.
  - discriminate.
  - discriminate.
  - cbn [run]. eapply IH; eauto.
  - destruct (take bs k) as [[a1 b]|] eqn:E; [|discriminate].
    apply take_some in E as [-> Hk]. rewrite nlen_app in Hn. cbn [run].
    destruct (N.ltb_spec n (nlen a1)) as [L|L].
    + rewrite take_short; [reflexivity|]. rewrite truncate_short; [lia|]. rewrite nlen_app. lia.
    + rewrite truncate_app by exact L. rewrite <- Hk, take_app.
      eapply IH; [rewrite Hk; exact H|]. lia.
  - destruct (take bs 4) as [[a1 b]|] eqn:E; [|discriminate].
    apply take_some in E as [-> Hk]. rewrite nlen_app in Hn. cbn [run].
    destruct (le_decode a1 =? t) eqn:Et; [|discriminate].
    destruct (N.ltb_spec n (nlen a1)) as [L|L].
    + rewrite take_short; [reflexivity|]. rewrite truncate_short; [lia|]. rewrite nlen_app. lia.
    + rewrite truncate_app by exact L. rewrite <- Hk, take_app, Et.
      eapply IH; [exact H|]. lia.
  - destruct (take bs (nlen m)) as [[a1 b]|] eqn:E; [|discriminate].
    apply take_some in E as [-> Hk]. rewrite nlen_app in Hn. cbn [run].
    destruct (list_eqb a1 m) eqn:Et; [|discriminate].
    apply list_eqb_eq in Et. subst a1.
    destruct (N.ltb_spec n (nlen m)) as [L|L].
    + rewrite take_short; [reflexivity|]. rewrite truncate_short; [lia|]. rewrite nlen_app. lia.
    + rewrite truncate_app by exact L. rewrite take_app, list_eqb_refl.
      eapply IH; [exact H|]. lia.
Qed.

(* ------------------------------------------------- substitution in a tag / the header *)

Lemma decode_subst_neq a i v o :
  small a -> v < 256 -> nth_N a i = Some o -> v <> o -> le_decode (subst1 a i v) <> le_decode a.
Proof.
  intros Ha Hv Hn Hne E. eapply subst1_neq; eauto.
  apply le_decode_inj; [apply subst1_length|apply subst1_small; assumption|exact Ha|exact E].
Qed.

Definition is_type_error {A} (r : res A) : Prop :=
  match r with Err (TypeError _ _) => True | _ => False end.

Theorem tag_header_generic {A} caf (p : prog A) : forall pos bs a s' i v o,
  run caf p (Good pos bs) = Ok a s' -> small bs -> v < 256 ->
  nth_N bs i = Some o -> v <> o ->
  (nth_N (classes p pos bs) i = Some CTag ->
     is_type_error (run caf p (Good pos (subst1 bs i v)))) /\
  (nth_N (classes p pos bs) i = Some CHeader ->
     run caf p (Good pos (subst1 bs i v)) = Err InvalidArchiveHeader).
Proof.
  induction p as [a0|e| |cont IH|c k cont IH|t cont IH|m cont IH]; intros pos bs a s' i v o H Hs Hv Hi Hne;
    cbn [run] in H; cbn [classes].
  - split; intro Hc; discriminate.
  - discriminate.
  - discriminate.
  - cbn [run]. eapply IH; eauto.
  - destruct (take bs k) as [[a1 b]|] eqn:E.
    2:{ split; intro Hc; cbn [nth_N] in Hc; discriminate. }
    apply take_some in E as [-> Hk]. subst k. apply small_app in Hs as [Hs1 Hs2].
    rewrite nth_N_app, nlen_repeat. fold (nlen a1). rewrite nth_N_app in Hi.
    cbn [run]. rewrite subst1_app.
    destruct (N.ltb_spec i (nlen a1)) as [L|L].
    + split; intro Hc; apply nth_N_repeat in Hc; discriminate.
    + rewrite take_app. eapply IH; [exact H|exact Hs2|exact Hv|exact Hi|exact Hne].
  - destruct (take bs 4) as [[a1 b]|] eqn:E; [|destruct caf; discriminate].
    apply take_some in E as [-> Hk]. apply small_app in Hs as [Hs1 Hs2].
    destruct (N.eqb_spec (le_decode a1) t) as [Et|Et]; [|discriminate].
    rewrite nth_N_app, nlen_repeat. change (N.of_nat 4) with 4. rewrite nth_N_app in Hi. rewrite Hk in Hi.
    cbn [run]. rewrite subst1_app. rewrite Hk.
    destruct (N.ltb_spec i 4) as [L|L].
    + split; intro Hc; [|apply nth_N_repeat in Hc; discriminate].
      assert (Hk' : nlen (subst1 a1 i v) = 4) by (rewrite nlen_subst1; exact Hk).
      assert (Ht : take (subst1 a1 i v ++ b) 4 = Some (subst1 a1 i v, b)) by (rewrite <- Hk'; apply take_app).
      rewrite Ht.
      destruct (N.eqb_spec (le_decode (subst1 a1 i v)) t) as [E2|E2]; [|exact I].
      exfalso. apply (decode_subst_neq a1 i v o Hs1 Hv Hi Hne). congruence.
    + assert (Ht : take (a1 ++ subst1 b (i - 4) v) 4 = Some (a1, subst1 b (i - 4) v)) by (rewrite <- Hk; apply take_app).
      rewrite Ht.
      destruct (N.eqb_spec (le_decode a1) t); [|contradiction].
      eapply IH; [exact H|exact Hs2|exact Hv|exact Hi|exact Hne].
  - destruct (take bs (nlen m)) as [[a1 b]|] eqn:E; [|destruct caf; discriminate].
    apply take_some in E as [-> Hk]. apply small_app in Hs as [Hs1 Hs2].
    destruct (list_eqb a1 m) eqn:Et; [|discriminate].
    apply list_eqb_eq in Et. subst a1.
    rewrite nth_N_app, nlen_repeat. fold (nlen m). rewrite nth_N_app in Hi.
    cbn [run]. rewrite subst1_app.
    destruct (N.ltb_spec i (nlen m)) as [L|L].
    + split; intro Hc; [apply nth_N_repeat in Hc; discriminate|].
      rewrite <- (nlen_subst1 m i v) at 1. rewrite take_app.
      destruct (list_eqb (subst1 m i v) m) eqn:E2; [|reflexivity].
      apply list_eqb_eq in E2. exfalso. eapply subst1_neq; eauto.
    + rewrite take_app, list_eqb_refl. eapply IH; [exact H|exact Hs2|exact Hv|exact Hi|exact Hne].
Qed.
