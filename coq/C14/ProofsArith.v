(* C14/ProofsArith.v — the closed forms of the specification (slack, plain_on, loop_on)
   agree with the model's per-instruction polling. *)
From Coq Require Import NArith List Bool Lia.
From Morfuse Require Import C14.Model C14.Spec.
Import ListNotations.
Local Open Scope N_scope.

Section WithCfg.
Variable c : cfg.

Lemma advance_00 a : advance c a 0 0 = a.
Proof.
  destruct a as [cl t n [o w e d i]]. unfold advance.
  cbn [clock tm nexttid lg out nwarn nerr ndbg ninstr].
  now rewrite N.mul_0_l, !N.add_0_r.
Qed.

Lemma advance_advance a x y x' y' :
  advance c (advance c a x y) x' y' = advance c a (x + x') (y + y').
Proof.
  unfold advance. cbn. f_equal; [|f_equal]; lia.
Qed.

Lemma count_advance a : count a = advance c a 0 1.
Proof.
  unfold count, advance, set_lg. cbn. f_equal. lia.
Qed.

Lemma tick_advance a : tick c a = (advance c a 1 0, clock a + kstep c).
Proof.
  destruct a as [cl t n [o w e d i]]. unfold tick, advance.
  cbn [clock tm nexttid lg out nwarn nerr ndbg ninstr].
  rewrite N.add_0_r, N.mul_1_l. reflexivity.
Qed.

Lemma clock_advance a x y : clock (advance c a x y) = clock a + x * kstep c.
Proof. reflexivity. Qed.

Lemma clock_log_err a : clock (log_err c a) = clock a.
Proof. unfold log_err. now destruct (err c). Qed.

Lemma tm_log_err a : tm (log_err c a) = tm a.
Proof. unfold log_err. now destruct (err c). Qed.

Lemma tm_advance a x y : tm (advance c a x y) = tm a.
Proof. reflexivity. Qed.

(* the poll under protection *)
Lemma post_on a cmd D :
  prot c = true ->
  post c (count a) cmd D =
    if over cmd D then (log_err c (advance c a 0 1), None)
    else (advance c a 1 1, Some (clock a + kstep c, D)).
Proof.
  intro Hp. unfold post, over. rewrite Hp.
  destruct (negb (D =? 0) && (D <=? cmd)).
  - now rewrite count_advance.
  - rewrite tick_advance, count_advance, advance_advance, clock_advance.
    rewrite N.mul_0_l, !N.add_0_r. reflexivity.
Qed.

Lemma slack_zero t D : over t D = true -> slack c t D = Some 0.
Proof.
  unfold over, slack. intro H. apply andb_true_iff in H. destruct H as [H1 H2].
  destruct (D =? 0); [discriminate|]. now rewrite H2.
Qed.

(* one more reading: one instruction less *)
Lemma slack_step t D :
  over t D = false -> slack c t D = option_map N.succ (slack c (t + kstep c) D).
Proof.
  unfold over, slack. intro H.
  destruct (N.eqb_spec D 0) as [HD|HD]; [reflexivity|]. cbn in H.
  rewrite H.
  destruct (N.eqb_spec (kstep c) 0) as [Hk|Hk].
  - rewrite Hk, N.add_0_r, H. reflexivity.
  - apply N.leb_gt in H.
    destruct (N.leb_spec D (t + kstep c)) as [Hle|Hgt]; cbn.
    + rewrite N.div_small by lia. reflexivity.
    + replace (D - t - 1) with ((D - (t + kstep c) - 1) + 1 * kstep c) by lia.
      rewrite N.div_add by exact Hk. f_equal. lia.
Qed.

Lemma slack_not_zero t D j : over t D = false -> slack c t D = Some j -> j <> 0.
Proof.
  intros H Hs. rewrite (slack_step _ _ H) in Hs.
  destruct (slack c (t + kstep c) D); cbn in Hs; [|discriminate].
  injection Hs as <-. lia.
Qed.

Definition all_pass (n : nat) (a : core) (D : N) : core * option (N * N) :=
  (advance c a (N.of_nat n) (N.of_nat n), Some (clock a + N.of_nat n * kstep c, D)).

(* from a fresh reading *)
Lemma plain_fresh n : forall a D,
  prot c = true ->
  plain c n a (clock a) D =
    match slack c (clock a) D with
    | None => all_pass n a D
    | Some j => if N.of_nat n <=? j then all_pass n a D
                else (log_err c (advance c a j (j + 1)), None)
    end.
Proof.
  induction n as [|n IH]; intros a D Hp.
  - cbn [plain]. unfold all_pass. cbn [N.of_nat]. rewrite advance_00, N.mul_0_l, N.add_0_r.
    destruct (slack c (clock a) D) as [j|]; [|reflexivity].
    now destruct j.
  - cbn [plain]. rewrite (post_on _ _ _ Hp).
    destruct (over (clock a) D) eqn:Ho.
    + rewrite (slack_zero _ _ Ho).
      replace (N.of_nat (S n) <=? 0) with false by (symmetry; apply N.leb_gt; lia).
      reflexivity.
    + rewrite (slack_step _ _ Ho).
      specialize (IH (advance c a 1 1) D Hp).
      rewrite clock_advance, N.mul_1_l in IH. rewrite IH.
      assert (Hall : all_pass n (advance c a 1 1) D = all_pass (S n) a D).
      { unfold all_pass. rewrite advance_advance, clock_advance.
        replace (1 + N.of_nat n) with (N.of_nat (S n)) by lia.
        f_equal. f_equal. f_equal. lia. }
      destruct (slack c (clock a + kstep c) D) as [j|]; cbn [option_map]; [|exact Hall].
      replace (N.of_nat (S n) <=? N.succ j) with (N.of_nat n <=? j).
      2:{ destruct (N.leb_spec (N.of_nat n) j), (N.leb_spec (N.of_nat (S n)) (N.succ j)); try reflexivity; lia. }
      destruct (N.of_nat n <=? j); [exact Hall|].
      rewrite advance_advance. do 3 f_equal; lia.
Qed.

Lemma plain_on_correct n a cmd D :
  prot c = true -> plain c n a cmd D = plain_on c n a cmd D.
Proof.
  intro Hp. destruct n as [|n]; [reflexivity|].
  cbn [plain plain_on]. rewrite (post_on _ _ _ Hp).
  destruct (over cmd D); [reflexivity|].
  pose proof (plain_fresh n (advance c a 1 1) D Hp) as H.
  rewrite clock_advance, N.mul_1_l in H. rewrite H.
  assert (Hall : all_pass n (advance c a 1 1) D =
                 (advance c a (N.of_nat (S n)) (N.of_nat (S n)), Some (clock a + N.of_nat (S n) * kstep c, D))).
  { unfold all_pass. rewrite advance_advance, clock_advance.
    replace (1 + N.of_nat n) with (N.of_nat (S n)) by lia.
    f_equal. f_equal. f_equal. lia. }
  destruct (slack c (clock a + kstep c) D) as [j|]; [|exact Hall].
  destruct (N.of_nat n <=? j); [exact Hall|].
  rewrite advance_advance. do 3 f_equal; lia.
Qed.

Lemma sp_plain_correct n a cmd D : sp_plain c n a cmd D = plain c n a cmd D.
Proof.
  unfold sp_plain. destruct (prot c) eqn:Hp; [|reflexivity].
  symmetry. now apply plain_on_correct.
Qed.

Lemma loop_S f a cmd D :
  loop c (S f) a cmd D =
    match post c (count a) cmd D with
    | (a1, None) => Some a1
    | (a1, Some (cmd1, D1)) => loop c f a1 cmd1 D1
    end.
Proof. reflexivity. Qed.

(* the endless loop *)
Lemma loop_fresh fuel : forall a D j,
  prot c = true -> slack c (clock a) D = Some j -> (j < N.of_nat fuel) ->
  loop c fuel a (clock a) D = Some (log_err c (advance c a j (j + 1))).
Proof.
  induction fuel as [|f IH]; intros a D j Hp Hs Hj; [lia|].
  cbn [loop]. rewrite (post_on _ _ _ Hp).
  destruct (over (clock a) D) eqn:Ho.
  - rewrite (slack_zero _ _ Ho) in Hs. injection Hs as <-. reflexivity.
  - rewrite (slack_step _ _ Ho) in Hs.
    destruct (slack c (clock a + kstep c) D) as [j'|] eqn:Hs'; cbn in Hs; [|discriminate].
    injection Hs as <-.
    specialize (IH (advance c a 1 1) D j' Hp).
    rewrite clock_advance, N.mul_1_l in IH. rewrite IH; [|exact Hs'|lia].
    rewrite advance_advance. do 3 f_equal; lia.
Qed.

Lemma loop_fresh_none fuel : forall a D,
  prot c = true -> slack c (clock a) D = None -> loop c fuel a (clock a) D = None.
Proof.
  induction fuel as [|f IH]; intros a D Hp Hs; [reflexivity|].
  cbn [loop]. rewrite (post_on _ _ _ Hp).
  destruct (over (clock a) D) eqn:Ho.
  - rewrite (slack_zero _ _ Ho) in Hs. discriminate.
  - rewrite (slack_step _ _ Ho) in Hs.
    destruct (slack c (clock a + kstep c) D) eqn:Hs'; cbn in Hs; [discriminate|].
    specialize (IH (advance c a 1 1) D Hp).
    rewrite clock_advance, N.mul_1_l in IH. now apply IH.
Qed.

Lemma slack_bound t D j : slack c t D = Some j -> j <= D - t.
Proof.
  unfold slack.
  destruct (D =? 0); [discriminate|].
  destruct (N.leb_spec D t); [intro H'; injection H' as <-; lia|].
  destruct (N.eqb_spec (kstep c) 0) as [Hk|Hk]; [discriminate|].
  intro H'. injection H' as <-.
  assert ((D - t - 1) / kstep c <= D - t - 1).
  { apply N.div_le_upper_bound; [exact Hk|]. nia. }
  lia.
Qed.

Lemma loop_off fuel : forall a cmd D, prot c = false -> loop c fuel a cmd D = None.
Proof.
  induction fuel as [|f IH]; intros a cmd D Hp; [reflexivity|].
  cbn [loop]. unfold post. rewrite Hp.
  destruct (negb (D =? 0) && (D <=? cmd)).
  - destruct (extend c (count a)) as [a1 [cmd1 D1]]. now apply IH.
  - destruct (tick c (count a)) as [a1 cmd1]. now apply IH.
Qed.

Lemma sp_loop_correct a cmd D : sp_loop c a cmd D = loop c (loop_fuel a D) a cmd D.
Proof.
  unfold sp_loop. destruct (prot c) eqn:Hp; [|symmetry; now apply loop_off].
  unfold loop_on, loop_fuel. rewrite loop_S, (post_on _ _ _ Hp).
  destruct (over cmd D); [reflexivity|].
  destruct (slack c (clock a + kstep c) D) as [j|] eqn:Hs.
  - pose proof (loop_fresh (S (N.to_nat (D - clock a))) (advance c a 1 1) D j Hp) as H.
    rewrite clock_advance, N.mul_1_l in H. rewrite H; [|exact Hs|].
    + rewrite advance_advance. do 3 f_equal; lia.
    + apply slack_bound in Hs. lia.
  - pose proof (loop_fresh_none (S (N.to_nat (D - clock a))) (advance c a 1 1) D Hp) as H.
    rewrite clock_advance, N.mul_1_l in H. symmetry. now apply H.
Qed.

End WithCfg.
