(* C14/Properties.v — the property theorems of C14, and nothing else.
   Every theorem is closed by [exact <lemma>] and followed by Print Assumptions.
   c : cfg = {loop protection, Warn/Error/Debug stream attached or not, execution limit (ms,
   0 = none), nesting limit, clock step (ms per clock reading)}: every theorem quantifies
   over ALL configurations unless it names a restriction. *)
From Coq Require Import NArith List Bool.
From Morfuse Require Import C14.Model C14.Spec C14.ProofsArith C14.Proofs C14.ProofsProps C14.ProofsHang.
Import ListNotations.
Local Open Scope N_scope.

(* For EVERY configuration and EVERY history of host calls (start a thread running any
   abstract program - plain work, prints, waits, script warnings and aborts, nested thread
   calls, endless loops -, clock advances, frames, Reset) the engine model - the depth
   counter of ScriptExecutionStack, the director's current-thread slot saved and restored
   by ScriptExecuteInternal on both paths, Process's poll after every instruction with the
   previous clock reading, Execute's three catch arms, ExecuteRunning's refusal to run while
   a thread is current - observes exactly what the specification observes: the same outcome
   class of every host call, the same injected time consumed, "no current thread" and
   "depth 0" after every call, the same output, the same messages per stream, the same
   number of executed instructions; and the call does not return (None) in exactly the
   same cases. *)
Theorem C14_engine_refines_the_interruption_specification :
  forall (c : cfg) (ops : list op), run c ops = spec_run c ops.
Proof. exact run_refines_spec. Qed.
Print Assumptions C14_engine_refines_the_interruption_specification.

(* The per-instruction poll equals the closed form: with protection on, n plain
   instructions starting with last reading cmd and deadline D either all pass (time advances
   by n steps) or the instruction number slack + 2 is interrupted ... *)
Theorem C14_poll_closed_form :
  forall c n a cmd D, prot c = true -> plain c n a cmd D = plain_on c n a cmd D.
Proof. exact plain_on_correct. Qed.
Print Assumptions C14_poll_closed_form.

(* ... and an endless loop is interrupted at the computed instruction (or never: no
   protection, no limit, or a clock that does not advance) - the model's fuel is exact. *)
Theorem C14_endless_loop_closed_form :
  forall c a cmd D, sp_loop c a cmd D = loop c (loop_fuel a D) a cmd D.
Proof. exact sp_loop_correct. Qed.
Print Assumptions C14_endless_loop_closed_form.

(* Clause 1 (overflow_interrupts): with loop protection, a limit and an advancing clock, a
   host call that starts non-yielding code that never ends (any mix of plain work and
   prints followed by an endless loop) from ANY engine state fails with CommandOverflow
   after at most limit + 2 clock steps, leaves depth 0 and no current thread, and does not
   touch the timer (waiting threads, due times, dirty flag). *)
Theorem C14_runaway_thread_is_interrupted_within_the_bound :
  forall c p a,
    prot c = true -> limit c <> 0 -> kstep c <> 0 -> spin p ->
    exists a' ob,
      step c (mkSt a 0 None) (OStart p) = Some (mkSt a' 0 None, ob)
      /\ oc ob = Overflow
      /\ dt ob <= limit c + 2 * kstep c
      /\ tm a' = tm a.
Proof. exact overflow_interrupts_model. Qed.
Print Assumptions C14_runaway_thread_is_interrupted_within_the_bound.

Theorem C14_spec_runaway_thread_is_interrupted_within_the_bound :
  forall c p a,
    prot c = true -> limit c <> 0 -> kstep c <> 0 -> spin p ->
    exists a' ob,
      spec_step c a (OStart p) = Some (a', ob)
      /\ oc ob = Overflow
      /\ dt ob <= limit c + 2 * kstep c
      /\ tm a' = tm a.
Proof. exact overflow_interrupts. Qed.
Print Assumptions C14_spec_runaway_thread_is_interrupted_within_the_bound.

(* "instead of blocking forever": with loop protection, a limit and an advancing clock NO
   host call of ANY history blocks - whatever the programs (endless loops anywhere: nested,
   after waits, in resumed threads), the model never runs out of fuel. *)
Theorem C14_no_host_call_blocks_under_protection :
  forall c, prot c = true -> limit c <> 0 -> kstep c <> 0 ->
  forall ops, ~ In None (run c ops).
Proof. exact never_blocks. Qed.
Print Assumptions C14_no_host_call_blocks_under_protection.

(* Clause 2 (depth_limit): n thread calls nested in each other (no time limit, nothing due)
   return iff n <= the nesting limit and fail with MaxStackDepth otherwise; either way the
   depth is back to 0 and no current thread is left. *)
Theorem C14_nesting_deeper_than_the_limit_fails_with_stack_overflow :
  forall c n a,
    limit c = 0 -> dirty (tm a) = false ->
    exists a' ob,
      step c (mkSt a 0 None) (OStart (chain n)) = Some (mkSt a' 0 None, ob)
      /\ oc ob = (if N.of_nat n <=? nest c then Returned else MaxDepth)
      /\ curnull ob = true /\ depth0 ob = true.
Proof. exact depth_limit_model. Qed.
Print Assumptions C14_nesting_deeper_than_the_limit_fails_with_stack_overflow.

(* in any situation a call from a thread at nesting level lvl > nest - 1 does not run its
   callee: MaxStackDepth (or the caller is interrupted on the operand instruction) *)
Theorem C14_a_call_beyond_the_nesting_limit_never_runs :
  forall c q k tid lvl a cmd D,
    nest c < lvl + 1 ->
    exists a', sp_instrs c (PCall q k) tid lvl a cmd D = Some (a', RRaise EMaxDepth)
               \/ sp_instrs c (PCall q k) tid lvl a cmd D = Some (a', RRaise EOverflow).
Proof. exact call_too_deep. Qed.
Print Assumptions C14_a_call_beyond_the_nesting_limit_never_runs.

(* Clause 3 (no_host_crash_any_config): whatever the output configuration - each stream
   attached or not - no host call of any history has the outcome `crash`. *)
Theorem C14_no_host_crash_in_any_configuration :
  forall c ops ob, In (Some ob) (run c ops) -> oc ob <> Crash.
Proof. exact no_host_crash. Qed.
Print Assumptions C14_no_host_crash_in_any_configuration.

(* Clause 4 (engine_recovers): after EVERY host call of every history - returned or
   interrupted by CommandOverflow, MaxStackDepth or a script abort - no current thread is
   set and the depth is 0 ... *)
Theorem C14_engine_recovers_after_every_host_call :
  forall c ops ob, In (Some ob) (run c ops) -> curnull ob = true /\ depth0 ob = true.
Proof. exact engine_recovers. Qed.
Print Assumptions C14_engine_recovers_after_every_host_call.

(* ... stated on the engine state: hence ExecuteRunning is never blocked by a stale slot,
   new host calls run at depth 0 and (first theorem) later frames schedule the waiting
   threads exactly as the specification says, Reset included. *)
Theorem C14_engine_state_recovers_after_every_operation :
  forall c a o s' ob,
    step c (mkSt a 0 None) o = Some (s', ob) -> depth s' = 0 /\ cur s' = None.
Proof. exact engine_state_recovers. Qed.
Print Assumptions C14_engine_state_recovers_after_every_operation.

(* Protection off: nothing is ever interrupted by CommandOverflow (the deadline is
   extended instead). *)
Theorem C14_without_protection_no_call_fails_with_command_overflow :
  forall c ops ob, prot c = false -> In (Some ob) (run c ops) -> oc ob <> Overflow.
Proof. exact protection_off_never_interrupts. Qed.
Print Assumptions C14_without_protection_no_call_fails_with_command_overflow.

(* ------------------------------------------------------------------ non-vacuity *)
Definition cfg_on : cfg := mkCfg true true false true 10 5 1.
Definition cfg_off : cfg := mkCfg false false true true 3 1 2.

(* a sentinel waits; a runaway loop is interrupted after 11 ms (10 instructions); the
   sentinel still resumes in a later frame; endless recursion fails with MaxStackDepth at
   nesting 6; Reset; a new thread runs *)
Example C14_history_with_recovery :
  run cfg_on [OStart (PPrint 1 (PWait 5 (PPrint 2 PEnd))); OStart PLoop; OAdvance 3; OFrame;
              OStart (chain 8); OReset; OStart (PPrint 9 PEnd)]
  = [Some (mkObs Returned 6 true true [1] true 0 0 0 4);
     Some (mkObs Overflow 11 true true [] true 0 0 0 10);
     Some (mkObs Returned 3 true true [] true 0 0 0 0);
     Some (mkObs Returned 8 true true [2] false 0 0 0 3);
     Some (mkObs MaxDepth 18 true true [] false 0 0 0 12);
     Some (mkObs Returned 0 true true [] false 0 0 0 0);
     Some (mkObs Returned 5 true true [9] false 0 0 0 3)].
Proof. vm_compute. reflexivity. Qed.

(* protection off: the deadline is extended (Debug messages), the work completes *)
Example C14_deadline_extension :
  run cfg_off [OStart (PPrint 1 (PWork 7 (PPrint 2 PEnd)))]
  = [Some (mkObs Returned 38 true true [1; 2] false 0 0 5 12)].
Proof. vm_compute. reflexivity. Qed.

(* protection off and an endless loop: the host call does not return *)
Example C14_unprotected_loop_blocks :
  run cfg_off [OStart PLoop] = [None] /\ spec_run cfg_off [OStart PLoop] = [None].
Proof. split; vm_compute; reflexivity. Qed.
