(* C14/Model.v — executable model of the interruption machinery of the script engine:

   ScriptVM::Execute / ScriptVM::Process (src/Script/ScriptVMOperation.cpp):
     - ScriptExecutionStack: a (thread_local) counter; the constructor throws MaxStackDepth
       when `stackDepth > maxStackDepth` BEFORE incrementing, the destructor decrements on
       every path (src/Script/ScriptVM.cpp);
     - the deadline `nextTime = GetTime() + maxExecTime` (0 when no limit is configured) is
       computed from one clock reading at the start of Execute;
     - Process reads the clock once on entry (cmdTime) and, AFTER every executed
       instruction, tests `state == Running && interruptTime && cmdTime >= interruptTime`
       with the reading taken BEFORE that instruction, throws CommandOverflow or reads the
       clock again; a thread that just ended or yielded (wait) is not polled, only the
       clock is read once more;
     - Execute's catch arms: CommandOverflow -> loop protection on: print the source
       position to the Error stream if attached, state = Idling, rethrow; off: print to the
       Debug stream if attached, nextTime = GetTime() + limit, call Process again (one more
       reading).  ScriptExceptionBase -> warning to the Warn stream if attached, call
       Process again.  Any other std::exception (MaxStackDepth of a nested call,
       ScriptAbortException) -> Error stream, state = Idling, rethrow.
   ScriptThread::ScriptExecuteInternal (src/Script/ScriptThread.cpp): saves the director's
     current thread, installs the new one, restores it on the normal AND on the exception
     path, then calls ExecuteRunning (which does nothing while a current thread is set).
   ScriptThread::Execute: rethrows abort exceptions to the host.
   ScriptMaster::ExecuteRunning (src/Script/ScriptMaster.cpp): returns when a current thread
     is set; otherwise, when the timer is dirty, resumes due threads (timer discipline as in
     C06: insertion order, backward scan with <=, dirty flag), the slot holds the resumed
     thread, is cleared when the scan finds nothing and when a resumed thread throws.
   ScriptContext::Execute: three clock readings (Frame, SetTime(GetTime()), the event queue)
     and ExecuteRunning.  ScriptMaster::Reset kills every thread (the timer list empties).

   The clock is the injected clock in its second mode: every reading first advances it by
   [kstep] ms and returns the new value ("time = clock readings").  [clock] is counted from
   the engine's start time (the harness starts the engine at clock 1000), so GetTime() is
   the reading itself.

   Abstract programs (continuation style): each statement costs [pre] operand instructions
   (plain instructions: they only pass the poll) followed by its command instruction.
   PWork n = n plain instructions; PLoop = plain instructions for ever (while/for/do/goto
   cycles are indistinguishable for this machinery); PCall q k = `thread label` (a nested
   Execute of q, synchronous until q waits or ends, then k); PFault raises a
   ScriptException, PAbort a ScriptAbortException; PEnd is the `end` command.
   Diagnostic streams are modelled as attached/absent: writing to an absent stream is
   skipped (the code tests the pointer); the model counts the messages written.
   Abstracted: values, the operand stack, thread objects (a thread interrupted by an abort
   is simply never scheduled again: it stays a zombie until Reset), the previous-thread
   slot, the nested ExecuteRunning inside a thread call (a current thread is always set
   there, so it returns at once).  Fuel: PLoop runs with fuel (deadline - clock) + 2, the
   resume loop with the C06 weight; None = the host call does not return. *)
From Coq Require Import NArith List Bool.
Import ListNotations.
Local Open Scope N_scope.

Inductive prog :=
| PEnd                              (* the `end` command *)
| PWork (n : nat) (k : prog)        (* n plain instructions, then k *)
| PPrint (m : N) (k : prog)
| PWait (d : N) (k : prog)
| PFault (k : prog)
| PAbort (k : prog)                 (* k is never reached *)
| PCall (q : prog) (k : prog)       (* thread q, then k *)
| PLoop.                            (* plain instructions for ever *)

Inductive op :=
| OStart (p : prog)    (* host: ExecuteThread of a fresh script *)
| OAdvance (dt : N)          (* the host's clock moves *)
| OFrame                     (* host: ScriptContext::Execute() *)
| OReset.                    (* host: ScriptMaster::Reset() *)

Record cfg := mkCfg {
  prot : bool;      (* ThreadExecutionProtection::SetLoopProtection *)
  warn : bool;      (* Warn stream attached *)
  err : bool;       (* Error stream attached *)
  dbg : bool;       (* Debug stream attached *)
  limit : N;        (* SetMaxExecutionTime, ms; 0 = no limit *)
  nest : N;         (* ScriptExecutionStack::SetMaxStackDepth *)
  kstep : N }.      (* ms added to the injected clock by every reading *)

Record elem := mkElem { eobj : N; etime : N; eprog : prog }.

Record tmr := mkTmr {
  elems : list elem;     (* timer::m_Elements, first = index 1 *)
  mtime : N;             (* timer::m_time *)
  dirty : bool;          (* timer::m_bDirty *)
  scaled : N;            (* TimeManager::scaledTime *)
  lastclk : N }.         (* TimeManager::lastClockTime *)

Record logs := mkLogs {
  out : list N;          (* println markers, newest first *)
  nwarn : N;             (* messages written to the Warn stream *)
  nerr : N;              (* ... Error stream *)
  ndbg : N;              (* ... Debug stream *)
  ninstr : N }.          (* instructions executed *)

Record core := mkCore { clock : N; tm : tmr; nexttid : N; lg : logs }.

(* the engine's bookkeeping on top: *)
Record st := mkSt {
  co : core;
  depth : N;             (* ScriptExecutionStack::stackDepth *)
  cur : option N }.      (* ScriptMaster::m_CurrentThread *)

Inductive exc := EOverflow | EMaxDepth | EAbort.
Inductive res := RDone | RRaise (e : exc).

(* operand instructions in front of the command instruction of the first statement *)
Definition pre (p : prog) : nat :=
  match p with
  | PEnd => 0 | PWork _ _ => 0 | PLoop => 0
  | PPrint _ _ => 1 | PWait _ _ => 1 | PFault _ => 1 | PCall _ _ => 1
  | PAbort _ => 2
  end%nat.

Fixpoint psize (p : prog) : nat :=
  match p with
  | PEnd => 1 | PLoop => 1
  | PWork _ k => S (psize k) | PPrint _ k => S (psize k) | PWait _ k => S (psize k)
  | PFault k => S (psize k) | PAbort k => S (psize k)
  | PCall q k => S (psize q + psize k)
  end.

Definition weight (a : core) : nat :=
  fold_right (fun e acc => S (psize (eprog e)) + acc)%nat O (elems (tm a)).

Definition set_lg (a : core) (l : logs) : core := mkCore (clock a) (tm a) (nexttid a) l.
Definition set_tm (a : core) (t : tmr) : core := mkCore (clock a) t (nexttid a) (lg a).

Definition print (m : N) (a : core) : core :=
  let l := lg a in set_lg a (mkLogs (m :: out l) (nwarn l) (nerr l) (ndbg l) (ninstr l)).
Definition count (a : core) : core :=
  let l := lg a in set_lg a (mkLogs (out l) (nwarn l) (nerr l) (ndbg l) (ninstr l + 1)).
Definition clear_logs (a : core) : core := set_lg a (mkLogs [] 0 0 0 0).

(* timer::AddElement(thread, scaled + d) *)
Definition add_timing (tid d : N) (p : prog) (a : core) : core :=
  let t := tm a in
  let due := scaled t + d in
  set_tm a (mkTmr (elems t ++ [mkElem tid due p]) (mtime t)
                  (if due <=? mtime t then true else dirty t) (scaled t) (lastclk t)).

Definition fresh_tid (a : core) : N * core :=
  (nexttid a, mkCore (clock a) (tm a) (nexttid a + 1) (lg a)).

(* timer::GetNextElement, as in C06 *)
Fixpoint scan (rl : list elem) (i : nat) (best : N) (found : option nat) : option nat :=
  match rl with
  | [] => found
  | e :: rl' =>
      if etime e <=? best then scan rl' (pred i) (etime e) (Some i)
      else scan rl' (pred i) best found
  end.

Fixpoint remove_at (l : list elem) (i : nat) : list elem :=     (* i is 1-based *)
  match l, i with
  | [], _ => []
  | _ :: l', 1%nat => l'
  | x :: l', S j => x :: remove_at l' j
  | l, O => l
  end.

Definition get_next (a : core) : option (elem * core) :=
  let t := tm a in
  match scan (rev (elems t)) (length (elems t)) (mtime t) None with
  | Some i =>
      match nth_error (elems t) (pred i) with
      | Some e => Some (e, set_tm a (mkTmr (remove_at (elems t) i) (mtime t) (dirty t)
                                            (scaled t) (lastclk t)))
      | None => None
      end
  | None => None
  end.

Definition clear_dirty (a : core) : core :=
  let t := tm a in set_tm a (mkTmr (elems t) (mtime t) false (scaled t) (lastclk t)).

Definition with_core (s : st) (a : core) : st := mkSt a (depth s) (cur s).
Definition with_cur (s : st) (c : option N) : st := mkSt (co s) (depth s) c.

Section WithCfg.
Variable c : cfg.

(* one reading of the injected clock; the value is TimeManager::GetTime() *)
Definition tick (a : core) : core * N :=
  let c' := clock a + kstep c in
  (mkCore c' (tm a) (nexttid a) (lg a), c').

(* writing to a stream that may be absent *)
Definition log_warn (a : core) : core :=
  if warn c then let l := lg a in set_lg a (mkLogs (out l) (nwarn l + 1) (nerr l) (ndbg l) (ninstr l)) else a.
Definition log_err (a : core) : core :=
  if err c then let l := lg a in set_lg a (mkLogs (out l) (nwarn l) (nerr l + 1) (ndbg l) (ninstr l)) else a.
Definition log_dbg (a : core) : core :=
  if dbg c then let l := lg a in set_lg a (mkLogs (out l) (nwarn l) (nerr l) (ndbg l + 1) (ninstr l)) else a.

(* the non-dropping CommandOverflow arm: Debug message, new deadline, Process is entered
   again (its reading of cmdTime) *)
Definition extend (a : core) : core * (N * N) :=
  let a1 := log_dbg a in
  let '(a2, t) := tick a1 in
  let '(a3, cmd') := tick a2 in
  (a3, (cmd', t + limit c)).

(* the poll at the end of Process's loop body, with Execute's CommandOverflow arm:
   None = CommandOverflow leaves this Execute (the Error message is written) *)
Definition post (a : core) (cmd D : N) : core * option (N * N) :=
  if negb (D =? 0) && (D <=? cmd) then
    if prot c then (log_err a, None)
    else let '(a1, cd) := extend a in (a1, Some cd)
  else let '(a1, cmd') := tick a in (a1, Some (cmd', D)).

(* n plain instructions *)
Fixpoint plain (n : nat) (a : core) (cmd D : N) : core * option (N * N) :=
  match n with
  | O => (a, Some (cmd, D))
  | S n' =>
      match post (count a) cmd D with
      | (a1, Some (cmd1, D1)) => plain n' a1 cmd1 D1
      | r => r
      end
  end.

(* plain instructions for ever: ends only by a CommandOverflow that is not absorbed *)
Fixpoint loop (fuel : nat) (a : core) (cmd D : N) : option core :=
  match fuel with
  | O => None
  | S f =>
      match post (count a) cmd D with
      | (a1, None) => Some a1
      | (a1, Some (cmd1, D1)) => loop f a1 cmd1 D1
      end
  end.

Definition loop_fuel (a : core) (D : N) : nat := S (S (N.to_nat (D - clock a))).

(* ScriptVM::Execute, before Process: the depth guard, the deadline, Process's first reading.
   None = MaxStackDepth (thrown by the guard's constructor: no message, depth unchanged) *)
Definition begin (a : core) : core * (N * N) :=
  let '(a1, D) := if limit c =? 0 then (a, 0)
                  else let '(a', t) := tick a in (a', t + limit c) in
  let '(a2, cmd) := tick a1 in
  (a2, (cmd, D)).

Definition enter (s : st) : st * option (N * N) :=
  if nest c <? depth s then (s, None)
  else let '(a2, cd) := begin (co s) in (mkSt a2 (depth s + 1) (cur s), Some cd).

(* ~ScriptExecutionStack *)
Definition leave (s : st) : st := mkSt (co s) (depth s - 1) (cur s).

(* Process + Execute's catch arms for the thread [tid] whose remaining program is p *)
Fixpoint run_instrs (p : prog) (tid : N) (s : st) (cmd D : N) {struct p} : option (st * res) :=
  match plain (pre p) (co s) cmd D with
  | (a1, None) => Some (with_core s a1, RRaise EOverflow)
  | (a1, Some (cmd1, D1)) =>
      match p with
      | PEnd =>
          (* the `end` command: the thread is gone; no poll (the VM is not Running any
             more), only the reading at the end of the loop body *)
          let '(a2, _) := tick (count a1) in Some (with_core s a2, RDone)
      | PWork n k =>
          match plain n a1 cmd1 D1 with
          | (a2, None) => Some (with_core s a2, RRaise EOverflow)
          | (a2, Some (cmd2, D2)) => run_instrs k tid (with_core s a2) cmd2 D2
          end
      | PLoop =>
          match loop (loop_fuel a1 D1) a1 cmd1 D1 with
          | None => None
          | Some a2 => Some (with_core s a2, RRaise EOverflow)
          end
      | PPrint m k =>
          match post (print m (count a1)) cmd1 D1 with
          | (a2, None) => Some (with_core s a2, RRaise EOverflow)
          | (a2, Some (cmd2, D2)) => run_instrs k tid (with_core s a2) cmd2 D2
          end
      | PWait d k =>
          (* ScriptThread::Wait: the timer gets the thread, the VM is suspended: no poll *)
          let '(a2, _) := tick (add_timing tid d k (count a1)) in Some (with_core s a2, RDone)
      | PFault k =>
          (* ScriptException: warning, Process is entered again *)
          let '(a2, cmd2) := tick (log_warn (count a1)) in
          run_instrs k tid (with_core s a2) cmd2 D1
      | PAbort _ =>
          Some (with_core s (log_err (count a1)), RRaise EAbort)
      | PCall q k =>
          let '(child, a2) := fresh_tid (count a1) in
          (* ScriptExecuteInternal: the child becomes the current thread *)
          match enter (mkSt a2 (depth s) (Some child)) with
          | (s3, None) =>
              (* MaxStackDepth from the child's Execute: slot restored, this VM aborts *)
              Some (mkSt (log_err (co s3)) (depth s3) (cur s), RRaise EMaxDepth)
          | (s3, Some (cmdc, Dc)) =>
              match run_instrs q child s3 cmdc Dc with
              | None => None
              | Some (s4, r) =>
                  let s5 := with_cur (leave s4) (cur s) in
                  match r with
                  | RRaise EOverflow =>
                      if prot c then Some (with_core s5 (log_err (co s5)), RRaise EOverflow)
                      else let '(a6, (cmd6, D6)) := extend (co s5) in
                           run_instrs k tid (with_core s5 a6) cmd6 D6
                  | RRaise e => Some (with_core s5 (log_err (co s5)), RRaise e)
                  | RDone =>
                      (* the child's ExecuteRunning returns: a current thread is set *)
                      match post (co s5) cmd1 D1 with
                      | (a6, None) => Some (with_core s5 a6, RRaise EOverflow)
                      | (a6, Some (cmd6, D6)) => run_instrs k tid (with_core s5 a6) cmd6 D6
                      end
                  end
              end
          end
      end
  end.

(* ScriptVM::Execute *)
Definition vm_exec (p : prog) (tid : N) (s : st) : option (st * res) :=
  match enter s with
  | (s1, None) => Some (s1, RRaise EMaxDepth)
  | (s1, Some (cmd, D)) =>
      match run_instrs p tid s1 cmd D with
      | None => None
      | Some (s2, r) => Some (leave s2, r)
      end
  end.

(* the loop of ScriptMaster::ExecuteRunning *)
Fixpoint exec_loop (fuel : nat) (s : st) : option (st * res) :=
  match get_next (co s) with
  | None => Some (mkSt (clear_dirty (co s)) (depth s) None, RDone)
  | Some (e, a1) =>
      match fuel with
      | O => None
      | S f =>
          match vm_exec (eprog e) (eobj e) (mkSt a1 (depth s) (Some (eobj e))) with
          | None => None
          | Some (s2, RRaise x) => Some (with_cur s2 None, RRaise x)
          | Some (s2, RDone) => exec_loop f s2
          end
      end
  end.

Definition execute_running (s : st) : option (st * res) :=
  match cur s with
  | Some _ => Some (s, RDone)
  | None => if dirty (tm (co s)) then exec_loop (weight (co s)) s else Some (s, RDone)
  end.

Inductive outcome := Returned | Overflow | MaxDepth | Aborted | Crash.

Definition outcome_of (r : res) : outcome :=
  match r with
  | RDone => Returned
  | RRaise EOverflow => Overflow
  | RRaise EMaxDepth => MaxDepth
  | RRaise EAbort => Aborted
  end.

Record obs := mkObs {
  oc : outcome;
  dt : N;                 (* injected time consumed by the host call *)
  curnull : bool;         (* CurrentThread() == nullptr afterwards *)
  depth0 : bool;          (* GetStackDepth() == 0 afterwards *)
  prints : list N;
  waiting : bool;         (* the timer list has an element *)
  lw : N; le : N; ld : N; (* messages on Warn / Error / Debug during the call *)
  ni : N }.               (* instructions executed during the call *)

Definition observe (c0 : N) (s : st) (r : res) : obs :=
  let l := lg (co s) in
  mkObs (outcome_of r) (clock (co s) - c0)
        (match cur s with None => true | Some _ => false end) (depth s =? 0)
        (rev (out l)) (negb (match elems (tm (co s)) with [] => true | _ => false end))
        (nwarn l) (nerr l) (ndbg l) (ninstr l).

Definition step (s0 : st) (o : op) : option (st * obs) :=
  let s := with_core s0 (clear_logs (co s0)) in
  let c0 := clock (co s) in
  match o with
  | OStart p =>
      (* ScriptMaster::ExecuteThread -> ScriptThread::Execute -> ScriptExecuteInternal *)
      let '(tid, a1) := fresh_tid (co s) in
      match vm_exec p tid (mkSt a1 (depth s) (Some tid)) with
      | None => None
      | Some (s2, r) =>
          let s3 := with_cur s2 (cur s) in
          match r with
          | RRaise _ => Some (s3, observe c0 s3 r)
          | RDone =>
              match execute_running s3 with
              | None => None
              | Some (s4, r4) => Some (s4, observe c0 s4 r4)
              end
          end
      end
  | OAdvance d =>
      let a := co s in
      let s' := with_core s (mkCore (clock a + d) (tm a) (nexttid a) (lg a)) in
      Some (s', observe c0 s' RDone)
  | OFrame =>
      (* Frame(): scaled += now - last; SetTime(GetTime()); the event queue reads the clock *)
      let '(a1, t1) := tick (co s) in
      let t := tm a1 in
      let a2 := set_tm a1 (mkTmr (elems t) (mtime t) (dirty t)
                                 (scaled t + (clock a1 - lastclk t)) (clock a1)) in
      let '(a3, t3) := tick a2 in
      let t' := tm a3 in
      let a4 := set_tm a3 (mkTmr (elems t') t3 true (scaled t') (lastclk t')) in
      let '(a5, _) := tick a4 in
      match execute_running (with_core s a5) with
      | None => None
      | Some (s6, r) => Some (s6, observe c0 s6 r)
      end
  | OReset =>
      let a := co s in
      let t := tm a in
      let s' := mkSt (set_tm a (mkTmr [] (mtime t) (dirty t) (scaled t) (lastclk t))) (depth s) None in
      Some (s', observe c0 s' RDone)
  end.

Fixpoint run_from (s : st) (ops : list op) : list (option obs) :=
  match ops with
  | [] => []
  | o :: ops' =>
      match step s o with
      | Some (s', ob) => Some ob :: run_from s' ops'
      | None => [None]
      end
  end.

Definition init : st :=
  mkSt (mkCore 0 (mkTmr [] 0 false 0 0) 0 (mkLogs [] 0 0 0 0)) 0 None.

Definition run (ops : list op) : list (option obs) := run_from init ops.

End WithCfg.
