(* C14/Spec.v — the specification of interruption and recovery.

   The engine's bookkeeping is gone: no depth counter (the nesting level of a thread call
   is a parameter of the recursion, so "the depth is back to 0" holds by construction), no
   current-thread slot (due threads are scheduled whenever a host call completes normally;
   the observation says "no current thread, depth 0" after EVERY host call), no fuel for
   runaway code and no per-instruction polling when loop protection is on: with the last
   clock reading t, deadline D <> 0 and clock step k the number of further instructions that
   pass the poll is
        slack t D = 0 if D <= t,   (D - t - 1) / k + 1 otherwise   (unbounded when k = 0)
   and the instruction after them is interrupted: [plain_on] / [loop_on] are closed forms.
   Only a thread that is still running is interrupted: the `end` and `wait` commands are
   never followed by an interruption.
   A runaway loop (PLoop) under protection therefore always ends in CommandOverflow at a
   computed time; without protection (or without a limit, or with a clock that does not
   advance) the host call does not return: None.  With protection off the deadline is
   extended instead (the Debug message, two readings): the specification takes the model's
   own stepping function [plain] for that path - the property does not constrain it
   beyond "not interrupted".  The timer discipline (the subject of C06) and the streams
   are shared with the model.  Nesting: a call from a thread at level l (host call = level
   0) fails with MaxStackDepth iff l + 1 > nest, i.e. the nesting may be as deep as the
   configured limit and no deeper. *)
From Coq Require Import NArith List Bool.
From Morfuse Require Import C14.Model.
Import ListNotations.
Local Open Scope N_scope.

(* program classes named by the property theorems *)

(* non-yielding straight-line code that never ends: plain work and prints, then an endless
   loop (while/for/do/goto cycle) *)
Inductive spin : prog -> Prop :=
| spin_loop : spin PLoop
| spin_work n k : spin k -> spin (PWork n k)
| spin_print m k : spin k -> spin (PPrint m k).

(* n thread calls nested in each other (what mutual thread recursion unfolds to) *)
Fixpoint chain (n : nat) : prog :=
  match n with O => PEnd | S n' => PCall (chain n') PEnd end.

Section WithCfg.
Variable c : cfg.

(* [ticks] readings and [instrs] executed instructions later *)
Definition advance (a : core) (ticks instrs : N) : core :=
  let l := lg a in
  mkCore (clock a + ticks * kstep c) (tm a) (nexttid a)
         (mkLogs (out l) (nwarn l) (nerr l) (ndbg l) (ninstr l + instrs)).

Definition over (cmd D : N) : bool := negb (D =? 0) && (D <=? cmd).

Definition slack (t D : N) : option N :=
  if D =? 0 then None
  else if D <=? t then Some 0
  else if kstep c =? 0 then None
  else Some ((D - t - 1) / kstep c + 1).

(* n plain instructions under loop protection *)
Definition plain_on (n : nat) (a : core) (cmd D : N) : core * option (N * N) :=
  match n with
  | O => (a, Some (cmd, D))
  | S n' =>
      if over cmd D then (log_err c (advance a 0 1), None)
      else
        let all := (advance a (N.of_nat n) (N.of_nat n),
                    Some (clock a + N.of_nat n * kstep c, D)) in
        match slack (clock a + kstep c) D with
        | None => all
        | Some j =>
            if N.of_nat n' <=? j then all
            else (log_err c (advance a (j + 1) (j + 2)), None)
        end
  end.

(* plain instructions for ever under loop protection: the state at the interruption *)
Definition loop_on (a : core) (cmd D : N) : option core :=
  if over cmd D then Some (log_err c (advance a 0 1))
  else
    match slack (clock a + kstep c) D with
    | None => None
    | Some j => Some (log_err c (advance a (j + 1) (j + 2)))
    end.

Definition sp_plain (n : nat) (a : core) (cmd D : N) : core * option (N * N) :=
  if prot c then plain_on n a cmd D else plain c n a cmd D.

Definition sp_loop (a : core) (cmd D : N) : option core :=
  if prot c then loop_on a cmd D else None.

(* the poll after a command instruction = one plain step without the count *)
Definition sp_post (a : core) (cmd D : N) : core * option (N * N) := post c a cmd D.

(* a thread at nesting level lvl *)
Fixpoint sp_instrs (p : prog) (tid lvl : N) (a : core) (cmd D : N) {struct p} : option (core * res) :=
  match sp_plain (pre p) a cmd D with
  | (a1, None) => Some (a1, RRaise EOverflow)
  | (a1, Some (cmd1, D1)) =>
      match p with
      | PEnd =>
          let '(a2, _) := tick c (count a1) in Some (a2, RDone)
      | PWork n k =>
          match sp_plain n a1 cmd1 D1 with
          | (a2, None) => Some (a2, RRaise EOverflow)
          | (a2, Some (cmd2, D2)) => sp_instrs k tid lvl a2 cmd2 D2
          end
      | PLoop =>
          match sp_loop a1 cmd1 D1 with
          | None => None
          | Some a2 => Some (a2, RRaise EOverflow)
          end
      | PPrint m k =>
          match sp_post (print m (count a1)) cmd1 D1 with
          | (a2, None) => Some (a2, RRaise EOverflow)
          | (a2, Some (cmd2, D2)) => sp_instrs k tid lvl a2 cmd2 D2
          end
      | PWait d k =>
          let '(a2, _) := tick c (add_timing tid d k (count a1)) in Some (a2, RDone)
      | PFault k =>
          let '(a2, cmd2) := tick c (log_warn c (count a1)) in
          sp_instrs k tid lvl a2 cmd2 D1
      | PAbort _ => Some (log_err c (count a1), RRaise EAbort)
      | PCall q k =>
          let '(child, a2) := fresh_tid (count a1) in
          if nest c <? lvl + 1 then Some (log_err c a2, RRaise EMaxDepth)
          else
            let '(a3, (cmdc, Dc)) := begin c a2 in
            match sp_instrs q child (lvl + 1) a3 cmdc Dc with
            | None => None
            | Some (a4, RRaise EOverflow) =>
                if prot c then Some (log_err c a4, RRaise EOverflow)
                else let '(a6, (cmd6, D6)) := extend c a4 in sp_instrs k tid lvl a6 cmd6 D6
            | Some (a4, RRaise e) => Some (log_err c a4, RRaise e)
            | Some (a4, RDone) =>
                match sp_post a4 cmd1 D1 with
                | (a6, None) => Some (a6, RRaise EOverflow)
                | (a6, Some (cmd6, D6)) => sp_instrs k tid lvl a6 cmd6 D6
                end
            end
      end
  end.

(* a host-level thread (started by the host or resumed by the scheduler) *)
Definition sp_exec (p : prog) (tid : N) (a : core) : option (core * res) :=
  let '(a1, (cmd, D)) := begin c a in sp_instrs p tid 0 a1 cmd D.

(* due threads are resumed until none is due or one is interrupted *)
Fixpoint sp_resume (fuel : nat) (a : core) : option (core * res) :=
  match get_next a with
  | None => Some (clear_dirty a, RDone)
  | Some (e, a1) =>
      match fuel with
      | O => None
      | S f =>
          match sp_exec (eprog e) (eobj e) a1 with
          | None => None
          | Some (a2, RRaise x) => Some (a2, RRaise x)
          | Some (a2, RDone) => sp_resume f a2
          end
      end
  end.

Definition sp_running (a : core) : option (core * res) :=
  if dirty (tm a) then sp_resume (weight a) a else Some (a, RDone).

(* after every host call: no current thread, depth 0 *)
Definition sp_observe (c0 : N) (a : core) (r : res) : obs :=
  let l := lg a in
  mkObs (outcome_of r) (clock a - c0) true true (rev (out l))
        (negb (match elems (tm a) with [] => true | _ => false end))
        (nwarn l) (nerr l) (ndbg l) (ninstr l).

Definition spec_step (a0 : core) (o : op) : option (core * obs) :=
  let a := clear_logs a0 in
  let c0 := clock a in
  match o with
  | OStart p =>
      let '(tid, a1) := fresh_tid a in
      match sp_exec p tid a1 with
      | None => None
      | Some (a2, RRaise e) => Some (a2, sp_observe c0 a2 (RRaise e))
      | Some (a2, RDone) =>
          match sp_running a2 with
          | None => None
          | Some (a4, r4) => Some (a4, sp_observe c0 a4 r4)
          end
      end
  | OAdvance d =>
      let a' := mkCore (clock a + d) (tm a) (nexttid a) (lg a) in
      Some (a', sp_observe c0 a' RDone)
  | OFrame =>
      let '(a1, t1) := tick c a in
      let t := tm a1 in
      let a2 := set_tm a1 (mkTmr (elems t) (mtime t) (dirty t)
                                 (scaled t + (clock a1 - lastclk t)) (clock a1)) in
      let '(a3, t3) := tick c a2 in
      let t' := tm a3 in
      let a4 := set_tm a3 (mkTmr (elems t') t3 true (scaled t') (lastclk t')) in
      let '(a5, _) := tick c a4 in
      match sp_running a5 with
      | None => None
      | Some (a6, r) => Some (a6, sp_observe c0 a6 r)
      end
  | OReset =>
      let t := tm a in
      let a' := set_tm a (mkTmr [] (mtime t) (dirty t) (scaled t) (lastclk t)) in
      Some (a', sp_observe c0 a' RDone)
  end.

Fixpoint spec_from (a : core) (ops : list op) : list (option obs) :=
  match ops with
  | [] => []
  | o :: ops' =>
      match spec_step a o with
      | Some (a', ob) => Some ob :: spec_from a' ops'
      | None => [None]
      end
  end.

Definition spec_run (ops : list op) : list (option obs) := spec_from (co init) ops.

End WithCfg.
