(* C14/ProofsHang.v — under loop protection with a limit and an advancing clock no host
   call blocks: runaway loops are interrupted (closed form), and the scheduler's resume
   loop ends because every resume consumes more program than it registers. *)
From Coq Require Import NArith List Bool Lia.
From Morfuse Require Import C14.Model C14.Spec C14.ProofsArith C14.Proofs C14.ProofsProps.
Import ListNotations.
Local Open Scope N_scope.

Definition wsum (l : list elem) : nat :=
  fold_right (fun e acc => S (psize (eprog e)) + acc)%nat O l.

Lemma weight_wsum a : weight a = wsum (elems (tm a)).
Proof. reflexivity. Qed.

Lemma wsum_app l x : wsum (l ++ [x]) = (wsum l + S (psize (eprog x)))%nat.
Proof. unfold wsum. induction l as [|y l IH]; cbn [app fold_right]; [lia|]. rewrite IH. lia. Qed.

Lemma scan_range rl : forall i best found j,
  i = length rl -> scan rl i best found = Some j -> found = Some j \/ (1 <= j <= i)%nat.
Proof.
  induction rl as [|e rl IH]; intros i best found j Hi Hs; cbn in Hs.
  - now left.
  - subst i. cbn [length pred] in Hs.
    destruct (etime e <=? best).
    + apply IH in Hs; [|reflexivity]. destruct Hs as [H|H].
      * injection H as <-. right. cbn. lia.
      * right. cbn. lia.
    + apply IH in Hs; [|reflexivity]. destruct Hs as [H|H]; [now left|right; cbn; lia].
Qed.

Lemma remove_at_wsum l : forall i e,
  (1 <= i)%nat -> nth_error l (pred i) = Some e ->
  (wsum (remove_at l i) + S (psize (eprog e)) = wsum l)%nat.
Proof.
  induction l as [|x l IH]; intros i e Hi Hn.
  - destruct (pred i); discriminate.
  - destruct i as [|[|i']]; [lia| |].
    + cbn in Hn. injection Hn as <-. cbn. lia.
    + cbn [pred] in Hn. cbn [nth_error] in Hn.
      specialize (IH (S i') e). cbn [pred] in IH.
      cbn [remove_at wsum fold_right]. fold (wsum (remove_at l (S i'))). fold (wsum l).
      specialize (IH ltac:(lia) Hn). lia.
Qed.

Lemma get_next_weight a e a1 :
  get_next a = Some (e, a1) -> weight a = (S (psize (eprog e)) + weight a1)%nat.
Proof.
  unfold get_next.
  destruct (scan (rev (elems (tm a))) (length (elems (tm a))) (mtime (tm a)) None) as [i|] eqn:Hs; [|discriminate].
  destruct (nth_error (elems (tm a)) (pred i)) as [e'|] eqn:Hn; [|discriminate].
  intro H. injection H as <- <-.
  apply scan_range in Hs; [|now rewrite rev_length].
  destruct Hs as [H|H]; [discriminate|].
  rewrite !weight_wsum. cbn [tm set_tm elems].
  pose proof (remove_at_wsum _ _ _ (proj1 H) Hn). lia.
Qed.

Section WithCfg.
Variable c : cfg.

Lemma post_tm x cmd D a' r : post c x cmd D = (a', r) -> tm a' = tm x.
Proof.
  unfold post. destruct (negb (D =? 0) && (D <=? cmd)).
  - destruct (prot c).
    + intro H. injection H as <- _. apply tm_log_err.
    + unfold extend. intro H. cbn in H. injection H as <- _. cbn. apply tm_log_dbg.
  - intro H. cbn in H. injection H as <- _. reflexivity.
Qed.

Lemma plain_tm n : forall a cmd D a' r, plain c n a cmd D = (a', r) -> tm a' = tm a.
Proof.
  induction n as [|n IH]; intros a cmd D a' r; cbn [plain].
  - intro H. injection H as <- _. reflexivity.
  - destruct (post c (count a) cmd D) as [a1 [[cmd1 D1]|]] eqn:Hp.
    + intro H. apply IH in H. apply post_tm in Hp. rewrite H, Hp. reflexivity.
    + intro H. injection H as <- _. apply post_tm in Hp. exact Hp.
Qed.

Lemma loop_tm fuel : forall a cmd D a', loop c fuel a cmd D = Some a' -> tm a' = tm a.
Proof.
  induction fuel as [|f IH]; intros a cmd D a'; cbn [loop]; [discriminate|].
  destruct (post c (count a) cmd D) as [a1 [[cmd1 D1]|]] eqn:Hp.
  - intro H. apply IH in H. apply post_tm in Hp. rewrite H, Hp. reflexivity.
  - intro H. injection H as <-. apply post_tm in Hp. exact Hp.
Qed.

Lemma weight_tm a a' : tm a' = tm a -> weight a' = weight a.
Proof. intro H. rewrite !weight_wsum, H. reflexivity. Qed.

Lemma begin_tm a a' cd : begin c a = (a', cd) -> tm a' = tm a.
Proof.
  unfold begin. destruct (limit c =? 0); cbn; intro H; injection H as <- _; reflexivity.
Qed.

Lemma extend_tm a a' cd : extend c a = (a', cd) -> tm a' = tm a.
Proof. unfold extend. cbn. intro H. injection H as <- _. cbn. apply tm_log_dbg. Qed.

(* a thread registers at most as much program as it consumes *)
Lemma instrs_weight p : forall tid lvl a cmd D a' r,
  sp_instrs c p tid lvl a cmd D = Some (a', r) -> (weight a' <= weight a + psize p)%nat.
Proof.
  induction p as [|n k IHk|m k IHk|d k IHk|k IHk|k IHk|q IHq k IHk|]; intros tid lvl a cmd D a' r;
    cbn [sp_instrs psize]; rewrite sp_plain_correct;
    destruct (plain c _ a cmd D) as [a1 [[cmd1 D1]|]] eqn:H1; apply plain_tm in H1;
    apply weight_tm in H1; unfold sp_post;
    try (intro H; injection H as <- _; lia).
  - unfold tick. intro H. injection H as <- _.
    match goal with |- (weight ?x <= _)%nat => change (weight x) with (weight a1) end. lia.
  - rewrite sp_plain_correct.
    destruct (plain c n a1 cmd1 D1) as [a2 [[cmd2 D2]|]] eqn:H2; apply plain_tm in H2; apply weight_tm in H2.
    + intro H. apply IHk in H. lia.
    + intro H. injection H as <- _. lia.
  - destruct (post c (print m (count a1)) cmd1 D1) as [a2 [[cmd2 D2]|]] eqn:H2; apply post_tm in H2;
      apply weight_tm in H2.
    + intro H. apply IHk in H. change (weight (print m (count a1))) with (weight a1) in H2. lia.
    + intro H. injection H as <- _. change (weight (print m (count a1))) with (weight a1) in H2. lia.
  - assert (Hw : weight (add_timing tid d k (count a1)) = (weight a1 + S (psize k))%nat).
    { rewrite !weight_wsum. cbn [add_timing tm set_tm elems count set_lg]. apply wsum_app. }
    unfold tick. intro H. injection H as <- _.
    match goal with |- (weight ?x <= _)%nat => change (weight x) with (weight (add_timing tid d k (count a1))) end. lia.
  - destruct (tick c (log_warn c (count a1))) as [a2 cmd2] eqn:H2.
    assert (Hw : weight a2 = weight a1).
    { apply weight_tm. unfold tick in H2. injection H2 as <- _. cbn [tm]. rewrite tm_log_warn. reflexivity. }
    intro H. apply IHk in H. lia.
  - intro H. injection H as <- _.
    assert (Hw : weight (log_err c (count a1)) = weight a1) by (apply weight_tm; rewrite tm_log_err; reflexivity).
    lia.
  - destruct (fresh_tid (count a1)) as [child a2] eqn:Hf.
    assert (H2 : weight a2 = weight a1).
    { apply weight_tm. unfold fresh_tid in Hf. injection Hf as _ <-. reflexivity. }
    destruct (nest c <? lvl + 1).
    { intro H. injection H as <- _.
      assert (Hw : weight (log_err c a2) = weight a2) by (apply weight_tm, tm_log_err). lia. }
    destruct (begin c a2) as [a3 [cmdc Dc]] eqn:Hb. apply begin_tm in Hb. apply weight_tm in Hb.
    destruct (sp_instrs c q child (lvl + 1) a3 cmdc Dc) as [[a4 rq]|] eqn:Hq; [|discriminate].
    apply IHq in Hq.
    assert (He : weight (log_err c a4) = weight a4) by (apply weight_tm, tm_log_err).
    destruct rq as [|[| |]].
    + destruct (post c a4 cmd1 D1) as [a6 [[cmd6 D6]|]] eqn:H6; apply post_tm in H6; apply weight_tm in H6.
      * intro H. apply IHk in H. lia.
      * intro H. injection H as <- _. lia.
    + destruct (prot c).
      * intro H. injection H as <- _. lia.
      * destruct (extend c a4) as [a6 [cmd6 D6]] eqn:H6. apply extend_tm in H6. apply weight_tm in H6.
        intro H. apply IHk in H. lia.
    + intro H. injection H as <- _. lia.
    + intro H. injection H as <- _. lia.
  - rewrite sp_loop_correct.
    destruct (loop c (loop_fuel a1 D1) a1 cmd1 D1) as [a2|] eqn:H2; [|discriminate].
    apply loop_tm in H2. apply weight_tm in H2.
    intro H. injection H as <- _. lia.
Qed.

Hypothesis Hprot : prot c = true.
Hypothesis Hlimit : limit c <> 0.
Hypothesis Hstep : kstep c <> 0.

Lemma plain_on_D n a cmd D a' cmd' D' : plain_on c n a cmd D = (a', Some (cmd', D')) -> D' = D.
Proof.
  destruct n as [|n]; cbn [plain_on].
  - intro H. now injection H.
  - destruct (over cmd D); [discriminate|].
    destruct (slack c (clock a + kstep c) D) as [j|].
    + destruct (N.of_nat n <=? j); [|discriminate]. intro H. now injection H.
    + intro H. now injection H.
Qed.

Lemma post_prot_D x cmd D a' cmd' D' : post c x cmd D = (a', Some (cmd', D')) -> D' = D.
Proof.
  rewrite (post_prot c _ _ _ Hprot). destruct (over cmd D); [discriminate|].
  intro H. now injection H.
Qed.

Lemma begin_D a a' cmd D : begin c a = (a', (cmd, D)) -> D <> 0.
Proof.
  unfold begin, tick. destruct (N.eqb_spec (limit c) 0) as [|_]; [contradiction|].
  cbn. intro H. injection H as _ _ <-. lia.
Qed.

(* a thread never blocks the host *)
Lemma instrs_some p : forall tid lvl a cmd D,
  D <> 0 -> sp_instrs c p tid lvl a cmd D <> None.
Proof.
  induction p as [|n k IHk|m k IHk|d k IHk|k IHk|k IHk|q IHq k IHk|]; intros tid lvl a cmd D HD;
    cbn [sp_instrs]; unfold sp_plain; rewrite Hprot;
    destruct (plain_on c _ a cmd D) as [a1 [[cmd1 D1]|]] eqn:H1; try discriminate;
    apply plain_on_D in H1; subst D1; unfold sp_post.
  - destruct (plain_on c n a1 cmd1 D) as [a2 [[cmd2 D2]|]] eqn:H2; [|discriminate].
    apply plain_on_D in H2. subst D2. now apply IHk.
  - destruct (post c (print m (count a1)) cmd1 D) as [a2 [[cmd2 D2]|]] eqn:H2; [|discriminate].
    apply post_prot_D in H2. subst D2. now apply IHk.
  - destruct (tick c (log_warn c (count a1))) as [a2 cmd2]. now apply IHk.
  - destruct (fresh_tid (count a1)) as [child a2].
    destruct (nest c <? lvl + 1); [discriminate|].
    destruct (begin c a2) as [a3 [cmdc Dc]] eqn:Hb. apply begin_D in Hb.
    destruct (sp_instrs c q child (lvl + 1) a3 cmdc Dc) as [[a4 rq]|] eqn:Hq;
      [|exfalso; eapply IHq; eauto].
    destruct rq as [|[| |]]; try discriminate.
    + destruct (post c a4 cmd1 D) as [a6 [[cmd6 D6]|]] eqn:H6; [|discriminate].
      apply post_prot_D in H6. subst D6. now apply IHk.
  - unfold sp_loop, loop_on. rewrite ?Hprot.
    destruct (over cmd1 D); [discriminate|].
    destruct (slack_reach c (clock a1 + kstep c) D HD Hstep) as [j [Hj _]]. rewrite Hj. discriminate.
Qed.

Lemma exec_some p tid a : sp_exec c p tid a <> None.
Proof.
  unfold sp_exec. destruct (begin c a) as [a1 [cmd D]] eqn:Hb. apply begin_D in Hb.
  now apply instrs_some.
Qed.

Lemma exec_weight p tid a a' r :
  sp_exec c p tid a = Some (a', r) -> (weight a' <= weight a + psize p)%nat.
Proof.
  unfold sp_exec. destruct (begin c a) as [a1 [cmd D]] eqn:Hb.
  apply begin_tm in Hb. apply weight_tm in Hb.
  intro H. apply instrs_weight in H. lia.
Qed.

Lemma resume_some fuel : forall a, (weight a <= fuel)%nat -> sp_resume c fuel a <> None.
Proof.
  induction fuel as [|f IH]; intros a Hw; cbn [sp_resume].
  - destruct (get_next a) as [[e a1]|] eqn:Hg; [|discriminate].
    apply get_next_weight in Hg. lia.
  - destruct (get_next a) as [[e a1]|] eqn:Hg; [|discriminate].
    apply get_next_weight in Hg.
    destruct (sp_exec c (eprog e) (eobj e) a1) as [[a2 [|x]]|] eqn:He.
    + apply exec_weight in He. apply IH. lia.
    + discriminate.
    + exfalso. eapply exec_some; eauto.
Qed.

Lemma running_some a : sp_running c a <> None.
Proof.
  unfold sp_running. destruct (dirty (tm a)); [|discriminate].
  apply resume_some. lia.
Qed.

Lemma step_some a o : spec_step c a o <> None.
Proof.
  unfold spec_step. destruct o as [p|d| |].
  - destruct (fresh_tid (clear_logs a)) as [tid a1].
    destruct (sp_exec c p tid a1) as [[a2 [|e]]|] eqn:He.
    + destruct (sp_running c a2) as [[a4 r4]|] eqn:Hr; [discriminate|].
      exfalso. eapply running_some; eauto.
    + discriminate.
    + exfalso. eapply exec_some; eauto.
  - discriminate.
  - destruct (tick c (clear_logs a)) as [a1 t1].
    destruct (tick c _) as [a3 t3].
    destruct (tick c _) as [a5 t5].
    destruct (sp_running c _) as [[a6 r]|] eqn:Hr; [discriminate|].
    exfalso. eapply running_some; eauto.
  - discriminate.
Qed.

Theorem never_blocks ops : ~ In None (run c ops).
Proof.
  rewrite run_refines_spec. unfold spec_run. generalize (co init).
  induction ops as [|o ops IH]; intros a Hin; [destruct Hin|].
  cbn [spec_from] in Hin.
  destruct (spec_step c a o) as [[a' ob]|] eqn:Hs.
  - destruct Hin as [H|H]; [discriminate|]. eapply IH; eauto.
  - eapply step_some; eauto.
Qed.

End WithCfg.
