(* C14/Proofs.v — the refinement: the engine's interruption machinery (depth counter,
   current-thread slot, per-instruction polling with fuel) observes what the
   specification of C14/Spec.v observes, for every configuration and every history. *)
From Coq Require Import NArith List Bool Lia.
From Morfuse Require Import C14.Model C14.Spec C14.ProofsArith.
Import ListNotations.
Local Open Scope N_scope.

Section WithCfg.
Variable c : cfg.

Definition lift (d : N) (cu : option N) (x : core * res) : st * res :=
  (mkSt (fst x) d cu, snd x).

Lemma add1_sub1 n : n + 1 - 1 = n.
Proof. lia. Qed.

(* a thread at nesting level lvl runs with the depth counter at lvl + 1; whatever the
   current-thread slot holds, it holds the same afterwards *)
Lemma sim_instrs p : forall tid lvl a cu cmd D,
  run_instrs c p tid (mkSt a (lvl + 1) cu) cmd D =
  option_map (lift (lvl + 1) cu) (sp_instrs c p tid lvl a cmd D).
Proof.
  induction p as [|n k IHk|m k IHk|d k IHk|k IHk|k IHk|q IHq k IHk|]; intros tid lvl a cu cmd D;
    cbn [run_instrs sp_instrs pre co with_core depth cur]; repeat rewrite sp_plain_correct; unfold sp_post;
    destruct (plain c _ a cmd D) as [a1 [[cmd1 D1]|]]; try reflexivity.
  - (* PWork *)
    rewrite sp_plain_correct.
    destruct (plain c n a1 cmd1 D1) as [a2 [[cmd2 D2]|]]; [|reflexivity].
    apply IHk.
  - (* PPrint *)
    destruct (post c (print m (count a1)) cmd1 D1) as [a2 [[cmd2 D2]|]]; [|reflexivity].
    apply IHk.
  - (* PFault *)
    destruct (tick c (log_warn c (count a1))) as [a2 cmd2]. apply IHk.
  - (* PCall *)
    destruct (fresh_tid (count a1)) as [child a2].
    unfold enter. cbn [depth co cur].
    destruct (nest c <? lvl + 1); [reflexivity|].
    destruct (begin c a2) as [a3 [cmdc Dc]].
    rewrite IHq.
    destruct (sp_instrs c q child (lvl + 1) a3 cmdc Dc) as [[a4 r]|]; [|reflexivity].
    cbn [option_map lift fst snd]. unfold with_core, with_cur, leave. cbn [co depth cur].
    rewrite add1_sub1.
    destruct r as [|[| |]].
    + destruct (post c a4 cmd1 D1) as [a6 [[cmd6 D6]|]]; [|reflexivity]. apply IHk.
    + destruct (prot c); [reflexivity|].
      destruct (extend c a4) as [a6 [cmd6 D6]]. apply IHk.
    + reflexivity.
    + reflexivity.
  - (* PLoop *)
    rewrite sp_loop_correct.
    destruct (loop c (loop_fuel a1 D1) a1 cmd1 D1); reflexivity.
Qed.

Lemma ltb_0 n : (n <? 0) = false.
Proof. now destruct n. Qed.

(* a thread run from the host or from the scheduler *)
Lemma sim_exec p tid a cu :
  vm_exec c p tid (mkSt a 0 cu) = option_map (lift 0 cu) (sp_exec c p tid a).
Proof.
  unfold vm_exec, sp_exec, enter. cbn [depth co cur]. rewrite ltb_0.
  destruct (begin c a) as [a1 [cmd D]].
  change (0 + 1) with (0 + 1). rewrite (sim_instrs p tid 0 a1 cu cmd D).
  destruct (sp_instrs c p tid 0 a1 cmd D) as [[a2 r]|]; reflexivity.
Qed.

Lemma sim_resume fuel : forall a cu,
  exec_loop c fuel (mkSt a 0 cu) = option_map (lift 0 None) (sp_resume c fuel a).
Proof.
  induction fuel as [|f IH]; intros a cu; cbn [exec_loop sp_resume co depth].
  - destruct (get_next a) as [[e a1]|]; reflexivity.
  - destruct (get_next a) as [[e a1]|]; [|reflexivity].
    rewrite sim_exec.
    destruct (sp_exec c (eprog e) (eobj e) a1) as [[a2 [|x]]|]; cbn [option_map lift fst snd];
      [apply IH|reflexivity|reflexivity].
Qed.

Lemma sim_running a :
  execute_running c (mkSt a 0 None) = option_map (lift 0 None) (sp_running c a).
Proof.
  unfold execute_running, sp_running. cbn [cur co].
  destruct (dirty (tm a)); [apply sim_resume|reflexivity].
Qed.

Definition lift_step (x : core * obs) : st * obs := (mkSt (fst x) 0 None, snd x).

Lemma observe_lift c0 a r : observe c0 (mkSt a 0 None) r = sp_observe c0 a r.
Proof. reflexivity. Qed.

Lemma sim_step a o :
  step c (mkSt a 0 None) o = option_map lift_step (spec_step c a o).
Proof.
  unfold step, spec_step, with_core, with_cur. cbn [co depth cur].
  destruct o as [p|d| |].
  - destruct (fresh_tid (clear_logs a)) as [tid a1].
    rewrite sim_exec.
    destruct (sp_exec c p tid a1) as [[a2 [|e]]|]; cbn [option_map lift fst snd co depth cur];
      [|reflexivity|reflexivity].
    rewrite sim_running.
    destruct (sp_running c a2) as [[a4 r4]|]; reflexivity.
  - reflexivity.
  - destruct (tick c (clear_logs a)) as [a1 t1].
    destruct (tick c _) as [a3 t3].
    destruct (tick c _) as [a5 t5].
    rewrite sim_running.
    destruct (sp_running c _) as [[a6 r]|]; reflexivity.
  - reflexivity.
Qed.

Lemma sim_run ops : forall a, run_from c (mkSt a 0 None) ops = spec_from c a ops.
Proof.
  induction ops as [|o ops IH]; intro a; [reflexivity|].
  cbn [run_from spec_from]. rewrite sim_step.
  destruct (spec_step c a o) as [[a' ob]|]; cbn [option_map lift_step fst snd]; [|reflexivity].
  now rewrite IH.
Qed.

Theorem run_refines_spec ops : run c ops = spec_run c ops.
Proof. apply sim_run. Qed.

End WithCfg.
