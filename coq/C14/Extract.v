(* C14/Extract.v — extraction of the model and the specification (ExtrOcamlBasic only). *)
Require Extraction.
Require Import ExtrOcamlBasic.
From Morfuse Require Import C14.Model C14.Spec.
Extraction "C14_model.ml" run spec_run.
