(* C14/ProofsProps.v — the clauses of the property, proved about the specification and
   carried to the engine model by the refinement theorem. *)
From Coq Require Import NArith List Bool Lia.
From Morfuse Require Import C14.Model C14.Spec C14.ProofsArith C14.Proofs.
Import ListNotations.
Local Open Scope N_scope.

Section WithCfg.
Variable c : cfg.

(* ---------------------------------------------------------------- generic transfer *)

Lemma spec_from_all (P : obs -> Prop) :
  (forall a o a' ob, spec_step c a o = Some (a', ob) -> P ob) ->
  forall ops a ob, In (Some ob) (spec_from c a ops) -> P ob.
Proof.
  intros HP ops. induction ops as [|o ops IH]; intros a ob Hin; [destruct Hin|].
  cbn [spec_from] in Hin.
  destruct (spec_step c a o) as [[a' ob']|] eqn:Hs.
  - destruct Hin as [Heq|Hin].
    + injection Heq as <-. eapply HP; eauto.
    + eapply IH; eauto.
  - destruct Hin as [Heq|[]]. discriminate.
Qed.

Lemma run_all (P : obs -> Prop) :
  (forall a o a' ob, spec_step c a o = Some (a', ob) -> P ob) ->
  forall ops ob, In (Some ob) (run c ops) -> P ob.
Proof.
  intros HP ops ob Hin. rewrite run_refines_spec in Hin.
  eapply spec_from_all; eauto.
Qed.

(* every observation of a host call is made by sp_observe *)
Lemma spec_step_observes a o a' ob :
  spec_step c a o = Some (a', ob) -> exists c0 r, ob = sp_observe c0 a' r.
Proof.
  unfold spec_step. destruct o as [p|d| |].
  - destruct (fresh_tid (clear_logs a)) as [tid a1].
    destruct (sp_exec c p tid a1) as [[a2 [|e]]|]; [| |discriminate].
    + destruct (sp_running c a2) as [[a4 r4]|]; [|discriminate].
      intro H. injection H as <- <-. eauto.
    + intro H. injection H as <- <-. eauto.
  - intro H. injection H as <- <-. eauto.
  - destruct (tick c (clear_logs a)) as [a1 t1].
    destruct (tick c _) as [a3 t3].
    destruct (tick c _) as [a5 t5].
    destruct (sp_running c _) as [[a6 r]|]; [|discriminate].
    intro H. injection H as <- <-. eauto.
  - intro H. injection H as <- <-. eauto.
Qed.

(* ------------------------------------------------- no crash, whatever the configuration *)

Theorem no_host_crash ops ob : In (Some ob) (run c ops) -> oc ob <> Crash.
Proof.
  revert ops ob. apply (run_all (fun ob => oc ob <> Crash)). intros a o a' ob' Hs.
  destruct (spec_step_observes _ _ _ _ Hs) as [c0 [r ->]].
  cbn. destruct r as [|[| |]]; discriminate.
Qed.

(* -------------------------------------- the engine's bookkeeping after every host call *)

Theorem engine_recovers ops ob :
  In (Some ob) (run c ops) -> curnull ob = true /\ depth0 ob = true.
Proof.
  revert ops ob. apply (run_all (fun ob => curnull ob = true /\ depth0 ob = true)). intros a o a' ob' Hs.
  destruct (spec_step_observes _ _ _ _ Hs) as [c0 [r ->]]. split; reflexivity.
Qed.

(* the same, stated on the engine model's own state: after any operation that returns to the
   host - normally or by an exception - the depth counter is 0 and no current thread is set,
   so ExecuteRunning is not blocked *)
Theorem engine_state_recovers a o s' ob :
  step c (mkSt a 0 None) o = Some (s', ob) -> depth s' = 0 /\ cur s' = None.
Proof.
  rewrite sim_step. destruct (spec_step c a o) as [[a' ob']|]; [|discriminate].
  cbn. intro H. injection H as <- <-. split; reflexivity.
Qed.

(* ------------------------------------------------------------ small facts about cores *)

Lemma tm_tick a : tm (fst (tick c a)) = tm a.
Proof. reflexivity. Qed.
Lemma clock_tick a : clock (fst (tick c a)) = clock a + kstep c.
Proof. reflexivity. Qed.
Lemma tm_count a : tm (count a) = tm a.
Proof. reflexivity. Qed.
Lemma clock_count a : clock (count a) = clock a.
Proof. reflexivity. Qed.
Lemma tm_print m a : tm (print m a) = tm a.
Proof. reflexivity. Qed.
Lemma clock_print m a : clock (print m a) = clock a.
Proof. reflexivity. Qed.
Lemma tm_fresh a : tm (snd (fresh_tid a)) = tm a.
Proof. reflexivity. Qed.
Lemma tm_log_warn a : tm (log_warn c a) = tm a.
Proof. unfold log_warn. now destruct (warn c). Qed.
Lemma tm_log_dbg a : tm (log_dbg c a) = tm a.
Proof. unfold log_dbg. now destruct (dbg c). Qed.

Lemma post_prot x cmd D :
  prot c = true ->
  post c x cmd D = if over cmd D then (log_err c x, None)
                   else (fst (tick c x), Some (clock x + kstep c, D)).
Proof.
  intro Hp. unfold post, over. rewrite Hp.
  now destruct (negb (D =? 0) && (D <=? cmd)).
Qed.

(* ------------------------------------------------------------- runaway code is stopped *)

Lemma slack_reach t D :
  D <> 0 -> kstep c <> 0 ->
  exists j, slack c t D = Some j /\ t + j * kstep c <= N.max t (D + kstep c - 1).
Proof.
  intros HD Hk. unfold slack.
  destruct (N.eqb_spec D 0) as [|_]; [contradiction|].
  destruct (N.leb_spec D t) as [Hle|Hgt].
  - exists 0. split; [reflexivity|]. lia.
  - destruct (N.eqb_spec (kstep c) 0) as [|_]; [contradiction|].
    eexists. split; [reflexivity|].
    pose proof (N.mul_div_le (D - t - 1) (kstep c) Hk) as H.
    lia.
Qed.

Lemma over_false_lt cmd D : D <> 0 -> over cmd D = false -> cmd < D.
Proof.
  unfold over. intros HD H.
  destruct (N.eqb_spec D 0) as [|_]; [contradiction|]. cbn in H.
  now apply N.leb_gt in H.
Qed.

Lemma spin_instrs D :
  prot c = true -> kstep c <> 0 -> D <> 0 ->
  forall p, spin p -> forall tid lvl a,
  exists a', sp_instrs c p tid lvl a (clock a) D = Some (a', RRaise EOverflow)
             /\ clock a' <= N.max (clock a) (D + kstep c - 1)
             /\ tm a' = tm a.
Proof.
  intros Hp Hk HD p Hs. induction Hs as [|n k Hs IH|m k Hs IH]; intros tid lvl a.
  - (* PLoop *)
    cbn [sp_instrs pre]. unfold sp_plain, sp_loop. rewrite Hp. cbn [plain_on].
    unfold loop_on.
    destruct (over (clock a) D) eqn:Ho.
    + eexists. split; [reflexivity|].
      rewrite clock_log_err, tm_log_err, clock_advance, tm_advance. split; [lia|reflexivity].
    + apply (over_false_lt _ _ HD) in Ho.
      destruct (slack_reach (clock a + kstep c) D HD Hk) as [j [Hj Hb]]. rewrite Hj.
      eexists. split; [reflexivity|].
      rewrite clock_log_err, tm_log_err, clock_advance, tm_advance. split; [lia|reflexivity].
  - (* PWork *)
    cbn [sp_instrs pre]. unfold sp_plain. rewrite Hp. cbn [plain_on].
    destruct n as [|n']; cbn [plain_on].
    + apply IH.
    + destruct (over (clock a) D) eqn:Ho.
      * eexists. split; [reflexivity|].
        rewrite clock_log_err, tm_log_err, clock_advance, tm_advance. split; [lia|reflexivity].
      * apply (over_false_lt _ _ HD) in Ho.
        destruct (slack_reach (clock a + kstep c) D HD Hk) as [j [Hj Hb]]. rewrite Hj.
        destruct (N.leb_spec (N.of_nat n') j) as [Hle|Hgt].
        -- destruct (IH tid lvl (advance c a (N.of_nat (S n')) (N.of_nat (S n')))) as [a' [He [Hc Ht]]].
           rewrite clock_advance in He, Hc. exists a'. split; [exact He|].
           rewrite tm_advance in Ht. split; [|exact Ht]. nia.
        -- eexists. split; [reflexivity|].
           rewrite clock_log_err, tm_log_err, clock_advance, tm_advance. split; [lia|reflexivity].
  - (* PPrint *)
    cbn [sp_instrs pre]. unfold sp_plain, sp_post. rewrite Hp. cbn [plain_on].
    destruct (over (clock a) D) eqn:Ho.
    + eexists. split; [reflexivity|].
      rewrite clock_log_err, tm_log_err, clock_advance, tm_advance. split; [lia|reflexivity].
    + apply (over_false_lt _ _ HD) in Ho.
      destruct (slack_reach (clock a + kstep c) D HD Hk) as [j [Hj Hb]]. rewrite Hj.
      change (N.of_nat 1) with 1. change (N.of_nat 0) with 0.
      replace (0 <=? j) with true by (symmetry; apply N.leb_le; lia).
      rewrite (post_prot _ _ _ Hp).
      rewrite clock_print, clock_count, clock_advance, N.mul_1_l.
      destruct (over (clock a + kstep c) D) eqn:Ho2.
      * eexists. split; [reflexivity|].
        rewrite clock_log_err, tm_log_err, clock_print, tm_print, clock_count, tm_count,
                clock_advance, tm_advance.
        split; [lia|reflexivity].
      * apply (over_false_lt _ _ HD) in Ho2.
        remember (fst (tick c (print m (count (advance c a 1 1))))) as a2 eqn:Ha2.
        assert (Hc2 : clock a2 = clock a + kstep c + kstep c).
        { subst a2. rewrite clock_tick, clock_print, clock_count, clock_advance. lia. }
        assert (Ht2 : tm a2 = tm a) by (subst a2; reflexivity).
        destruct (IH tid lvl a2) as [a' [He [Hc Ht]]].
        rewrite Hc2 in He, Hc. exists a'. split; [exact He|]. split; [lia|congruence].
Qed.

(* a runaway thread started by the host under protection: the call fails with
   CommandOverflow after at most limit + 2 readings' worth of time, and the timer - the
   waiting threads, their due times, the dirty flag - is untouched *)
Theorem overflow_interrupts p a :
  prot c = true -> limit c <> 0 -> kstep c <> 0 -> spin p ->
  exists a' ob,
    spec_step c a (OStart p) = Some (a', ob)
    /\ oc ob = Overflow
    /\ dt ob <= limit c + 2 * kstep c
    /\ tm a' = tm a.
Proof.
  intros Hp HL Hk Hs. unfold spec_step.
  destruct (fresh_tid (clear_logs a)) as [tid a1] eqn:Hf.
  assert (Ha1 : clock a1 = clock a /\ tm a1 = tm a).
  { unfold fresh_tid in Hf. injection Hf as _ <-. split; reflexivity. }
  destruct Ha1 as [Hc1 Ht1].
  unfold sp_exec, begin.
  destruct (N.eqb_spec (limit c) 0) as [|_]; [contradiction|].
  rewrite !tick_advance. rewrite advance_advance.
  set (a2 := advance c a1 (1 + 1) (0 + 0)).
  assert (HD : clock a1 + kstep c + limit c <> 0) by lia.
  destruct (spin_instrs _ Hp Hk HD p Hs tid 0 a2) as [a' [He [Hc Ht]]].
  replace (clock (advance c a1 1 0) + kstep c) with (clock a2) by (unfold a2; rewrite !clock_advance; lia).
  rewrite He.
  exists a', (sp_observe (clock (clear_logs a)) a' (RRaise EOverflow)).
  split; [reflexivity|]. split; [reflexivity|].
  unfold a2 in Hc, Ht. rewrite clock_advance in Hc. rewrite tm_advance in Ht.
  split; [|congruence].
  cbn [dt sp_observe]. change (clock (clear_logs a)) with (clock a). lia.
Qed.

(* the same about the engine model *)
Theorem overflow_interrupts_model p a :
  prot c = true -> limit c <> 0 -> kstep c <> 0 -> spin p ->
  exists a' ob,
    step c (mkSt a 0 None) (OStart p) = Some (mkSt a' 0 None, ob)
    /\ oc ob = Overflow
    /\ dt ob <= limit c + 2 * kstep c
    /\ tm a' = tm a.
Proof.
  intros Hp HL Hk Hs.
  destruct (overflow_interrupts p a Hp HL Hk Hs) as [a' [ob [H1 H2]]].
  exists a', ob. split; [|exact H2].
  rewrite sim_step, H1. reflexivity.
Qed.

(* --------------------------------------------------------------------- nesting limit *)

(* a call from level lvl with lvl + 1 > nest fails with MaxStackDepth (unless the poll
   interrupts the caller on the operand instruction before it) *)
Theorem call_too_deep q k tid lvl a cmd D :
  nest c < lvl + 1 ->
  exists a', sp_instrs c (PCall q k) tid lvl a cmd D = Some (a', RRaise EMaxDepth)
             \/ sp_instrs c (PCall q k) tid lvl a cmd D = Some (a', RRaise EOverflow).
Proof.
  intro Hn. cbn [sp_instrs pre].
  destruct (sp_plain c 1 a cmd D) as [a1 [[cmd1 D1]|]].
  - destruct (fresh_tid (count a1)) as [child a2].
    apply N.ltb_lt in Hn. rewrite Hn. eexists. left. reflexivity.
  - eexists. right. reflexivity.
Qed.

Lemma post_nolimit x cmd : post c x cmd 0 = (fst (tick c x), Some (clock x + kstep c, 0)).
Proof. reflexivity. Qed.

Lemma plain_nolimit n : forall a cmd,
  exists a' cmd', plain c n a cmd 0 = (a', Some (cmd', 0)) /\ tm a' = tm a.
Proof.
  induction n as [|n IH]; intros a cmd.
  - exists a, cmd. split; reflexivity.
  - cbn [plain]. rewrite post_nolimit.
    destruct (IH (fst (tick c (count a))) (clock (count a) + kstep c)) as [a' [cmd' [H1 H2]]].
    exists a', cmd'. split; [exact H1|]. rewrite H2. reflexivity.
Qed.

(* without a time limit: n nested calls from a thread at level lvl succeed iff the deepest
   one is at a level <= nest *)
Lemma chain_level :
  limit c = 0 ->
  forall n tid lvl a cmd, lvl <= nest c ->
  exists a',
    sp_instrs c (chain n) tid lvl a cmd 0 =
      Some (a', if lvl + N.of_nat n <=? nest c then RDone else RRaise EMaxDepth)
    /\ tm a' = tm a.
Proof.
  intros HL n. induction n as [|n IH]; intros tid lvl a cmd Hl.
  - cbn [chain sp_instrs pre]. rewrite sp_plain_correct. cbn [plain]. unfold tick.
    cbn [N.of_nat]. rewrite N.add_0_r.
    replace (lvl <=? nest c) with true by (symmetry; apply N.leb_le; exact Hl).
    eexists. split; reflexivity.
  - cbn [chain sp_instrs pre]. rewrite sp_plain_correct.
    destruct (plain_nolimit 1 a cmd) as [a1 [cmd1 [H1 Ht1]]]. rewrite H1.
    destruct (fresh_tid (count a1)) as [child a2] eqn:Hf.
    assert (Ht2 : tm a2 = tm a1) by (unfold fresh_tid in Hf; injection Hf as _ <-; reflexivity).
    destruct (N.ltb_spec (nest c) (lvl + 1)) as [Hdeep|Hok].
    + replace (lvl + N.of_nat (S n) <=? nest c) with false by (symmetry; apply N.leb_gt; lia).
      eexists. split; [reflexivity|]. rewrite tm_log_err. congruence.
    + unfold begin. rewrite HL. cbn [N.eqb].
      destruct (tick c a2) as [a3 cmdc] eqn:Htk.
      assert (Ht3 : tm a3 = tm a2) by (unfold tick in Htk; injection Htk as <- _; reflexivity).
      destruct (IH child (lvl + 1) a3 cmdc Hok) as [a4 [He Ht4]]. rewrite He.
      replace (lvl + 1 + N.of_nat n) with (lvl + N.of_nat (S n)) by lia.
      destruct (lvl + N.of_nat (S n) <=? nest c).
      * unfold sp_post. rewrite post_nolimit.
        cbn [sp_instrs pre]. rewrite sp_plain_correct. cbn [plain]. unfold tick.
        eexists. split; [reflexivity|]. cbn [fst tm count set_lg]. congruence.
      * eexists. split; [reflexivity|]. rewrite tm_log_err. congruence.
Qed.

(* a host call that nests n thread calls, no time limit, nothing due in the timer: it
   returns iff n <= nest and fails with MaxStackDepth otherwise *)
Theorem depth_limit n a :
  limit c = 0 -> dirty (tm a) = false ->
  exists a' ob,
    spec_step c a (OStart (chain n)) = Some (a', ob)
    /\ oc ob = (if N.of_nat n <=? nest c then Returned else MaxDepth)
    /\ curnull ob = true /\ depth0 ob = true.
Proof.
  intros HL Hd. unfold spec_step.
  destruct (fresh_tid (clear_logs a)) as [tid a1] eqn:Hf.
  assert (Ht1 : tm a1 = tm a) by (unfold fresh_tid in Hf; injection Hf as _ <-; reflexivity).
  unfold sp_exec, begin. rewrite HL. cbn [N.eqb].
  destruct (tick c a1) as [a2 cmd] eqn:Htk.
  assert (Ht2 : tm a2 = tm a1) by (unfold tick in Htk; injection Htk as <- _; reflexivity).
  destruct (chain_level HL n tid 0 a2 cmd (N.le_0_l _)) as [a3 [He Ht3]]. rewrite He.
  rewrite N.add_0_l.
  destruct (N.of_nat n <=? nest c).
  - unfold sp_running. replace (dirty (tm a3)) with false by congruence.
    eexists _, _. split; [reflexivity|]. repeat split.
  - eexists _, _. split; [reflexivity|]. repeat split.
Qed.

Theorem depth_limit_model n a :
  limit c = 0 -> dirty (tm a) = false ->
  exists a' ob,
    step c (mkSt a 0 None) (OStart (chain n)) = Some (mkSt a' 0 None, ob)
    /\ oc ob = (if N.of_nat n <=? nest c then Returned else MaxDepth)
    /\ curnull ob = true /\ depth0 ob = true.
Proof.
  intros HL Hd. destruct (depth_limit n a HL Hd) as [a' [ob [H1 H2]]].
  exists a', ob. split; [|exact H2]. rewrite sim_step, H1. reflexivity.
Qed.

(* ------------------------------------------ protection off: nothing is ever interrupted *)

Lemma post_off x cmd D : prot c = false -> exists a' cd, post c x cmd D = (a', Some cd).
Proof.
  intro Hp. unfold post. rewrite Hp.
  destruct (negb (D =? 0) && (D <=? cmd)).
  - destruct (extend c x) as [a1 cd]. eauto.
  - destruct (tick c x) as [a1 cmd']. eauto.
Qed.

Lemma plain_off n : forall a cmd D, prot c = false -> exists a' cd, plain c n a cmd D = (a', Some cd).
Proof.
  induction n as [|n IH]; intros a cmd D Hp.
  - cbn. eauto.
  - cbn [plain]. destruct (post_off (count a) cmd D Hp) as [a1 [[cmd1 D1] H]]. rewrite H.
    now apply IH.
Qed.

Lemma instrs_off p :
  prot c = false ->
  forall tid lvl a cmd D a' r, sp_instrs c p tid lvl a cmd D = Some (a', r) -> r <> RRaise EOverflow.
Proof.
  intro Hp.
  induction p as [|n k IHk|m k IHk|d k IHk|k IHk|k IHk|q IHq k IHk|]; intros tid lvl a cmd D a' r;
    cbn [sp_instrs]; rewrite sp_plain_correct;
    match goal with |- context [plain c ?n a cmd D] => destruct (plain_off n a cmd D Hp) as [a1 [[cmd1 D1] H1]] end;
    rewrite H1; unfold sp_post.
  - destruct (tick c (count a1)) as [a2 x].
    intro H. injection H as _ <-. discriminate.
  - rewrite sp_plain_correct.
    destruct (plain_off n a1 cmd1 D1 Hp) as [a2 [[cmd2 D2] H2]]. rewrite H2. apply IHk.
  - destruct (post_off (print m (count a1)) cmd1 D1 Hp) as [a2 [[cmd2 D2] H2]]. rewrite H2. apply IHk.
  - destruct (tick c (add_timing tid d k (count a1))) as [a2 x].
    intro H. injection H as _ <-. discriminate.
  - destruct (tick c (log_warn c (count a1))) as [a2 cmd2]. apply IHk.
  - intro H. injection H as _ <-. discriminate.
  - destruct (fresh_tid (count a1)) as [child a2].
    destruct (nest c <? lvl + 1); [intro H; injection H as _ <-; discriminate|].
    destruct (begin c a2) as [a3 [cmdc Dc]].
    destruct (sp_instrs c q child (lvl + 1) a3 cmdc Dc) as [[a4 rq]|] eqn:Hq; [|discriminate].
    specialize (IHq _ _ _ _ _ _ _ Hq).
    destruct rq as [|[| |]].
    + destruct (post_off a4 cmd1 D1 Hp) as [a6 [[cmd6 D6] H6]]. rewrite H6. apply IHk.
    + contradiction.
    + intro H. injection H as _ <-. discriminate.
    + intro H. injection H as _ <-. discriminate.
  - unfold sp_loop. rewrite Hp. discriminate.
Qed.

Lemma resume_off fuel :
  prot c = false -> forall a a' r, sp_resume c fuel a = Some (a', r) -> r <> RRaise EOverflow.
Proof.
  intro Hp. induction fuel as [|f IH]; intros a a' r; cbn [sp_resume].
  - destruct (get_next a) as [[e a1]|]; [discriminate|]. intro H. injection H as _ <-. discriminate.
  - destruct (get_next a) as [[e a1]|]; [|intro H; injection H as _ <-; discriminate].
    unfold sp_exec. destruct (begin c a1) as [a2 [cmd D]].
    destruct (sp_instrs c (eprog e) (eobj e) 0 a2 cmd D) as [[a3 [|x]]|] eqn:He; [apply IH| |discriminate].
    intro H. injection H as _ <-. eapply instrs_off; eauto.
Qed.

Theorem protection_off_never_interrupts ops ob :
  prot c = false -> In (Some ob) (run c ops) -> oc ob <> Overflow.
Proof.
  intro Hp. revert ops ob. apply (run_all (fun ob => oc ob <> Overflow)). intros a o a' ob.
  assert (Hrun : forall x x' r, sp_running c x = Some (x', r) -> r <> RRaise EOverflow).
  { intros x x' r. unfold sp_running. destruct (dirty (tm x)).
    - apply resume_off; exact Hp.
    - intro H. injection H as _ <-. discriminate. }
  assert (Hoc : forall r, r <> RRaise EOverflow -> outcome_of r <> Overflow).
  { intros [|[| |]] H; try discriminate. contradiction. }
  unfold spec_step. destruct o as [p|d| |].
  - destruct (fresh_tid (clear_logs a)) as [tid a1].
    unfold sp_exec. destruct (begin c a1) as [a2 [cmd D]].
    destruct (sp_instrs c p tid 0 a2 cmd D) as [[a3 [|e]]|] eqn:He; [| |discriminate].
    + destruct (sp_running c a3) as [[a4 r4]|] eqn:Hr; [|discriminate].
      intro H. injection H as _ <-. apply Hoc. eapply Hrun; eauto.
    + intro H. injection H as _ <-. apply Hoc. eapply instrs_off; eauto.
  - intro H. injection H as _ <-. discriminate.
  - destruct (tick c (clear_logs a)) as [a1 t1].
    destruct (tick c _) as [a3 t3].
    destruct (tick c _) as [a5 t5].
    destruct (sp_running c _) as [[a6 r]|] eqn:Hr; [|discriminate].
    intro H. injection H as _ <-. apply Hoc. eapply Hrun; eauto.
  - intro H. injection H as _ <-. discriminate.
Qed.

End WithCfg.
