"""C07 — waittill / notify / endon / delete / waitthread: no lost, early or duplicate wake-ups."""
import glob
import itertools
import os
import random

import vlib
from vlib import Case

LEVEL = "proof"
NAMES = "abc"

# origins that expose recorded engine defects are generated only on request
#   C07_DEFECTS=stale   waittill_any on several names while several names of the object are notified
#                       (a notify nested in the resume loop of another notify wakes a thread that
#                       the outer loop then resumes a second time, out of a later waittill)
#   C07_DEFECTS=ptr     print the waitthread result after a callee that may be killed (the result
#                       stays an unresolved 'pointer' value instead of NIL)
#   C07_DEFECTS=order   waitthread callees that wait under different names of one object (the hash
#                       order in which UnregisterAll enumerates names decides who resumes first)
DEFECTS = set(os.environ.get("C07_DEFECTS", "").replace(",", " ").split())


class Ctx:
    def __init__(self, rng, maxthreads, nobj, stale_ok, ptr_ok, order_ok):
        self.rng = rng
        self.left = maxthreads
        self.nobj = nobj
        self.marker = 1
        self.multi_any = stale_ok or rng.random() < 0.5    # else: one notified name per object
        self.stale_ok = stale_ok
        self.ptr_ok = ptr_ok
        self.order_ok = order_ok
        self.notify_name = {o: rng.choice(NAMES) for o in range(3)}

    def mark(self):
        m = self.marker
        self.marker += 1
        return "p%d" % m


class C07(vlib.HistoryProp):
    cid = "C07"
    variant = "asan"
    harness_sources = ["harness/C07.cpp"]
    use_lib = True
    coq_dirs = ["Base", "C07"]
    has_monitor = False
    batch = 1000

    def assumptions(self):
        return ["injected integral millisecond clock (hook H1), constant during an Execute; time scale 1 (the two time bases of the timer coincide: C06)",
                "threads are straight-line programs of println / wait / waittill / waittill_any / notify / endon / delete / spawn / thread / waitthread / end; event names a, b, c (never \"delete\"/\"remove\", which the Listener destructor notifies)",
                "script objects are plain Listeners held in level.o0..o2; a thread numbers itself from the counter level.ntid when it starts",
                "the order in which con::set enumerates the NAMES of one listener (UnregisterAll, CancelWaitingAll) is modelled as c, b, a, \"\" and is observable only through the resume order of the waitthread callers of waiters destroyed by one delete under different names: such programs are generated only with C07_DEFECTS=order",
                "recorded defects kept out of the default generation: stale wake-up through waittill_any (C07_DEFECTS=stale), unresolved pointer as waitthread result of a killed callee (C07_DEFECTS=ptr)"]

    # ---- generation -----------------------------------------------------------------
    def obj(self, c):
        return c.rng.randrange(c.nobj)

    # cumulative instruction weights per role:        t     y     n     e     d     s     w     th    wt    end   mark
    ROLES = {"mix":    [0.17, 0.27, 0.47, 0.55, 0.61, 0.66, 0.78, 0.88, 0.96, 0.98],
             "waiter": [0.30, 0.48, 0.56, 0.64, 0.66, 0.67, 0.80, 0.86, 0.96, 0.98],
             "driver": [0.05, 0.08, 0.45, 0.50, 0.60, 0.66, 0.80, 0.94, 0.98, 0.99]}

    def prog(self, c, length, depth, callee=False, role="mix"):
        """a random program (token list); callee: inside a waitthread body (transitively)"""
        rng = c.rng
        p = []
        cw = self.ROLES[role]
        for _ in range(length):
            x = rng.random()
            # map the role's weights onto the fixed thresholds used below
            k = next((i for i, v in enumerate(cw) if x < v), len(cw))
            r = ([0.0] + self.ROLES["mix"])[k] + 1e-9
            o = self.obj(c)
            if r < 0.17:
                n = rng.choice(NAMES) if (c.order_ok or not callee) else "a"
                p += [c.mark(), "t%d%s" % (o, n), c.mark()]
            elif r < 0.27:
                if callee and not c.order_ok:
                    ns = "a"
                elif c.multi_any:
                    ns = "".join(rng.choice(NAMES) for _ in range(rng.choice([1, 2, 2, 3])))
                else:
                    ns = rng.choice(NAMES) * rng.choice([1, 2])
                p += [c.mark(), "y%d%s" % (o, ns), c.mark()]
            elif r < 0.47:
                n = rng.choice(NAMES) if (c.stale_ok or not c.multi_any) else c.notify_name[o]
                p += ["n%d%s" % (o, n), c.mark()]
            elif r < 0.55:
                p += ["e%d%s" % (o, rng.choice(NAMES))]
            elif r < 0.61:
                p += ["d%d" % o, c.mark()]
            elif r < 0.66:
                p += ["s%d" % o]
            elif r < 0.78:
                p += ["w%d" % rng.choice([0, 1, 1, 2, 3]), c.mark()]
            elif r < 0.88 and c.left > 0 and depth < 3:
                c.left -= 1
                p += ["th["] + self.prog(c, rng.choice([1, 2, 3, 4]), depth + 1, callee, rng.choice(["waiter", "waiter", "mix", "driver"])) + ["]", c.mark()]
            elif r < 0.96 and c.left > 0 and depth < 3:
                c.left -= 1
                body = self.prog(c, rng.choice([1, 2, 3]), depth + 1, True, rng.choice(["waiter", "mix", "driver"]))
                if rng.random() < 0.6:
                    body += ["end%d" % rng.randrange(1, 9)]
                killable = any(t[0] in "tye" for t in body if t not in ("th[", "wt[", "]", "end")) or callee
                p += [c.mark(), "wt["] + body + ["]", c.mark()]
                if c.ptr_ok or not killable:
                    p += ["r"]
            elif r < 0.98:
                p += ["end%d" % rng.randrange(1, 9) if rng.random() < 0.5 else "end"]
            else:
                p += [c.mark()]
        return p

    def hist(self, rng, cid, nstarts, nframes, maxthreads, origin):
        c = Ctx(rng, maxthreads - nstarts, 3 if rng.random() < 0.6 else 2, "stale" in DEFECTS, "ptr" in DEFECTS, "order" in DEFECTS)
        ops = []
        starts = sorted(rng.randrange(0, nframes + 1) for _ in range(nstarts))
        first = True
        for f in range(nframes + 1):
            for st in starts:
                if st == f:
                    pre = []
                    if first:
                        pre = ["s%d" % o for o in range(c.nobj) if rng.random() < 0.93]
                        first = False
                    ops.append("S " + " ".join(pre + self.prog(c, rng.choice([2, 3, 4, 5, 6, 8]), 0, False, rng.choice(["driver", "driver", "mix", "waiter"]))))
            if f < nframes:
                r = rng.random()
                if r < 0.15:
                    ops.append("X")
                else:
                    ops.append("T %d" % rng.choice([1, 1, 2, 3]))
                    if r < 0.93:
                        ops.append("X")
        ops += ["T 9", "X", "X"]
        return Case(cid, "", ops, origin)

    ALPHA_Q = ["t0a", "n0a", "d0", "e0a", "w1", "y0ab"]
    ALPHA_T = ["t0a", "n0a", "d0", "e0a", "w1", "y0ab", "n0b", "t0b", "s0", "w0"]

    def marked(self, toks, base):
        out, m = [], base
        for t in toks:
            out += [t, "p%d" % m]
            m += 1
        return out

    def exhaustive(self, tier, cases):
        stale_ok = "stale" in DEFECTS
        alpha = self.ALPHA_Q if tier == "quick" else self.ALPHA_T
        shapes = [(2, 0, 2), (1, 1, 2)] if tier == "quick" else [(2, 0, 2), (1, 1, 2), (2, 1, 2), (2, 2, 1), (1, 1, 3)]
        k = len(cases)
        for (la, lb, lm) in shapes:
            for seq in itertools.product(alpha, repeat=la + lb + lm):
                if not stale_ok and any(t[0] == "y" for t in seq) and len({t for t in seq if t[0] == "n"}) > 1:
                    continue
                a, b, m = seq[:la], seq[la:la + lb], seq[la + lb:]
                prog = ["s0", "th["] + self.marked(a, 10) + ["]"]
                if lb:
                    prog += ["th["] + self.marked(b, 20) + ["]"]
                prog += self.marked(m, 30)
                for sched in (["X"], ["T 1", "X", "X"]):
                    cases.append(Case("e%d" % k, "", ["S " + " ".join(prog)] + sched + ["T 5", "X"],
                                      "exhaustive-%d-%d-%d" % (la, lb, lm)))
                    k += 1

    def gen(self, tier, seed):
        rng = random.Random(seed)
        cases = []
        for p in sorted(glob.glob(os.path.join(vlib.VERIF, "corpus", "C07", "*.txt"))):
            if os.path.basename(p).startswith("defect_") and not DEFECTS:
                continue
            lines = [l.strip() for l in open(p) if l.strip() and not l.startswith("#")]
            cases.append(Case("c_" + os.path.basename(p)[:-4], "", lines, "corpus"))
        self.exhaustive(tier, cases)
        k = len(cases)
        walks = ([(1, 2, 4, 1500), (2, 4, 4, 1500), (3, 6, 5, 600), (4, 14, 6, 150)] if tier == "quick"
                 else [(1, 2, 4, 12000), (2, 4, 4, 12000), (3, 6, 5, 8000), (4, 20, 6, 3000)])
        for ns, nf, mt, cnt in walks:
            for _ in range(cnt):
                cases.append(self.hist(rng, "w%d" % k, ns, nf, mt, "random-%dstarts-%dframes" % (ns, nf)))
                k += 1
        return cases

    def canon_model(self, lines):
        m = [l[2:] for l in lines if l.startswith("m ")]
        s = [l[2:] for l in lines if l.startswith("s ")]
        return m, [], m == s

    def canon_impl(self, lines):
        return [l[2:] for l in lines if l.startswith("m ")], [], [], None

    def nontrivial(self, case, compared):
        # within one host operation at least two different threads printed (a nested resume or a kill happened)
        for c in compared:
            d = c.split()[0]
            if d != "-" and len({x.split(":")[0] for x in d.split(",")}) >= 2:
                return True
        return False


HP = C07()


def check(res, tier, seed):
    res.cov["rule"] += ("C07: corpus; every program `spawn o0; thread A; [thread B;] M` with A, B, M sequences over "
                        "{waittill a, notify a, delete, endon a, wait 1, waittill_any a b} (thorough: + notify b, waittill b, spawn, wait 0; longer) "
                        "x two frame schedules; seeded random histories of 1-4 host-started threads, up to 6 script threads, "
                        "2-3 objects, names a/b/c, nested thread/waitthread bodies to depth 3, waits {0,1,1,2,3} ms, frames with and "
                        "without clock advance; markers around every blocking instruction; non-trivial = one host operation made >= 2 threads print. ")
    vlib.history_check(res, HP, tier, seed)


def replay(path):
    return vlib.history_replay(HP, path)
