"""C07 — waittill / notify / endon / delete / waitthread: no lost, early or duplicate wake-ups."""
import glob
import itertools
import os
import random
import re

import vlib
from vlib import Case

LEVEL = "proof"
NAMES = "abc"

# Findings of this unit (engine defects that the faithful model reproduces; the specification
# does not).  Signatures are stable; a finding is reported as KNOWN-FINDING when
# /verif/known_findings.json lists its signature for C07.
SIG_STALE = "C07-stale-wake"          # a waiter picked by one notify is woken/destroyed again through its other waittill_any registrations before its turn
WHAT = {
    SIG_STALE: "a waiter picked by one notify is woken (or destroyed) a second time through its other waittill_any registrations by a notify/delete nested in the resume loop: wake-up without notify out of a later waittill (model = implementation != specification)",
}
# C07_DEFECTS=order  also generate waitthread callees waiting under different names of one object
#                    (the hash order in which UnregisterAll enumerates names decides who resumes first;
#                    the model abstracts it)
DEFECTS = set(os.environ.get("C07_DEFECTS", "").replace(",", " ").split())

FLAGS = re.compile(r" stale=(\d)$")


def split_flags(line):
    m = FLAGS.search(line)
    if not m:
        return line, 0
    return line[:m.start()], int(m.group(1))


def analyse(lines):
    """model/spec lines of the driver -> dict(m, s, sig) ; m = model observations without the flag;
    sig = finding signature explaining m != s"""
    m, s, stale_at = [], [], None
    for l in lines:
        if l.startswith("m "):
            core, _ = split_flags(l[2:])
            m.append(core)
        elif l.startswith("s "):
            core, st = split_flags(l[2:])
            if st and stale_at is None:
                stale_at = len(s)
            s.append(core)
    sig = None
    if m != s:
        k = 0
        while k < min(len(m), len(s)) and m[k] == s[k]:
            k += 1
        if stale_at is not None and stale_at <= k:
            sig = SIG_STALE
        else:
            sig = "model-vs-spec"
    return {"m": m, "s": s, "sig": sig}


class Ctx:
    def __init__(self, rng, maxthreads, nobj, order_ok):
        self.rng = rng
        self.left = maxthreads
        self.nobj = nobj
        self.marker = 1
        self.order_ok = order_ok

    def mark(self):
        m = self.marker
        self.marker += 1
        return "p%d" % m


class C07(vlib.HistoryProp):
    cid = "C07"
    variant = "asan"
    harness_sources = ["harness/C07.cpp"]
    use_lib = True
    coq_dirs = ["Base", "C07"]
    has_monitor = False
    batch = 1000

    def __init__(self):
        self.observed = {}        # signature -> [case ids]
        self.cache = {}           # model trace -> analysis (for signature())

    def assumptions(self):
        return ["the harness prints an unresolved waitthread result as r=ptr (the model can express it as well): since f3056f7 none is ever observed",
                "injected integral millisecond clock (hook H1), constant during an Execute; time scale 1 (the two time bases of the timer coincide: C06)",
                "threads are straight-line programs of println / wait / waittill / waittill_any / waittill_timeout / waittill_any_timeout / notify / endon / delete / spawn / thread / waitthread (also applied to a group of fresh Listeners) / end; event names a, b, c (never \"delete\"/\"remove\", which the Listener destructor notifies)",
                "script objects are plain Listeners held in level.o0..o2; a thread numbers itself from the counter level.ntid when it starts",
                "the order in which con::set enumerates the NAMES of one listener (UnregisterAll, CancelWaitingAll) is modelled as c, b, a, \"\"; it is observable only through the resume order of the waitthread callers of waiters destroyed by ONE delete under DIFFERENT names: such programs are generated only with C07_DEFECTS=order"]

    def enabled(self, sig):
        return any(f.get("signature") == sig for f in vlib.known_findings("C07"))

    def known_match(self, record):
        sig = record.get("signature")
        for f in vlib.known_findings(self.cid):
            if f.get("signature") and f["signature"] == sig:
                return "%s: %s" % (sig, f.get("what", WHAT.get(sig, "")))
        return None

    def signature(self, case, rr, vv):
        det = self.cache.get(tuple(rr.get("m_cmp") or []), {})
        if vv["kind"] == "model-vs-spec" and det.get("sig"):
            return det["sig"]
        return vv["kind"]

    # ---- generation -----------------------------------------------------------------
    # cumulative instruction weights per role:        t     y     n     e     d     s     w     th    wt    end   mark
    ROLES = {"mix":    [0.17, 0.27, 0.47, 0.55, 0.61, 0.66, 0.78, 0.88, 0.96, 0.98],
             "waiter": [0.30, 0.48, 0.56, 0.64, 0.66, 0.67, 0.80, 0.86, 0.96, 0.98],
             "driver": [0.05, 0.08, 0.45, 0.50, 0.60, 0.66, 0.80, 0.94, 0.98, 0.99]}

    def prog(self, c, length, depth, callee=False, role="mix"):
        """a random program (token list); callee: inside a waitthread body (transitively)"""
        rng = c.rng
        p = []
        cw = self.ROLES[role]
        for _ in range(length):
            x = rng.random()
            k = next((i for i, v in enumerate(cw) if x < v), len(cw))
            o = rng.randrange(c.nobj)
            if k == 0:
                n = rng.choice(NAMES) if (c.order_ok or not callee) else "a"
                if rng.random() < 0.3:
                    p += [c.mark(), "u%d%d%s" % (o, rng.choice([0, 1, 2, 3, 5]), n), c.mark()]
                else:
                    p += [c.mark(), "t%d%s" % (o, n), c.mark()]
            elif k == 1:
                if callee and not c.order_ok:
                    ns = "a" * rng.choice([1, 2])
                else:
                    ns = "".join(rng.choice(NAMES) for _ in range(rng.choice([1, 2, 2, 3])))
                if rng.random() < 0.3:
                    p += [c.mark(), "v%d%d%s" % (o, rng.choice([0, 1, 2, 3, 5]), ns), c.mark()]
                else:
                    p += [c.mark(), "y%d%s" % (o, ns), c.mark()]
            elif k == 2:
                p += ["n%d%s" % (o, rng.choice(NAMES)), c.mark()]
            elif k == 3:
                p += ["e%d%s" % (o, rng.choice(NAMES))]
            elif k == 4:
                p += ["d%d" % o, c.mark()]
            elif k == 5:
                p += ["s%d" % o]
            elif k == 6:
                p += ["w%d" % rng.choice([0, 1, 1, 2, 3]), c.mark()]
            elif k == 7 and c.left > 0 and depth < 3:
                c.left -= 1
                p += ["th["] + self.prog(c, rng.choice([1, 2, 3, 4]), depth + 1, callee, rng.choice(["waiter", "waiter", "mix", "driver"])) + ["]", c.mark()]
            elif k == 8 and c.left > 0 and depth < 3:
                c.left -= 1
                body = self.prog(c, rng.choice([1, 2, 3]), depth + 1, True, rng.choice(["waiter", "mix", "driver"]))
                if rng.random() < 0.6:
                    body += ["end%d" % rng.randrange(1, 9)]
                if rng.random() < 0.25 and c.left > 0:
                    c.left -= 1
                    body2 = [c.mark()] + rng.choice([[], ["w%d" % rng.choice([0, 1, 2]), c.mark()], ["t%d%s" % (o, "a"), c.mark()]])
                    plain = [t for t in body if t[0] in "pw" or t.startswith("end")]
                    parts = [plain, body2] if rng.random() < 0.5 else [body2, plain]
                    p += [c.mark(), "wg["] + parts[0] + ["|"] + parts[1] + ["]", c.mark()]
                else:
                    p += [c.mark(), "wt["] + body + ["]", c.mark(), "r"]
            elif k == 9:
                p += ["end%d" % rng.randrange(1, 9) if rng.random() < 0.5 else "end"]
            else:
                p += [c.mark()]
        return p

    def hist(self, rng, cid, nstarts, nframes, maxthreads, origin):
        c = Ctx(rng, maxthreads - nstarts, 3 if rng.random() < 0.6 else 2, "order" in DEFECTS)
        ops = []
        starts = sorted(rng.randrange(0, nframes + 1) for _ in range(nstarts))
        first = True
        for f in range(nframes + 1):
            for st in starts:
                if st == f:
                    pre = []
                    if first:
                        pre = ["s%d" % o for o in range(c.nobj) if rng.random() < 0.93]
                        first = False
                    ops.append("S " + " ".join(pre + self.prog(c, rng.choice([2, 3, 4, 5, 6, 8]), 0, False, rng.choice(["driver", "driver", "mix", "waiter"]))))
            if f < nframes:
                r = rng.random()
                if r < 0.15:
                    ops.append("X")
                else:
                    ops.append("T %d" % rng.choice([1, 1, 2, 3]))
                    if r < 0.93:
                        ops.append("X")
        ops += ["T 9", "X", "X"]
        return Case(cid, "", ops, origin)

    ALPHA_Q = ["t0a", "n0a", "d0", "e0a", "w1", "y0ab", "n0b"]
    ALPHA_T = ["t0a", "n0a", "d0", "e0a", "w1", "y0ab", "n0b", "t0b", "s0", "w0", "e0b"]

    def marked(self, toks, base):
        out, m = [], base
        for t in toks:
            out += [t, "p%d" % m]
            m += 1
        return out

    def exhaustive(self, tier, cases):
        alpha = self.ALPHA_Q if tier == "quick" else self.ALPHA_T
        shapes = [(2, 0, 2), (1, 1, 2)] if tier == "quick" else [(2, 0, 2), (1, 1, 2), (2, 1, 2), (2, 2, 1), (1, 1, 3)]
        k = len(cases)
        for (la, lb, lm) in shapes:
            for seq in itertools.product(alpha, repeat=la + lb + lm):
                a, b, m = seq[:la], seq[la:la + lb], seq[la + lb:]
                prog = ["s0", "th["] + self.marked(a, 10) + ["]"]
                if lb:
                    prog += ["th["] + self.marked(b, 20) + ["]"]
                prog += self.marked(m, 30)
                for sched in (["X"], ["T 1", "X", "X"]):
                    cases.append(Case("e%d" % k, "", ["S " + " ".join(prog)] + sched + ["T 5", "X"],
                                      "exhaustive-%d-%d-%d" % (la, lb, lm)))
                    k += 1

    # a child thread of the endon family: its endon registrations, a marker, how it blocks
    ENDON_CHILD = ["e0a w3", "e0b w3", "e0c w3", "e0a e0b w3", "e1a w3", "e0a e1b w3", "e0a t0a", "e0b t0a", "e0b e0b w3"]
    ENDON_NOTIFY = ["n0a", "n0b", "n0c", "n1a", "n1b"]

    def endon_child(self, spec, base):
        toks = spec.split()
        return ["th["] + toks[:-1] + ["p%d" % base, toks[-1], "p%d" % (base + 1), "]"]

    def endon_names(self, tier, cases):
        """one object (and a second one) holding endon registrations under several DIFFERENT names
        by different threads, the names notified one after the other in every order: each thread
        must be destroyed exactly when its own name is notified (the survivors print after `wait 3`)"""
        k = len(cases)

        def emit(children, notes):
            nonlocal k
            prog = ["s0", "s1"]
            for i, c in enumerate(children):
                prog += self.endon_child(c, 10 * (i + 1))
            m = 50
            for nt in notes:
                prog += [nt, "p%d" % m]
                m += 1
            cases.append(Case("n%d" % k, "", ["S " + " ".join(prog), "T 5", "X", "X"], "endon-names"))
            k += 1
        # two children x every ordered pair of different notifies (+ one notify twice)
        for c1, c2 in itertools.product(self.ENDON_CHILD, repeat=2):
            for n1, n2 in itertools.permutations(self.ENDON_NOTIFY, 2):
                if tier == "quick" and (n1[1] == "1" and n2[1] == "1"):
                    continue
                emit([c1, c2], [n1, n2])
        # GA, GB, GC (and variants) x every order of two or three of the names
        trios = [["e0a w3", "e0b w3", "e0c w3"], ["e0a w3", "e0b w3", "e0b t0a"], ["e0a e0b w3", "e0b w3", "e0c w3"],
                 ["e0a w3", "e1a w3", "e0b w3"], ["e0c w3", "e0a e1b w3", "e0b w3"]]
        if tier != "quick":
            trios += [list(t) for t in itertools.product(self.ENDON_CHILD[:7], repeat=3)]
        for trio in trios:
            for r in (2, 3):
                for notes in itertools.permutations(["n0a", "n0b", "n0c", "n1a", "n1b"][:3 if tier == "quick" else 5], r):
                    emit(trio, list(notes))

    WAIT_CHILD = ["t0a", "t0b", "t0c", "y0ab", "t1a", "y0bc", "e0b t0a"]

    def waittill_names(self, tier, cases):
        """the same for waittill: one object awaited under several different names by different
        threads (the per-object map name -> waiters), every ordered pair of different notifies"""
        k = len(cases)
        for c1, c2 in itertools.product(self.WAIT_CHILD, repeat=2):
            for n1, n2 in itertools.permutations(self.ENDON_NOTIFY, 2):
                if tier == "quick" and (n1[1] == "1" and n2[1] == "1"):
                    continue
                prog = ["s0", "s1"] + self.endon_child(c1, 10) + self.endon_child(c2, 20) + [n1, "p50", n2, "p51"]
                cases.append(Case("v%d" % k, "", ["S " + " ".join(prog), "S n0a p60 n0b p61 n0c p62 n1a p63", "X"], "waittill-names"))
                k += 1

    REBLOCK = ["t0b", "y0bc", "u04b", "u01b", "v03bc", "wt[ w6 p90 end3 ] r", "w6", "t1a"]

    def timeouts(self, tier, cases):
        """waittill_timeout / waittill_any_timeout: the notify before / at / after the deadline; the
        thread blocks again (waittill, waittill_any, a timed waittill, waitthread, wait) and the old
        deadline passes during that second wait; a second timed waiter; endon / delete / kill while a
        timeout is pending; then the second wait is satisfied"""
        k = len(cases)
        firsts = ["u0%da", "v0%dac"]
        extras = ["", "th[ p40 u02a p41 ]", "th[ e0c p40 u03b p41 ]", "th[ p40 wt[ p42 u02c p43 end6 ] p41 r ]"]
        events = ["", "S n0c p60", "S d0 p61"]
        ds = (1, 3) if tier == "quick" else (0, 1, 2, 3)
        for first in firsts:
            for d in ds:
                for rb in self.REBLOCK:
                    for nt in ((0, 1, 3, 5) if tier == "quick" else (0, 1, 2, 3, 4, 5)):
                        for ex in (extras[:2] if tier == "quick" and rb not in ("t0b", "w6") else extras):
                            for ev in (events[:1] if tier == "quick" and ex else events):
                                ops = ["S s0 s1 th[ p1 " + (first % d) + " p2 " + rb + " p3 ] " + ex + " p5"]
                                for t in range(0, 9):
                                    if t == nt:
                                        ops.append("S n0a p20")
                                    if t == 2 and ev:
                                        ops.append(ev)
                                    ops += ["T 1", "X"]
                                ops += ["S n0b p21 n1a p22", "T 9", "X", "X"]
                                cases.append(Case("t%d" % k, "", ops, "timeouts"))
                                k += 1

    GROUP_CALLEE = ["p%d", "p%d w1 p%d", "p%d w2 p%d", "p%d t0a p%d", "p%d end5", "p%d w0 p%d"]

    def group_waitthread(self, tier, cases):
        """waitthread applied to a group of 2-3 receivers; every callee independently ends at once /
        waits on a timer / waits for a notify and then ends: the caller, queued for wake-up by a callee
        that ended at once, registers again on the next callee (StartedWaitFor must take it off the timer)"""
        k = len(cases)
        sizes = (2, 3) if tier != "quick" else (2, 3)
        opts = self.GROUP_CALLEE if tier != "quick" else self.GROUP_CALLEE[:4]
        for n in sizes:
            for combo in itertools.product(range(len(opts)), repeat=n):
                if tier == "quick" and n == 3 and len(set(combo)) == 1 and combo[0] != 0:
                    continue
                bodies, m = [], 10
                for c in combo:
                    t = opts[c]
                    cnt = t.count("%d")
                    bodies.append(t % tuple(range(m, m + cnt)))
                    m += 10
                for tail in ("p90", "p90 w1 p91", "p90 wg[ p92 | p93 w1 p94 ] p95"):
                    if tier == "quick" and n == 3 and tail != "p90":
                        continue
                    ops = ["S s0 p1 wg[ " + " | ".join(bodies) + " ] " + tail, "X", "T 1", "X", "S n0a p80", "T 1", "X", "T 2", "X", "X"]
                    cases.append(Case("g%d" % k, "", ops, "group-waitthread"))
                    k += 1

    def endon_random(self, rng, cases, n):
        k = len(cases)
        for _ in range(n):
            nth = rng.choice([2, 3, 4])
            prog = ["s0", "s1"]
            for i in range(nth):
                ends = ["e%d%s" % (rng.randrange(2), rng.choice(NAMES)) for _ in range(rng.choice([1, 1, 2, 3]))]
                blk = rng.choice(["w3", "w3", "t%d%s" % (rng.randrange(2), rng.choice(NAMES)), "wt[ w2 p99 end4 ]"])
                prog += ["th["] + ends + ["p%d" % (10 * i + 10), blk, "p%d" % (10 * i + 11), "]"]
            m = 60
            for _ in range(rng.choice([2, 3, 4, 5])):
                prog += ["n%d%s" % (rng.randrange(2), rng.choice(NAMES)), "p%d" % m]
                m += 1
                if rng.random() < 0.2:
                    prog += ["w1", "p%d" % m]
                    m += 1
            cases.append(Case("q%d" % k, "", ["S " + " ".join(prog), "T 2", "X", "T 5", "X", "X"], "endon-random"))
            k += 1

    def finding_templates(self, rng, cases, n):
        """histories aimed at the recorded findings (their own origins are assigned by classify)"""
        k = len(cases)
        for _ in range(n):
            a, b, c3 = rng.sample(NAMES, 3)
            v = ["t0%s" % a, "p1", "n0%s" % b, "p2"]
            w = ["y0%s%s" % (a, b), "p3", rng.choice(["t0%s" % c3, "wt[ w2 p9 ]", "t0%s" % a]), "p4"]
            first, second = (v, w) if rng.random() < 0.7 else (w, v)
            cases.append(Case("f%d" % k, "", ["S s0 th[ " + " ".join(first) + " ] th[ " + " ".join(second) + " ] p5 n0%s p6" % a, "T 3", "X", "X"], "template"))
            k += 1
            kill = rng.choice(["e0%s p1 t0%s" % (a, b), "t0%s" % a, "e0%s p1 w2" % a])
            how = rng.choice(["n0%s" % a, "d0"])
            cases.append(Case("f%d" % k, "", ["S s0 p7 wt[ " + kill + " p2 end5 ] p8 r", "S %s p3" % how, "T 3", "X", "X"], "regress-killed-callee"))
            k += 1

    def classify(self, cases):
        """run the model and the specification on every candidate: the histories that show a
        recorded finding (model != specification) get their own origin"""
        drv = vlib.ocaml_driver("C07")
        keep = []
        self.observed = {}
        for i in range(0, len(cases), 3000):
            chunk = cases[i:i + 3000]
            outs, crashes = vlib.run_resilient(drv, ["model"], chunk, timeout=600)
            for c in chunk:
                if c.id not in outs:
                    keep.append(c)
                    continue
                a = analyse(outs[c.id])
                if a["sig"] == SIG_STALE:
                    self.observed.setdefault(a["sig"], []).append(c.id)
                    c.origin = "finding-" + a["sig"]
                keep.append(c)
        return keep

    def gen(self, tier, seed):
        rng = random.Random(seed)
        cases = []
        for p in sorted(glob.glob(os.path.join(vlib.VERIF, "corpus", "C07", "*.txt"))):
            lines = [l.strip() for l in open(p) if l.strip() and not l.startswith("#")]
            cases.append(Case("c_" + os.path.basename(p)[:-4], "", lines, "corpus"))
        self.exhaustive(tier, cases)
        self.endon_names(tier, cases)
        self.waittill_names(tier, cases)
        self.timeouts(tier, cases)
        self.group_waitthread(tier, cases)
        self.endon_random(rng, cases, 600 if tier == "quick" else 20000)
        self.finding_templates(rng, cases, 40 if tier == "quick" else 400)
        k = len(cases)
        walks = ([(1, 2, 4, 2500), (2, 4, 4, 2500), (3, 6, 5, 1200), (4, 14, 6, 300)] if tier == "quick"
                 else [(1, 2, 4, 12000), (2, 4, 4, 12000), (3, 6, 5, 8000), (4, 20, 6, 3000)])
        for ns, nf, mt, cnt in walks:
            for _ in range(cnt):
                cases.append(self.hist(rng, "w%d" % k, ns, nf, mt, "random-%dstarts-%dframes" % (ns, nf)))
                k += 1
        return self.classify(cases)

    def canon_model(self, lines):
        a = analyse(lines)
        m = a["m"]
        # a difference between model and specification that is one of the recorded findings is
        # reported by check() below, not as a broken theorem
        if a["sig"]:
            self.cache[tuple(m)] = {"sig": a["sig"]}
        return m, [], a["sig"] in (None, SIG_STALE)

    def canon_impl(self, lines):
        return [l[2:] for l in lines if l.startswith("m ")], [], [], None

    def nontrivial(self, case, compared):
        # within one host operation at least two different threads printed (a nested resume or a kill happened)
        for c in compared:
            d = c.split()[0]
            if d != "-" and len({x.split(":")[0] for x in d.split(",")}) >= 2:
                return True
        return False


HP = C07()


def check(res, tier, seed):
    res.cov["rule"] += ("C07: corpus; every program `spawn o0; thread A; [thread B;] M` with A, B, M sequences over "
                        "{waittill a, notify a, delete, endon a, wait 1, waittill_any a b, notify b} (thorough: + waittill b, spawn, wait 0, endon b; longer) "
                        "x two frame schedules; the endon family: 2-3 threads holding endon registrations under DIFFERENT names (a, b, c; two names in one thread; endon + waittill of one name; "
                        "a second object) x every order of 2-3 notifies, the same for waittill under different names, and random endon/notify mixes; the timeout family: waittill_timeout / waittill_any_timeout "
                        "with the notify before/at/after the deadline, the thread blocking again in waittill / waittill_any / a timed waittill / waitthread / wait while the old "
                        "deadline passes, a second timed waiter, endon / delete while a timeout is pending; timed waittills also in the random programs (30% of the waittills); the group family: waitthread applied to a group of 2-3 receivers, every callee "
                        "independently ending at once / waiting 1-2 ms / waiting for a notify, followed by nothing / a wait / another group waitthread (also a quarter of the random waitthreads); templates aimed at the recorded finding and at waitthread callees that are killed (regression family of the fixed f3056f7); seeded random histories of 1-4 host-started threads, up to 6 script threads, "
                        "2-3 objects, names a/b/c, nested thread/waitthread bodies to depth 3, waits {0,1,1,2,3} ms, frames with and "
                        "without clock advance; markers around every blocking instruction; every candidate is first run on model and specification: "
                        "histories on which model and specification differ by a recorded finding get the origin finding-<signature>; non-trivial = one host operation made >= 2 threads print. ")
    vlib.history_check(res, HP, tier, seed)
    res.cov["findings_observed"] = {k: len(v) for k, v in HP.observed.items()}
    recorded = {f.get("signature"): f for f in vlib.known_findings("C07")}
    for sig in (SIG_STALE,):
        if HP.observed.get(sig):
            if sig in recorded:
                res.known_finding("%s: %s (%d generated histories, e.g. case %s)" % (sig, recorded[sig].get("what", WHAT[sig]), len(HP.observed[sig]), HP.observed[sig][0]))
            else:
                res.notes.append("finding %s observed on %d histories but not (yet) listed in known_findings.json: %s" % (sig, len(HP.observed[sig]), WHAT[sig]))


def replay(path):
    return vlib.history_replay(HP, path)
