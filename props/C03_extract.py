"""C03_extract - translator: the integer-literal path of /repo's current sources -> coq/C03/Generated.v.

Reads (and fails loudly with BrokenTie when a pattern no longer matches):
  src/Script/Compiler.cpp        ScriptEmitter::EmitInteger (branches: comparison, opcode, operand written),
                                 ScriptEmitter::EvalPrevValue (operand read back by the constant folder),
                                 the member of the parse-tree value handed to EmitInteger
  src/Script/ScriptVMOperation.cpp  the OP_STORE_INT<n> cases (operand type read, setter called)
  src/Script/ScriptVariable.cpp  argument types of setIntValue / setLongValue
  include/morfuse/Common/short3.h   the 3-byte operand type (unsigned: two unsigned members or-ed)
  src/Parser/yyLexer.l, yyParser.yy, parsetree.h   the member written by the lexer, the member
                                 named by the token type, and the width of both members
"""
import os
import re

import vlib


class BrokenTie(Exception):
    pass


TYPES = {"uint8_t": (1, False), "int8_t": (1, True), "uint16_t": (2, False), "int16_t": (2, True),
         "uint32_t": (4, False), "int32_t": (4, True), "uint64_t": (8, False), "int64_t": (8, True),
         "unsigned char": (1, False), "unsigned short": (2, False), "int": (4, True), "unsigned int": (4, False)}


def read(rel):
    p = os.path.join(vlib.REPO, rel)
    try:
        return open(p, errors="replace").read()
    except OSError as ex:
        raise BrokenTie("cannot read %s: %s" % (rel, ex))


def function_body(text, header_re, what):
    m = re.search(header_re, text)
    if not m:
        raise BrokenTie("%s: definition not found" % what)
    i = text.index("{", m.end() - 1)
    depth, j = 0, i
    while j < len(text):
        if text[j] == "{":
            depth += 1
        elif text[j] == "}":
            depth -= 1
            if depth == 0:
                return m, text[i + 1:j]
        j += 1
    raise BrokenTie("%s: unbalanced braces" % what)


def short3_type(types):
    h = read("include/morfuse/Common/short3.h")
    m = re.search(r"struct\s+short3_data\s*\{\s*unsigned\s+short\s+highmid;\s*unsigned\s+char\s+low;\s*\}", h)
    g = re.search(r"int\s+get\(\)\s*const\s*\{\s*return\s*\(int\)data\.highmid\s*\|\s*\(\(int\)data\.low\s*<<\s*16\);\s*\}", h)
    s = re.search(r"void\s+set\(uint32_t\s+value\)\s*\{\s*data\.highmid\s*=\s*value;\s*data\.low\s*=\s*\*\(\s*\(\s*unsigned\s+char\s*\*\s*\)&value\s*\+\s*2\s*\);\s*\}", h)
    if not (m and g and s):
        raise BrokenTie("short3.h: the 3-byte operand type no longer has the shape (unsigned short | unsigned char << 16)")
    types = dict(types)
    types["short3"] = (3, False)
    return types


def parse_emit_integer(comp, types):
    m, body = function_body(comp, r"void\s+ScriptEmitter::EmitInteger\s*\(\s*(\w+)\s+value\s*,[^)]*\)\s*\{", "EmitInteger")
    argtype = m.group(1)
    if argtype not in types:
        raise BrokenTie("EmitInteger: unknown argument type " + argtype)
    rows, dflt = [], None
    pos = 0
    br = re.compile(r"\s*(?:else\s+)?if\s*\(\s*value\s*(==|<=|<)\s*([^{]*?)\)\s*\{([^{}]*)\}", re.S)
    while True:
        mm = br.match(body, pos)
        if not mm:
            break
        op, rhs, blk = mm.group(1), mm.group(2).strip(), mm.group(3)
        if op == "==":
            if rhs != "0":
                raise BrokenTie("EmitInteger: equality with " + rhs)
            cmp_ = "CEq0"
        else:
            k = re.fullmatch(r"\(\s*1(?:ll|LL|ull|ULL)?\s*<<\s*(\d+)(?:ll|LL)?\s*\)", rhs)
            if not k:
                raise BrokenTie("EmitInteger: threshold not of the form (1 << k): " + rhs)
            kk = int(k.group(1))
            # `1 << k` is an int expression: beyond 30 it needs the ll suffix to mean 2^k
            if kk >= 31 and not re.match(r"\(\s*1(ll|LL|ull|ULL)", rhs):
                raise BrokenTie("EmitInteger: (1 << %d) overflows int" % kk)
            cmp_ = "(%s %d)" % ("CLt" if op == "<" else "CLe", kk)
        rows.append((cmp_,) + parse_branch(blk, types))
        pos = mm.end()
    em = re.match(r"\s*else\s*\{((?:[^{}]|//[^\n]*)*)\}\s*$", body[pos:], re.S)
    if not em or not rows:
        raise BrokenTie("EmitInteger: branch structure not recognised")
    dflt = parse_branch(em.group(1), types)
    return types[argtype][0] * 8, rows, dflt


def parse_branch(blk, types):
    o = re.search(r"EmitOpcode\(\s*OP_STORE_INT(\d)\s*,", blk)
    if not o:
        raise BrokenTie("EmitInteger: branch without EmitOpcode(OP_STORE_INTn): " + blk.strip()[:80])
    w = re.findall(r"WriteOpValue<\s*([\w ]+?)\s*>\(\s*(.*?)\s*\)\s*;", blk)
    if len(w) > 1:
        raise BrokenTie("EmitInteger: branch writes more than one operand")
    if not w:
        return int(o.group(1)), 0
    t, arg = w[0]
    if t not in types:
        raise BrokenTie("EmitInteger: unknown operand type " + t)
    if arg not in ("value", "static_cast<%s>(value)" % t, "(%s)value" % t):
        raise BrokenTie("EmitInteger: operand is not the value itself: " + arg)
    return int(o.group(1)), types[t][0]


def setter_types(types):
    sv = read("src/Script/ScriptVariable.cpp")
    res = {}
    for name in ("setIntValue", "setLongValue"):
        m, body = function_body(sv, r"void\s+ScriptVariable::%s\s*\(\s*([\w ]+?)\s+newvalue\s*\)\s*\{" % name, name)
        t = m.group(1).strip()
        if t not in types:
            raise BrokenTie("%s: unknown argument type %s" % (name, t))
        if not re.search(r"m_data\.long64Value\s*=\s*newvalue\s*;", body):
            raise BrokenTie("%s no longer stores its argument into long64Value" % name)
        res[name] = (types[t][0] * 8, types[t][1])
    return res


def parse_decode(text, case_re, what, types, setters, prefix):
    """rows (tag, bytes read, signed, setter bits, setter signed) for OP_STORE_INT0..8"""
    rows = []
    for mm in re.finditer(case_re, text, re.S):
        tag, setter, rd = int(mm.group(1)), mm.group(2), mm.group(3)
        if setter not in setters:
            raise BrokenTie("%s: OP_STORE_INT%d calls %s" % (what, tag, setter))
        if rd.strip() == "0":
            w, sg = 0, False
        else:
            t = re.fullmatch(prefix, rd.strip())
            if not t:
                raise BrokenTie("%s: OP_STORE_INT%d reads %s" % (what, tag, rd))
            if t.group(1) not in types:
                raise BrokenTie("%s: unknown operand type %s" % (what, t.group(1)))
            if t.lastindex and t.lastindex >= 2 and t.group(2) != t.group(1):
                raise BrokenTie("%s: OP_STORE_INT%d reads %s at the offset of %s" % (what, tag, t.group(1), t.group(2)))
            w, sg = types[t.group(1)]
        rows.append((tag, w, sg) + setters[setter])
    if sorted(r[0] for r in rows) != [0, 1, 2, 3, 4, 8]:
        raise BrokenTie("%s: OP_STORE_INT cases found for %s (expected 0 1 2 3 4 8)" % (what, sorted(r[0] for r in rows)))
    return sorted(rows)


def literal_path():
    comp = read("src/Script/Compiler.cpp")
    pt = read("src/Parser/parsetree.h")
    lx = read("src/Parser/yyLexer.l")
    gr = read("src/Parser/yyParser.yy")
    members = {}
    u = re.search(r"typedef\s+union\s+sval_u\s*\{(.*?)\n\s*\}|union\s+sval_u\s*\{(.*?)\n\s{4}\}", pt, re.S)
    for t, name in re.findall(r"^\s*((?:unsigned\s+)?\w+)\s+(\w+Value);", pt, re.M):
        if t in TYPES:
            members[name] = TYPES[t][0] * 8
    if "longValue" not in members or "intValue" not in members:
        raise BrokenTie("parsetree.h: integer members of sval_u not found")
    m = re.search(r"case\s+statementType_e::Integer:\s*EmitInteger\(\s*val\.node\[1\]\.(\w+)\s*,", comp)
    if not m or m.group(1) not in members:
        raise BrokenTie("Compiler.cpp: the Integer node is no longer handed to EmitInteger as val.node[1].<member>")
    emit_member = m.group(1)
    m = re.search(r"^\[0-9\]\+\s*\{[^}]*?yylval->val\.(\w+)\s*=\s*std::(strtoll|strtoull|strtol|strtoul)\(yytext", lx, re.M | re.S)
    if not m or m.group(1) not in members:
        raise BrokenTie("yyLexer.l: the [0-9]+ rule no longer assigns yylval->val.<member> = std::strtoll(...)")
    lex_member, conv = m.group(1), m.group(2)
    if conv not in ("strtoll", "strtoull"):
        raise BrokenTie("yyLexer.l: integer literals are converted with std::%s (32/64-bit long)" % conv)
    m = re.search(r"%precedence\s*<val\.(\w+)>\s*TOKEN_INTEGER", gr)
    if not m or m.group(1) not in members:
        raise BrokenTie("yyParser.yy: TOKEN_INTEGER's value member not found")
    gram_member = m.group(1)
    if not re.search(r"TOKEN_INTEGER\s*\{\s*\$\$\s*=\s*pt\.node2\(statementType_e::Integer,\s*\$1,", gr):
        raise BrokenTie("yyParser.yy: TOKEN_INTEGER is no longer turned into node2(Integer, $1, ..)")
    return (lex_member, members[lex_member]), (gram_member, members[gram_member]), (emit_member, members[emit_member]), members


def case_label_path(comp, members, types):
    m, body = function_body(comp, r"void\s+ScriptEmitter::EmitCaseLabel\s*\(\s*sval_t\s+case_parm\s*,[^)]*\)\s*\{", "EmitCaseLabel(sval_t)")
    pos = re.search(r"statementType_e::Integer\s*\)\s*\{\s*EmitCaseLabel\(\s*(?:\(\s*(\w+)\s*\))?\s*case_parm\.node\[1\]\.(\w+)\s*,", body)
    neg = re.search(r"OP_UN_MINUS\s*\)\s*\{\s*EmitCaseLabel\(\s*\(\s*(\w+)\s*\)\s*\(\s*0\s*-\s*case_parm\.node\[2\]\.node\[1\]\.(\w+)\s*\)\s*,", body)
    if not pos or not neg:
        raise BrokenTie("EmitCaseLabel: the integer / negated integer branches no longer have the shape (T)node.<member> / (T)(0 - node.<member>)")
    if pos.group(2) != neg.group(2) or pos.group(2) not in members:
        raise BrokenTie("EmitCaseLabel: the two branches read different members (%s, %s)" % (pos.group(2), neg.group(2)))
    cast_p = pos.group(1) or {32: "uint32_t", 64: "uint64_t"}[members[pos.group(2)]]
    if cast_p not in types or neg.group(1) not in types or types[cast_p] != types[neg.group(1)]:
        raise BrokenTie("EmitCaseLabel: casts %s / %s" % (cast_p, neg.group(1)))
    m2, body2 = function_body(comp, r"void\s+ScriptEmitter::EmitCaseLabel\s*\(\s*(u?int\d+_t)\s+label\s*,[^)]*\)\s*\{", "EmitCaseLabel(int)")
    buf = re.search(r"prchar_t\s+name\[(\d+)\]\s*\{\s*\}\s*;\s*std::to_chars\(\s*name\s*,\s*name\s*\+\s*sizeof\(name\)\s*,\s*label\s*\)", body2)
    if not buf:
        raise BrokenTie("EmitCaseLabel(int): the label text is no longer produced by std::to_chars into a zero-initialised name[N]")
    argt = m2.group(1)
    if not types[argt][1] or not types[cast_p][1]:
        raise BrokenTie("EmitCaseLabel: unsigned label type (negative labels cannot be printed)")
    return {"member": (pos.group(2), members[pos.group(2)]), "cast": types[cast_p][0] * 8, "arg": types[argt][0] * 8, "buf": int(buf.group(1))}


def extract():
    types = short3_type(TYPES)
    comp = read("src/Script/Compiler.cpp")
    vm = read("src/Script/ScriptVMOperation.cpp")
    argbits, rows, dflt = parse_emit_integer(comp, types)
    setters = setter_types(types)
    dec = parse_decode(vm, r"case\s+OP_STORE_INT(\d):\s*\{\s*m_Stack\.PushAndGet\(\)\.(\w+)\(\s*(.*?)\s*\);\s*break;\s*\}",
                       "ScriptVM::Process", types, setters, r"ReadOpcodeValue<\s*([\w ]+?)\s*>\(\)")
    _, ev = function_body(comp, r"bool\s+ScriptEmitter::EvalPrevValue\s*\([^)]*\)\s*\{", "EvalPrevValue")
    fold = parse_decode(ev, r"case\s+OP_STORE_INT(\d):\s*var\.(\w+)\(\s*(.*?)\s*\);\s*break;",
                        "EvalPrevValue", types, setters, r"ReadOpValue<\s*([\w ]+?)\s*>\(\s*sizeof\(\s*([\w ]+?)\s*\)\s*\)")
    lex, gram, emit, members = literal_path()
    case = case_label_path(comp, members, types)
    return {"argbits": argbits, "rows": rows, "dflt": dflt, "dec": dec, "fold": fold, "lex": lex, "gram": gram, "emit": emit, "case": case}


def generated_v(d):
    def b(x):
        return "true" if x else "false"
    o = ["(* C03/Generated.v - GENERATED on every run by props/C03_extract.py from /repo's current",
         "   sources (Compiler.cpp EmitInteger / EvalPrevValue, ScriptVMOperation.cpp OP_STORE_INT*,",
         "   ScriptVariable.cpp setIntValue / setLongValue, short3.h, yyLexer.l, yyParser.yy, parsetree.h).",
         "   Do not edit. *)",
         "From Coq Require Import ZArith List Bool.",
         "From Morfuse Require Import C03.Codec.",
         "Import ListNotations.",
         "Local Open Scope Z_scope.",
         "",
         "(* EmitInteger: condition on the value, n of OP_STORE_INTn, bytes written *)",
         "Definition enc_table : list erow := ["]
    o.append(";\n".join("  mkE %s %d %d" % r for r in d["rows"]))
    o.append("].")
    o.append("Definition enc_default : erow := mkE CEq0 %d %d.   (* the final else (its condition is not used) *)" % d["dflt"])
    o.append("")
    o.append("(* ScriptVM::Process: n of OP_STORE_INTn, bytes read, signed read, setter argument bits, setter argument signed *)")
    o.append("Definition dec_table : list drow := [")
    o.append(";\n".join("  mkD %d %d %s %d %s" % (t, w, b(sg), sb, b(ss)) for t, w, sg, sb, ss in d["dec"]))
    o.append("].")
    o.append("")
    o.append("(* ScriptEmitter::EvalPrevValue (constant folding of unary minus) *)")
    o.append("Definition fold_table : list drow := [")
    o.append(";\n".join("  mkD %d %d %s %d %s" % (t, w, b(sg), sb, b(ss)) for t, w, sg, sb, ss in d["fold"]))
    o.append("].")
    o.append("")
    o.append("(* lexer: val.%s; token type: val.%s; emitter: node[1].%s; EmitInteger's argument *)" % (d["lex"][0], d["gram"][0], d["emit"][0]))
    o.append("Definition lex_bits : Z := %d." % d["lex"][1])
    o.append("Definition gram_bits : Z := %d." % d["gram"][1])
    o.append("Definition emit_bits : Z := %d." % d["emit"][1])
    o.append("Definition arg_bits : Z := %d." % d["argbits"])
    o.append("")
    o.append("(* EmitCaseLabel: node[1].%s, the cast, the label argument, the size of the text buffer *)" % d["case"]["member"][0])
    o.append("Definition case_member_bits : Z := %d." % d["case"]["member"][1])
    o.append("Definition case_cast_bits : Z := %d." % d["case"]["cast"])
    o.append("Definition case_arg_bits : Z := %d." % d["case"]["arg"])
    o.append("Definition case_buf : Z := %d." % d["case"]["buf"])
    return "\n".join(o) + "\n"


def write_if_changed(path, text):
    old = open(path).read() if os.path.exists(path) else None
    if old != text:
        with open(path, "w") as f:
            f.write(text)
        return True
    return False


def regenerate():
    """-> (dict, changed)"""
    d = extract()
    return d, write_if_changed(os.path.join(vlib.COQ, "C03", "Generated.v"), generated_v(d))


if __name__ == "__main__":
    import sys
    sys.path.insert(0, os.path.join(os.path.dirname(os.path.abspath(__file__)), "..", "lib"))
    print(generated_v(extract()))
