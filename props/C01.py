"""C01 - compilation is total: any source text is accepted or cleanly rejected.

Three layers in one check (unit C01):
 (1) Coq (coq/C01): the script table of ScriptMaster as a state machine and the break/continue
     jump tables of ScriptEmitter over loop skeletons; limits and wiring translated from the
     source on every run (props/C01_gen.py -> coq/C01/Generated.v).
 (2) differential: histories of compile/request/run operations and loop skeletons, extracted
     model (ocaml/C01_driver.ml) against the real engine (harness/C01.cpp, ASan+UBSan).
 (3) sampling of the unmodelled part (lexer, parser, emitter): grammar-directed programs,
     token mutants and byte noise through ScriptMaster::GetProgramScript; outcome class must be
     ok | parse | compile:*, with a diagnostic; after every input the engine is probed
     (sentinel still runs, a new script compiles and runs, the rejected name is refused) and the
     probes are compared with the table model (the outcome of the input is the model's input).
"""
import hashlib
import itertools
import json
import os
import random
import re
import time

import vlib
import C01_gen

LEVEL = "proof"
CID = "C01"

# Findings that are open on the current tree: name -> {"on": generate the provoking origin on purpose, "what": text,
# "sig": regex over the sanitizer report}.  An accidental hit (token mutants, noise) whose report matches "sig" is reported
# as KNOWN-FINDING instead of VIOLATION.  Empty: every defect this unit found has been repaired (list below).
KNOWN_OPEN = {}
# defects found by this unit and repaired since (their origins are always generated now):
#   stray top-level `case` / labels in a catch block overflowed the compile arena (fix 5d577e5); try/catch nested in a catch block or
#   a switch body bound a null reference (fix 0d80098); GetProgramScript(name) returned a failed script that was then run (fix 4bf1e6a);
#   a token longer than flex's 16384-byte buffer spun forever in yy_get_next_buffer (fix ddfcf5e: ParseError);
#   catch-in-catch / switch-in-switch nesting cost 2^depth compile time (fix 76f56ed: > 20 s from depth 25 before, 0.1 s at depth 40 after)

ALLOWED = re.compile(r"^(ok|parse|compile:[A-Za-z]+)$")

SENTINEL_TAG = 424242
BAD = {"parse": 'main:\nprintln ((\nend\n',
       "compile:UnknownCommand": 'main:\nnosuchcmd 1\nend\n',
       "compile:IllegalBreak": 'main:\nbreak\nend\n'}


def good_src(tag):
    return 'main:\nprintln "G%d"\nend\n' % tag


def hx(b):
    if isinstance(b, str):
        b = b.encode("latin1")
    return b.hex() if b else "-"


# ------------------------------------------------------------------------------ kinds
class Kinds:
    """class string <-> reject kind number used by the model"""

    def __init__(self):
        self.ids = {"parse": 0, "compile:UnknownCommand": 1, "compile:IllegalBreak": 2}

    def of(self, cls):
        if cls not in self.ids:
            self.ids[cls] = len(self.ids)
        return self.ids[cls]


KINDS = Kinds()


# ------------------------------------------------------------------------------ cases
class XCase:
    """ops: list of tuples
       ('S', name, src)            src = ('A', tag) | ('J', class) | ('X', bytes)   X = arbitrary text (oracle from impl)
       ('C', name, rc, src) ('F', name, rc) ('R', name) ('T', name) ('E', name) ('K', tokens)"""

    def __init__(self, cid, ops, origin, inputs=None, dev=1):
        self.id, self.ops, self.origin = str(cid), ops, origin
        self.inputs = inputs or []          # the arbitrary texts in it (for blame)
        self.dev = dev                      # developer mode of the context

    @staticmethod
    def src_bytes(src):
        if src[0] == "A":
            return good_src(src[1]).encode()
        if src[0] == "J":
            return BAD[src[1]].encode()
        return src[1]

    def impl_text(self):
        out = ["case %s dev=%d" % (self.id, self.dev)]
        for o in self.ops:
            if o[0] == "S":
                out.append("S %s %s" % (o[1], hx(self.src_bytes(o[2]))))
            elif o[0] == "C":
                out.append("C %s %d %s" % (o[1], o[2], hx(self.src_bytes(o[3]))))
            elif o[0] == "F":
                out.append("F %s %d" % (o[1], o[2]))
            elif o[0] in "RTE":
                out.append("%s %s" % (o[0], o[1]))
            elif o[0] == "Z":
                out.append("Z")
            elif o[0] == "K":
                out.append("K " + " ".join(o[1]))
        out.append("end")
        return "\n".join(out) + "\n"

    def model_text(self, impl_lines):
        """the same history for the driver; arbitrary texts become A/J by the implementation's own verdict"""
        out = ["case %s" % self.id]

        def enc(src, k):
            if src[0] == "A":
                return "A%d" % src[1]
            if src[0] == "J":
                return "J%d" % KINDS.of(src[1])
            cls = impl_class(impl_lines[k]) if k < len(impl_lines) else "?"
            if cls == "ok":
                return "A%d" % (900000 + k)
            return "J%d" % KINDS.of(cls)
        for k, o in enumerate(self.ops):
            if o[0] == "S":
                out.append("S %s %s" % (o[1], enc(o[2], k)))
            elif o[0] == "C":
                out.append("C %s %d %s" % (o[1], o[2], enc(o[3], k)))
            elif o[0] == "F":
                out.append("F %s %d" % (o[1], o[2]))
            elif o[0] in "RTE":
                out.append("%s %s" % (o[0], o[1]))
            elif o[0] == "Z":
                out.append("Z")
            elif o[0] == "K":
                out.append("K " + " ".join(o[1]))
        out.append("end")
        return "\n".join(out) + "\n"

    def to_json(self):
        def j(o):
            o = list(o)
            for i, x in enumerate(o):
                if isinstance(x, tuple):
                    o[i] = [x[0], x[1].hex() if isinstance(x[1], bytes) else x[1]]
            return o
        return {"id": self.id, "origin": self.origin, "dev": self.dev, "ops": [j(o) for o in self.ops]}

    @staticmethod
    def from_json(d):
        ops = []
        for o in d["ops"]:
            o = list(o)
            for i, x in enumerate(o):
                if isinstance(x, list) and len(x) == 2 and x[0] in ("A", "J", "X"):
                    o[i] = (x[0], bytes.fromhex(x[1]) if x[0] == "X" else x[1])
            if o[0] == "K":
                o[1] = list(o[1])
            ops.append(tuple(o))
        return XCase(d.get("id", "r"), ops, d.get("origin", "replay"), dev=d.get("dev", 1))


def impl_class(line):
    """'m C compile:X nodiag' -> 'compile:X' (first word after the op letter)"""
    w = line.split()
    return w[2] if len(w) > 2 else ""


def canon_impl_line(line):
    """implementation line -> the driver's text"""
    w = line.split()
    if len(w) < 2 or w[0] != "m":
        return line
    opc = w[1]
    rest = w[2:]
    if opc in ("C", "F", "E") and rest:
        c = rest[0]
        if c == "parse" or c.startswith("compile:"):
            rest = ["rej", str(KINDS.of(c))] + rest[1:]
    return " ".join(["m", opc] + rest)


# ------------------------------------------------------------------------------ generators
NORMAL_CMDS = ["println", "print", "wait", "waitframe", "end", "goto", "thread", "exec", "pause", "assert", "error",
               "timeout", "waitthread", "mprintln", "trigger", "settimer", "flag_set", "flag_init", "cache"]
RETURN_CMDS = ["abs", "int", "float", "string", "randomint", "randomfloat", "sqrt", "isdefined", "typeof", "bool",
               "ceil", "floor", "cos", "sin", "thread", "waitthread", "exec", "vector_length", "getarraykeys", "self"]
LISTENERS = ["local", "level", "game", "group", "parm", "self", "owner"]
BINOPS = ["+", "-", "*", "/", "%", "==", "!=", "<", ">", "<=", ">=", "&&", "||", "&", "|", "^", "<<", ">>",
          "ifequal", "ifless", "ifgreater"]
ASSIGNOPS = ["=", "=", "=", "+=", "-=", "*=", "/=", "%=", "&=", "^=", "|=", "<<=", ">>="]
NL = "\n"


class ProgGen:
    """grammar-directed programs as token lists (newline is the token '\\n')"""

    def __init__(self, rng, maxdepth, flags):
        self.r, self.maxdepth, self.flags = rng, maxdepth, flags
        self.nlabel = 0

    # ---- expressions
    def ident(self):
        return self.r.choice(["a", "b", "i", "value", "x1", "arr", "3value", "end", "n_" + str(self.r.randrange(30))])

    def var(self):
        r = self.r
        t = r.choice(LISTENERS) + "." + self.ident()
        k = r.random()
        if k < 0.15:
            t += "." + self.ident()
        elif k < 0.25:
            t += "[" + str(r.randrange(4)) + "]"
        elif k < 0.30:
            t = r.choice(LISTENERS) + " . " + self.ident()
        elif k < 0.33:
            t = r.choice(LISTENERS) + '."' + self.ident() + '"'
        return t

    def literal(self):
        r = self.r
        k = r.random()
        if k < 0.35:
            return str(r.choice([0, 1, 2, 5, 255, 256, 65535, 65536, 16777216, 4294967296, 99999999999, r.randrange(1000)]))
        if k < 0.5:
            return r.choice(["0.5", "1.25", ".3", "3.", "1e+5", "2.5e-3"])
        if k < 0.8:
            return '"' + r.choice(["", "s", "hello world", "a\\nb", "q\\\"q", "x" * r.randrange(1, 40), "100", "\\t"]) + '"'
        if k < 0.88:
            return r.choice(["NULL", "NIL"])
        if k < 0.94:
            return "$" + self.ident()
        return "( %s %s %s )" % (r.randrange(9), r.randrange(9), r.randrange(9))

    def prim(self, d):
        """prim_expr as ONE rendered string (may contain blanks)"""
        r = self.r
        k = r.random()
        if d <= 0 or k < 0.35:
            return self.var() if r.random() < 0.5 else self.literal()
        if k < 0.75:
            return "( " + self.expr(d - 1) + " )"
        if k < 0.80:
            return " -" + self.prim(d - 1).lstrip()
        if k < 0.84:
            return "!" + self.prim(d - 1).lstrip()
        if k < 0.87:
            return "~" + self.prim(d - 1).lstrip()
        if k < 0.90:
            return self.var() + ".size"
        if k < 0.94:
            return self.var() + "[ " + self.expr(d - 1) + " ]"
        if k < 0.97:
            return self.literal() + "::" + self.literal() + ("::" + self.literal() if r.random() < 0.5 else "")
        return "$( " + self.expr(d - 1) + " )"

    def expr(self, d):
        r = self.r
        k = r.random()
        if d <= 0 or k < 0.3:
            return self.prim(d)
        if k < 0.75:
            return self.expr(d - 1) + " " + r.choice(BINOPS) + " " + self.expr(d - 1)
        if k < 0.85:
            c = r.choice(RETURN_CMDS)
            return c + " " + " ".join(self.prim(d - 1) for _ in range(r.choice([1, 1, 2, 3, 7])))
        if k < 0.9:
            return self.prim(d - 1) + " " + r.choice(RETURN_CMDS) + " " + self.prim(d - 1)
        if k < 0.93:
            rows = r.randrange(1, 4)
            return "makeArray\n" + "".join(" ".join(self.prim(0) for _ in range(r.randrange(1, 4))) + "\n" for _ in range(rows)) + "endArray"
        return self.ident()

    # ---- statements: return list of tokens
    def block(self, d, ctx, n=None):
        r = self.r
        n = r.choice([0, 1, 1, 2, 3]) if n is None else n
        t = ["{", NL]
        for _ in range(n):
            t += self.stmt(d, ctx)
        return t + ["}", NL]

    def stmt(self, d, ctx):
        r = self.r
        k = r.random()
        inl, insw, incatch = ctx
        if d <= 0:
            k = r.random() * 0.45
        if k < 0.16:
            return [self.var(), r.choice(ASSIGNOPS), self.expr(min(d, 3)), NL]
        if k < 0.19:
            return [self.var() + r.choice(["++", "--"]), NL]
        if k < 0.30:
            c = r.choice(NORMAL_CMDS) if r.random() < 0.97 else "nosuchcmd"
            return [c] + [self.prim(min(d, 2)) for _ in range(r.choice([0, 1, 1, 2, 6]))] + [NL]
        if k < 0.33:
            return [self.prim(0), r.choice(NORMAL_CMDS), self.prim(min(d, 1)), NL]
        if k < 0.39:
            if inl or insw or r.random() < 0.03:
                return ["break", NL]
            return [";", NL]
        if k < 0.44:
            if (inl and not insw) or r.random() < 0.03:
                return ["continue", NL]
            return [";", NL]
        if k < 0.45:
            return [";", NL]
        if k < 0.55:
            return ["if", "( " + self.expr(min(d, 3)) + " )"] + self.body(d - 1, ctx)
        if k < 0.62:
            return ["if", self.prim(min(d, 2))] + self.block(d - 1, ctx) + ["else"] + self.body(d - 1, ctx)
        if k < 0.71:
            return ["while", "( " + self.expr(min(d, 2)) + " )"] + self.body(d - 1, (True, False, incatch))
        if k < 0.78:
            init = [self.var(), "=", "0"] if r.random() < 0.7 else []
            return ["for", "("] + init + [";", self.expr(min(d, 2)), ";", self.var() + "++", ")"] + self.body(d - 1, (True, False, incatch))
        if k < 0.83:
            return ["do"] + self.block(d - 1, (True, False, incatch)) + ["while", "( " + self.expr(min(d, 2)) + " )", NL]
        if k < 0.91:
            return self.switch(d - 1, ctx)
        if k < 0.96:
            tb = self.block(d - 1, ctx)
            if self.r.random() < 0.9:
                tb = tb[:-1]                 # `} catch` on one line (a newline before catch is a parse error)
            return ["try"] + tb + ["catch"] + self.block(d - 1, (inl, insw, True))
        if k < 0.98 and not insw:
            self.nlabel += 1
            return ["lbl%d" % self.nlabel] + ([self.var()] if r.random() < 0.3 else []) + [":", NL]
        return self.block(d - 1, ctx)

    def body(self, d, ctx):
        if self.r.random() < 0.8:
            return self.block(d, ctx)
        s = self.stmt(0, ctx)
        return [NL] + s if self.r.random() < 0.3 else s

    def switch(self, d, ctx):
        r = self.r
        inl, insw, incatch = ctx
        t = ["switch", "( " + self.expr(min(d, 2)) + " )", "{", NL]
        seen = set()
        for _ in range(r.choice([1, 2, 3, 5])):
            lab = r.choice([str(r.randrange(6)), '"s%d"' % r.randrange(4), "word%d" % r.randrange(4)])
            if lab in seen:
                continue
            seen.add(lab)
            if lab.startswith("word"):
                t += [lab, ":", NL]
            else:
                t += ["case", lab, ":", NL]
            for _ in range(r.choice([0, 1, 2])):
                t += self.stmt(min(d, 2), (inl, True, incatch))       # the nested counting emitter allows 5 levels
            if r.random() < 0.7:
                t += ["break", NL]
        return t + ["}", NL]

    def program(self):
        r = self.r
        t = ["main", ":", NL]
        for _ in range(r.choice([1, 2, 3, 5, 8])):
            t += self.stmt(self.maxdepth, (False, False, False))
        t += ["end", NL]
        if r.random() < 0.3:
            self.nlabel += 1
            t += ["fn%d" % self.nlabel, "local.p", ":", NL] + self.stmt(min(self.maxdepth, 3), (False, False, False)) + ["end", NL]
        return t


def render(tokens):
    out = []
    for t in tokens:
        if t == NL:
            out.append("\n")
        else:
            out.append(t)
            out.append(" ")
    return "".join(out)


def nest(kind, depth, inner="local.a = 1\n"):
    """deep nesting of one construct"""
    s = inner
    for i in range(depth):
        if kind == "if":
            s = "if (local.a) {\n" + s + "}\n"
        elif kind == "while":
            s = "while (local.a) {\n" + s + "}\n"
        elif kind == "block":
            s = "{\n" + s + "}\n"
        elif kind == "try":                       # try-in-try (the TRY body nests; not catch-in-catch)
            s = "try {\n" + s + "} catch {\nlocal.b = 1\n}\n"
        elif kind == "catch":                     # catch-in-catch
            s = "try {\nlocal.b = 1\n} catch {\n" + s + "}\n"
        elif kind == "switch":                    # switch-in-switch
            s = "switch (local.a) {\ncase 1:\n" + s + "break\n}\n"
    return "main:\n" + s + "end\n"


def targeted_programs(tier, flags):
    """the constructs the compiler's fixed-size structures split on"""
    out = []
    thorough = tier != "quick"

    def add(name, src):
        out.append((name, src.encode("latin1") if isinstance(src, str) else src))
    lims = C01_gen.limits_lenient()
    for n in sorted({lims["break"] + d for d in (-1, 0, 1, 2)} | {lims["continue"] + d for d in (-1, 0, 1, 2)} | {150}):
        add("continues-flat-%d" % n, "main:\nwhile (local.a) {\n" + "continue\n" * n + "local.b = 1\n}\nend\n")
        add("continues-split-%d" % n, "main:\nwhile (local.a) {\n" + "if (local.b) { continue }\n" * 60 + "while (local.c) {\n" + "if (local.b) { continue }\n" * (n - 60) + "local.d = 1\n}\n}\nend\n")
        add("continues-in-switch-%d" % n, "main:\nwhile (local.a) {\nswitch (local.b) {\ncase 1:\n" + "if (local.b) { continue }\n" * n + "break\n}\n}\nend\n")
        add("breaks-split-%d" % n, "main:\nwhile (local.a) {\n" + "if (local.b) { break }\n" * 60 + "while (local.c) {\n" + "if (local.b) { break }\n" * (n - 60) + "local.d = 1\n}\n}\nend\n")
        add("breaks-%d" % n, "main:\nwhile (local.a) {\n" + "if (local.b) { break }\n" * n + "}\nend\n")
        add("continues-%d" % n, "main:\nwhile (local.a) {\n" + "if (local.b) { continue }\n" * n + "}\nend\n")
        add("switch-breaks-%d" % n, "main:\nswitch (local.a) {\n" + "".join("case %d:\nbreak\n" % i for i in range(n)) + "}\nend\n")
    add("break+continue", "main:\nfor (local.i = 0; local.i < 3; local.i++) {\nif (local.i == 1) { continue }\nif (local.i == 2) { break }\n}\nend\n")
    add("continue-after-break", "main:\nwhile (local.a) {\nif (local.a) { break }\nif (local.b) { continue }\nif (local.c) { break }\n}\nend\n")
    add("switch-in-loop", "main:\nwhile (local.a) {\nswitch (local.b) {\ncase 1:\nbreak\ncase 2:\nlocal.c = 1\nbreak\n}\nif (local.d) { continue }\n}\nend\n")
    add("continue-in-switch", "main:\nwhile (local.a) {\nswitch (local.b) {\ncase 1:\ncontinue\n}\n}\nend\n")
    add("loop-in-switch", "main:\nswitch (local.b) {\ncase 1:\nwhile (local.a) {\nif (local.c) { break }\ncontinue\n}\nbreak\n}\nend\n")
    for dpt in (3, 4, 5, 6, 7):
        add("switch-depth-%d" % dpt, "main:\nswitch (local.b) {\ncase 1:\n" + "if (local.a) {\n" * dpt + "local.c = 1\n" + "}\n" * dpt + "}\nend\n")
    add("switch-in-switch", "main:\nswitch (local.a) {\ncase 1:\nswitch (local.b) {\ncase 1:\nbreak\n}\nbreak\n}\nend\n")
    add("switch-in-switch-in-switch", "main:\nswitch (local.a) {\ncase 1:\nswitch (local.b) {\ncase 1:\nswitch (local.c) {\ncase 2:\nbreak\n}\nbreak\n}\nbreak\n}\nend\n")
    add("label-in-catch-1", "main:\ntry {\nlocal.a = 1\n} catch {\nonelabel:\nlocal.a = 2\n}\nend\n")
    add("try-in-loop-break", "main:\nwhile (local.a) {\ntry {\nbreak\n} catch {\nlocal.a = 2\n}\n}\nend\n")
    add("break-in-catch-in-loop", "main:\nwhile (local.a) {\ntry {\nlocal.a = 1\n} catch {\nbreak\n}\n}\nend\n")
    add("try-in-try", nest("try", 6))
    for kind in ("if", "while", "block"):
        for dpt in ((12, 40) if not thorough else (12, 25, 40)):
            add("nest-%s-%d" % (kind, dpt), nest(kind, dpt))
    add("nest-try-12", nest("try", 12))
    add("nest-paren-40", "main:\nlocal.a = " + "( " * 40 + "1" + " )" * 40 + "\nend\n")
    add("nest-index-40", "main:\nlocal.a = local.b" + "[ local.c" * 40 + " ]" * 40 + "\nend\n")
    add("nest-unary-40", "main:\nlocal.a = " + "!" * 40 + "local.b\nend\n")
    add("long-expr", "main:\nlocal.a = " + " + ".join("local.v%d" % i for i in range(400)) + "\nend\n")
    big = 20000
    add("long-string", 'main:\nlocal.a = "' + "s" * big + '"\nend\n')
    add("long-ident", "main:\nlocal." + "i" * big + " = 1\nend\n")
    add("long-comment", "main:\n//" + "c" * big + "\n/*" + "d" * big + "*/\nend\n")
    add("many-newlines", "main:\n" + "\n" * big + "end\n")
    add("many-blanks", "main:\n" + " " * 70000 + "\nend\n")
    add("long-command-args", "main:\nprintln " + " ".join(str(i) for i in range(300)) + "\nend\n")
    add("stmts-1500", "main:\n" + "".join("local.v%d = %d\n" % (i, i) for i in range(1500)) + "end\n")
    add("labels-300", "main:\n" + "".join("l%d:\nlocal.a = %d\n" % (i, i) for i in range(300)) + "end\n")
    add("strings-600", "main:\n" + "".join('println "str%d"\n' % i for i in range(600)) + "end\n")
    add("cases-300", "main:\nswitch (local.a) {\n" + "".join("case %d:\nlocal.a = %d\nbreak\n" % (i, i) if i < 90 else "case %d:\nlocal.a = 1\n" % i for i in range(300)) + "}\nend\n")
    add("ints", "main:\n" + "".join("local.a = %d\nlocal.b = -%d\n" % (v, v) for v in (0, 1, 255, 256, 65535, 65536, 16777215, 16777216, 4294967295, 4294967296, 9223372036854775807, 99999999999999999999999)) + "end\n")
    add("ring-straddle", "main:\n" + "".join("local.a = %s\n" % " + ".join(["4294967297"] * k + ["1.5"] * (k % 3)) for k in range(1, 12)) + "end\n")
    add("neg-fold", "main:\nlocal.a = -5\nlocal.b = -(3)\nlocal.c = - 1.5\nlocal.d = (1 - -2)\nlocal.e = -local.a\nend\n")
    add("stray-case+label", "a:\ncase 1:\n")
    add("stray-case-2", "case 1:\ncase 2:\n")
    add("stray-case-20", "".join("case %d:\n" % i for i in range(20)))
    add("stray-case-in-loop", "main:\nwhile (local.a) {\ncase 1:\ncase 2:\nbreak\n}\nend\n")
    add("stray-case-1", "case 1:\n")
    add("labels-in-catch-2", "main:\ntry {\n} catch {\na:\nb:\n}\nend\n")
    add("labels-in-catch-4", "main:\ntry {\n} catch {\na:\nb:\nc:\nd:\n}\nend\n")
    add("labels-in-catch-40", "main:\ntry {\n} catch {\n" + "".join("l%d:\n" % i for i in range(40)) + "}\nend\n")
    add("labels-in-two-catches", "main:\ntry {\n} catch {\na:\nb:\n}\ntry {\n} catch {\nc:\nd:\ne:\n}\nend\n")
    add("try-in-switch", "main:\nswitch(1) {\ncase 1:\ntry { } catch {\n}\n}\nend")
    for dpt in (2, 3, 6, 12, 25, 40):
        add("catch-in-catch-%d" % dpt, nest("catch", dpt))
        add("switch-in-switch-%d" % dpt, nest("switch", dpt))
    return out


NOISE_FIXED = [
    ("empty", b""), ("nul", b"\0"), ("nuls", b"\0\0\0\0"), ("nl", b"\n"), ("crlf", b"\r\n\r\n"), ("space", b" \t "),
    ("lone-close-comment", b"*/"), ("close-comment-in-code", b"main:\n*/\nend\n"), ("unterminated-comment", b"main:\n/* abc\n"),
    ("comment-only", b"/* */"), ("line-comment-eof", b"// x"), ("unterminated-string", b'main:\nprintln "abc\nend\n'),
    ("unterminated-string-eof", b'main:\nprintln "abc'), ("escape-nul-field", b'main:\nlocal."\\0" = 1\nend\n'),
    ("field-escape-eof", b'main:\nlocal."\\'), ("field-escape-eof2", b'local."a\\"'), ("string-escape-eof", b'println "a\\'),
    ("backslash-eof", b"\\"), ("backslash-nl", b"println 1 \\\n 2\n"), ("stray-case-top", b"case 1:\n"),
    ("stray-case-string", b'case "a":\n'), ("case-expr", b"switch (1) { case (1+2): break }\n"), ("case-field", b"case local.a:\n"),
    ("stray-break", b"break\n"), ("stray-continue", b"continue\n"), ("stray-catch", b"catch\n"), ("stray-try", b"try\n"), ("stray-else", b"else\n"),
    ("stray-end", b"end end end\n"), ("stray-brace", b"}\n"), ("open-brace", b"{\n"), ("open-paren", b"local.a = (((\n"),
    ("close-paren", b"local.a = 1)))\n"), ("open-bracket", b"local.a[1 = 2\n"), ("commas", b",,,,\n"), ("high-bytes", bytes(range(128, 256))),
    ("all-bytes", bytes(range(1, 256))), ("all-bytes-nul", bytes(range(0, 256))), ("dollar", b"$"), ("dollar-paren", b"$("), ("dot", b"."),
    ("dots", b"local....a\n"), ("size", b"local.a.size.size\n"), ("colon", b":"), ("dcolon", b"::"), ("a-dcolon", b"a::\n"),
    ("makearray-open", b"local.a = makeArray\n1 2\n"), ("endarray", b"endArray\n"), ("minus", b"-"), ("minus-label", b"-x:\n"), ("plus-label", b"+x:\n"),
    ("number-ident", b"3value 1\n"), ("float-junk", b"local.a = 1.2.3.4e+e-5\n"), ("quote", b'"'), ("quotes", b'""""\n'), ("vector-short", b"local.a = (1 2)\n"),
    ("vector-long", b"local.a = (1 2 3 4)\n"), ("for-empty", b"for (;;) {}\n"), ("do-no-while", b"do { }\n"), ("switch-no-body", b"switch (1)\n"),
    ("try-no-catch", b"try { }\n"), ("if-no-body", b"if (1)"), ("else-chain", b"if (1) { } else if (2) { } else { }\n"), ("semicolons", b";;;;\n"),
    ("keyword-as-field", b"local.if = local.while\n"), ("listener-only", b"local\n"), ("nul-in-middle", b"main:\nprintln \"a\0b\"\nend\n"),
    ("nul-after-token", b"main\0:\n"), ("long-line", b"println " + b"x 1 " * 17000 + b"\n"), ("many-newlines", b"\n" * 5000), ("deep-braces-unbalanced", b"{" * 200),
    ("deep-close", b"}" * 200), ("tabs", b"main:\n\tprintln\t1\n\tend\n"), ("utf8", "main:\nprintln \"h\u00e9llo \u4e16\u754c\"\nend\n".encode("utf8")),
    ("bom", b"\xef\xbb\xbfmain:\nend\n"), ("cr-only", b"main:\rprintln 1\rend\r"), ("16k-boundary", b"//" + b"c" * 16370 + b"\nmain:\nend\n"),
    ("8k-string", b'println "' + b"q" * 8190 + b'"\n'), ("ident-16370", b"a" * 16370),
]
NOISE_F6 = [("token-16390-string", b'println "' + b"q" * 16390 + b'"\n'), ("token-16390-ident", b"a" * 16390 + b"\n"),
            ("token-16390-comment", b"//" + b"c" * 16390 + b"\nmain:\nend\n"), ("token-16390-newlines", b"\n" * 16390)]


# flex's input buffer is 16384 bytes and cannot grow (the scanner uses REJECT): measured on the tree of fix ddfcf5e, a token whose
# text is <= 16380 bytes is scanned, one of >= 16383 bytes (identifier: 16382) is a ParseError "input buffer overflow"
TOKEN_OK, TOKEN_BAD = 16380, 16383
EXPECT = {}          # text name -> required outcome class


def long_tokens():
    out = []
    for n in (TOKEN_OK - 1, TOKEN_OK, TOKEN_BAD, TOKEN_BAD + 1, 16384, 16385, 32768, 40000):
        exp = "ok" if n <= TOKEN_OK else "parse"
        for kind, b in (("string", b'main:\nprintln "' + b"q" * (n - 2) + b'"\nend\n'),
                        ("comment", b"main:\n//" + b"c" * (n - 2) + b"\nend\n"),
                        ("newlines", b"main:\n" + b"\n" * n + b"end\n"),
                        ("field", b"main:\nlocal." + b"i" * n + b" = 1\nend\n")):
            name = "token-%s-%d" % (kind, n)
            if not (kind == "newlines" and n <= TOKEN_OK):      # the run of newlines also holds the one after main:
                EXPECT[name] = exp
            out.append((name, b))
    return out


RING_SHAPES = [
    'if (!local.x) { println "n" }\n',
    'while (!local.x) { local.x = 1 }\n',
    'do { local.x = 1 } while (!local.x)\n',
    'local.y = !!local.x\n',
    'if (local.x && !local.x) {}\n',
    'local.z = -5\n',
    'local.z = -local.x\n',
    'if (local.x == 0) {}\n',
    'local.q = 1\nprintln local.q\n',
    'for (local.i = 0; !local.x; local.i++) { local.x = 1 }\n',
    'if (local.x || !local.y) { local.z = -1.5 } else { local.z = !0 }\n',
]


def ring_programs():
    """the peephole window of ScriptEmitter is a 100-slot ring (prev_opcodes, prev_opcode_pos): every peephole-sensitive
    shape at every ring offset.  A filler `local.aI = I` records 2 opcodes, `local.aI = -local.b` records 3; N = 0..210
    fillers with 0 or 1 odd filler in front sweep every offset mod 100 twice; the shapes follow (rotated by N), plainly,
    inside a switch body and inside a catch block (the sub-emitters start a fresh ring at the block)."""
    out = []
    for n in range(0, 211):
        for odd in (0, 1):
            fill = ("local.o = -local.b\n" if odd else "") + "".join("local.a%d = %d\n" % (i, i) for i in range(n))
            k = n % len(RING_SHAPES)
            shapes = "".join(RING_SHAPES[k:] + RING_SHAPES[:k])
            body = fill + shapes
            for ctx, src in (("plain", "main:\nlocal.x = 0\n" + body + "end\n"),
                             ("switch", "main:\nlocal.x = 0\nswitch (local.x) {\ncase 0:\n" + body + "break\n}\nend\n"),
                             ("catch", "main:\nlocal.x = 0\ntry {\nlocal.x = 0\n} catch {\n" + body + "}\nend\n")):
                name = "ring-%s-%d-%d" % (ctx, n, odd)
                EXPECT[name] = "ok"
                out.append((name, src.encode()))
    return out


NUL_SEEDS = [
    b'main:\nprintln "abc"\nend\n',
    b'main:\nlocal.value = "a\\nb" + "q\\"q"\nend\n',
    b'main:\n// comment x\n/* block\ncomment */\nlocal.a3 = 12 + 3.5e+2\nend\n',
    b'main:\nlocal."fld" = $targ.size\nprintln local.arr[1] \\\n 2\nend\n',
    b'lbl local.p:\nif (local.p == -1) { thread lbl 7 }\nswitch (local.p) { case 1: break\nword: break }\nend\n',
    b'x',
    b'"s"',
    b'\n',
    b'',
]


def nul_programs(rng):
    """a 0 byte (and runs of 0 bytes) inserted at / replacing EVERY position of each seed; the other control and high bytes at
    sampled positions (the lexer is 8-bit flex over a NUL-terminated buffer: strlen-style code breaks on embedded NULs)"""
    out = []
    for si, seed in enumerate(NUL_SEEDS):
        for pos in range(len(seed) + 1):
            out.append(("nul-ins-%d-%d" % (si, pos), seed[:pos] + b"\0" + seed[pos:]))
            if pos < len(seed):
                out.append(("nul-rep-%d-%d" % (si, pos), seed[:pos] + b"\0" + seed[pos + 1:]))
            if pos % 3 == 0:
                out.append(("nul-run2-%d-%d" % (si, pos), seed[:pos] + b"\0\0" + seed[pos:]))
            if pos % 7 == 0:
                out.append(("nul-run9-%d-%d" % (si, pos), seed[:pos] + b"\0" * 9 + seed[pos:]))
        others = list(range(1, 0x20)) + list(range(0x7f, 0x100))
        for k in range(60 if seed else 0):
            pos = rng.randrange(len(seed) + 1)
            c = bytes([rng.choice(others)])
            if rng.random() < 0.5:
                out.append(("ctl-ins-%d-%d" % (si, k), seed[:pos] + c + seed[pos:]))
            else:
                out.append(("ctl-rep-%d-%d" % (si, k), seed[:pos] + c + seed[pos + 1:]))
    out.append(("nul-only-16", b"\0" * 16))
    out.append(("nul-string-57b6014", b'main:\nprintln "\0"\nend\n'))
    out.append(("nul-string-mid", b'main:\nprintln "ab\0cd"\nend\n'))
    out.append(("nul-string-last", b'main:\nprintln "ab\0"\nend\n'))
    out.append(("nul-field-string", b'main:\nlocal."\0" = 1\nlocal."a\0b" = 2\nend\n'))
    out.append(("nul-after-backslash", b'main:\nprintln "a\\\0b"\nend\n'))
    out.append(("nul-ident-tail", b'main:\nlocal.ab\0 = 1\nprintl\0n 1\nend\n'))
    return out


# one source form per parse-node kind of src/Parser/yyParser.yy (node arity in the comment: the emitter must never read a
# slot the node does not have)
EXPR_KINDS = [
    ("null", "NULL"), ("nil", "NIL"),                                                       # node1
    ("int0", "0"), ("int", "5"), ("bigint", "4294967297"), ("float", "1.5"), ("string", '"abc"'), ("emptystring", '""'),   # node2
    ("local", "local"), ("level", "level"), ("game", "game"), ("group", "group"), ("parm", "parm"), ("self", "self"), ("owner", "owner"),
    ("not", "!local.a"), ("notnull", "!NULL"),
    ("neg", " -local.a"), ("negint", " -5"), ("compl", "~local.a"), ("target", "$x"), ("targetexpr", '$("x")'), ("targetparen", "$( local.a )"),   # node3
    ("size", "local.a.size"), ("field", "local.a"), ("field2", "local.a.b"), ("targetfield", "$x.y"), ("stringfield", '"abc".f'),
    ("intfield", "5.f"), ("nullfield", "NULL.f"), ("index", "local.a[1]"), ("index2", "local.a[1][2]"), ("nullindex", "NIL[1]"),
    ("vecindex", "( 1 2 3 )[0]"), ("constarray", "1::2"), ("constarray3", "local.a::NULL::\"s\""), ("and", "( local.a && NIL )"),
    ("or", "( NULL || 1 )"), ("cmdexpr", "( int 3 )"), ("cmdexpr0", "( isdefined NULL )"),
    ("binop", "( 1 + 2 )"), ("cmp", "( local.a == NULL )"), ("method", "( self waitthread f )"), ("nullmethod", "( NULL waitthread f )"),   # node4
    ("vector", "( 1 2 3 )"), ("nilvector", "( NIL NULL local )"), ("paren", "( NULL )"), ("parenfield", "( local.a )"),
    ("makearray", "( makeArray\n1 NULL\nendArray )"), ("ident", "word"),
]
ASSIGN_FORMS = ["= 1", '= "text"', "+= local.i", "-= 1", "*= 2", "/= 2", "%= 2", "&= 1", "^= 1", "|= 1", "<<= 1", ">>= 1", "++", "--", "= NULL", "= NIL"]


def rejected_statement_programs():
    """every expression kind as the LEFT-HAND SIDE of every assignment form, at top level and nested in every statement
    position, and every expression kind in every other position that demands a particular node shape"""
    out = []

    def add(name, src):
        out.append((name, src.encode("latin1")))
    ctxs = [
        ("top", "main:\n%s\nend\n"),
        ("if", "main:\nif (local.c) {\n%s\n}\nend\n"),
        ("else", "main:\nif (local.c) {\n} else {\n%s\n}\nend\n"),
        ("ifbare", "main:\nif (local.c) %s\nend\n"),
        ("while", "main:\nwhile (local.c) {\n%s\nbreak\n}\nend\n"),
        ("do", "main:\ndo {\n%s\n} while (local.c)\nend\n"),
        ("forbody", "main:\nfor (local.i = 0; local.i < 2; local.i++) {\n%s\n}\nend\n"),
        ("forinit", "main:\nfor (%s; local.i < 2; local.i++) {\n}\nend\n"),
        ("forinc", "main:\nfor (local.i = 0; local.i < 2; %s) {\n}\nend\n"),
        ("case", "main:\nswitch (local.c) {\ncase 1:\n%s\nbreak\n}\nend\n"),
        ("try", "main:\ntry {\n%s\n} catch {\n}\nend\n"),
        ("catch", "main:\ntry {\n} catch {\n%s\n}\nend\n"),
        ("label", "main:\nthread f\nend\nf local.p:\n%s\nend\n"),
        ("deep", "main:\nwhile (local.c) {\nswitch (local.c) {\ncase 1:\ntry {\n} catch {\nif (local.c) {\n%s\n}\n}\nbreak\n}\n}\nend\n"),
    ]
    for kn, e in EXPR_KINDS:
        for fi, form in enumerate(ASSIGN_FORMS):
            glue = "" if form in ("++", "--") else " "
            stmt = e + glue + form
            add("lhs-%s-%d-top" % (kn, fi), ctxs[0][1] % stmt)
        for cn, tpl in ctxs[1:]:
            for fi in (0, 2, 12):
                form = ASSIGN_FORMS[fi]
                stmt = e + ("" if form in ("++", "--") else " ") + form
                add("lhs-%s-%d-%s" % (kn, fi, cn), tpl % stmt)
        # the other positions
        other = [
            ("labelname", "main:\nend\n%s:\nend\n" % e),
            ("pluslabel", "main:\nend\n+%s:\nend\n" % e.strip()),
            ("minuslabel", "main:\nend\n-%s:\nend\n" % e.strip()),
            ("labelparm", "main:\nend\nf %s:\nend\n" % e),
            ("labelparm2", "main:\nend\nf local.p %s:\nend\n" % e),
            ("case", "main:\nswitch (local.c) {\ncase %s:\nbreak\n}\nend\n" % e),
            ("caseparm", "main:\nswitch (local.c) {\ncase 1 %s:\nbreak\n}\nend\n" % e),
            ("straycase", "main:\ncase %s:\nend\n" % e),
            ("endarg", "main:\nend %s\n" % e),
            ("cmdname", "main:\n%s 1 2\nend\n" % e),
            ("cmdarg", "main:\nprintln %s\nthread %s\nend\n" % (e, e)),
            ("cmdargs7", "main:\nprintln " + " ".join([e] * 7) + "\nend\n"),
            ("listener", "main:\n%s println 1\n%s thread f\nend\n" % (e, e)),
            ("rhs", "main:\nlocal.r = %s\nlocal.r += %s\nend\n" % (e, e)),
            ("switchon", "main:\nswitch %s {\ncase 1:\nbreak\n}\nswitch ( %s ) {\ncase 1:\nbreak\n}\nend\n" % (e, e)),
            ("cond", "main:\nif %s {\n}\nwhile %s {\nbreak\n}\ndo {\n} while %s\nend\n" % (e, e, e)),
            ("ifelse", "main:\nif ( %s ) local.a = 1 else local.a = 2\nend\n" % e),
            ("forcond", "main:\nfor ( ; %s ; local.i++ ) {\nbreak\n}\nend\n" % e),
            ("indexby", "main:\nlocal.r = local.a[ %s ]\nlocal.a[ %s ] = 1\nend\n" % (e, e)),
            ("fieldof", "main:\nlocal.r = %s.f\n%s.f = 1\n%s.f++\nend\n" % (e, e, e)),
            ("sizeof", "main:\nlocal.r = %s.size\nend\n" % e),
            ("indexof", "main:\nlocal.r = %s[1]\n%s[1] = 2\n%s[1][2] += 3\nend\n" % (e, e, e)),
            ("unary", "main:\nlocal.r = -%s\nlocal.r = !%s\nlocal.r = ~%s\nend\n" % (e.strip(), e.strip(), e.strip())),
            ("binary", "main:\nlocal.r = %s + %s\nlocal.r = %s && %s\nlocal.r = %s == %s\nend\n" % (e, e, e, e, e, e)),
            ("vectorof", "main:\nlocal.r = ( %s %s %s )\nend\n" % (e, e, e)),
            ("targetof", "main:\nlocal.r = $( %s )\nend\n" % e),
            ("constarrayof", "main:\nlocal.r = %s::%s\nend\n" % (e, e)),
            ("makearrayof", "main:\nlocal.r = makeArray\n%s %s\n%s\nendArray\nend\n" % (e, e, e)),
            ("callarg", "main:\nlocal.r = int %s\nlocal.r = self waitthread f %s\nlocal.r = waitthread %s\nend\n" % (e, e, e)),
        ]
        for on, src in other:
            add("pos-%s-%s" % (on, kn), src)
    for name, src in [
        ("for-empty", "main:\nfor ( ; ; ) {\n}\nend\n"), ("for-noinit-nocond", "main:\nfor ( ; ; local.i++ ) {\nbreak\n}\nend\n"),
        ("for-init-only", "main:\nfor ( local.i = 0 ; ; ) {\n}\nend\n"), ("for-cond-only", "main:\nfor ( ; local.i ; ) {\n}\nend\n"),
        ("for-no-body", "main:\nfor ( local.i = 0 ; local.i < 2 ; local.i++ )\nend\n"), ("for-semicolon-body", "main:\nfor ( ; local.i ; local.i++ ) ;\nend\n"),
        ("for-two-incs", "main:\nfor ( local.i = 0 ; local.i < 2 ; local.i++ local.j++ ) {\n}\nend\n"),
        ("for-stmt-init", "main:\nfor ( println 1 ; local.i ; println 2 ) {\nbreak\n}\nend\n"),
        ("for-break-init", "main:\nfor ( break ; local.i ; continue ) {\n}\nend\n"),
        ("for-label-init", "main:\nfor ( x: ; local.i ; local.i++ ) {\n}\nend\n"),
        ("for-block-init", "main:\nfor ( { local.i = 0 } ; local.i ; { local.i++ } ) {\n}\nend\n"),
        ("empty-statements", "main:\n;\n{\n}\n{ ; }\nif (1) ;\nwhile (0) ;\nend\n"),
        ("switch-empty", "main:\nswitch (1) {\n}\nend\n"), ("switch-only-break", "main:\nswitch (1) {\nbreak\n}\nend\n"),
        ("try-empty-both", "main:\ntry {\n} catch {\n}\nend\n"), ("do-empty", "main:\ndo {\n} while (0)\nend\n"),
        ("assign-chain", "main:\nlocal.a = local.b = 1\nend\n"), ("incr-rhs", "main:\nlocal.a = local.b++\nend\n"),
        ("end-only", "end\n"), ("label-only", "main:\n"), ("two-labels-one-line", "a: b:\n"),
    ]:
        add("shape-" + name, src)
    return out


def late_reject_programs():
    """texts the MEASURING pass accepts and the EMITTING pass rejects: CompileException::DuplicateLabel is the only error
    that depends on the manager (ScriptCountManager::AddLabel/AddCaseLabel always succeed): the script object then holds
    an allocated arena, program buffer and (developer mode) source map when Load's catch ladder closes it"""
    out = []

    def add(name, src, expect="compile:DuplicateLabel"):
        if expect:
            EXPECT[name] = expect
        out.append((name, src.encode()))
    body = 'local.a = 1\nprintln "x"\n'
    for n in range(0, 21):
        mid = "".join("l%d:\n%s" % (i, body) for i in range(n))
        add("dup-label-top-%d" % n, "main:\n" + body + "dup:\n" + body + mid + "dup:\n" + body + "end\n")
        add("dup-label-catch-%d" % n, "main:\ntry {\n" + body + "} catch {\ndup:\n" + body + mid + "dup:\n" + body + "}\nend\n")
        add("dup-case-int-%d" % n, "main:\nswitch (local.a) {\ncase 7:\n" + body + "".join("case %d:\n%sbreak\n" % (100 + i, body) for i in range(n)) + "case 7:\nbreak\n}\nend\n")
    add("dup-main", "main:\nend\nmain:\nend\n")
    add("dup-label-first-last", "a:\na:\n")
    add("dup-private-label", "main:\n-p:\n" + body + "-p:\nend\n")
    add("dup-plus-label", "main:\n+p:\n" + body + "p:\nend\n")
    add("dup-private-public", "main:\n-p:\n" + body + "p:\nend\n", None)
    add("dup-label-with-params", "main:\nf local.a local.b:\nend\nf local.c:\nend\n")
    add("dup-case-string", 'main:\nswitch (local.a) {\ncase "s":\n' + body + 'break\ncase "s":\nbreak\n}\nend\n')
    add("dup-case-word", "main:\nswitch (local.a) {\nw:\n" + body + "break\nw:\nbreak\n}\nend\n")
    add("dup-case-word-string", 'main:\nswitch (local.a) {\nw:\n' + body + 'break\ncase "w":\nbreak\n}\nend\n')
    add("dup-case-negative", "main:\nswitch (local.a) {\ncase -1:\n" + body + "break\ncase -1:\nbreak\n}\nend\n")
    add("dup-case-int-string", 'main:\nswitch (local.a) {\ncase 5:\n' + body + 'break\ncase "5":\nbreak\n}\nend\n')
    add("dup-case-big", "main:\nswitch (local.a) {\ncase 4294967297:\nbreak\ncase 4294967297:\nbreak\n}\nend\n")
    add("dup-case-inner", "main:\nswitch (local.a) {\ncase 1:\nswitch (local.b) {\ncase 2:\nbreak\ncase 2:\nbreak\n}\nbreak\n}\nend\n")
    add("dup-case-outer-after-inner", "main:\nswitch (local.a) {\ncase 1:\nswitch (local.b) {\ncase 1:\nbreak\n}\nbreak\ncase 1:\nbreak\n}\nend\n")
    add("same-case-inner-outer", "main:\nswitch (local.a) {\ncase 1:\nswitch (local.b) {\ncase 1:\nbreak\n}\nbreak\n}\nend\n", "ok")
    add("same-label-top-and-catch", "main:\nx:\ntry {\n} catch {\nx:\n}\nend\n", None)
    add("dup-case-in-catch", "main:\ntry {\n} catch {\nswitch (local.a) {\ncase 1:\nbreak\ncase 1:\nbreak\n}\n}\nend\n")
    add("dup-label-in-switch-in-loop", "main:\nwhile (local.a) {\nswitch (local.a) {\ncase 1:\ncontinue\ncase 1:\nbreak\n}\n}\nend\n")
    add("dup-stray-case", "main:\ncase 1:\ncase 1:\nend\n")
    add("dup-after-long", "main:\n" + "".join("local.v%d = %d\n" % (i, i) for i in range(400)) + "main:\nend\n")
    add("dup-label-after-deep", nest("catch", 12, "d:\nd:\n"))
    return out


def mutate(tokens, rng, pool):
    """one token-level mutation"""
    t = list(tokens)
    if not t:
        return t, "empty"
    k = rng.random()
    i = rng.randrange(len(t))
    if k < 0.2:
        del t[i]
        return t, "delete"
    if k < 0.35:
        t.insert(i, t[i])
        return t, "duplicate"
    if k < 0.5:
        j = rng.randrange(len(t))
        t[i], t[j] = t[j], t[i]
        return t, "swap"
    if k < 0.7:
        t[i] = rng.choice(pool)
        return t, "replace"
    if k < 0.8:
        t.insert(i, rng.choice(["case", "break", "continue", "catch", "end", "else", "try", "switch", "default", "while", "do", "for", "if"]))
        return t, "stray-keyword"
    if k < 0.9:
        idx = [j for j, x in enumerate(t) if x in ("{", "}", "(", ")", "[", "]")]
        if idx:
            j = rng.choice(idx)
            if rng.random() < 0.5:
                del t[j]
            else:
                t.insert(j, t[j])
            return t, "unbalance"
        t.insert(i, rng.choice(["{", "}", "(", ")"]))
        return t, "unbalance"
    if k < 0.95:
        t.insert(i, rng.choice(['"', "/*", "*/", "//", "\\", ":", "::", ";", ".", "$", ","]))
        return t, "stray-punct"
    # cut a token in the middle
    s = t[i]
    if len(s) > 1:
        c = rng.randrange(1, len(s))
        t[i:i + 1] = [s[:c], s[c:]]
    return t, "split"


MUT_POOL = ["case", "break", "continue", "catch", "try", "end", "else", "if", "while", "for", "do", "switch", "{", "}", "(", ")", "[", "]",
            ":", "::", ";", "=", "==", "+", "-", "*", "/", "%", "++", "--", "!", "~", "$", ".", "local", "self", "local.a", "1", "0", '"s"',
            "NULL", "NIL", "makeArray", "endArray", "println", "size", "\n", "&&", "||", "<<=", "0.5", "game", "level"]


def noise(rng, n):
    out = []
    alph = b"{}()[];:.\"'\\/*$=+-<>!~&|^%,\n\r\t 01aZ_\0\x80\xff"
    words = [w.encode() for w in MUT_POOL] + [b"/*", b"*/", b"//", b'"', b"\\\n", b"\0"]
    for i in range(n):
        k = rng.random()
        ln = rng.choice([1, 2, 3, 5, 8, 16, 40, 100, 400])
        if k < 0.3:
            b = bytes(rng.randrange(256) for _ in range(ln))
        elif k < 0.65:
            b = bytes(rng.choice(alph) for _ in range(ln))
        else:
            b = b"".join(rng.choice(words) + rng.choice([b" ", b"\n", b""]) for _ in range(ln))
        out.append(("noise-%d" % i, b))
    return out


# ---- skeletons
def skel_random(rng, d, inloop):
    t = []
    for _ in range(rng.choice([0, 1, 1, 2, 3])):
        k = rng.random()
        if k < 0.2:
            t.append("b")
        elif k < 0.35:
            t.append("c")
        elif k < 0.45:
            t.append("f")
        elif d <= 0:
            t.append("f")
        elif k < 0.6:
            t += ["W("] + skel_random(rng, d - 1, True) + [")"]
        elif k < 0.7:
            t += ["D("] + skel_random(rng, d - 1, True) + [")"]
        elif k < 0.8:
            t += ["S("] + skel_random(rng, d - 1, inloop) + [")"]
        elif k < 0.9:
            t += ["I("] + skel_random(rng, d - 1, inloop) + [")"]
        else:
            t += ["T("] + skel_random(rng, d - 1, inloop) + ["|"] + skel_random(rng, 0, inloop) + [")"]
    return t


def skel_parse(tokens):
    """tokens -> nested lists: ['W', [children]] / ['T', [try], [catch]] / 'b'"""
    pos = [0]

    def lst():
        out = []
        while pos[0] < len(tokens) and tokens[pos[0]] not in (")", "|"):
            t = tokens[pos[0]]
            pos[0] += 1
            if t.endswith("("):
                a = lst()
                if t == "T(":
                    if pos[0] < len(tokens) and tokens[pos[0]] == "|":
                        pos[0] += 1
                    b = lst()
                    out.append(["T", a, b])
                else:
                    out.append([t[0], a])
                if pos[0] < len(tokens) and tokens[pos[0]] == ")":
                    pos[0] += 1
            else:
                out.append(t)
        return out
    return lst()


def skel_tokens(tree):
    out = []
    for x in tree:
        if isinstance(x, str):
            out.append(x)
        elif x[0] == "T":
            out += ["T("] + skel_tokens(x[1]) + ["|"] + skel_tokens(x[2]) + [")"]
        else:
            out += [x[0] + "("] + skel_tokens(x[1]) + [")"]
    return out


def skel_shrink(tokens, fails, max_runs=150):
    """structure-aware shrinking of a skeleton: drop a statement or replace a construct by its body"""
    import copy
    tree = skel_parse(tokens)
    runs = [0]

    def variants(t):
        # every tree obtained by one deletion / one hoist, smaller first
        for i in range(len(t)):
            yield t[:i] + t[i + 1:]
        for i, x in enumerate(t):
            if isinstance(x, list):
                for body in x[1:]:
                    yield t[:i] + body + t[i + 1:]
                for k in range(1, len(x)):
                    for v in variants(x[k]):
                        y = copy.deepcopy(x)
                        y[k] = v
                        yield t[:i] + [y] + t[i + 1:]
    changed = True
    while changed and runs[0] < max_runs:
        changed = False
        for v in variants(tree):
            runs[0] += 1
            if runs[0] > max_runs:
                break
            if fails(skel_tokens(v)):
                tree, changed = v, True
                break
    return skel_tokens(tree)


def skel_enumerate(maxlen):
    """every well-formed skeleton with at most maxlen leaf/construct symbols over {b,c,W,D,S,T}"""
    from functools import lru_cache

    @lru_cache(None)
    def lists(n):
        # all statement lists using exactly n symbols
        if n == 0:
            return [()]
        out = []
        for first in range(1, n + 1):
            for s in stmts(first):
                for r in lists(n - first):
                    out.append(s + r)
        return out

    @lru_cache(None)
    def stmts(n):
        out = []
        if n == 1:
            out += [("b",), ("c",)]
        if n >= 1:
            for l in lists(n - 1):
                out.append(("W(",) + l + (")",))
                out.append(("D(",) + l + (")",))
                out.append(("S(",) + l + (")",))
            for a in range(0, n):
                for la in lists(a):
                    for lb in lists(n - 1 - a):
                        out.append(("T(",) + la + ("|",) + lb + (")",))
        return out
    res = []
    for n in range(0, maxlen + 1):
        res += [list(x) for x in lists(n)]
    return res


def gen_cases(tier, seed, flags):
    rng = random.Random(seed)
    quick = tier == "quick"
    cases = []
    nid = [0]

    def cid(p):
        nid[0] += 1
        return "%s%d" % (p, nid[0])

    # ---- (A) table histories: exhaustive over a small alphabet, then random walks
    names = ["0", "1"]
    srcs = [("A", 1), ("A", 2), ("J", "parse"), ("J", "compile:UnknownCommand")]
    alpha = []
    for n in names:
        for s in (srcs if n == "0" else srcs[:1] + srcs[2:3]):
            alpha.append(("C", n, 0, s))
        alpha.append(("C", n, 1, srcs[1]))
        alpha.append(("C", n, 1, srcs[2]))
        alpha.append(("R", n))
        alpha.append(("S", n, srcs[0]))
        alpha.append(("S", n, srcs[3]))
        alpha.append(("F", n, 0))
        alpha.append(("F", n, 1))
        alpha.append(("E", n))
    L = 3 if quick else 4
    batch, origin = [], "table-exhaustive-len%d" % L
    for ops in itertools.product(alpha, repeat=L):
        batch.append(list(ops))
    # pack several histories? no: one engine per history (the table is the state)
    for ops in batch:
        cases.append(XCase(cid("h"), ops, origin))
    nwalk = 300 if quick else 6000
    names4 = ["0", "1", "2", "3"]
    for _ in range(nwalk):
        ops = []
        tagc = 10
        for _ in range(rng.choice([5, 8, 12, 20])):
            n = rng.choice(names4)
            k = rng.random()
            tagc += 1
            s = rng.choice([("A", tagc), ("A", tagc), ("J", "parse"), ("J", "compile:UnknownCommand"), ("J", "compile:IllegalBreak")])
            if k < 0.35:
                o = ("C", n, 1 if rng.random() < 0.25 else 0, s)
            elif k < 0.55:
                o = ("R", n)
            elif k < 0.7:
                o = ("S", n, s)
            elif k < 0.85:
                o = ("F", n, 1 if rng.random() < 0.3 else 0)
            else:
                o = ("E", n)
            ops.append(o)
        cases.append(XCase(cid("w"), ops, "table-random-walk"))

    # ---- (B) loop skeletons
    sk = []
    for tk in skel_enumerate(4 if quick else 5):
        sk.append((tk, "skeleton-exhaustive"))
    lims = C01_gen.limits_lenient()
    for j, L in ((("b", "c"), lims["break"]), (("c", "b"), lims["continue"])):
        x, y = j                                  # x: the jump whose table is at its limit, y: the other one
        for n in (L - 2, L - 1, L, L + 1, L + 2):
            for tail in ([], ["f"], [y], ["W(", ")"]):        # what follows the last recorded jump
                sk.append((["W("] + [x] * n + tail + [")"], "skeleton-limit"))
            sk.append((["D("] + [x] * n + [y] * n + [")"], "skeleton-limit"))
            sk.append((["D("] + [x] * n + ["f", ")", "f"], "skeleton-limit"))
            sk.append((["W(", "S("] + [x] * n + [")", "b", "c", ")"], "skeleton-limit"))                  # inside a switch in the loop
            sk.append((["W(", "S(", "f", ")"] + [x] * n + ["f", ")"], "skeleton-limit"))
            sk.append((["W("] + [x] * (n - 50) + ["W("] + [x] * 50 + [y] * 3 + [")", x, ")"], "skeleton-limit"))   # split over nested loops
            sk.append((["W("] + [x] * 60 + ["W("] + [x] * (n - 60) + ["f", ")", y, ")"], "skeleton-limit"))        # 60 outer + (n-60) inner pending at once
            sk.append((["W("] + [x] * 60 + ["D("] + [x] * (n - 60) + [")", "f", ")"], "skeleton-limit"))
            sk.append((["W("] + [x] * 30 + ["W("] + [x] * 30 + ["W("] + [x] * (n - 60) + ["f", ")", ")", ")"], "skeleton-limit"))
            sk.append((["W("] + ["I(", x, ")"] * n + ["I(", y, ")"] * (n // 2) + [")"], "skeleton-limit"))
            sk.append((["W("] + ["T(", x, "|", "f", ")"] * (n // 2) + [x] * (n - n // 2) + ["f", ")"], "skeleton-limit"))
            sk.append((["W("] + ["T(", "f", "|", x, ")"] * (n // 2) + [x] * (n - n // 2) + ["f", ")"], "skeleton-limit"))
            if x == "b":
                sk.append((["S("] + ["b"] * n + [")"], "skeleton-limit"))
                sk.append((["S("] + ["b"] * (n - 1) + ["f", ")", "f"], "skeleton-limit"))                     # the switch's own exit jump counts
    for dd in range(0, 9):
        sk.append((["S("] + ["I("] * dd + ["f"] + [")"] * dd + [")"], "skeleton-depth"))
        sk.append((["S("] + ["W("] * dd + ["b"] + [")"] * dd + [")"], "skeleton-depth"))
        sk.append((["S("] + ["I("] * dd + [")"] * dd + [")"], "skeleton-depth"))
        sk.append((["W(", "S("] + ["D("] * dd + ["c", "b"] + [")"] * dd + [")", ")"], "skeleton-depth"))
        sk.append((["T(", "f", "|"] + ["I("] * dd + ["S(", "f", ")"] + [")"] * dd + [")"], "skeleton-depth"))
        sk.append((["S(", "S("] + ["I("] * dd + ["f"] + [")"] * dd + [")", ")"], "skeleton-depth"))
    for _ in range(400 if quick else 12000):
        sk.append((skel_random(rng, rng.choice([2, 3, 4, 6]), False), "skeleton-random"))
        sk.append((["W("] + skel_random(rng, rng.choice([2, 3, 5]), True) + [")"], "skeleton-random"))
    byo = {}
    for tk, o in sk:
        byo.setdefault(o, []).append(tk)
    for o, lst in byo.items():
        for i in range(0, len(lst), 40):
            c = XCase(cid("k"), [("K", tk) for tk in lst[i:i + 40]], o)
            if o == "skeleton-limit":
                cases.insert(0, c)            # the limit boundaries are searched first
            else:
                cases.append(c)

    # ---- (C) arbitrary texts
    texts = []           # (origin, name, bytes)
    for name, b in targeted_programs(tier, flags):
        texts.append(("targeted", name, b))
    for name, b in NOISE_FIXED + NOISE_F6 + long_tokens():
        texts.append(("noise-fixed", name, b))
    for name, b in ring_programs():
        texts.append(("ring-position", name, b))
    for name, b in nul_programs(random.Random(seed * 7919 + 13)):
        texts.append(("nul-byte", name, b))
    nprog = 600 if quick else 20000
    seeds = []
    for i in range(nprog):
        md = rng.choice([2, 4, 6, 9, 12]) if quick or i % 10 else rng.choice([16, 25, 40])
        g = ProgGen(rng, md, flags)
        tk = g.program()
        seeds.append(tk)
        texts.append(("grammar-depth<=%d" % (12 if md <= 12 else 40), "g%d" % i, render(tk).encode("latin1")))
    nmut = 600 if quick else 20000
    for i in range(nmut):
        tk = rng.choice(seeds)
        kinds = []
        for _ in range(rng.choice([1, 1, 1, 2, 3])):
            tk, kd = mutate(tk, rng, MUT_POOL)
            kinds.append(kd)
        texts.append(("mutant-" + kinds[0], "m%d" % i, render(tk).encode("latin1")))
    if not quick:
        # every single-token deletion of 200 seeds
        for si, tk in enumerate(seeds[:200]):
            for j in range(len(tk)):
                texts.append(("mutant-delete-exhaustive", "d%d_%d" % (si, j), render(tk[:j] + tk[j + 1:]).encode("latin1")))
    for name, b in noise(rng, 300 if quick else 10000):
        texts.append(("noise-random", name, b))
    for name, b in late_reject_programs():
        texts.append(("rejected-by-the-emitting-pass", name, b))
    for name, b in rejected_statement_programs():
        texts.append(("rejected-statement", name, b))
    per = 12
    byo = {}
    for o, name, b in texts:
        byo.setdefault(o, []).append((name, b))
    BOTH = ("targeted", "noise-fixed", "rejected-by-the-emitting-pass", "rejected-statement", "nul-byte")      # run in both developer modes
    nth = 0
    for o, lst in byo.items():
        for i in range(0, len(lst), per):
            nth += 1
            if o in BOTH:
                cases.append(text_case(cid("t"), lst[i:i + per], o + "/dev1", dev=1))
                cases.append(text_case(cid("t"), lst[i:i + per], o + "/dev0", dev=0))
            else:
                cases.append(text_case(cid("t"), lst[i:i + per], o + "/dev%d" % (nth % 2), dev=nth % 2))
    # corpus: one text per file, raw bytes
    cdir = os.path.join(vlib.VERIF, "corpus", "C01")
    corp = []
    for p in sorted(os.listdir(cdir)) if os.path.isdir(cdir) else []:
        if p.endswith(".hist"):
            cases.insert(0, XCase(cid("c"), parse_hist(open(os.path.join(cdir, p)).read()), "corpus"))
        else:
            corp.append((p, open(os.path.join(cdir, p), "rb").read()))
    for i in range(0, len(corp), per):
        cases.insert(0, text_case(cid("c"), corp[i:i + per], "corpus", dev=1))
        cases.insert(0, text_case(cid("c"), corp[i:i + per], "corpus", dev=0))
    return cases


def parse_hist(text):
    """corpus history: one op per line in the harness's format; a source is A<tag> or J:<class>"""
    def src(w):
        return ("A", int(w[1:])) if w[0] == "A" else ("J", w[2:])
    ops = []
    for line in text.splitlines():
        w = line.split()
        if not w or w[0].startswith("#"):
            continue
        if w[0] == "S":
            ops.append(("S", w[1], src(w[2])))
        elif w[0] == "C":
            ops.append(("C", w[1], int(w[2]), src(w[3])))
        elif w[0] == "F":
            ops.append(("F", w[1], int(w[2])))
        elif w[0] in "RTE":
            ops.append((w[0], w[1]))
        elif w[0] == "Z":
            ops.append(("Z",))
        elif w[0] == "K":
            ops.append(("K", w[1:]))
        else:
            raise ValueError("corpus history: unknown op %r" % line)
    return ops


def text_case(cid, items, origin, dev=1):
    """sentinel, then per text: compile it; ask again (stream variant); sentinel runs; a fresh script compiles and runs; the state
    of the text's own script; then the DESTROYING probes: the same name recompiled (recompile = true) from a valid source and run;
    at the end of the case Reset(), sentinel compiled and run again; the harness then destroys the context before `end`"""
    ops = [("C", "9000", 0, ("A", SENTINEL_TAG)), ("R", "9000")]
    inputs = []
    for k, (name, b) in enumerate(items):
        x = str(100 + k)
        f = str(200 + k)
        ops += [("C", x, 0, ("X", b)), ("C", x, 0, ("A", 5000 + k)), ("R", "9000"), ("C", f, 0, ("A", 7000 + k)), ("R", f), ("T", x),
                ("C", x, 1, ("A", 6000 + k)), ("R", x)]
        inputs.append((name, b))
    ops += [("Z",), ("R", "9000"), ("C", "9000", 0, ("A", SENTINEL_TAG)), ("R", "9000")]
    return XCase(cid, ops, origin, inputs, dev=dev)


# ------------------------------------------------------------------------------ running
def run_impl(exe, cases, timeout=900):
    """-> ({id: [m lines]}, {id: crash info})   (no cap on the number of crashes)"""
    outputs, crashes = {}, {}
    todo = list(cases)
    while todo:
        text = "".join(c.impl_text() for c in todo)
        t0 = time.time()
        rc, o, e = vlib.sh([exe], inp=text, env=vlib.ASAN_ENV, timeout=timeout)
        outs, last = vlib.split_output(o)
        complete = {k: v for k, v in outs.items() if v and v[-1] == "end"}
        for k, v in complete.items():
            outputs[k] = v[:-1]
        if rc == 0 and len(complete) == len(todo):
            break
        idx = next((i for i, c in enumerate(todo) if c.id not in complete), None)
        if idx is None:
            break
        c = todo[idx]
        crashes[c.id] = {"rc": rc, "partial": outs.get(c.id, []), "stderr": e[-6000:], "timeout": rc in (-9, 124),
                         "wall": round(time.time() - t0, 1)}
        todo = todo[idx + 1:]
    return outputs, crashes


def run_model(drv, cases, impl_out):
    text = "".join(c.model_text(impl_out.get(c.id, [])) for c in cases)
    rc, o, e = vlib.sh([drv, "model"], inp=text, timeout=900)
    outs, _ = vlib.split_output(o)
    return {k: v[:-1] if v and v[-1] == "end" else v for k, v in outs.items()}, (rc, e[-2000:])


def known_of(stderr):
    for k, v in KNOWN_OPEN.items():
        if re.search(v["sig"], stderr):
            return k
    return None


def judge(case, ilines, mlines):
    """-> list of problems (kind, why) for a case that completed; mlines None = no model available (implementation only)"""
    probs = []
    impl_only = mlines is None
    mlines = mlines or []
    m = [l for l in mlines if l.startswith("m ")]
    s = [l for l in mlines if l.startswith("s ")]
    ic = [canon_impl_line(l) for l in ilines]
    # (a) outcome classes of arbitrary texts
    for k, o in enumerate(case.ops):
        if o[0] == "C" and o[3][0] == "X" and k < len(ilines):
            w = ilines[k].split()
            cls = w[2] if len(w) > 2 else "?"
            extra = w[3:]
            nm = case.inputs[sum(1 for q in case.ops[:k] if q[0] == "C" and q[3][0] == "X")][0] if case.inputs else None
            if nm in EXPECT and cls != EXPECT[nm]:
                probs.append(("outcome-expected", "op %d: text %s must compile to `%s`, got `%s`" % (k, nm, EXPECT[nm], cls), k))
            if not ALLOWED.match(cls):
                probs.append(("outcome-class", "op %d: compiling the text gave outcome class `%s` (allowed: ok | parse | compile:*)" % (k, " ".join(w[2:])), k))
            elif extra:
                probs.append(("outcome-" + extra[0], "op %d: outcome `%s`" % (k, " ".join(w[2:])), k))
    if impl_only:
        return probs
    # (b) model vs implementation, line by line
    n = min(len(m), len(ic))
    for k in range(n):
        if m[k] != ic[k]:
            probs.append(("correspondence", "op %d %r: model says `%s`, implementation says `%s`" % (k, case.ops[k][:2], m[k][2:], ilines[k][2:]), k))
            break
    if len(m) != len(ic) and not probs:
        probs.append(("correspondence", "model printed %d observations, implementation %d" % (len(m), len(ic)), None))
    # (c) model vs specification
    for k in range(min(len(m), len(s))):
        if case.ops[k][0] == "K":
            if m[k].startswith("m K ok") and m[k][2:] != s[k][2:]:
                probs.append(("model-vs-spec", "skeleton op %d: model `%s`, specification `%s`" % (k, m[k][2:], s[k][2:]), k))
        elif m[k][2:] != s[k][2:]:
            probs.append(("model-vs-spec", "op %d: model `%s`, specification `%s`" % (k, m[k][2:], s[k][2:]), k))
    return probs


def ddmin_bytes(b, fails, max_runs=120):
    toks = re.findall(rb"\s+|[A-Za-z0-9_.]+|.", b, re.S)
    if len(toks) > 1:
        toks = vlib.ddmin(toks, lambda sub: fails(b"".join(sub)), max_runs=max_runs)
    b2 = b"".join(toks)
    if len(b2) <= 60:
        bl = [bytes([x]) for x in b2]
        bl = vlib.ddmin(bl, lambda sub: fails(b"".join(sub)), max_runs=max_runs)
        b2 = b"".join(bl)
    return b2


def single_text_case(b, dev=1):
    return text_case("x", [("shrunk", b)], "shrink", dev=dev)


def evaluate(exe, drv, case):
    """run one case on both sides -> (problems, crash or None, ilines, mlines)"""
    io, icr = run_impl(exe, [case], timeout=120)
    if case.id in icr:
        return [], icr[case.id], icr[case.id].get("partial", []), []
    il = io.get(case.id, [])
    if drv is None:
        return judge(case, il, None), None, il, []
    mo, _ = run_model(drv, [case], {case.id: il})
    ml = mo.get(case.id, [])
    return judge(case, il, ml), None, il, ml


def crash_kind(cr):
    return "timeout" if cr.get("timeout") else "crash"


def check(res, tier, seed):
    flags = {k: v["on"] for k, v in KNOWN_OPEN.items()}
    res.assumptions += [
        "the lexer (flex), the parser (bison) and the byte output of ScriptEmitter are NOT modelled: totality and memory safety of compilation are SAMPLED "
        "(ASan+UBSan build, -fno-sanitize=alignment,pointer-overflow,vptr,signed-integer-overflow as in lib/vlib.py) on the generated inputs only",
        "the arena (PreAllocator) is one malloc block: an overflow past its end is seen by ASan, an overflow of one part into the next part of the same arena is "
        "seen only through the bump pointer check (current <= endBlock) the harness does after an accepted compile",
        "per-compilation time bound 20 s (watchdog); developer mode on; Error/Warn/Debug/Output streams attached",
        "theorems: the script table (name -> absent | failed | loaded) and the jump-table discipline over loop skeletons; the outcome (accept/reject) of a source text is an input of the table model",
        "a recorded jump location is abstracted to the ordinal of the jump; counting pass and emitting pass are the same ScriptEmitter code, one model run stands for both",
        "nesting depth <= 40 as in the property's quantifier (blocks, if, while, try-in-try, catch-in-catch, switch-in-switch, parentheses, indexing, unary operators); "
        "the two depth-40 catch/switch programs of the corpus must each compile in < 5 s (they took 2^depth before fix 76f56ed)",
    ]
    res.cov["rule"] += (
        "C01: (A) every history of length 3 (thorough 4) over 26 table operations on 2 names (stream/file variant, recompile, run, exec, set file; sources accepted/parse error/compile error) "
        "+ seeded random walks over 4 names; (B) every loop skeleton of <= 4 (5) symbols over {break, continue, while, do, switch, try/catch}, the 98..102 boundary of both jump tables in 9 shapes, "
        "depth 0..8 inside switch, seeded random skeletons; (C) arbitrary texts: targeted programs, fixed noise list, the ring-position family (11 peephole-sensitive shapes after 0..210 fillers x 2 parities, plain / in a switch body / in a catch block: every offset of the 100-slot prev_opcodes ring; required outcome ok), the NUL-byte family (a 0 byte inserted at / replacing every position of 9 seed texts, runs of 2 and 9 NULs, other control/high bytes at sampled positions), grammar-directed programs (depth <= 12, thorough also <= 40), token mutants "
        "(delete/duplicate/swap/replace/stray keyword/unbalance/stray punctuation/split), thorough: every single-token deletion of 200 programs, random byte noise; the family rejected-statement (50 expression kinds - one per parse-node constructor and arity of yyParser.yy - as the left-hand side of 16 assignment forms at top level and of 3 forms in 13 nested positions, and in 29 other positions: label name/parameters, case, end argument, command name/arguments, listener, conditions, for header, index, field, unary/binary/vector/array operands), the family rejected-by-the-emitting-pass (duplicate labels / case values: the only error raised by the program manager and not by the counting manager); developer mode on and off (alternating per case; targeted, fixed noise, NUL-byte, late-reject and corpus texts in both); 12 texts per engine, after each: "
        "re-request, sentinel run, fresh compile+run, state of the text's script (accepted texts are not executed here), recompile=true of the same name from a valid source + run; at the end of every engine Reset(), sentinel absent, compiled and run again, and the context is destroyed inside the watched region.  non-trivial = an arbitrary text whose compilation finished in an allowed class with all six probes agreeing with the model, "
        "or a history/skeleton of >= 3 operations/symbols. ")
    # ---- translator
    tie_broken = None
    try:
        changed, gtxt = C01_gen.write_generated()
        res.cov["generated"] = {"file": "coq/C01/Generated.v", "rewritten": changed,
                                "limits": re.findall(r"Definition (\w+) : N := (\d+)", gtxt)}
    except C01_gen.TranslatorError as ex:
        # the tie is broken: the source no longer has the modelled shape.  Search for a concrete failing input all the same:
        # against the model of the LAST translated source when coq/C01/Generated.v is still there (the changed code then
        # disagrees with it at the changed boundary), otherwise on the implementation alone (crash / hang / outcome class)
        tie_broken = str(ex)[-3000:]
        res.cov["generated"] = {"file": "coq/C01/Generated.v", "translator_error": tie_broken[:600]}
    drv = None
    pst = {"ok": True}
    if tie_broken is None or os.path.exists(os.path.join(vlib.COQ, "C01", "Generated.v")):
        try:
            pst = vlib.proof_stage(res, "C01", extra_targets=["C01/Extract.vo"], dirs=["Base", "C01"])
            drv = vlib.ocaml_driver("C01")
        except vlib.BuildError:
            if tie_broken is None:
                raise
            drv = None
    exe = vlib.build_harness("C01", ["harness/C01.cpp"], "asan", use_lib=True)

    cases = gen_cases(tier, seed, flags)
    by_id = {c.id: c for c in cases}
    origins = {}
    ntexts = 0
    for c in cases:
        n = len(c.inputs) if c.inputs else (len(c.ops) if c.ops and c.ops[0][0] == "K" else 1)
        origins[c.origin] = origins.get(c.origin, 0) + n
        ntexts += len(c.inputs)
    res.cov["input_distribution"] = {"by_origin": origins, "cases": len(cases), "arbitrary_texts": ntexts}
    res.cov["evaluations"] += sum(origins.values())

    bad = []             # (case, kind, why, crashinfo)
    classes = {}
    nontriv = set()
    B = 400
    for i in range(0, len(cases), B):
        chunk = cases[i:i + B]
        io, icr = run_impl(exe, chunk)
        done = [c for c in chunk if c.id in io]
        mo, mstat = run_model(drv, done, io) if drv else ({c.id: None for c in done}, None)
        for c in chunk:
            if c.id in icr:
                bad.append((c, crash_kind(icr[c.id]), None, icr[c.id]))
                continue
            il = io.get(c.id, [])
            ml = mo.get(c.id)
            if ml is None and drv is None:
                ml = None
            elif ml is None:
                bad.append((c, "model-crash", "the extracted model produced no output for the case: %s" % (mstat,), None))
                continue
            probs = judge(c, il, ml)
            for k, o in enumerate(c.ops):
                if o[0] == "C" and o[3][0] == "X" and k < len(il):
                    cl = impl_class(il[k])
                    classes[cl] = classes.get(cl, 0) + 1
            if probs:
                bad.append((c, probs[0][0], probs[0][1], None))
            else:
                if c.inputs:
                    for name, b in c.inputs:
                        nontriv.add(hashlib.sha256(b).hexdigest())
                elif c.ops and c.ops[0][0] == "K":
                    for o in c.ops:
                        if len(o[1]) >= 3:
                            nontriv.add(" ".join(o[1]))
                elif len(c.ops) >= 3:
                    nontriv.add(repr(c.ops))
        if len(bad) > 60:
            break
    res.cov["outcome_classes_of_texts"] = classes
    res.cov["distinct_nontrivial"] += len(nontriv)
    res.cov["samples"] += [c.to_json() for c in (cases[:1] + cases[len(cases) // 2:len(cases) // 2 + 1] + cases[-1:])]
    for smp in res.cov["samples"]:
        smp["ops"] = smp["ops"][:8]

    # ---- depth-40 catch/switch nesting within 5 s
    check_nesting_time(res, exe)

    # ---- report
    reported = set()
    for c, kind, why, cr in bad:
        rec = minimise(exe, drv, c, kind, why, cr, seed)
        sig = rec["signature"]
        if sig in reported:
            continue
        reported.add(sig)
        if rec.get("known"):
            res.known_finding("%s (input: %s)" % (KNOWN_OPEN[rec["known"]]["what"], rec.get("text_repr", "")[:200]))
            continue
        for f in vlib.known_findings(CID):
            if f.get("signature") and f["signature"] == sig:
                res.known_finding(f.get("what", sig))
                break
        else:
            concrete = kind not in ("model-vs-spec", "model-crash")
            if not concrete:
                rec["broken"] = "theorem / extracted model of unit C01 (see why)"
            res.violation(rec, no_input=not concrete)
    if tie_broken is not None:
        concrete = [p_ for p_, ni in res.violations if not ni]
        for p_ in concrete:                      # say in the replay why the search ran
            try:
                r_ = json.load(open(p_))
                r_["tie_broken"] = tie_broken[:1500]
                json.dump(r_, open(p_, "w"), indent=1, sort_keys=True)
            except Exception:
                pass
        if not concrete:
            res.violation({"property": CID, "kind": "proof-broken", "broken": "translator props/C01_gen.py: the source no longer matches the modelled template",
                           "why": tie_broken}, no_input=True)
    if not pst["ok"] and not any(not ni for _, ni in res.violations):
        res.violation({"property": CID, "kind": "proof-broken", "broken": "Coq build of C01/Properties.vo", "hygiene": pst.get("hygiene"),
                       "log": pst.get("build_log", "")[-3000:] + str(pst.get("props", {}).get("log", ""))[-3000:]}, no_input=True)
    for k, v in KNOWN_OPEN.items():
        res.cov.setdefault("open_findings_flags", {})[k] = {"generated_on_purpose": v["on"], "what": v["what"]}


def minimise(exe, drv, case, kind, why, cr, seed):
    """shrink a failing case to one text / a short history; build the replay record"""
    rec = {"property": CID, "unit": "C01", "kind": kind, "origin": case.origin, "seed": seed,
           "replay_cmd": "./check C01 --replay <this file>"}

    def same(c2):
        probs, cr2, il, ml = evaluate(exe, drv, c2)
        if cr2 is not None:
            return crash_kind(cr2) == kind, cr2, il
        return any(p[0] == kind for p in probs), None, il
    if case.inputs:
        # which text?
        culprit = None
        for name, b in case.inputs:
            ok, cr2, il = same(single_text_case(b, case.dev))
            if ok:
                culprit = (name, b, cr2)
                break
        if culprit is None:
            # only the sequence fails: keep the whole case
            rec.update({"case": case.to_json(), "why": why or "crash/hang only when the texts are compiled in sequence in one engine",
                        "stderr": (cr or {}).get("stderr", "")[-3000:], "signature": kind + ":sequence:" + case.origin})
            return rec
        name, b, cr2 = culprit
        runs = 25 if kind == "timeout" else 120
        try:
            b = ddmin_bytes(b, lambda x: same(single_text_case(x, case.dev))[0], max_runs=runs)
        except Exception:
            pass
        ok, cr2, il = same(single_text_case(b, case.dev))
        c2 = single_text_case(b, case.dev)
        stderr = (cr2 or {}).get("stderr", "")
        rec.update({"case": c2.to_json(), "text_hex": b.hex(), "text_repr": repr(b)[:2000], "text_name": name,
                    "impl_trace": il, "stderr": vlib._err_head(stderr)[-3000:]})
        if cr2 is not None:
            k = known_of(stderr)
            if k:
                rec["known"] = k
            top = re.findall(r"#\d+ 0x[0-9a-f]+ in ([^\s(]+)", stderr)[:3]
            rec["why"] = "the engine %s while compiling this text: %s" % ("hung (20 s watchdog)" if kind == "timeout" else "crashed / a sanitizer stopped it", vlib._err_head(stderr)[:600])
            rec["signature"] = kind + ":" + "/".join(top)
        else:
            probs, _, il, ml = evaluate(exe, drv, c2)
            rec["why"] = "; ".join(p[1] for p in probs[:3]) or why
            rec["signature"] = kind + ":" + (probs[0][1].split(":")[-1][:60] if probs else "")
        return rec
    # histories / skeletons: shrink the op list
    ops = case.ops
    if ops and all(o[0] == "K" for o in ops):
        # independent skeletons: the smallest one that fails alone
        for o in sorted(ops, key=lambda o: len(o[1])):
            if same(XCase("s", [o], "shrink", dev=case.dev))[0]:
                ops = [o]
                break
    else:
        try:
            ops = vlib.ddmin(list(ops), lambda sub: same(XCase("s", sub, "shrink", dev=case.dev))[0], max_runs=80)
        except Exception:
            pass
    if len(ops) == 1 and ops[0][0] == "K":
        try:
            ops = [("K", skel_shrink(list(ops[0][1]), lambda sub: same(XCase("s", [("K", sub)], "shrink"))[0]))]
        except Exception:
            pass
    c2 = XCase("r", ops, "shrunk from " + case.origin)
    probs, cr2, il, ml = evaluate(exe, drv, c2)
    stderr = (cr2 or {}).get("stderr", "")
    rec.update({"case": c2.to_json(), "impl_trace": il, "model_trace": ml, "stderr": vlib._err_head(stderr)[-3000:]})
    if cr2 is not None:
        k = known_of(stderr)
        if k:
            rec["known"] = k
        rec["why"] = "the engine %s on this history: %s" % ("hung" if kind == "timeout" else "crashed / a sanitizer stopped it", vlib._err_head(stderr)[:600])
        rec["signature"] = kind + ":" + "/".join(re.findall(r"#\d+ 0x[0-9a-f]+ in ([^\s(]+)", stderr)[:3])
        rec["text_repr"] = " ; ".join(" ".join(map(str, o[:3])) for o in ops)[:300]
    else:
        rec["why"] = "; ".join(p[1] for p in probs[:3]) or (why or "")
        rec["signature"] = kind + ":" + " ".join(str(o[0]) for o in ops)[:80]
    return rec


def check_nesting_time(res, exe):
    """the depth-40 catch-in-catch and switch-in-switch programs (2^depth before fix 76f56ed) compile in < 5 s each"""
    out = {}
    for kind in ("catch", "switch"):
        b = nest(kind, 40).encode()
        c = single_text_case(b)
        t0 = time.time()
        io, icr = run_impl(exe, [c], timeout=60)
        dt = time.time() - t0
        cls = impl_class(io[c.id][2]) if c.id in io and len(io[c.id]) > 2 else "no-output"
        out[kind + "-in-" + kind + "-depth40"] = {"seconds": round(dt, 3), "outcome": cls}
        if c.id in icr or dt >= 5.0 or cls != "ok":
            res.violation({"property": CID, "unit": "C01", "kind": "timeout" if dt >= 5.0 else "outcome-expected", "case": c.to_json(),
                           "text_repr": repr(b)[:400], "signature": "nesting-time:" + kind,
                           "why": "%s-in-%s nested 40 deep must compile (outcome ok) in < 5 s: took %.1f s, outcome %s" % (kind, kind, dt, cls)})
    res.cov["nesting_depth40_compile_time"] = out


def replay(path):
    rec = json.load(open(path))
    if "case" not in rec:
        print("replay file names a broken obligation, not an input: %s" % rec.get("broken"))
        return 1
    try:
        C01_gen.write_generated()
    except C01_gen.TranslatorError as ex:
        print("translator: the source no longer matches the modelled template (%s); replaying against the last translated model" % str(ex)[:200])
    drv = None
    try:
        ok, log = vlib.coq_make(["C01/Extract.vo"])
        drv = vlib.ocaml_driver("C01")
    except vlib.BuildError:
        print("no model available: implementation only")
    exe = vlib.build_harness("C01", ["harness/C01.cpp"], "asan", use_lib=True)
    c = XCase.from_json(rec["case"])
    probs, cr, il, ml = evaluate(exe, drv, c)
    print("impl :", il)
    print("model:", [l for l in ml if l.startswith("m ")])
    if cr is not None:
        print("REPLAY FAILS: %s: %s" % (crash_kind(cr), vlib._err_head(cr.get("stderr", ""))[:1500]))
        return 1
    if probs:
        print("REPLAY FAILS: %s" % "; ".join(p[1] for p in probs[:3]))
        return 1
    print("REPLAY PASSES (no violation on the current tree)")
    return 0
