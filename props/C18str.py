"""C18 (unit C18str) — mfuse::str behaves like independent byte strings.

Default generation stays inside the alphabet of the theorem (Spec.pre): the whole alphabet
under the genuine preconditions (tolower/toupper/non-const operator[] need storage, append of
a text / v = w.c_str() / tolower/toupper need strings without 0 bytes).  What is outside is pinned by a `..._refuted`
theorem and by a witness below that is re-run against the implementation on every check.
VERIF_C18STR_FULL=1 generates without the preconditions and compares the implementation with
the SPECIFICATION (the "model=" of a reported disagreement is then the specification)."""
import glob
import itertools
import os
import random

import vlib
from vlib import Case

LEVEL = "proof"
FULL = os.environ.get("VERIF_C18STR_FULL", "") not in ("", "0")

LITS = ["_", "a", "Q", "XY", "Hello", "xyzzy", "0123456789", "MiXeD", "abcdefghijklmnopqrstuvwxyz"]


def _lit(w):
    return "" if w == "_" else w


def _clit(t):
    return t.split("\0")[0]


class Abs:
    """python mirror of Spec.spec_step / Spec.has_step / Spec.pre (only used to stay inside the
    alphabet and to aim the generators; the driver re-checks `safe` with the extracted Coq function)"""

    def __init__(self, nv):
        self.v = [""] * nv
        self.has = [False] * nv

    def pre(self, op):
        w = op.split()
        c, a = w[0], int(w[1])
        v = self.v
        nonul = "\0" not in v[a]
        if c in ("AL", "PL", "PC"):
            return nonul
        if c in ("AS", "PS"):
            return nonul and "\0" not in v[int(w[2])]
        if c == "AC":
            return "\0" not in v[int(w[2])]
        if c == "SC":
            return self.has[a] and int(w[3]) != 0
        if c in ("LO", "UP"):
            return self.has[a] and nonul
        return True

    def step(self, op):
        w = op.split()
        c, a = w[0], int(w[1])
        v, has = self.v, self.has
        if c == "SL":
            v[a] = _lit(w[2])
            has[a] = v[a] != ""
        elif c == "CP":
            v[a] = v[int(w[2])]
            has[a] = has[int(w[2])]
        elif c == "AC":
            v[a] = _clit(v[int(w[2])])
            has[a] = v[a] != ""
        elif c == "CC":
            if int(w[2]) != a:
                v[a] = v[int(w[2])]
                has[a] = has[int(w[2])]
        elif c in ("AL", "PL"):
            v[a] += _lit(w[2])
            has[a] = True
        elif c == "PC":
            if int(w[2]):
                v[a] += chr(int(w[2]))
            has[a] = True
        elif c == "AH":
            if int(w[2]):
                v[a] += chr(int(w[2]))
                has[a] = True
        elif c in ("AS", "PS"):
            v[a] += v[int(w[2])]
            has[a] = True
        elif c == "SC":
            i = int(w[2])
            if i < len(v[a]):
                v[a] = v[a][:i] + chr(int(w[3])) + v[a][i + 1:]
        elif c == "CL":
            v[a] = v[a][:int(w[2])]
        elif c == "MI":
            n = int(w[2])
            if n > 0:
                v[a] = v[a][:max(0, len(v[a]) - n)]
        elif c == "DE":
            v[a] = v[a][:max(0, len(v[a]) - 1)]
        elif c == "CR":
            v[a] = ""
            has[a] = False
        elif c == "LO":
            v[a] = v[a].lower()
        elif c == "UP":
            v[a] = v[a].upper()
        elif c == "RS":
            n = int(w[2])
            v[a] = v[a][:n] if n <= len(v[a]) else v[a] + "\0" * (n - len(v[a]))
            has[a] = True
        elif c == "RV":
            has[a] = True
        elif c == "AN":
            v[a] = _lit(w[2])
            has[a] = True


def safe_hist(nv, ops):
    a = Abs(nv)
    for o in ops:
        if not a.pre(o):
            return False
        a.step(o)
    return True


# what is still outside the theorem: (name, nv, ops, what the byte-string specification says, what happens)
WITNESSES = [
    ("tolower_without_storage", 1, ["LO 0"],
     "tolower of an empty string is a no-op", "null m_data is dereferenced: the code's own asserted precondition (assert(m_data))"),
    ("index_without_storage", 1, ["SC 0 0 65"],
     "operator[] beyond the length yields the dummy", "null m_data is dereferenced: the code's own asserted precondition (assert(m_data))"),
    ("append_after_resize", 1, ["RS 0 8", "AL 0 XY"],
     "c_str() \"\" (8 zero bytes, then XY), length 10", "c_str() is \"XY\" with length 10: cat continues at the first 0 byte, not at length()"),
    ("assign_own_cstr_after_resize", 1, ["SL 0 hello", "RS 0 8", "AC 0 0"],
     "\"hello\" with length 5", "a = a.c_str() is punted (same pointer): the length stays 8"),
]


class C18str(vlib.HistoryProp):
    cid = "C18"
    unit = "C18str"
    variant = "asan"
    harness_sources = ["harness/C18str.cpp"]
    use_lib = True
    coq_dirs = ["Base", "C18str"]
    has_monitor = False
    batch = 20000

    def assumptions(self):
        return ["bytes 1..127 (char signedness and the C locale do not matter); no 0 byte is stored through operator[]",
                "sizes do not wrap around size_t",
                "memory returned by the allocator is filled with '?' by an IMemoryManager installed by the harness, as in the model",
                "the theorem covers the whole alphabet under Spec.pre: non-const operator[] / tolower / toupper only on strings that have storage (the code asserts m_data), "
                "operations with C-string semantics (append of a text, v = w.c_str(), tolower/toupper) only on strings without 0 bytes "
                "(a string holds 0 bytes only after a growing resize() until they are overwritten or it is given a new value); what is outside is pinned by _refuted theorems and witnesses",
                "reference counts / frees are checked by AddressSanitizer in the harness, the theorem is about contents"]

    # ---- generation -----------------------------------------------------------------
    CORE = ["SL 0 Hello", "SL 0 _", "CP 1 0", "CP 0 1", "AL 0 XY", "AL 1 _", "AH 0 33", "AS 1 0",
            "CL 0 3", "MI 0 2", "SC 0 1 74", "CR 0", "RS 0 2", "AS 0 0"]
    MORE = ["CP 0 0", "AS 0 1", "CL 1 0", "MI 1 100", "LO 1", "UP 0", "AC 1 0", "AC 0 0", "CC 1 0", "PL 1 a",
            "CP 2 0", "AL 2 Q", "RS 0 8", "RS 1 0", "RV 0 20", "RV 1 1", "AN 0 x", "AN 1 _", "AL 0 _"]
    CORE6 = ["SL 0 Hello", "CP 1 0", "CP 0 1", "AL 0 XY", "AS 1 0", "CL 0 3", "SC 1 1 74", "CR 0", "RS 0 7", "AS 0 0"]   # RS 0 7 then SC/CP/CL: fill behind 0 bytes

    def enum(self, alpha, n, out, origin, nv=3):
        for tup in itertools.product(alpha, repeat=n):
            ops = list(tup)
            if not FULL and not safe_hist(nv, ops):
                continue
            out.append(Case("e%d" % len(out), str(nv), ops, origin))

    def walk(self, rng, nv, length, cid, maxlen=48):
        a = Abs(nv)
        ops = []
        tries = 0
        while len(ops) < length and tries < 20 * length + 100:
            tries += 1
            v, w = rng.randrange(nv), rng.randrange(nv)
            n = len(a.v[v])
            r = rng.random()
            if n > maxlen and r < 0.8:
                op = rng.choice(["CL %d %d" % (v, rng.randrange(6)), "MI %d %d" % (v, n - rng.randrange(4)), "SL %d %s" % (v, rng.choice(LITS[:6])), "CR %d" % v])
            elif r < 0.10:
                op = "SL %d %s" % (v, rng.choice(LITS))
            elif r < 0.24:
                op = "%s %d %d" % (rng.choice(["CP", "CP", "CC", "AC"]), v, w)
            elif r < 0.40:
                op = "%s %d %s" % (rng.choice(["AL", "PL"]), v, rng.choice(LITS))
            elif r < 0.47:
                op = "%s %d %d" % (rng.choice(["AH", "PC"]), v, rng.choice([0, 33, 65, 97, 122, 126]))
            elif r < 0.57:
                op = "%s %d %d" % (rng.choice(["AS", "PS"]), v, w)
            elif r < 0.66:
                op = "SC %d %d %d" % (v, rng.choice([0, max(0, n - 1), n, n + 1, rng.randrange(n + 1)]), rng.choice([65, 97, 48, 126]))
            elif r < 0.72:
                op = "GC %d %d" % (v, rng.choice([0, max(0, n - 1), n, n + 3]))
            elif r < 0.80:
                op = "CL %d %d" % (v, rng.choice([0, 1, max(0, n - 1), n, n + 1, rng.randrange(n + 1)]))
            elif r < 0.87:
                op = rng.choice(["MI %d %d" % (v, rng.choice([-1, 0, 1, 2, n, n + 1, 100])), "DE %d" % v])
            elif r < 0.90:
                op = "CR %d" % v
            elif r < 0.95:
                op = "%s %d" % (rng.choice(["LO", "UP"]), v)
            else:
                op = "CM %d %d" % (v, w)
            if rng.random() < 0.10:
                op = rng.choice(["RS %d %d" % (v, rng.choice([0, 1, n, n + 1, n + 5, max(0, n - 2)])),
                                 "RV %d %d" % (v, rng.choice([0, 1, n, n + 9])), "AN %d %s" % (v, rng.choice(LITS))])
            if not FULL and not a.pre(op):
                continue
            a.step(op)
            ops.append(op)
        return Case(cid, str(nv), ops, "random-walk-%dvars-len%d" % (nv, length))

    def gen(self, tier, seed):
        rng = random.Random(seed)
        cases = []
        for p in sorted(glob.glob(os.path.join(vlib.VERIF, "corpus", "C18str", "*.txt"))):
            lines = [l.strip() for l in open(p) if l.strip() and not l.startswith("#")]
            cases.append(Case("c_" + os.path.basename(p)[:-4], lines[0], lines[1:], "corpus"))
        ex = []
        full = self.CORE + self.MORE
        if tier == "quick":
            self.enum(full, 3, ex, "exhaustive-len3")
            self.enum(self.CORE, 4, ex, "exhaustive-core-len4")
            walks = [(4, 60, 300), (4, 400, 20), (3, 30, 300), (4, 3000, 2)]
        else:
            self.enum(full, 4, ex, "exhaustive-len4")
            self.enum(self.CORE, 5, ex, "exhaustive-core-len5")
            self.enum(self.CORE6, 6, ex, "exhaustive-core10-len6")
            walks = [(4, 100, 5000), (4, 1000, 200), (3, 40, 5000), (4, 10000, 10)]
        cases += ex
        k = 0
        for nv, ln, cnt in walks:
            for _ in range(cnt):
                cases.append(self.walk(rng, nv, ln, "w%d" % k))
                k += 1
        return cases

    # ---- canonicalisation ------------------------------------------------------------
    def canon_model(self, lines):
        m = [l[2:] for l in lines if l.startswith("m ")]
        s = [l[2:] for l in lines if l.startswith("s ")]
        safe = "p 1" in lines
        if FULL:
            # exploration of the whole alphabet: the implementation is compared with the specification
            return s, [], (m == s) or not safe
        return m, [], safe and m == s

    def canon_impl(self, lines):
        m = [l[2:] for l in lines if l.startswith("m ")]
        direct = []
        for i, l in enumerate(m):
            if "?" in l:
                direct.append("observation %d: the text contains uninitialised bytes ('?'): %s" % (i, l))
        return m, [], direct, None

    def nontrivial(self, case, compared):
        shared = False
        for l in compared:
            w = [x for x in l.split()[1:] if not x.startswith('"":')]
            if len(w) != len(set(w)):
                shared = True
        return shared and len(set(compared)) >= 3


HP = C18str()


def check_witnesses(res):
    """every refuted witness must still behave on the implementation as the model says (and
    differently from the specification); otherwise the model no longer follows the code"""
    unit = HP.unit
    drv = vlib.ocaml_driver(unit)
    exe = vlib.build_harness(unit, HP.harness_sources, HP.variant, HP.use_lib, repo_deps=HP.repo_deps)
    confirmed = []
    for name, nv, ops, want, got in WITNESSES:
        c = Case("wit_" + name, str(nv), ops, "refuted-witness")
        mo, _ = vlib.run_resilient(drv, ["model"], [c])
        io, icr = vlib.run_resilient(exe, [], [c], env=vlib.ASAN_ENV)
        lines = mo.get(c.id, [])
        m = [l[2:] for l in lines if l.startswith("m ")]
        s = [l[2:] for l in lines if l.startswith("s ")]
        problem = None
        if "p 0" not in lines or m == s:
            problem = "the model agrees with the specification on this witness"
        elif m and m[-1].startswith("crash"):
            cr = icr.get(c.id)
            part = [l[2:] for l in (cr or {}).get("partial", []) if l.startswith("m ")]
            err = (cr or {}).get("stderr", "")
            kind = m[-1].split()[1]
            ok_kind = ("null pointer" in err or "SEGV" in err) if kind == "null" else ("heap-buffer-overflow" in err) if kind == "overflow" else ("heap-use-after-free" in err)
            if cr is None:
                problem = "the model crashes (%s) but the implementation completed: %s" % (m[-1], io.get(c.id))
            elif part != m[:-1] or not ok_kind:
                problem = "the implementation crashed differently: model=%s impl=%s stderr=%s" % (m, part, vlib._err_head(err)[:300])
        else:
            i = [l[2:] for l in io.get(c.id, []) if l.startswith("m ")]
            if c.id in icr or i != m:
                problem = "model and implementation differ on the witness: model=%s impl=%s %s" % (m, i, str(icr.get(c.id, ""))[:300])
        if problem:
            res.violation({"property": HP.cid, "unit": unit, "kind": "refuted-witness-stale", "witness": name, "header": str(nv), "ops": ops,
                           "broken": "witness %s of a _refuted theorem no longer reproduces on the implementation (model out of date?): %s" % (name, problem)},
                          no_input=True)
        else:
            confirmed.append("%s: %s -> specification: %s; implementation (= model): %s" % (name, "; ".join(ops), want, got))
    res.cov["refuted_witnesses_confirmed_on_implementation"] = confirmed
    res.cov["evaluations"] += len(WITNESSES)


def check(res, tier, seed):
    res.cov["rule"] += ("corpus first (regressions of 091996b, eb9c208 and one file per defect fixed by 913439b, b034b9f, d63a379, c0a3b58, ba5c363); every history of "
                        "length 3 (quick) / 4 (thorough) over a 33-letter alphabet on 3 variables (literal/empty assignment, copies in both directions, "
                        "self-assignment, copy construction, v = w.c_str(), append of a literal / of nothing / of a char / of the other string / of itself, "
                        "CapLength, -=, operator[] write, tolower/toupper, clear, resize up and down and to 0, reserve, assign(text, n)), "
                        "length 4 (quick) / 5 (thorough) over its 14-letter core and length 6 (thorough) over a 10-letter core, restricted to the "
                        "preconditions of the theorem (Spec.pre); seeded random walks over 3-4 variables and 9 literals aimed at the boundaries "
                        "(index = len, cap = len +- 1, -= len, resize to len +- 1, shared/unshared, after a reallocation); the witnesses of the _refuted "
                        "theorems are re-run against the implementation; "
                        "non-trivial = two variables showed the same non-empty text (sharing) and the history has >= 3 distinct observations")
    vlib.history_check(res, HP, tier, seed)
    if not FULL:
        check_witnesses(res)


def replay(path):
    return vlib.history_replay(HP, path)
