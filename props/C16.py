"""C16 — commands reach the most-derived handler for the receiver's class.

Not a history unit: the subject is the registry of the built binary (event definitions,
name table, class response tables) and the dispatch through it.
 1. harness/C16.cpp (static library of /repo's current tree + a host class family) dumps the
    complete registry and runs every (host class, command spelling, kind, namespace filter,
    entry point) through the real Listener code;
 2. the dump is translated into coq/C16/Generated.v; Properties.v proves, next to the general
    theorems, `check_registry Generated.registry = true` by vm_compute: the tables of the
    binary are the model's for every (class, event number);
 3. the extracted model and specification (ocaml/C16_driver.ml) are run on the declared data:
    numbers, event list, name table, every table entry and every dispatch answer must agree
    with the binary; a disagreement is reported with the concrete (class, command, kind,
    filter) or (class, event number)."""
import hashlib
import json
import os
import random
import re

import vlib

LEVEL = "proof"
CID = "C16"
KINDS = {"n": "KNormal", "r": "KReturn", "g": "KGetter", "s": "KSetter", "x": "KNone"}
KIND_WORD = {"n": "statement", "r": "value-returning", "g": "getter", "s": "setter", "x": "none"}
MODE_WORD = {"N": "None", "I": "Inclusive", "X": "Exclusive"}
VIA_WORD = {"S": "ProcessScriptEvent", "E": "ProcessEvent", "R": "ProcessEventReturn"}


class BrokenTie(Exception):
    """the dump (or the driver output) does not have the expected shape"""


def codes(name):
    return ",".join(str(b) for b in name.encode("latin-1")) or "-"


def uncodes(s):
    return "" if s == "-" else bytes(int(x) for x in s.split(",")).decode("latin-1")


# ------------------------------------------------------------------------------- the dump

def parse_dump(out):
    """-> dict(count, nss, evl, decls, names, probes, classes(list of dict), slots{(c,ev):(dc,di)}, queries)"""
    d = {"evl": [], "decls": [], "names": [], "probes": [], "classes": [], "slots": {}, "queries": [], "nss": []}
    seen_end = seen_enddispatch = False
    for ln in out.splitlines():
        w = ln.split(" ")
        t = w[0]
        if t == "registry":
            d["count"] = int(w[2])
            d["defcount"] = int(w[4])
            d["numclasses"] = int(w[6])
        elif t == "ns":
            d["nss"].append((int(w[1]), w[2]))
        elif t == "ev":
            d["evl"].append({"num": int(w[2]), "kind": w[3], "ns": int(w[4]), "name": w[5]})
        elif t == "decl":
            d["decls"].append({"num": int(w[2]), "kind": w[3], "ns": int(w[4]), "name": w[5], "origin": w[6]})
        elif t == "name":
            if int(w[1]) != len(d["names"]) + 1 or w[6] == "?":
                raise BrokenTie("name table index without a name: " + ln)
            d["names"].append({"normal": int(w[2]), "return": int(w[3]), "setter": int(w[4]), "getter": int(w[5]), "name": w[6]})
        elif t == "nameprobe":
            d["probes"].append((int(w[1]), w[3]))
        elif t == "name0":
            if w[1:] != ["0", "0", "0", "0"]:
                raise BrokenTie("commandList[0] is not zero: " + ln)
        elif t == "class":
            if int(w[1]) != len(d["classes"]):
                raise BrokenTie("class positions not consecutive: " + ln)
            if int(w[3]) < -1:
                raise BrokenTie("class with a parent outside the class list: " + ln)
            d["classes"].append({"name": w[2], "parent": int(w[3]), "ns": int(w[4]), "host": w[5] == "1", "resp": []})
        elif t == "resp":
            c = d["classes"][int(w[1])]
            if int(w[2]) != len(c["resp"]):
                raise BrokenTie("response indices not consecutive: " + ln)
            c["resp"].append((int(w[3]), w[4] == "1"))
        elif t == "slot":
            if int(w[3]) < 0 or int(w[4]) < 0:
                raise BrokenTie("a table entry that is no ResponseDef of any registered class: " + ln)
            if w[5] != "1":
                raise BrokenTie("a table entry whose ResponseDef has no handler: " + ln)
            d["slots"][(int(w[1]), int(w[2]))] = (int(w[3]), int(w[4]))
        elif t == "notable":
            raise BrokenTie("class without a response table: " + ln)
        elif t == "endregistry":
            seen_end = True
        elif t == "q":
            # q cls kind mode nslist via spelling num result...
            d["queries"].append({"cls": w[1], "kind": w[2], "mode": w[3], "ns": w[4], "via": w[5], "name": w[6],
                                 "num": int(w[7]), "res": " ".join(w[8:])})
        elif t == "cmddelay":
            d.setdefault("cmddelay", []).append({"cls": w[1], "name": w[2], "index": int(w[3]), "top": w[4] == "1",
                                                 "accepted": w[5] == "1", "pending": w[6] == "1"})
        elif t == "enddispatch":
            seen_enddispatch = True
            if int(w[1]) != len(d["queries"]):
                raise BrokenTie("dispatch output truncated")
        elif ln.strip():
            raise BrokenTie("unexpected line in the dump: " + ln[:200])
    if not seen_end or "count" not in d:
        raise BrokenTie("registry dump incomplete")
    if not seen_enddispatch:
        raise BrokenTie("dispatch output incomplete")
    if len(d["classes"]) != d["numclasses"]:
        raise BrokenTie("class list length %d != numclasses %d" % (len(d["classes"]), d["numclasses"]))
    # parents first (stable): the model's class list
    order, placed = [], set()
    pending = list(range(len(d["classes"])))
    while pending:
        rest = []
        for i in pending:
            p = d["classes"][i]["parent"]
            if p < 0 or p in placed:
                order.append(i)
                placed.add(i)
            else:
                rest.append(i)
        if len(rest) == len(pending):
            raise BrokenTie("inheritance cycle among classes %s" % rest)
        pending = rest
    d["order"] = order                                   # new position -> dump position
    d["newpos"] = {old: new for new, old in enumerate(order)}
    return d


def sorted_classes(d):
    """classes in model order with positions translated"""
    np = d["newpos"]
    res = []
    for old in d["order"]:
        c = d["classes"][old]
        res.append({"name": c["name"], "parent": np[c["parent"]] if c["parent"] >= 0 else -1, "resp": c["resp"],
                    "host": c["host"], "ns": c["ns"]})
    return res


def actual_slots(d):
    """{(new class pos, ev): (new declaring class pos, idx)}"""
    np = d["newpos"]
    return {(np[c], ev): (np[dc], di) for (c, ev), (dc, di) in d["slots"].items()}


# ---------------------------------------------------------------------------- Generated.v

def coq_name(s):
    return "[" + ";".join(str(b) for b in s.encode("latin-1")) + "]"


def coq_comment(s):
    return re.sub(r"[^A-Za-z0-9_.\-]", "?", s)


def generated_v(d):
    cl = sorted_classes(d)
    act = actual_slots(d)
    o = []
    o.append("(* C16/Generated.v - GENERATED on every run by props/C16.py from the registry dump of the")
    o.append("   harness built from /repo's current tree (harness/C16.cpp dump).  Do not edit. *)")
    o.append("From Coq Require Import List NArith.")
    o.append("From Morfuse Require Import C16.Model C16.Registry.")
    o.append("Import ListNotations.")
    o.append("Local Open Scope N_scope.")
    o.append("")
    o.append("Definition decls : list decl := [")
    o.append(";\n".join("  mkDecl %s %s %d%%nat (* %s *)" % (coq_name(x["name"]), KINDS[x["kind"]], x["ns"], coq_comment(x["name"]))
                        for x in d["decls"]))
    o.append("].")
    o.append("")
    o.append("Definition numbers : list N := [%s]." % "; ".join(str(x["num"]) for x in d["decls"]))
    o.append("")
    o.append("Definition evlist : list edef := [")
    o.append(";\n".join("  mkEdef %s %s %d %d%%nat" % (coq_name(x["name"]), KINDS[x["kind"]], x["num"], x["ns"]) for x in d["evl"]))
    o.append("].")
    o.append("")
    o.append("Definition names : nametable := [")
    o.append(";\n".join("  (%s, mkInfo %d %d %d %d)" % (coq_name(x["name"]), x["normal"], x["return"], x["setter"], x["getter"])
                        for x in d["names"]))
    o.append("].")
    o.append("")
    o.append("Definition classes : list cls := [")
    o.append(";\n".join("  (* %d %s *) mkCls %s [%s]" % (
        i, coq_comment(c["name"]), ("(Some %d%%nat)" % c["parent"]) if c["parent"] >= 0 else "None",
        "; ".join("(%d, %s)" % (ev, "true" if has else "false") for ev, has in c["resp"])) for i, c in enumerate(cl)))
    o.append("].")
    o.append("")
    o.append("Definition actual : list (list (N * (nat * nat))) := [")
    rows = []
    for i in range(len(cl)):
        ent = sorted((ev, v) for (c, ev), v in act.items() if c == i)
        rows.append("  (* %d *) [%s]" % (i, "; ".join("(%d, (%d%%nat, %d%%nat))" % (ev, v[0], v[1]) for ev, v in ent)))
    o.append(";\n".join(rows))
    o.append("].")
    o.append("")
    o.append("Definition registry : registry := mkRegistry decls numbers evlist names %d classes actual." % d["count"])
    return "\n".join(o) + "\n"


def write_if_changed(path, text):
    old = open(path).read() if os.path.exists(path) else None
    if old != text:
        with open(path, "w") as f:
            f.write(text)
        return True
    return False


# ------------------------------------------------------------------------------ the driver

def driver_input(d):
    cl = sorted_classes(d)
    pos = {c["name"]: i for i, c in enumerate(cl)}
    o = []
    for x in d["decls"]:
        o.append("decl %s %d %s" % (x["kind"], x["ns"], codes(x["name"])))
    for c in cl:
        o.append("class %d %s" % (c["parent"], ",".join("%d:%d" % (ev, 1 if has else 0) for ev, has in c["resp"]) or "-"))
    for i, q in enumerate(d["queries"]):
        if q["cls"] not in pos:
            raise BrokenTie("query for a class that is not registered: " + q["cls"])
        o.append("q %d %d %s %s %s %s %s" % (i, pos[q["cls"]], q["kind"], q["mode"], q["ns"], q["via"], codes(q["name"])))
    return "\n".join(o) + "\n"


def parse_driver(out):
    r = {"num": [], "evl": [], "names": [], "probes": [], "mslot": {}, "sslot": {}, "ans": {}}
    for ln in out.splitlines():
        w = ln.split(" ")
        t = w[0]
        if t == "count":
            r["count"] = (int(w[1]), int(w[2]))
        elif t == "num":
            r["num"].append((int(w[2]), int(w[3])))
        elif t == "evl":
            r["evl"].append({"num": int(w[2]), "kind": w[3], "ns": int(w[4]), "name": uncodes(w[5])})
        elif t == "name":
            r["names"].append({"normal": int(w[2]), "return": int(w[3]), "setter": int(w[4]), "getter": int(w[5]), "name": uncodes(w[6])})
        elif t == "nameprobe":
            r["probes"].append(int(w[1]))
        elif t == "mslot":
            r["mslot"][(int(w[1]), int(w[2]))] = (int(w[3]), int(w[4]))
        elif t == "sslot":
            r["sslot"][(int(w[1]), int(w[2]))] = (int(w[3]), int(w[4]))
        elif t == "a":
            m, s = " ".join(w[2:]).split(" | ")
            r["ans"][int(w[1])] = (m, s)
        elif ln.strip():
            raise BrokenTie("unexpected driver line: " + ln[:200])
    if "count" not in r:
        raise BrokenTie("driver output incomplete")
    return r


def expected_text(outcome, via, cl):
    """the model/spec outcome in the harness's vocabulary"""
    if outcome.startswith("H "):
        _, c, i = outcome.split()
        return "H %s %s" % (cl[int(c)]["name"], i)
    if via == "E" and outcome in ("NotFound", "Unsupported"):
        return "False"                      # ProcessEvent turns the exception into `false`
    return outcome


def compare(d, r):
    """-> (list of violation records, statistics)"""
    bad = []
    cl = sorted_classes(d)
    act = actual_slots(d)
    stats = {}

    def rec(kind, why, **kw):
        x = {"property": CID, "kind": kind, "why": why}
        x.update(kw)
        bad.append(x)

    # numbering
    if r["count"][0] != d["count"] or r["count"][1] != d["count"]:
        rec("count-mismatch", "NumEventCommands of the binary is %d, model %d, specification %d" % (d["count"], r["count"][0], r["count"][1]))
    if len(r["num"]) != len(d["decls"]):
        raise BrokenTie("driver printed %d numbers for %d declarations" % (len(r["num"]), len(d["decls"])))
    for i, (x, (m, s)) in enumerate(zip(d["decls"], r["num"])):
        if not (x["num"] == m == s):
            rec("number-mismatch", "declaration %d '%s' kind %s has number %d in the binary, model %d, specification %d" % (
                i, x["name"], KIND_WORD[x["kind"]], x["num"], m, s), declaration=i, name=x["name"], decl_kind=x["kind"])
    if [tuple(sorted(x.items())) for x in r["evl"]] != [tuple(sorted(x.items())) for x in d["evl"]]:
        k = 0
        while k < min(len(r["evl"]), len(d["evl"])) and r["evl"][k] == d["evl"][k]:
            k += 1
        rec("eventlist-mismatch", "the EventDef list differs from the model at list position %d: binary %s model %s" % (
            k, d["evl"][k] if k < len(d["evl"]) else None, r["evl"][k] if k < len(r["evl"]) else None), position=k)
    if r["names"] != d["names"]:
        k = 0
        while k < min(len(r["names"]), len(d["names"])) and r["names"][k] == d["names"][k]:
            k += 1
        rec("nametable-mismatch", "the name table differs from the model at name index %d: binary %s model %s" % (
            k + 1, d["names"][k] if k < len(d["names"]) else None, r["names"][k] if k < len(r["names"]) else None), index=k + 1)
    # FindEventInfo(eventName_t): not on the dispatch path; informational (a repair of its
    # off-by-one must not be reported as a violation of C16)
    stats["find_event_info_as_modelled"] = sorted(p for p, _ in d["probes"]) == sorted(r["probes"])
    # tables: every (class, event number)
    pairs = 0
    for ci, c in enumerate(cl):
        for ev in range(1, d["count"] + 1):
            pairs += 1
            a, m, s = act.get((ci, ev)), r["mslot"].get((ci, ev)), r["sslot"].get((ci, ev))
            if not (a == m == s):
                def show(v):
                    return "empty" if v is None else "entry %d of %s" % (v[1], cl[v[0]]["name"])
                nm = next((x["name"] for x in d["evl"] if x["num"] == ev), "?")
                kd = next((x["kind"] for x in d["evl"] if x["num"] == ev), "x")
                rec("table-mismatch", "class %s, command '%s' (%s, number %d): responseLookup holds %s; model: %s; nearest declaring ancestor: %s" % (
                    c["name"], nm, KIND_WORD[kd], ev, show(a), show(m), show(s)),
                    **{"class": c["name"], "event": ev, "command": nm, "command_kind": kd})
                if len(bad) > 40:
                    break
        if len(bad) > 40:
            break
    for k in act:
        if not (1 <= k[1] <= d["count"]):
            rec("table-mismatch", "table entry outside 1..N: %s" % (k,))
    stats["table_pairs"] = pairs
    stats["nonempty_slots"] = len(act)
    # dispatch
    nontriv = set()
    outcomes = {}
    for i, q in enumerate(d["queries"]):
        if i not in r["ans"]:
            raise BrokenTie("driver gave no answer for query %d" % i)
        m, s = r["ans"][i]
        em, es = expected_text(m, q["via"], cl), expected_text(s, q["via"], cl)
        outcomes[q["res"].split(" ")[0]] = outcomes.get(q["res"].split(" ")[0], 0) + 1
        if q["num"]:
            nontriv.add((q["cls"], q["num"], q["mode"], q["ns"], q["via"]))
        if q["via"] == "R":
            # Listener::ProcessEventReturn as written returns silently for an unknown or
            # unsupported command (model: dispatch_return).  The property only demands that
            # the right handler runs, and that NO handler runs when the specification rejects:
            # a version that throws instead is accepted as well.
            if q["res"] != em:
                stats["return_path_differs_from_model"] = stats.get("return_path_differs_from_model", 0) + 1
            want = expected_text(r["ans"][i][1], "S", cl)
            ok = (q["res"] == want) if want.startswith("H ") else (q["res"] in ("Silent", "NotFound", "Unsupported"))
            ok = ok and (em == es)
        else:
            ok = q["res"] == em == es
        if not ok:
            rec("dispatch-mismatch",
                "%s on an instance of %s with command '%s' (%s), namespace filter %s [%s]: the engine answered '%s', the model '%s', the specification '%s'" % (
                    VIA_WORD[q["via"]], q["cls"], q["name"], KIND_WORD[q["kind"]], MODE_WORD[q["mode"]], q["ns"], q["res"], em, es),
                query={k: q[k] for k in ("cls", "kind", "mode", "ns", "via", "name")}, engine=q["res"], model=em, spec=es)
            if len(bad) > 60:
                break
    stats["queries"] = len(d["queries"])
    stats["nontrivial"] = len(nontriv)
    stats["outcomes"] = outcomes
    return bad, stats


# ------------------------------------------------------------------------ random families

NAMES = ["alpha", "beta", "gamma", "delta", "omega"]


def random_family(rng):
    """a host family in the format of harness/C16_family.h: depth <= 5, overrides, null
    responses, the same name with several kinds, spellings differing in case, 3 namespaces"""
    o = ["// generated by props/C16.py", 'VNS(nsA, "verif_c16_a")', 'VNS(nsB, "verif_c16_b")', 'VNS(nsC, "verif_c16_c")']
    evs = []
    nev = rng.randrange(6, 15)

    def spell(base):
        s = "vr16_" + base
        return "".join(ch.upper() if rng.random() < 0.4 else ch for ch in s)
    for i in range(nev):
        base = rng.choice(NAMES[:rng.randrange(2, len(NAMES) + 1)])
        kind = rng.choice(["Normal", "Normal", "Return", "Getter", "Setter"])
        ns = rng.choice([None, None, "nsA", "nsB", "nsC"])
        var = "rv%d" % i
        evs.append(var)
        if ns:
            o.append('VEVN(%s, %s, "%s", %s)' % (var, ns, spell(base), kind))
        else:
            o.append('VEV(%s, "%s", %s)' % (var, spell(base), kind))
    ncls = rng.randrange(5, 11)
    parents, depth = [], []
    for i in range(ncls):
        cands = [j for j in range(i) if depth[j] < 5]
        if i == 0 or not cands or rng.random() < 0.15:
            parents.append(None)
            depth.append(1)
        else:
            p = rng.choice(cands[-3:]) if rng.random() < 0.7 else rng.choice(cands)
            parents.append(p)
            depth.append(depth[p] + 1)
    root = ["mfuse::Listener", "mfuse::Listener", "mfuse::SimpleEntity"]
    pname = [("R%d" % p) if p is not None else rng.choice(root) for p in parents]
    for i in range(ncls):
        o.append("VCLASS(R%d, %s)" % (i, pname[i]))
    for i in range(ncls):
        ns = rng.choice([None, None, None, "nsA", "nsC"])
        o.append(("VDECLN(%s, %s, R%d)" % (ns, pname[i], i)) if ns else ("VDECL(%s, R%d)" % (pname[i], i)))
        o.append("{")
        for k in range(rng.choice([0, 1, 2, 3, 4, 6])):
            ev = rng.choice(evs)
            if rng.random() < 0.25:
                o.append("    VZ(%s)" % ev)
            else:
                o.append("    VR(R%d, %s, %d)" % (i, ev, k))
        o.append("    VEND")
        o.append("};")
    return "\n".join(o) + "\n"


# ------------------------------------------------------------------------------ the check

def run_harness(name, family_header=None):
    flags = []
    if family_header:
        flags = ['-DC16_FAMILY="%s"' % family_header]
    exe = vlib.build_harness(name, ["harness/C16.cpp"], "asan", use_lib=True, extra_flags=flags)
    rc, out, err = vlib.sh([exe, "all"], env=vlib.ASAN_ENV, timeout=300)
    if rc != 0:
        return None, {"property": CID, "kind": "crash", "why": "the harness %s exited with rc=%s while dumping the registry / dispatching:\n%s" % (
            name, rc, (err or out)[-3000:]), "family": family_header or "harness/C16_family.h"}
    return out, None


def analyse(out, drv):
    d = parse_dump(out)
    rc, dout, derr = vlib.sh([drv], inp=driver_input(d), timeout=600)
    if rc != 0:
        raise BrokenTie("the extracted model's driver failed: rc=%s %s" % (rc, derr[-2000:]))
    r = parse_driver(dout)
    bad, stats = compare(d, r)
    return d, r, bad, stats


def check(res, tier, seed):
    res.cov["rule"] += ("C16: general Coq theorems (nearest declaring ancestor, numbering, case-insensitive resolution, namespace filter) "
                        "+ kernel-checked comparison of every (class, event number) table entry of the built binary with the model (Generated.v) "
                        "+ differential run of the extracted model/specification against the real dispatch for every (host class, spelling, kind, filter, entry point). ")
    res.assumptions += [
        "the dump is produced by harness/C16.cpp through the library's own accessors (EventDef list, ClassDef list, GetResponseList, GetResponseLookupList, FindEventInfoChecked); a table entry is identified by searching the registered classes' response arrays",
        "command names are ASCII; str::icmp folds a..z only; the arrayset's ::tolower hash runs in the C locale",
        "the declaration order of built-in EventDef objects that were merged into an earlier definition (same folded name and kind) cannot be observed; merged built-in objects are visible only through the numbers in the class response lists",
        "ClassDefExt (extension of an existing class) is not modelled: unused in /repo",
        "script-level getter/setter fallback to plain variables (ScriptVM::executeGetter/Setter) and event posting are other properties' subject; here the entry points are ProcessScriptEvent / ProcessEvent / ProcessEventReturn",
    ]
    # 1. the binary's registry
    out, crash = run_harness("C16")
    if crash:
        vlib.proof_stage(res, "C16", extra_targets=["C16/Extract.vo"], dirs=["Base", "C16"])
        res.violation(crash)
        return
    try:
        d0 = parse_dump(out)
    except BrokenTie as ex:
        vlib.proof_stage(res, "C16", extra_targets=["C16/Extract.vo"], dirs=["Base", "C16"])
        res.violation({"property": CID, "kind": "broken-tie", "broken": "translator dump -> Generated.v", "why": str(ex)}, no_input=True)
        return
    changed = write_if_changed(os.path.join(vlib.COQ, "C16", "Generated.v"), generated_v(d0))
    res.cov["generated_v_rewritten"] = changed
    # 2. proofs (general theorems + the exhaustive comparison of the generated registry)
    pst = vlib.proof_stage(res, "C16", extra_targets=["C16/Extract.vo"], dirs=["Base", "C16"])
    # 3. differential run
    drv = vlib.ocaml_driver("C16")
    found = []
    try:
        d, r, bad, stats = analyse(out, drv)
    except BrokenTie as ex:
        res.violation({"property": CID, "kind": "broken-tie", "broken": "correspondence harness <-> extracted model", "why": str(ex)}, no_input=True)
        return
    found += [dict(b, family="harness/C16_family.h") for b in bad]
    res.cov["evaluations"] += stats["table_pairs"] + stats["queries"]
    res.cov["distinct_nontrivial"] += stats["nontrivial"] + stats["nonempty_slots"]
    res.cov["registry"] = {"event_definitions": len(d["evl"]), "declarations": len(d["decls"]), "names": len(d["names"]),
                           "classes": len(d["classes"]), "host_classes": sum(1 for c in d["classes"] if c["host"]),
                           "table_pairs": stats["table_pairs"], "nonempty_slots": stats["nonempty_slots"],
                           "dispatch_queries": stats["queries"], "dispatch_outcomes": stats["outcomes"]}
    res.cov["samples"] += [dict(q) for q in d["queries"][:2] + d["queries"][len(d["queries"]) // 2:len(d["queries"]) // 2 + 2]]
    res.cov["model_detail"] = {"find_event_info_as_modelled": stats.get("find_event_info_as_modelled"),
                               "return_path_queries_differing_from_model": stats.get("return_path_differs_from_model", 0)}
    cdl = d.get("cmddelay", [])
    res.cov["commanddelay_probe"] = {"commands": len(cdl), "posted": sum(1 for x in cdl if x["pending"]),
                                     "dropped": [x for x in cdl if not x["pending"]]}
    if d["probes"]:
        res.notes.append("FindEventInfo(eventName_t) (test `s < eventDefName.size()`) returns null for the highest name index %s: "
                         "Listener::CommandDelay, SpawnArgs keys and the compiler's getter/setter resolution on game/level/local/parm/self/group "
                         "do not see that command; Find*EventNum(const char*) and ProcessScriptEvent are not affected (the model has the same test)" % (d["probes"],))
    # 4. thorough: random host families (each one is a recompile)
    if tier == "thorough":
        rng = random.Random(seed)
        fams = []
        for k in range(6):
            text = random_family(rng)
            h = hashlib.sha256(text.encode()).hexdigest()[:16]
            path = os.path.join(vlib.CACHE, "C16-family-%s.h" % h)
            os.makedirs(vlib.CACHE, exist_ok=True)
            if not os.path.exists(path):
                with open(path, "w") as f:
                    f.write(text)
            fout, crash = run_harness("C16f%d" % k, path)
            if crash:
                found.append(dict(crash, family_text=text))
                continue
            try:
                fd, fr, fbad, fstats = analyse(fout, drv)
            except BrokenTie as ex:
                res.violation({"property": CID, "kind": "broken-tie", "broken": "random family %d" % k, "why": str(ex), "family_text": text}, no_input=True)
                continue
            found += [dict(b, family=path, family_text=text) for b in fbad]
            res.cov["evaluations"] += fstats["table_pairs"] + fstats["queries"]
            res.cov["distinct_nontrivial"] += fstats["nontrivial"] + fstats["nonempty_slots"]
            fams.append({"classes": sum(1 for c in fd["classes"] if c["host"]), "queries": fstats["queries"], "table_pairs": fstats["table_pairs"]})
        res.cov["random_families"] = fams
    # 5. verdict
    known = vlib.known_findings(CID)
    seen = set()
    for b in found:
        sig = b["kind"]
        if sig in seen:
            continue
        seen.add(sig)
        km = next((f for f in known if f.get("signature") == "C16:" + sig), None)
        if km:
            res.known_finding(km.get("what", km["signature"]))
            continue
        b["signature"] = "C16:" + sig
        b["seed"] = seed
        b["replay_cmd"] = "./check C16 --replay <this file>"
        b["others_of_this_kind"] = sum(1 for x in found if x["kind"] == sig) - 1
        res.violation(b)
    if not pst["ok"] and not any(not ni for _, ni in res.violations):
        res.violation({"property": CID, "kind": "proof-broken",
                       "broken": "Coq build of C16/Properties.vo: theorem C16_registry_tables_match_the_model (check_registry Generated.registry = true) or another obligation no longer checks, and no failing (class, command, kind, filter) was found by the differential run",
                       "hygiene": pst.get("hygiene"),
                       "log": pst.get("build_log", "")[-3000:] + str(pst.get("props", {}).get("log", ""))[-3000:]}, no_input=True)


def replay(path):
    rec = json.load(open(path))
    if rec.get("kind") in ("proof-broken", "broken-tie", "build-failure", "framework-exception"):
        print("replay file names a broken obligation, not an input: %s" % rec.get("broken"))
        return 1
    ok, log = vlib.coq_make(["C16/Extract.vo"])
    drv = vlib.ocaml_driver("C16")
    fam = rec.get("family")
    name = "C16"
    header = None
    if rec.get("family_text"):
        h = hashlib.sha256(rec["family_text"].encode()).hexdigest()[:16]
        header = os.path.join(vlib.CACHE, "C16-family-%s.h" % h)
        os.makedirs(vlib.CACHE, exist_ok=True)
        with open(header, "w") as f:
            f.write(rec["family_text"])
        name = "C16replay"
    out, crash = run_harness(name, header)
    if crash:
        print("REPLAY FAILS: " + crash["why"][:2000])
        return 1
    d, r, bad, stats = analyse(out, drv)

    def same(b):
        if b["kind"] != rec["kind"]:
            return False
        for k in ("query", "class", "event", "declaration", "position", "index"):
            if k in rec and rec.get(k) != b.get(k):
                return False
        return True
    hits = [b for b in bad if same(b)]
    if hits:
        print("REPLAY FAILS: %s: %s" % (hits[0]["kind"], hits[0]["why"]))
        return 1
    print("REPLAY PASSES (no violation on the current tree; %d table pairs, %d dispatch queries compared)" % (stats["table_pairs"], stats["queries"]))
    return 0
