"""C03 - programs compute what the language rules say (reference semantics).

Not a history unit.  One run of the check:
 1. props/C03_extract.py regenerates coq/C03/Generated.v from /repo's current sources (the
    integer-literal path: EmitInteger, OP_STORE_INT*, EvalPrevValue, the parse-tree members);
    Properties.v proves the literal round-trip for these tables (general lemma + vm_compute of
    the decidable well-formedness) - a pattern that no longer matches is a broken tie;
 2. the reference semantics coq/C03/Sem.v (a big-step evaluator with fuel) is extracted and
    run by ocaml/C03_driver.ml on generated programs (typed grammar generator, families aimed
    at the compiler's peephole ring, literal widths, aliasing, NIL, switch labels, try/catch);
    programs it cannot evaluate are outside the error-free core and dropped (counted);
 3. every remaining program is printed in several random concrete layouts (+ the expanded
    spelling of compound assignments, + run-time spellings of constant-folded operands),
    compiled and run by harness/C03.cpp on the real engine; printed text, the value handed to
    the host by `end`, and the final level/game/parm variables must be those of the evaluator;
 4. a disagreement is shrunk (statement removal on the AST) and reported with the program.
"""
import glob
import hashlib
import json
import os
import random

import vlib
from vlib import Case
import C03_extract
import C03_lang as L
import C03_gen as G

LEVEL = "proof"
CID = "C03"

# generator origins that exercise behaviour the engine got wrong at some point; an origin is
# switched off (False) only while a reported defect is unrepaired in /repo
FLAGS = {
    "conststr_eq": True,     # F-C03-a (fixed d818a67): == between two string constants
    "case64": True,          # F-C03-b (fixed ad04640): case labels beyond 32 bits
    "deep_switch": True,     # F-C03-c (fixed 8632b3a): switch bodies nested deeper than 5
    "nested_try": True,      # F-C03-d (fixed cfe5156, e7a22cb): throw inside a nested try
    "multi_handler": True,   # C01 arena overflow (fixed 5d577e5): several labels in one catch block
    "wide_shift": True,      # F-C03-e (fixed 57b8d9d): shift counts outside 0..63, negative << operands
    "goto": True,
    "goto_args": True,       # F-C03-h (fixed 5909a48): `goto label a b` handed the label name to the first parameter
    "floats": True,          # float literals as opaque printed text (f587111 fixed their decimal text)
    "continue_in_switch": True,   # F-C03-f (fixed a96d67a): `continue` directly in a switch body inside a loop was rejected
    "jump_in_catch": True,        # F-C03-g (fixed a96d67a): `break` / `continue` directly in a catch block inside a loop were rejected
}

PRINT_ORDER = ["o", "r"]


# ------------------------------------------------------------------------------- families

def P(*items):
    return list(items)


def st(s):
    return ("st", s)


def lab(f, params=()):
    return ("lab", f, list(params))


def lit_family(rng, tier):
    """integer literals across every encoding width boundary, bare, negated (constant folded),
    as operands, as conditions (EmitVarToBool folds a literal condition)"""
    vals = set()
    for k in (0, 8, 16, 24, 31, 32, 33, 40, 48, 56, 62, 63):
        for d in (-2, -1, 0, 1, 2):
            v = (1 << k) + d
            if 0 <= v < 2 ** 63:
                vals.add(v)
    vals |= {0, 1, 2, 3, 9, 10, 99, 100, 127, 128, 200, 254, 1000, 32767, 32768, 2 ** 63 - 1, 2 ** 63 - 2, 123456789012345678}
    if tier != "quick":
        for _ in range(400):
            vals.add(rng.randrange(0, 2 ** rng.choice([8, 16, 24, 32, 40, 63])))
    vals = sorted(vals)
    progs = []
    chunk = 12
    for i in range(0, len(vals), chunk):
        body = []
        for v in vals[i:i + chunk]:
            body.append(st(("pr", [("i", v), ("neg", ("i", v))])))
            body.append(st(("set", L_("l", 0), ("i", v))))
            body.append(st(("pr", [("b", "add", G.var("l", 0), ("i", 1)), ("b", "sub", ("neg", ("i", v)), ("i", 1)),
                                   ("cpl", ("i", v)), ("not", ("i", v))])))
            body.append(st(("ife", ("i", v), ("pr", [("s", "t")]), ("pr", [("s", "f")]))))
        body.append(st(("set", L_("v", 0), ("i", vals[i]))))
        body.append(st(("end1", ("neg", ("i", vals[min(i + 1, len(vals) - 1)])))))
        progs.append(("literals", [lab(0)] + body))
    return progs, vals


def L_(sc, x, idx=()):
    return ("lv", sc, x, list(idx))


FILLERS = [
    lambda r: ("set", L_("l", 0), ("i", r.choice([1, 7, 300]))),                         # 2 opcodes
    lambda r: ("inc", L_("l", 0)),                                                        # 3 opcodes
    lambda r: ("set", L_("l", 1), G.var("l", 0)),                                         # 2 opcodes
    lambda r: ("set", L_("l", 1), ("b", "add", G.var("l", 0), ("i", 1))),                 # 4 opcodes
    lambda r: ("pr", [("i", 1)]),                                                         # 2 opcodes
    lambda r: ("cset", "add", L_("l", 0), ("i", 2)),                                      # 4 opcodes
    lambda r: ("set", L_("l", 1), ("neg", G.var("l", 0))),                                # 3 opcodes
]


def ring_family(rng, tier):
    """the compiler remembers the last 100 emitted opcodes in a ring (AbsorbPrevOpcode): programs
    that differ only in the number N of leading statements put `if (!x)` / `while (!x)` /
    `do .. while (!x)` / `!literal` / `-literal` / `x = x + 1` at every position of the ring"""
    progs = []
    reps = 2 if tier == "quick" else 6
    for n in range(0, 131):
        for rep in range(reps):
            fill = [st(FILLERS[rng.randrange(len(FILLERS))](rng)) for _ in range(n)]
            x0 = rng.choice([0, 1])
            head = [st(("set", L_("l", 2), ("i", x0)))]
            snippets = [
                [st(("ife", ("not", G.var("l", 2)), ("pr", [("s", "then")]), ("pr", [("s", "else")])))],
                [st(("set", L_("l", 3), ("i", 0))),
                 st(("while", ("not", G.var("l", 3)), ("blk", [("pr", [("s", "w")]), ("set", L_("l", 3), ("i", 1))])))],
                [st(("if", ("not", ("b", "eq", G.var("l", 2), ("i", 1))), ("pr", [("s", "ne1")])))],
                [st(("set", L_("l", 5), ("i", 0))),
                 st(("do", ("blk", [("inc", L_("l", 5))]), ("not", ("b", "ge", G.var("l", 5), ("i", 3))))),
                 st(("pr", [G.var("l", 5)]))],
                [st(("pr", [("not", ("i", 5)), ("not", ("i", 0)), ("neg", ("i", 300)), ("not", ("not", G.var("l", 2)))]))],
                [st(("if", ("and", ("not", G.var("l", 2)), ("i", 1)), ("pr", [("s", "and")])))],
                [st(("if", ("or", ("not", G.var("l", 2)), ("i", 0)), ("pr", [("s", "or")])))],
                [st(("set", L_("l", 6), ("b", "add", G.var("l", 2), ("i", 1)))), st(("cset", "add", L_("l", 6), ("i", 1))), st(("pr", [G.var("l", 6)]))],
            ]
            rng.shuffle(snippets)
            tail = head + [x for sn in snippets for x in sn] + [st(("set", L_("v", 0), G.var("l", 2))), st(("end1", G.var("l", 0)))]
            progs.append(("ring-%03d" % n, [lab(0), st(("set", L_("l", 0), ("i", 0))), st(("set", L_("l", 1), ("i", 0)))] + fill + tail))
    return progs


def alias_family(rng, tier):
    progs = []
    V = G.var

    def pr(*a):
        return st(("pr", list(a)))
    for rep in range(4 if tier == "quick" else 40):
        a, b, c = rng.sample([0, 1, 2, 3, 5, 7], 3)
        k1, k2 = rng.sample([1, 2, 3, 4], 2)
        sc = rng.choice(["l", "g", "v"])
        # alias by assignment, by level variable, by thread parameter; nested arrays; constant arrays
        progs.append(("alias", [
            lab(0),
            st(("set", L_(sc, 6, [("i", k1)]), ("i", a))),
            st(("set", L_("l", 16), V(sc, 6))),
            st(("set", L_("l", 16, [("i", k1)]), ("i", b))),
            st(("set", L_("l", 16, [("i", k2)]), ("i", c))),
            pr(("x", V(sc, 6), ("i", k1)), ("x", V(sc, 6), ("i", k2)), ("size", V(sc, 6)), ("size", V("l", 16))),
            st(("set", L_("v", 7), V("l", 16))),
            st(("th", 1, [V(sc, 6), ("i", k1)])),
            pr(("x", V("l", 16), ("i", k1)), ("x", V("v", 7), ("i", 9)), ("size", V("l", 16))),
            st(("set", L_("l", 16, [("i", k2)]), ("nil",))),
            pr(("size", V(sc, 6)), ("x", V(sc, 6), ("i", k2)), ("b", "eq", ("x", V(sc, 6), ("i", k2)), ("nil",))),
            st(("set", L_("l", 17, [("i", 1)]), V("l", 16))),
            st(("set", L_("l", 17, [("i", 1), ("i", 7)]), ("i", a + b))),
            pr(("x", V(sc, 6), ("i", 7)), ("x", ("x", V("l", 17), ("i", 1)), ("i", 7)), ("size", V("l", 17))),
            st(("set", L_("l", 18, [("i", 2), ("s", "k")]), ("i", c))),
            pr(("x", ("x", V("l", 18), ("i", 2)), ("s", "k")), ("size", V("l", 18)), ("size", ("x", V("l", 18), ("i", 2)))),
            st(("set", L_("l", 8), ("carr", [("i", a), ("i", b), ("s", "z")]))),
            st(("set", L_("l", 9), V("l", 8))),
            st(("set", L_("l", 9, [("i", 2)]), ("i", c))),
            pr(("x", V("l", 8), ("i", 2)), ("x", V("l", 8), ("i", 3)), ("size", V("l", 8))),
            st(("set", L_("l", 19), ("carr", [V("l", 16), V("l", 8)]))),
            st(("set", L_("l", 19, [("i", 1), ("i", 5)]), ("i", 77))),
            pr(("x", V(sc, 6), ("i", 5)), ("x", ("x", V("l", 19), ("i", 2)), ("i", 1))),
            st(("set", L_("v", 6), V("l", 16))),
            st(("end1", ("x", V("l", 16), ("i", k1)))),
            lab(1, [("l", 10), ("l", 11)]),
            st(("set", L_("l", 10, [V("l", 11)]), ("b", "add", ("x", V("l", 10), V("l", 11)), ("i", 100)))),
            st(("set", L_("l", 10, [("i", 9)]), ("s", "nine"))),
            st(("end0",)),
        ]))
    return progs


def nil_family(rng, tier):
    V = G.var
    progs = []
    for rep in range(2 if tier == "quick" else 10):
        sc = rng.choice(["l", "g", "v", "m", "p"])
        progs.append(("nil", [
            lab(0),
            st(("pr", [V(sc, 1), ("nil",), ("not", V(sc, 1)), ("size", V(sc, 1)), ("x", V(sc, 1), ("i", 3))])),
            st(("pr", [("b", "eq", V(sc, 1), ("nil",)), ("b", "ne", V(sc, 1), ("nil",)), ("b", "eq", V(sc, 1), ("i", 0)),
                       ("b", "eq", V(sc, 1), ("s", "")), ("b", "eq", ("s", "NIL"), V(sc, 1)), ("and", V(sc, 1), ("i", 1)), ("or", V(sc, 1), ("i", 0))])),
            st(("inc", L_(sc, 1))),
            st(("pr", [V(sc, 1)])),
            st(("ife", V(sc, 1), ("pr", [("s", "set")]), ("pr", [("s", "unset")]))),
            st(("set", L_(sc, 1), ("i", 5))),
            st(("set", L_(sc, 1), ("nil",))),
            st(("pr", [V(sc, 1), ("b", "eq", V(sc, 1), ("nil",))])),
            st(("sw", V(sc, 1), [("cs", "NIL"), ("st", ("pr", [("s", "nil-label")])), ("st", ("brk",)), ("cd",), ("st", ("pr", [("s", "default")]))])),
            st(("set", L_("l", 6, [("i", 1)]), ("i", 1))),
            st(("set", L_("l", 6, [("i", 2)]), ("i", 2))),
            st(("set", L_("l", 6, [("i", 1)]), ("nil",))),
            st(("pr", [("size", V("l", 6)), ("x", V("l", 6), ("i", 1)), ("x", V("l", 6), ("i", 2))])),
            st(("inc", L_("l", 6, [("i", 7)]))),
            st(("pr", [("size", V("l", 6))])),
            st(("set", L_("l", 2), ("call", 1, []))),
            st(("pr", [V("l", 2), ("call", 2, [("i", 4)]), ("call", 2, [])])),
            st(("end1", V(sc, 1))),
            lab(1), st(("pr", [("s", "in f1")])), st(("end0",)),
            lab(2, [("l", 10)]), st(("end1", V("l", 10))),
        ]))
    return progs


def scope_family(rng, tier):
    """local per thread, group shared through `thread` but fresh under `waitthread`, level/game/parm global"""
    V = G.var
    progs = []
    for rep in range(2 if tier == "quick" else 10):
        a, b = rng.sample([3, 5, 7, 11, 4294967296], 2)
        progs.append(("scopes", [
            lab(0),
            st(("set", L_("l", 0), ("i", a))), st(("set", L_("g", 0), ("i", a))), st(("set", L_("v", 0), ("i", a))),
            st(("set", L_("m", 0), ("i", a))), st(("set", L_("p", 0), ("i", a))),
            st(("th", 1, [("i", b)])),
            st(("pr", [V("l", 0), V("g", 0), V("v", 0), V("m", 0), V("p", 0)])),
            st(("set", L_("l", 1), ("call", 2, [("i", b), ("s", "w")]))),
            st(("pr", [V("l", 0), V("g", 0), V("v", 0), V("m", 0), V("p", 0), V("l", 1), V("l", 10)])),
            st(("cset", "add", L_("g", 0), ("i", 1))), st(("cset", "mul", L_("v", 0), ("i", 2))),
            st(("cset", "sub", L_("m", 0), ("i", 1))), st(("cset", "bxor", L_("p", 0), ("i", 255))),
            st(("pr", [V("g", 0), V("v", 0), V("m", 0), V("p", 0)])),
            st(("end1", ("b", "add", V("g", 0), V("v", 0)))),
            lab(1, [("l", 10)]),
            st(("pr", [("s", "t"), V("l", 0), V("g", 0), V("l", 10)])),
            st(("set", L_("l", 0), ("i", 1))), st(("cset", "add", L_("g", 0), V("l", 10))),
            st(("cset", "add", L_("v", 0), V("l", 10))), st(("inc", L_("m", 0))), st(("dec", L_("p", 0))),
            st(("end0",)),
            lab(2, [("l", 10), ("l", 11)]),
            st(("pr", [("s", "w"), V("l", 0), V("g", 0), V("l", 10), V("l", 11)])),
            st(("set", L_("g", 0), ("i", 1000))), st(("th", 3, [])),
            st(("cset", "add", L_("v", 0), ("i", 1))),
            st(("end1", ("b", "add", V("g", 0), V("l", 10)))),
            lab(3), st(("cset", "add", L_("g", 0), ("i", 1))), st(("end0",)),
        ]))
    return progs


def trycatch_family(rng, tier):
    V = G.var
    progs = []
    for rep in range(3 if tier == "quick" else 20):
        k = rng.randrange(0, 4)
        inner_has = rng.random() < 0.7
        both = rng.random() < 0.5
        inner_h = [(100, [("l", 14)], [("pr", [("s", "inner"), V("l", 14)])])] if inner_has else [(102, [], [("pr", [("s", "other")])])]
        outer_h = [(100 if both or not inner_has else 101, [("l", 14), ("l", 15)], [("pr", [("s", "outer"), V("l", 14), V("l", 15)])])]
        body = ("blk", [
            ("pr", [("s", "a")]),
            ("try", ("blk", [("pr", [("s", "b")]),
                             ("for", ("set", L_("l", 20), ("i", 0)), ("b", "lt", V("l", 20), ("i", 4)), ("inc", L_("l", 20)),
                              ("blk", [("if", ("b", "eq", V("l", 20), ("i", k)), ("throw", 100, [V("l", 20), ("i", 9)])), ("pr", [V("l", 20)])])),
                             ("pr", [("s", "c")])]), inner_h),
            ("pr", [("s", "d")]),
            ("if", ("b", "eq", V("l", 20), ("i", 4)), ("throw", outer_h[0][0], [("s", "late")])),
            ("pr", [("s", "e")]),
        ])
        progs.append(("nested-try", [lab(0), st(("try", body, outer_h)), st(("pr", [("s", "f"), V("l", 14), V("l", 15)])),
                                     st(("end1", V("l", 20)))]))
    return progs


def switch_family(rng, tier):
    V = G.var
    progs = []
    labels = [0, 1, -1, 2, 255, 256, 65536, 2147483647, 2147483648, -2147483648, -2147483649, 4294967295, 4294967296,
              4294967297, -4294967297, 2 ** 63 - 1, -(2 ** 63 - 1)]
    for rep in range(3 if tier == "quick" else 20):
        ls = rng.sample(labels, 6)
        items = []
        for z in ls:
            items.append(("ci", z))
            items.append(("st", ("pr", [("s", "case"), L.lval_as_expr(L_("l", 0))])))
            if rng.random() < 0.6:
                items.append(("st", ("brk",)))
        if rng.random() < 0.3:
            items = [("cd",), ("st", ("pr", [("s", "dflt")]))] + items
        else:
            items += [("cd",), ("st", ("pr", [("s", "dflt")]))]
        body = []
        for z in ls + rng.sample(labels, 3):
            body.append(st(("set", L_("l", 0), G.I(z))))
            body.append(st(("sw", V("l", 0), items)))
            body.append(st(("sw", G.I(z), items)))
        # deep nesting inside a switch inside a loop
        deep = ("for", ("set", L_("l", 20), ("i", 0)), ("b", "lt", V("l", 20), ("i", 3)), ("inc", L_("l", 20)),
                ("sw", V("l", 20), [("ci", 0), ("st", ("if", V("l", 0), ("blk", [("if", ("b", "ne", V("l", 0), ("i", 1)), ("blk", [
                    ("set", L_("l", 1), ("b", "add", ("b", "mul", ("b", "add", V("l", 20), ("i", 1)), ("i", 2)), ("i", 3))),
                    ("while", ("b", "lt", V("l", 1), ("i", 8)), ("blk", [("inc", L_("l", 1)), ("if", ("b", "eq", V("l", 1), ("i", 6)), ("cont",)), ("pr", [V("l", 1)])]))]))]))),
                    ("st", ("brk",)), ("cs", "1"), ("st", ("pr", [("s", "one")])), ("cd",), ("st", ("pr", [("s", "fall")]))]))
        body.append(st(deep))
        progs.append(("switch-labels", [lab(0)] + body + [st(("end1", V("l", 0)))]))
    return progs


def operator_family(rng, tier):
    """every binary operator on boundary operands, literal (folded where the compiler folds) and run-time"""
    V = G.var
    vals = [0, 1, -1, 2, 3, -3, 7, 255, 256, 65536, 2 ** 31 - 1, 2 ** 31, 2 ** 32, 2 ** 32 + 1, 2 ** 62, 2 ** 63 - 1, -(2 ** 63 - 1), -(2 ** 63)]
    ops = ["add", "sub", "mul", "div", "mod", "band", "bor", "bxor", "shl", "shr", "eq", "ne", "lt", "le", "gt", "ge"]
    progs = []
    n = 6 if tier == "quick" else 60
    for rep in range(n):
        body = []
        for _ in range(18):
            op = rng.choice(ops)
            a, b = rng.choice(vals), rng.choice(vals)
            if op in ("shl", "shr"):
                b = rng.choice([0, 1, 2, 31, 32, 62, 63, 64, 65, -1, 2 ** 32])
            if op in ("div", "mod") and b == 0:
                b = 5

            def c(z):
                if z == -(2 ** 63):
                    return ("b", "sub", G.I(-(2 ** 63 - 1)), ("i", 1))
                return G.I(z)
            body.append(st(("set", L_("l", 0), c(a))))
            body.append(st(("set", L_("l", 1), c(b))))
            body.append(st(("pr", [("b", op, c(a), c(b)), ("b", op, V("l", 0), V("l", 1)), ("b", op, c(a), V("l", 1))])))
        # precedence and associativity: the printer omits every parenthesis the grammar makes redundant
        for _ in range(6):
            body.append(st(("pr", [rand_tree(rng, 4)])))
        progs.append(("operators", [lab(0)] + body + [st(("end0",))]))
    return progs


def rand_tree(rng, d):
    if d == 0 or rng.random() < 0.2:
        return ("i", rng.choice([1, 2, 3, 4, 5, 6, 7, 8, 9, 16, 255]))
    r = rng.random()
    if r < 0.8:
        op = rng.choice(["add", "sub", "mul", "band", "bor", "bxor", "shl", "shr", "eq", "ne", "lt", "le", "gt", "ge"])
        b = rand_tree(rng, d - 1)
        if op in ("shl", "shr"):
            b = ("i", rng.choice([0, 1, 2, 3]))
        return ("b", op, rand_tree(rng, d - 1), b)
    if r < 0.9:
        return (rng.choice(["and", "or"]), rand_tree(rng, d - 1), rand_tree(rng, d - 1))
    return (rng.choice(["neg", "not", "cpl"]), rand_tree(rng, d - 1))


def string_family(rng, tier):
    V = G.var
    progs = []
    words = G.WORDS + ["5", "-5", "05", "NIL", "1e3", " 7"]
    for rep in range(3 if tier == "quick" else 30):
        body = []
        for _ in range(10):
            a, b = rng.choice(words), rng.choice(words)
            n = rng.choice([0, 5, -5, 7, 4294967296])
            body.append(st(("set", L_("l", 4), ("s", a))))
            body.append(st(("set", L_("l", 5), ("b", "add", ("s", b), ("s", "")))))
            body.append(st(("pr", [("b", "eq", ("s", a), ("s", b)), ("b", "eq", V("l", 4), ("s", b)), ("b", "ne", V("l", 4), V("l", 5)),
                                   ("b", "eq", ("s", a), ("s", a)), ("b", "eq", V("l", 4), V("l", 4)),
                                   ("b", "eq", G.I(n), ("s", a)), ("b", "eq", ("s", b), G.I(n)),
                                   ("b", "add", ("b", "add", ("s", a), G.I(n)), ("s", b)), ("b", "add", ("b", "add", G.I(n), G.I(n)), ("s", a)),
                                   ("size", ("s", a)), ("not", ("s", a)), ("and", ("s", a), ("s", b)), ("or", ("s", a), ("s", b))])))
            body.append(st(("sw", V("l", 4), [("cs", b), ("st", ("pr", [("s", "is-b")])), ("st", ("brk",)), ("cs", a if a != b else a + "_"),
                                              ("st", ("pr", [("s", "is-a")])), ("cd",), ("st", ("pr", [("s", "neither")]))])))
        progs.append(("strings", [lab(0)] + body + [st(("end1", V("l", 4)))]))
    return progs


def float_family(rng, tier):
    """float literals are opaque: printed ("%.3f" of the float), negated (folded at compile time on a
    literal, at run time on a variable), concatenated, copied, passed, returned, tested for truth"""
    V = G.var
    progs = []
    for rep in range(2 if tier == "quick" else 12):
        fs = rng.sample(G.FLOATS, 8)
        body = [st(("pr", [L.flt(x) for x in fs])), st(("pr", [("neg", L.flt(x)) for x in fs]))]
        for x in fs:
            f = L.flt(x)
            body += [st(("set", L_("l", 9), f)),
                     st(("pr", [V("l", 9), ("neg", V("l", 9)), ("b", "add", ("s", "<"), V("l", 9)), ("b", "add", V("l", 9), ("s", ">")),
                                ("not", f), ("not", V("l", 9)), ("and", f, ("i", 1)), ("or", ("i", 0), V("l", 9)), ("size", V("l", 9)),
                                ("b", "eq", V("l", 9), ("nil",))])),
                     st(("ife", f, ("pr", [("s", "t")]), ("pr", [("s", "f")]))),
                     st(("set", L_("l", 6, [("i", 1)]), ("neg", f))), st(("th", 1, [("x", V("l", 6), ("i", 1)), f]))]
        body += [st(("set", L_("v", 0), L.flt(fs[0]))), st(("set", L_("l", 1), ("call", 2, [L.flt(fs[1])]))), st(("pr", [V("l", 1)])),
                 st(("sw", L.flt("1.5"), [("cs", "1.500"), ("st", ("pr", [("s", "label 1.500")])), ("st", ("brk",)), ("cd",), ("st", ("pr", [("s", "default")]))])),
                 st(("end1", ("neg", L.flt(fs[2]))))]
        progs.append(("floats", [lab(0)] + body + [lab(1, [("l", 10), ("l", 11)]), st(("pr", [("s", "thread"), V("l", 10), V("l", 11)])), st(("end0",)),
                                                    lab(2, [("l", 10)]), st(("end1", ("neg", V("l", 10))))]))
    return progs


def manyargs_family(rng, tier):
    """more than 5 arguments switch to the counted opcodes (OP_EXEC_CMD_COUNT1, OP_EXEC_METHOD_COUNT1)"""
    V = G.var
    progs = []
    for rep in range(2 if tier == "quick" else 12):
        np = rng.randrange(4, 9)
        params = [("l", 10 + k) for k in range(np)]
        summ = ("i", 0)
        for k in range(np):
            summ = ("b", "add", ("b", "mul", summ, ("i", 3)), V("l", 10 + k))
        body = []
        for na in sorted(set([0, 1, 4, 5, 6, np - 1, np, np + 1])):
            args = [G.I(rng.choice([1, 2, 5, 7, -3, 256, 4294967296])) for _ in range(na)]
            body.append(st(("pr", [("call", 2, args[:np])])) if na >= np else st(("th", 1, args)))
            body.append(st(("th", 1, args)))
            body.append(st(("pr", args + [("s", "|")])))
        body.append(st(("set", L_("l", 8), ("carr", [("i", k) for k in range(1, rng.randrange(6, 14))]))))
        body.append(st(("pr", [("size", V("l", 8)), ("x", V("l", 8), ("size", V("l", 8)))])))
        progs.append(("many-args", [lab(0)] + body + [st(("end0",)),
                                    lab(1, params), st(("pr", [V("l", 10 + k) for k in range(np)])), st(("end0",)),
                                    lab(2, params), st(("end1", summ))]))
    return progs


def misc_family(rng, tier):
    """hand-written programs: arrays kept alive by an alias, emptied arrays, self assignment, nested and
    negative/large keys, constant arrays of constant arrays, waitthread inside conditions and operands
    (the operand stack survives the suspension), end from inside a loop inside a switch"""
    V = G.var
    I = G.I

    def lv(sc, x, idx=()):
        return ("lv", sc, x, list(idx))

    def pr(*a):
        return ("pr", list(a))

    def S(t):
        return ("s", t)

    def X(a, i):
        return ("x", a, i)
    progs = {
        "keepalive": [lab(0), st(("set", lv("l", 6, [I(1)]), I(1))), st(("set", lv("l", 7), V("l", 6))), st(("set", lv("l", 6), ("nil",))),
                      st(pr(X(V("l", 7), I(1)), V("l", 6), ("size", V("l", 7)))), st(("end0",))],
        "emptyarr": [lab(0), st(("set", lv("l", 6, [I(1)]), I(1))), st(("set", lv("l", 6, [I(1)]), ("nil",))), st(pr(("size", V("l", 6)), X(V("l", 6), I(1)))),
                     st(("set", lv("l", 6, [I(2)]), I(5))), st(pr(("size", V("l", 6)))), st(("end0",))],
        "selfassign": [lab(0), st(("set", lv("l", 0), I(5))), st(("set", lv("l", 0), V("l", 0))), st(("set", lv("l", 1), V("l", 0))),
                       st(("set", lv("l", 0), ("b", "add", V("l", 0), V("l", 0)))), st(pr(V("l", 0), V("l", 1))),
                       st(("set", lv("l", 6, [I(1)]), I(1))), st(("set", lv("l", 6), V("l", 6))), st(pr(X(V("l", 6), I(1)))), st(("end0",))],
        "overwrite-elem": [lab(0), st(("set", lv("l", 6, [I(1), I(2)]), I(7))), st(("set", lv("l", 7), X(V("l", 6), I(1)))), st(("set", lv("l", 6, [I(1)]), I(3))),
                           st(pr(X(V("l", 7), I(2)), X(V("l", 6), I(1)))), st(("end0",))],
        "array-outlives-thread": [lab(0), st(("th", 1, [])), st(pr(X(V("v", 6), I(1)), ("size", V("v", 6)))), st(("set", lv("v", 6, [I(2)]), I(9))),
                                  st(pr(("size", V("v", 6)))), st(("end0",)), lab(1), st(("set", lv("l", 6, [I(1)]), I(4))), st(("set", lv("v", 6), V("l", 6))), st(("end0",))],
        "string-keys": [lab(0), st(("set", lv("l", 6, [S("a")]), I(1))), st(("set", lv("l", 6, [S("b")]), I(2))),
                        st(("set", lv("l", 6, [S("a")]), ("b", "add", X(V("l", 6), S("a")), X(V("l", 6), S("b"))))),
                        st(pr(X(V("l", 6), S("a")), ("size", V("l", 6)), X(V("l", 6), S("zz")))), st(("end0",))],
        "odd-keys": [lab(0), st(("set", lv("l", 6, [I(-1)]), I(1))), st(("set", lv("l", 6, [I(0)]), I(2))), st(("set", lv("l", 6, [I(4294967296)]), I(3))),
                     st(pr(X(V("l", 6), I(-1)), X(V("l", 6), I(0)), X(V("l", 6), I(4294967296)), X(V("l", 6), I(1)), ("size", V("l", 6)))), st(("end0",))],
        "nested-const-arrays": [lab(0), st(("set", lv("l", 8), ("carr", [("carr", [I(1), I(2)]), ("carr", [I(3), I(4)])]))),
                                st(pr(X(X(V("l", 8), I(2)), I(1)), ("size", V("l", 8)), ("size", X(V("l", 8), I(1))))),
                                st(("set", lv("l", 8, [I(1), I(2)]), I(9))), st(pr(X(X(V("l", 8), I(1)), I(2)))), st(("end0",))],
        "waitthread-in-operands": [lab(0), st(("set", lv("l", 0), I(0))),
                                   st(("while", ("b", "lt", ("call", 1, [V("l", 0)]), I(3)), ("blk", [("inc", lv("l", 0)), pr(V("l", 0))]))),
                                   st(("if", ("and", ("call", 1, [I(0)]), ("call", 1, [I(5)])), pr(S("no")))),
                                   st(pr(("b", "add", ("call", 1, [I(1)]), ("b", "mul", ("call", 1, [I(2)]), ("call", 1, [I(3)]))))),
                                   st(("end1", ("call", 1, [I(9)]))), lab(1, [("l", 10)]), st(pr(S("f"), V("l", 10))), st(("end1", V("l", 10)))],
        "end-in-loop-in-switch": [lab(0), st(("set", lv("l", 1), ("call", 1, [I(2)]))), st(pr(V("l", 1))), st(("end0",)), lab(1, [("l", 10)]),
                                  st(("for", ("set", lv("l", 20), I(0)), ("b", "lt", V("l", 20), I(5)), ("inc", lv("l", 20)),
                                      ("sw", V("l", 20), [("ci", 0), ("st", ("cont",)), ("cd",),
                                                          ("st", ("if", ("b", "eq", V("l", 20), V("l", 10)), ("end1", ("b", "mul", V("l", 20), I(50)))))]))),
                                  st(("end1", I(-1)))],
    }
    return [("misc:" + k, v) for k, v in sorted(progs.items())]


def gotoargs_family(rng, tier):
    """goto with arguments: the label's parameters take them (F-C03-h: the engine shifted them by one)"""
    if not FLAGS["goto_args"]:
        return []
    V = G.var
    progs = []
    for rep in range(2 if tier == "quick" else 8):
        a, b = rng.sample([5, 6, 7, 256, 4294967296], 2)
        progs.append(("goto-args", [
            lab(0), st(("set", L_("l", 0), ("i", 0))),
            st(("goto", 54, [("i", a), ("b", "add", ("i", b), ("i", 1))])),
            st(("pr", [("s", "skipped")])),
            lab(54, [("l", 10), ("l", 11), ("l", 12)]),
            st(("pr", [V("l", 10), V("l", 11), V("l", 12)])),
            st(("inc", L_("l", 0))),
            st(("if", ("b", "lt", V("l", 0), ("i", 3)), ("goto", 54, [V("l", 0)]))),
            st(("th", 1, [("i", b)])),
            st(("end1", V("l", 10))),
            lab(1, [("l", 10)]),
            st(("for", ("set", L_("l", 20), ("i", 0)), ("b", "lt", V("l", 20), ("i", 3)), ("inc", L_("l", 20)),
                ("if", ("b", "eq", V("l", 20), ("i", 1)), ("goto", 55, [("s", "from loop"), V("l", 20), V("l", 10)])))),
            st(("end0",)),
            lab(55, [("l", 11), ("l", 12), ("l", 13)]),
            st(("pr", [V("l", 11), V("l", 12), V("l", 13)])),
            st(("end0",)),
        ]))
    return progs


# ---- jump-target-fusion: peephole rules of the compiler across jump landing points
FUSION_STORES = ["set", "cset", "inc", "dec"]
FUSION_READS = ["pr", "cond", "arg", "size", "inc", "cset", "copy"]
FUSION_CONSTRUCTS = ["if-join", "else-join", "then-join", "switch-end", "case-fallthrough", "loop-break", "do-continue",
                     "for-continue-inc", "for-backedge", "while-backedge", "do-backedge", "try-end", "catch-end", "catch-entry",
                     "goto-label", "while-continue", "and-store", "or-store"]


def fusion_snippet(con, sc, store, read, take, uid):
    """items of one scenario: the statement just before a jump landing point stores the scope variable
    V, the code just after it starts by reading V; `take` = the jump to the landing point is taken at
    run time.  None when the combination has no spelling."""
    V = G.var(sc, 0)
    LV = L_(sc, 0)
    c = 20 + uid                      # loop counter
    C, LC = G.var("l", c), L_("l", c)
    T = G.var("l", 1)                 # run-time flag: jump taken
    xl, gl = 100 + uid, 50 + uid

    def pr(*a):
        return ("pr", list(a))

    def S(val=None):
        if store == "set":
            return ("set", LV, val if val is not None else ("b", "add", C, ("i", 5)))
        if store == "cset":
            return ("cset", "add", LV, ("i", 2))
        if store == "setarr":
            return ("set", LV, G.var("l", 16))
        return (store, LV)
    arr = store == "setarr"
    if arr and read not in ("idx", "size", "copy"):
        return None
    if read == "idx" and not arr:
        return None

    def R():
        if read == "pr":
            return [pr(V)]
        if read == "cond":
            return [("ife", ("b", "lt", V, ("i", 5)), pr(("s", "lt")), pr(("s", "ge")))]
        if read == "arg":
            return [("th", 1, [V])]
        if read == "size":
            return [pr(("size", V))]
        if read == "inc":
            return [("inc", LV), pr(V)]
        if read == "cset":
            return [("cset", "add", LV, ("i", 1)), pr(V)]
        if read == "copy":
            return [("set", L_("l", 5), V), pr(("size", G.var("l", 5))) if arr else pr(G.var("l", 5))]
        if read == "idx":
            return [pr(("x", V, ("i", 1)))]
        raise ValueError(read)

    def cond_reading_v():
        """a loop condition that starts by reading V and is bounded by the counter"""
        if arr:
            return None
        lim = ("b", "lt", C, ("i", 4))
        if read == "pr":
            return ("and", ("b", "lt", V, ("i", 9)), lim)
        if read == "cond":
            return ("and", ("not", ("b", "ge", V, ("i", 9))), lim)
        if read == "size":
            return ("and", ("b", "lt", ("size", V), ("i", 2)), lim)
        if read == "copy":
            return ("and", ("b", "ne", V, ("i", 9)), lim)
        if read == "inc":
            return ("and", ("b", "lt", ("b", "add", V, ("i", 1)), ("i", 10)), lim)
        if read == "cset":
            return ("b", "lt", ("b", "band", V, ("i", 255)), ("b", "mul", ("b", "sub", ("i", 4), C), ("i", 300)))
        return None

    def inc_reading_v():
        if read == "inc":
            return ("inc", LV)
        if read == "cset":
            return ("cset", "add", LV, ("i", 1))
        if read == "copy":
            return ("set", L_("l", 5), V)
        if read == "pr":
            return pr(V)
        if read == "arg":
            return ("th", 1, [V])
        if read == "size":
            return pr(("size", V))
        if read == "idx":
            return pr(("x", V, ("i", 1)))
        return None
    head = [st(pr(("s", "%s %s %s %s %d" % (con, sc, store, read, take)))),
            st(("set", LV, G.var("l", 17) if arr else ("i", 3))), st(("set", L_("l", 1), ("i", take))), st(("set", LC, ("i", 0)))]
    guard = ("and", T, ("b", "eq", C, ("i", 1)))
    if con == "if-join":
        body = [st(("if", T, ("blk", [S()])))] + [st(x) for x in R()]
    elif con == "else-join":
        body = [st(("ife", T, ("blk", [pr(("s", "x"))]), ("blk", [S()])))] + [st(x) for x in R()]
    elif con == "then-join":
        body = [st(("ife", T, ("blk", [S()]), ("blk", [pr(("s", "x"))])))] + [st(x) for x in R()]
    elif con == "switch-end":
        body = [st(("sw", T, [("ci", 1), ("st", S())]))] + [st(x) for x in R()]
    elif con == "case-fallthrough":
        body = [st(("sw", T, [("ci", 0), ("st", S()), ("ci", 1)] + [("st", x) for x in R()] + [("st", ("brk",)), ("cd",), ("st", pr(("s", "no")))]))]
    elif con == "loop-break":
        body = [st(("while", ("b", "lt", C, ("i", 3)), ("blk", [("inc", LC), ("if", T, ("brk",)), S()])))] + [st(x) for x in R()]
    elif con == "do-continue":
        cd = cond_reading_v()
        if cd is None:
            return None
        body = [st(("do", ("blk", [("inc", LC), ("if", guard, ("cont",)), S()]), cd)), st(pr(V, C))]
    elif con == "for-continue-inc":
        inc = inc_reading_v()
        if inc is None:
            return None
        body = [st(("for", ("nop",), ("b", "lt", C, ("i", 4)), inc, ("blk", [("inc", LC), ("if", guard, ("cont",)), S()]))),
                st(pr(("size", V), C) if arr else pr(V, C))]
    elif con == "for-backedge":
        if store != "set" or arr or read not in ("pr", "cond", "copy"):
            return None
        body = [st(("for", ("set", LV, ("i", take)), ("b", "lt", V, ("i", 3)), ("inc", LV), ("blk", R())))]
    elif con == "while-backedge":
        if arr:
            return None
        body = [st(S(("i", take))), st(("while", ("b", "lt", V, ("i", 6)), ("blk", R() + [("cset", "add", LV, ("i", 2))])))]
    elif con == "do-backedge":
        body = [st(S()), st(("do", ("blk", R() + [("inc", LC)]), ("b", "lt", C, ("i", 1 + take))))]
    elif con == "try-end":
        body = [st(("try", ("blk", [("if", T, ("throw", xl, [])), S()]), [(xl, [], [pr(("s", "c"))])]))] + [st(x) for x in R()]
    elif con == "catch-end":
        body = [st(("try", ("blk", [("if", T, ("throw", xl, [])), pr(("s", "n"))]), [(xl, [], [S()])]))] + [st(x) for x in R()]
    elif con == "catch-entry":
        body = [st(("try", ("blk", [S(), ("if", T, ("throw", xl, [])), pr(("s", "n"))]), [(xl, [], R())]))]
    elif con == "goto-label":
        body = [st(("if", T, ("goto", gl))), st(S()), lab(gl)] + [st(x) for x in R()]
    elif con == "while-continue":
        body = [st(("while", ("b", "lt", C, ("i", 3)), ("blk", [("inc", LC), ("if", guard, ("cont",)), S()])))] + [st(x) for x in R()]
    elif con in ("and-store", "or-store"):
        if store != "set" or arr:
            return None
        body = [st(("set", LV, ("and" if con == "and-store" else "or", T, G.var("l", 2))))] + [st(x) for x in R()]
    else:
        raise ValueError(con)
    return head + body


def fusion_family(rng, tier):
    """deterministic: every landing-point construct x store kind x read kind x jump taken / not taken,
    the scope of V rotating over local/group/level/game/parm; plus negation / boolean cast / constant
    folding applied to the result of a short-circuit join"""
    progs = []
    snippets = []
    k = 0
    scopes = ["l", "g", "v", "m", "p"]
    for con in FUSION_CONSTRUCTS:
        for store in FUSION_STORES + ["setarr"]:
            for read in FUSION_READS + ["idx"]:
                for take in (1, 0):
                    for sc in (scopes if tier != "quick" else [scopes[k % 5]]):
                        sn = (con, sc, store, read, take)
                        if fusion_snippet(con, sc, store, read, take, 0) is not None:
                            snippets.append(sn)
                    k += 1
    per = 10
    for i in range(0, len(snippets), per):
        items = [lab(0), st(("set", L_("l", 16, [("i", 1)]), ("i", 41))), st(("set", L_("l", 16, [("i", 2)]), ("i", 42))), st(("set", L_("l", 17, [("i", 1)]), ("i", 71))), st(("set", L_("l", 2), ("i", 1)))]
        for uid, (con, sc, store, read, take) in enumerate(snippets[i:i + per]):
            items += fusion_snippet(con, sc, store, read, take, uid)
        items += [st(("end0",)), lab(1, [("l", 10)]), st(("pr", [("s", "arg"), G.var("l", 10)])), st(("end0",))]
        progs.append(("jump-target-fusion", items))
    # unary operators and casts applied to the value left by a short-circuit join
    exprs = []
    lefts = [("i", 0), ("i", 1), G.var("l", 0), G.var("l", 1)]
    rights = [("i", 5), ("i", 0), G.var("l", 1), ("not", G.var("l", 0)), ("neg", ("i", 7)), ("not", ("i", 3))]
    for j in ("and", "or"):
        for a in lefts:
            for b in rights:
                e = (j, a, b)
                exprs += [("neg", e), ("not", e), ("cpl", e), ("not", ("not", e)), ("b", "add", e, ("i", 1)), (j, e, b), ("b", "eq", e, ("neg", ("i", 1)))]
    for i in range(0, len(exprs), 24):
        items = [lab(0), st(("set", L_("l", 0), ("i", 0))), st(("set", L_("l", 1), ("i", 1)))]
        for e in exprs[i:i + 24]:
            items.append(st(("pr", [e])))
            items.append(st(("ife", e, ("pr", [("s", "t")]), ("pr", [("s", "f")]))))
        items.append(st(("end0",)))
        progs.append(("jump-target-fusion", items))
    return progs


def goto_family(rng, tier):
    V = G.var
    progs = []
    for rep in range(3 if tier == "quick" else 20):
        k = rng.randrange(1, 4)
        progs.append(("goto", [
            lab(0), st(("set", L_("l", 0), ("i", 0))),
            lab(50), st(("inc", L_("l", 0))), st(("pr", [("s", "at50"), V("l", 0)])),
            st(("for", ("set", L_("l", 20), ("i", 0)), ("b", "lt", V("l", 20), ("i", 5)), ("inc", L_("l", 20)),
                ("blk", [("sw", V("l", 20), [("ci", k), ("st", ("if", ("b", "lt", V("l", 0), ("i", 3)), ("goto", 50))), ("st", ("goto", 51)), ("cd",), ("st", ("pr", [V("l", 20)]))])]))),
            st(("pr", [("s", "not reached")])),
            lab(51), st(("pr", [("s", "at51"), V("l", 20)])),
            st(("try", ("blk", [("while", ("i", 1), ("blk", [("goto", 52)]))]), [(100, [], [("pr", [("s", "no")])])])),
            lab(52), st(("pr", [("s", "at52")])),
            st(("set", L_("l", 1), ("call", 1, [("i", 2)]))),
            st(("end1", V("l", 1))),
            lab(1, [("l", 10)]),
            st(("if", ("b", "gt", V("l", 10), ("i", 1)), ("goto", 53))),
            st(("end1", ("i", 0))),
            lab(53), st(("end1", ("b", "mul", V("l", 10), ("i", 21)))),
        ]))
    return progs


def random_family(rng, tier):
    n = 1000 if tier == "quick" else 8000
    progs = []
    for i in range(n):
        big = rng.random() < 0.3
        g = G.Gen(rng, FLAGS, max_stmts=rng.choice([40, 60, 80]) if not big else 110, max_depth=rng.choice([3, 4, 5, 6]))
        ast = g.gen_program()
        progs.append(("random", ast, g.cov, g.host_args))
    return progs


# ------------------------------------------------------------------------------ running

class Prog:
    def __init__(self, pid, origin, ast, args=()):
        self.id, self.origin, self.ast, self.args = pid, origin, ast, list(args)


def driver_cases(progs):
    return [Case(p.id, " ".join(str(a) for a in p.args), [L.ser_program(p.ast)], p.origin) for p in progs]


def parse_driver(lines):
    """-> None (stuck) | 'parse-error ..' | list of observation lines"""
    if lines and lines[0].startswith("parse-error"):
        return lines[0]
    if lines and lines[0] == "stuck":
        return None
    return [l for l in lines if l[:2] in ("o ", "r ", "v ")]


def sources_for(p, rng, k, variants=True):
    """[(tag, source text)]: the plain layout, k-1 random layouts, the rewritten spellings"""
    out = [("plain", L.print_program(p.ast, plain=True))]
    for i in range(k - 1):
        sd = rng.randrange(1 << 30)
        out.append(("layout-%d" % sd, L.print_program(p.ast, random.Random(sd))))
    return out


def harness_case(p, sources):
    return Case(p.id, " ".join(str(a) for a in p.args), ["S " + s.encode("latin-1").hex() for _, s in sources], p.origin)


def split_blocks(lines):
    blocks, cur = [], None
    for l in lines:
        if l.startswith("k "):
            cur = []
            blocks.append(cur)
        elif cur is not None:
            cur.append(l)
    return blocks


def judge(expected, block):
    """-> None | (kind, why)"""
    for l in block:
        if l.startswith("compile-error"):
            return ("compile-rejected", "the compiler rejected a valid program: " + l)
    for l in block:
        if l.startswith("exception"):
            return ("engine-exception", "running the program raised to the host: " + l)
    obs = [l for l in block if l[:2] in ("o ", "r ", "v ")]
    if obs != expected:
        k = 0
        while k < min(len(obs), len(expected)) and obs[k] == expected[k]:
            k += 1
        w = [l for l in block if l.startswith("w ")]
        return ("behaviour-mismatch", "reference semantics: %s | engine: %s%s" % (
            expected[k] if k < len(expected) else None, obs[k] if k < len(obs) else None,
            (" | engine diagnostics: " + w[0][:300]) if w else ""))
    for l in block:
        if l.startswith("w "):
            return ("engine-error", "the engine reported a script error on an error-free program: " + l[:400])
    if "notidle" in block:
        return ("not-idle", "threads still alive after the run")
    return None


UNCONFIRMED = []     # cases whose crash/hang in a batch did not reproduce alone


class Runner:
    def __init__(self):
        self.drv = vlib.ocaml_driver("C03")
        self.exe = vlib.build_harness("C03", ["harness/C03.cpp"], "asan", use_lib=True)

    def model(self, progs):
        """{id: None | str | [lines]}"""
        res = {}
        cases = driver_cases(progs)
        for i in range(0, len(cases), 400):
            out, crashes = vlib.run_resilient(self.drv, ["model"], cases[i:i + 400], timeout=600)
            for c in cases[i:i + 400]:
                if c.id in crashes or c.id not in out:
                    res[c.id] = "model-crash %s" % str(crashes.get(c.id, {}).get("stderr", ""))[-300:]
                else:
                    res[c.id] = parse_driver(out[c.id])
        return res

    def engine(self, progs, srcs):
        """{id: [blocks] | {'crash': info}}"""
        res = {}
        cases = [harness_case(p, srcs[p.id]) for p in progs]
        for i in range(0, len(cases), 150):
            out, crashes = vlib.run_resilient(self.exe, [], cases[i:i + 150], env=vlib.ASAN_ENV, timeout=900)
            for c in cases[i:i + 150]:
                if c.id in crashes:
                    res[c.id] = {"crash": crashes[c.id]}
                elif c.id not in out:
                    res[c.id] = {"crash": {"rc": "missing"}}
                else:
                    res[c.id] = split_blocks(out[c.id])
        return res


def evaluate(runner, progs, rng, k):
    """-> (results {id: dict(status, ...)}, stats)"""
    mod = runner.model(progs)
    live = [p for p in progs if isinstance(mod[p.id], list)]
    srcs = {p.id: sources_for(p, rng, k) for p in live}
    eng = runner.engine(live, srcs)
    res = {}
    for p in progs:
        m = mod[p.id]
        if m is None:
            res[p.id] = {"status": "stuck"}
            continue
        if isinstance(m, str):
            res[p.id] = {"status": "framework", "why": m}
            continue
        e = eng[p.id]
        if isinstance(e, dict) and not e["crash"].get("skipped"):
            # confirm a crash or a hang by running the case alone with a generous wall-clock budget
            # (on a busy machine a batch can be starved past the per-case watchdog)
            env = dict(vlib.ASAN_ENV)
            env["C03_WATCHDOG"] = "40"
            rc, o, er = vlib.sh([runner.exe], inp=harness_case(p, srcs[p.id]).text(), env=env, timeout=120)
            outs, _ = vlib.split_output(o)
            lines = outs.get(p.id, [])
            if rc == 0 and lines and lines[-1] == "end":
                UNCONFIRMED.append(p.id)
                e = split_blocks(lines[:-1])
            else:
                nk = len([x for x in lines if x.startswith("k ")])
                e = {"crash": {"rc": rc, "stderr": er[-3000:], "timeout": rc in (124, -9), "at": max(0, nk - 1)}}
        if isinstance(e, dict):
            c = e["crash"]
            if c.get("skipped"):
                res[p.id] = {"status": "skipped"}
                continue
            kind = "timeout" if c.get("timeout") else "crash"
            at = min(c.get("at", 0), len(srcs[p.id]) - 1)
            res[p.id] = {"status": "bad", "kind": kind, "why": "the engine %s: rc=%s %s" % (
                "hung" if kind == "timeout" else "crashed", c.get("rc"), vlib._err_head(c.get("stderr", ""))),
                "expected": m, "layout": srcs[p.id][at][0], "source": srcs[p.id][at][1], "sources": srcs[p.id]}
            continue
        bad = None
        if len(e) != len(srcs[p.id]):
            bad = ("framework", "harness printed %d blocks for %d sources" % (len(e), len(srcs[p.id])), 0)
        else:
            for i, blk in enumerate(e):
                j = judge(m, blk)
                if j:
                    bad = (j[0], j[1], i)
                    break
        if bad:
            res[p.id] = {"status": "bad", "kind": bad[0], "why": bad[1], "expected": m, "layout": srcs[p.id][bad[2]][0],
                         "source": srcs[p.id][bad[2]][1], "actual": e[bad[2]] if bad[2] < len(e) else None, "sources": srcs[p.id]}
        else:
            res[p.id] = {"status": "ok", "obs": m, "nsrc": len(srcs[p.id])}
    return res


def shrink(runner, p, kind, layout, budget=40):
    """smallest program (by statement removal) that still shows the same kind of disagreement;
    every candidate runs in its own engine process (a hang costs one watchdog period)"""
    import concurrent.futures
    cur = p.ast
    sd = int(layout.split("-")[1]) if layout.startswith("layout-") else None
    slow = kind in ("timeout", "crash")
    rounds = 0

    def one(q, exp):
        srcs = [("plain", L.print_program(q.ast, plain=True))]
        if sd is not None:
            srcs.append((layout, L.print_program(q.ast, random.Random(sd))))
        c = harness_case(q, srcs)
        env = dict(vlib.ASAN_ENV)
        env["C03_WATCHDOG"] = "20"
        rc, o, e = vlib.sh([runner.exe], inp=c.text(), env=env, timeout=60)
        outs, _ = vlib.split_output(o)
        lines = outs.get(q.id, [])
        if rc != 0 or not lines or lines[-1] != "end":
            k = "timeout" if rc in (124, -9) else "crash"
            return k == kind
        for blk in split_blocks(lines[:-1]):
            j = judge(exp, blk)
            if j and j[0] == kind:
                return True
        return False

    while rounds < budget:
        rounds += 1
        cands = L.shrink_candidates(cur)[:48 if slow else 160]
        if not cands:
            break
        progs = [Prog("s%d" % i, "shrink", c, p.args) for i, c in enumerate(cands)]
        mod = runner.model(progs)
        live = [q for q in progs if isinstance(mod[q.id], list)]
        if not live:
            break
        found = None
        with concurrent.futures.ThreadPoolExecutor(vlib.NPROC) as ex:
            for q, hit in zip(live, ex.map(lambda q: one(q, mod[q.id]), live)):
                if hit and found is None:
                    found = q
        if not found:
            break
        cur = found.ast
    return cur


# ---------------------------------------------------------------------------------- check

def corpus_programs():
    progs = []
    for path in sorted(glob.glob(os.path.join(vlib.VERIF, "corpus", "C03", "*.txt"))):
        lines = [l.strip() for l in open(path) if l.strip() and not l.startswith("#")]
        if not lines:
            continue
        progs.append(("corpus:" + os.path.basename(path)[:-4], L.parse_program(" ".join(lines))))
    return progs


def gen(tier, seed):
    rng = random.Random(seed)
    fams = []
    fams += [(o, a, None) for o, a in corpus_programs()]
    lits, vals = lit_family(rng, tier)
    fams += [(o, a, None) for o, a in lits]
    for fam in (ring_family, alias_family, nil_family, scope_family, trycatch_family, switch_family, operator_family,
                string_family, float_family, manyargs_family, misc_family, fusion_family, goto_family, gotoargs_family):
        fams += [(o, a, None) for o, a in fam(rng, tier)]
    fams += random_family(rng, tier)
    progs = []
    cov = {}
    for i, fam in enumerate(fams):
        o, a, c = fam[0], fam[1], fam[2]
        progs.append(Prog("p%d" % i, o, a, fam[3] if len(fam) > 3 else ()))
        if c:
            for k, v in c.items():
                cov[k] = cov.get(k, 0) + v
    return progs, vals, cov


def variants(progs, rng):
    """the rewritten spellings as programs of their own (same expected behaviour)"""
    out = []
    for p in progs:
        if p.origin.startswith(("random", "ring", "operators", "scopes")):
            e = L.expand_compound(p.ast)
            if e != p.ast:
                out.append((p, Prog(p.id + "x", p.origin + "+expanded-compound", e, p.args)))
            u = L.unfold_constants(p.ast, rng)
            if u != p.ast:
                out.append((p, Prog(p.id + "u", p.origin + "+unfolded-constants", u, p.args)))
    return out


def check(res, tier, seed):
    res.cov["rule"] += (
        "C03: corpus (the formerly failing programs); integer literals at every encoding width boundary 2^k +-2 (k = 0,8,16,24,31,32,33,40,48,56,62,63), "
        "bare / negated / as operand / as condition; 131 x N leading filler statements (N = 0..130, every position of the compiler's 100-entry "
        "previous-opcode ring) before `if (!x) else`, `while (!x)`, `do while (!x)`, `!literal`, `-literal`; aliasing, NIL, scope, nested try/catch, "
        "switch-label (64-bit and negative labels, deep nesting), operator (all 16 binary operators on boundary operands, folded and run-time; "
        "random parenthesis-free trees for precedence/associativity), string, float-literal (opaque printed text) and goto families; "
        "constant integer expressions whose executed opcodes and operands (hook H4) are compared with the compiler model of coq/C03/Compile.v; programs of the typed grammar generator "
        "(<= ~110 statements, nesting <= 6, up to 3 functions, recursion, threads). Every program: the plain layout + random layouts "
        "(indentation, brace placement, ;, comments, redundant parentheses, CRLF, line continuation, bare-word strings) + expanded compound assignments + "
        "run-time spellings of constant-folded operands. non-trivial = distinct (program, observation) with >= 3 printed lines. ")
    res.assumptions += [
        "agreement of the reference evaluator (coq/C03/Sem.v) with the engine is established by differential execution on the generated programs only; "
        "proved: the integer-literal codec round-trip over the tables regenerated from the sources, the literal and case-label paths through the parse tree, constant folding of unary minus, "
        "fuel independence and determinism of the evaluator, and compile-correctness of the constant integer expression fragment for the compiler/VM MODEL of coq/C03/Compile.v "
        "(that model is tied to the real compiler by comparing executed opcodes and operands through hook H4, by sampling)",
        "error-free core: programs for which the evaluator has no result (type errors, division by zero, unhandled throw, fuel) are dropped; observed rate reported as dropped_stuck",
        "static rules: break needs an enclosing loop or switch, continue an enclosing loop; labels for goto/thread are top-level; case labels of one switch are distinct as strings",
        "waitthread runs its callee in a new group, thread in the caller's group (as the engine does); threads started with `thread` do not call waitthread (scheduler order is C05/C06's subject)",
        "integer literals 0 <= v < 2^63 (the lexer saturates larger ones with strtoll); array keys are integers or non-numeric strings",
        "injected clock (hook H1); one fresh engine per program source; observation: captured println text, value handed to ExecuteThread's parms, level.v0..7 game.v0..3 parm.v0..1",
    ]
    # 1. the translator
    tie_broken = None
    try:
        _, changed = C03_extract.regenerate()
        res.cov["generated_v_rewritten"] = bool(changed)
    except C03_extract.BrokenTie as ex:
        tie_broken = str(ex)
    # 2. proofs
    pst = vlib.proof_stage(res, "C03", extra_targets=["C03/Extract.vo"], dirs=["Base", "C03"])
    runner = Runner()
    rng = random.Random(seed * 7919 + 1)
    progs, vals, gcov = gen(tier, seed)
    k = 3 if tier == "quick" else 4
    results = evaluate(runner, progs, rng, k)
    vs = variants([p for p in progs if results[p.id]["status"] == "ok"], rng)
    vres = evaluate(runner, [v for _, v in vs], rng, 2)
    vbad = []
    for orig, v in vs:
        r = vres[v.id]
        if r["status"] == "ok" and r["obs"] != results[orig.id]["obs"]:
            r = {"status": "bad", "kind": "framework", "why": "a rewrite changed the reference behaviour", "expected": results[orig.id]["obs"], "source": ""}
        if r["status"] == "bad":
            vbad.append((v, r))
    # the literal codec model against the engine
    lit_bad = literal_check(runner, vals)
    # the compiler/VM model of the constant-expression fragment against the real compiler
    cmp_bad, cmp_ok, cmp_skipped = compile_check(runner, rng, tier)
    res.cov["compile_fragment_expressions_agreeing"] = cmp_ok
    res.cov["compile_fragment_skipped_division_by_zero"] = cmp_skipped

    # statistics
    by_origin, stuck, ok, nontriv, sources = {}, 0, 0, set(), 0
    for p in progs:
        r = results[p.id]
        o = p.origin.split("-")[0] if p.origin.startswith("ring") else p.origin
        d = by_origin.setdefault(o, {"programs": 0, "dropped": 0})
        d["programs"] += 1
        if r["status"] == "stuck":
            d["dropped"] += 1
            stuck += 1
        elif r["status"] == "ok":
            ok += 1
            sources += r["nsrc"]
            out = r["obs"][0]
            if out.count("\\n") >= 3:
                nontriv.add(hashlib.sha256(repr(r["obs"]).encode()).hexdigest())
    vok = sum(1 for _, v in vs if vres[v.id]["status"] == "ok")
    res.cov["evaluations"] += sources + 2 * vok + len(vals) + 2 * cmp_ok
    res.cov["distinct_nontrivial"] += len(nontriv)
    res.cov["programs"] = len(progs)
    res.cov["batch_timeouts_not_reproduced_alone"] = len(UNCONFIRMED)
    res.cov["programs_agreeing"] = ok
    res.cov["dropped_stuck"] = stuck
    res.cov["rewritten_variants_agreeing"] = vok
    res.cov["by_origin"] = by_origin
    res.cov["literal_values"] = len(vals)
    res.cov["statement_kind_by_context"] = {"%s@%s" % k_: v for k_, v in sorted(gcov.items())}
    res.cov["statements_total"] = sum(L.count_stmts(p.ast) for p in progs)
    res.cov["max_statements"] = max(L.count_stmts(p.ast) for p in progs)
    res.cov["samples"] += [{"origin": p.origin, "source": L.print_program(p.ast, plain=True)[:1500], "observed": results[p.id].get("obs", [])[:2]}
                           for p in (progs[0], progs[len(progs) // 2], progs[-1])]

    # reports
    reported = set()
    concrete = False
    allbad = [(p, results[p.id]) for p in progs if results[p.id]["status"] == "bad"] + vbad
    for p, r in allbad:
        if r["kind"] in reported or len(reported) >= 4:
            continue
        reported.add(r["kind"])
        if r["kind"] == "framework":
            res.violation({"property": CID, "kind": "framework", "why": r["why"], "program": L.ser_program(p.ast)}, no_input=True)
            continue
        small = p.ast
        try:
            small = shrink(runner, p, r["kind"], r.get("layout", "plain"))
        except Exception:
            pass
        q = Prog("r", p.origin, small, p.args)
        rr = evaluate(runner, [q], random.Random(1), 1)["r"]
        src = L.print_program(small, plain=True)
        lay = r.get("layout", "plain")
        if lay.startswith("layout-"):
            src2 = L.print_program(small, random.Random(int(lay.split("-")[1])))
        else:
            src2 = src
        rec = {"property": CID, "kind": r["kind"], "why": rr.get("why", r["why"]) if rr["status"] == "bad" else r["why"],
               "origin": p.origin, "seed": seed, "program": L.ser_program(small), "args": p.args,
               "sources": [src] if src2 == src else [src, src2],
               "expected": rr.get("expected", r.get("expected")), "actual": rr.get("actual", r.get("actual")),
               "original_source": r.get("source", "")[:6000],
               "replay_cmd": "./check C03 --replay <this file>"}
        res.violation(rec)
        concrete = True
    for rec in lit_bad[:2] + cmp_bad[:2]:
        if rec.get("kind") == "framework":
            res.violation(rec, no_input=True)
            continue
        rec.setdefault("program", "")
        res.violation(rec)
        concrete = True
    fw = [p for p in progs if results[p.id]["status"] == "framework"]
    if fw:
        res.violation({"property": CID, "kind": "framework", "why": results[fw[0].id]["why"], "program": L.ser_program(fw[0].ast)}, no_input=True)
    if tie_broken and not concrete:
        res.violation({"property": CID, "kind": "proof-broken", "broken": "translator props/C03_extract.py: " + tie_broken}, no_input=True)
    if not pst["ok"] and not concrete:
        res.violation({"property": CID, "kind": "proof-broken", "broken": "Coq build of C03/Properties.vo (literal codec theorems over the regenerated tables)",
                       "hygiene": pst.get("hygiene"), "log": pst.get("build_log", "")[-3000:] + str(pst.get("props", {}).get("log", ""))[-2000:]},
                      no_input=True)
    if stuck > 0.25 * len(progs):
        res.violation({"property": CID, "kind": "framework", "why": "%d of %d generated programs are outside the core (generator too sloppy)" % (stuck, len(progs))}, no_input=True)


def literal_check(runner, vals):
    """the extracted codec model (tables of Generated.v) against the engine: println v and println -v"""
    case = Case("lit", "", ["lit %d" % v for v in vals], "codec")
    out, crashes = vlib.run_resilient(runner.drv, ["model"], [case], timeout=300)
    model = {}
    for l in out.get("lit", []):
        w = l.split()
        if w and w[0] == "lit":
            model[int(w[1])] = (w[2], w[3])
    bad = []
    progs = []
    chunk = 40
    for i in range(0, len(vals), chunk):
        body = [("lab", 0, [])] + [("st", ("pr", [("i", v), ("neg", ("i", v))])) for v in vals[i:i + chunk]]
        progs.append(Prog("l%d" % i, "codec", body))
    srcs = {p.id: [("plain", L.print_program(p.ast, plain=True))] for p in progs}
    eng = runner.engine(progs, srcs)
    for p in progs:
        e = eng[p.id]
        i = int(p.id[1:])
        if isinstance(e, dict) or not e:
            bad.append({"property": CID, "kind": "crash", "why": "the engine died printing integer literals", "sources": [srcs[p.id][0][1]],
                        "program": L.ser_program(p.ast), "args": []})
            continue
        o = [l for l in e[0] if l.startswith("o ")]
        lines = o[0][2:].split("\\n") if o else []
        for j, v in enumerate(vals[i:i + chunk]):
            exp = "%s %s" % model.get(v, ("?", "?"))
            got = lines[j] if j < len(lines) else None
            if got != exp or model.get(v) != (str(v), str(-v)):
                one = [("lab", 0, []), ("st", ("pr", [("i", v), ("neg", ("i", v))]))]
                bad.append({"property": CID, "kind": "literal-mismatch",
                            "why": "literal %d: the engine prints '%s', the codec model of the current sources gives '%s', the language says '%d %d'" % (v, got, exp, v, -v),
                            "sources": [L.print_program(one, plain=True)], "program": L.ser_program(one), "args": [],
                            "expected": ["o %d %d\\n" % (v, -v)]})
                break
    return bad


def rand_const_expr(rng, d):
    r = rng.random()
    if d <= 0 or r < 0.2:
        v = rng.choice(G.BOUNDARY + G.SMALL + [rng.randrange(0, 2 ** rng.choice([8, 16, 24, 32, 63]))])
        return ("i", v)
    if r < 0.35:
        return ("neg", rand_const_expr(rng, d - 1 if rng.random() < 0.5 else 0))
    if r < 0.42:
        return ("cpl", rand_const_expr(rng, d - 1))
    op = rng.choice(list(L.OPS))
    b = rand_const_expr(rng, d - 1)
    if op in ("shl", "shr") and rng.random() < 0.8:
        b = ("i", rng.choice([0, 1, 2, 8, 31, 32, 63, 64, 65]))
    if op in ("div", "mod") and rng.random() < 0.8:
        b = G.I(rng.choice([1, 2, 3, -1, -2, 255, 2 ** 32, 2 ** 63 - 1]))
    return ("b", op, rand_const_expr(rng, d - 1), b)


def compile_check(runner, rng, tier):
    """the compiler/VM model of coq/C03/Compile.v against the real compiler: the executed opcodes
    (H4 step hook) of `level.v0 = <constant integer expression>` and the resulting value"""
    n = 400 if tier == "quick" else 6000
    exprs = [rand_const_expr(rng, rng.choice([1, 2, 3, 4, 5])) for _ in range(n)]
    exprs += [("neg", ("i", v)) for v in G.BOUNDARY] + [("neg", ("neg", ("i", v))) for v in G.BOUNDARY]
    dcases, hcases = [], []
    for i, e in enumerate(exprs):
        o = []
        L.ser_expr(e, o)
        dcases.append(Case("c%d" % i, "", ["cmp " + " ".join(o)], "compile"))
        prog = [("lab", 0, []), ("st", ("set", L_("v", 0), e)), ("st", ("end0",))]
        srcs = [L.print_program(prog, plain=True), L.print_program(prog, random.Random(rng.randrange(1 << 30)))]
        hcases.append(Case("c%d" % i, "", ["T " + x.encode("latin-1").hex() for x in srcs], "compile"))
    bad, agree, skipped = [], 0, 0
    for j in range(0, len(dcases), 500):
        mo, mc = vlib.run_resilient(runner.drv, ["model"], dcases[j:j + 500], timeout=300)
        ho, hc = vlib.run_resilient(runner.exe, [], hcases[j:j + 500], env=vlib.ASAN_ENV, timeout=600)
        for k in range(j, min(j + 500, len(dcases))):
            cid = dcases[k].id
            m = mo.get(cid)
            h = ho.get(cid)
            src = L.print_program([("lab", 0, []), ("st", ("set", L_("v", 0), exprs[k])), ("st", ("end0",))], plain=True)
            if m is None or len(m) < 3 or not m[0].startswith("t"):
                bad.append({"property": CID, "kind": "framework", "why": "driver gave no code for a constant expression: %s" % (m,), "sources": [src]})
                continue
            if m[1] == "v L0 none":
                skipped += 1
                continue
            if m[2] != "vm " + m[1][5:]:
                bad.append({"property": CID, "kind": "framework", "why": "the VM model disagrees with the expression's value (theorem instance): %s" % (m,), "sources": [src]})
                continue
            if h is None:
                bad.append({"property": CID, "kind": "crash", "why": "the engine died on a constant expression: " + str(hc.get(cid, {}))[:600], "sources": [src]})
                continue
            for b in range(0, len(h), 2):
                blk = h[b:b + 2]
                if blk != m[:2]:
                    bad.append({"property": CID, "kind": "compile-model-mismatch",
                                "why": "compiler/VM model: %s | real compiler and VM: %s" % (m[:2], blk), "sources": [src]})
                    break
            else:
                agree += 1
    return bad, agree, skipped


def replay(path):
    rec = json.load(open(path))
    if "program" not in rec or "sources" not in rec:
        print("replay file names a broken obligation, not an input: %s" % rec.get("broken", rec.get("why")))
        return 1
    vlib.coq_make(["C03/Extract.vo"])
    runner = Runner()
    p = Prog("r", "replay", L.parse_program(rec["program"]), rec.get("args", []))
    m = runner.model([p])["r"]
    print("reference semantics:", m)
    if not isinstance(m, list):
        print("REPLAY: the reference semantics has no result for this program")
        return 1
    srcs = {"r": [("s%d" % i, s) for i, s in enumerate(rec["sources"])]}
    e = runner.engine([p], srcs)["r"]
    if isinstance(e, dict):
        print("engine:", e)
        print("REPLAY FAILS: the engine crashed or hung")
        return 1
    for i, blk in enumerate(e):
        print("engine[%d]:" % i, blk)
        j = judge(m, blk)
        if j:
            print("REPLAY FAILS: %s: %s" % j)
            return 1
    print("REPLAY PASSES (no violation on the current tree)")
    return 0
