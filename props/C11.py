"""C11 — damaged archives are reported, never trusted."""
import glob
import os
import random
import re

import vlib
from vlib import Case
import C10 as c10

LEVEL = "proof"
GENERATED = os.path.join(vlib.COQ, "C11", "Generated.v")
IN_CLASS = set("HTVZN")


def translate_archiver():
    """reads the two repaired decisions off /repo/src/Script/Archiver.cpp -> (check_after_read, version_test_is_or)"""
    path = os.path.join(vlib.REPO, "src", "Script", "Archiver.cpp")
    try:
        src = open(path).read()
    except OSError as ex:
        raise vlib.BuildError("broken tie: cannot read %s: %s" % (path, ex))
    src = re.sub(r"//[^\n]*", "", src)
    src = re.sub(r"/\*.*?\*/", "", src, flags=re.S)
    m = re.search(r"void\s+Archiver::ReadDataInternal\s*\([^)]*\)\s*\{(.*?)\n\}", src, re.S)
    if not m:
        raise vlib.BuildError("broken tie: Archiver::ReadDataInternal was not found in Archiver.cpp")
    body = m.group(1)
    # What the model (constructor Read of prog, function run in coq/C10/Model.v) says about this function:
    # CheckRead(); ONE block read; then - check_after_read - the stream is tested and a short read throws.
    # Statements may be added around that (logging, locals, asserts), but the claim "every path that returns
    # normally has tested the stream after reading" must be evident: no `return`, no second way of reading.
    calls = re.findall(r"readStream\s*->\s*(\w+)", body)
    test = re.search(r"if\s*\([^{;]*gcount\s*\(\s*\)[^{;]*!=\s*size[^{;]*\)\s*\{?\s*[^}]*?throw\s+ArchiveErrors::ReadStreamFail", body, re.S)
    first_read = re.search(r"readStream\s*->\s*read\s*\(", body)
    check = re.search(r"\bCheckRead\s*\(\s*\)\s*;", body)
    why = None
    if not check or not first_read or check.start() > first_read.start():
        why = "it no longer calls CheckRead() before readStream->read(...)"
    elif calls.count("read") != 1 or any(c not in ("read", "gcount") for c in calls):
        why = "it reads the stream in another way than the one block read (readStream->%s)" % ", ".join(sorted(set(c for c in calls if c not in ("read", "gcount"))) or ["read twice"])
    elif re.search(r"\breturn\b", body[:test.end()] if test else body):
        why = "it has a path that returns before the stream was tested after the read"
    elif test and test.start() < first_read.start():
        why = "the gcount() test stands before the read"
    elif re.search(r"\b(goto|longjmp)\b", body):
        why = "it jumps"
    if why:
        raise vlib.BuildError("broken tie: Archiver::ReadDataInternal cannot be read as 'CheckRead(); one readStream->read(data, size); "
                              "[throw ReadStreamFail when gcount() != size]' any more: " + why +
                              " - coq/C11/Generated.v (check_after_read) is not regenerated; the theorems of C11 speak about the previous shape")
    caf = bool(test)
    m2 = re.search(r"if\s*\(\s*mversion\s*!=\s*ARCHIVE_VERSION\s*(\|\||&&)\s*version\s*!=\s*info\.version\s*\)\s*\{?\s*throw\s+ArchiveErrors::WrongVersion", src)
    if not m2:
        raise vlib.BuildError("broken tie: the version test 'if (mversion != ARCHIVE_VERSION <op> version != info.version) throw WrongVersion' "
                              "was not found in Archiver::CreateRead")
    return caf, m2.group(1) == "||"


def type_names():
    """the table typeNames[] of Archiver.cpp (the words TypeError::what() promises), or None"""
    try:
        src = open(os.path.join(vlib.REPO, "src", "Script", "Archiver.cpp")).read()
    except OSError:
        return None
    m = re.search(r"typeNames\s*\[\s*\]\s*=\s*\{(.*?)\}\s*;", src, re.S)
    return re.findall(r'"([^"]*)"', m.group(1)) if m else None


MSG_FIXED = {"InvalidArchiveHeader": "Archive has bad header.", "ReadStreamFail": "Failure in read stream",
             "ReadPastEndObject": "Object read past end of object's data", "NotReadEntireDataObject": "Object didn't read entire data from file",
             "MissingReadStream": "Couldn't read data as there is no read stream", "MissingWriteStream": "Couldn't write data as there is no write stream",
             "WriteStreamFail": "Failure in write stream"}


def bad_message(out, names):
    """out = 'err <Kind> [args] |msg=<hex>...' -> None when the reported text is what the error promises, else a description"""
    m = re.search(r"\|msg=(\S+)", out)
    w = out.split()
    if not m:
        return "no message was obtained"
    if m.group(1) == "NULL":
        return "what() returned a null pointer"
    try:
        text = b"" if m.group(1) == "-" else bytes.fromhex(m.group(1))
    except ValueError:
        return "unreadable message"
    kind = w[1] if len(w) > 1 else "?"
    if not text:
        return "what() returned an empty text"
    if kind == "TypeError":
        try:
            exp, found = int(w[2], 16), int(w[3], 16)
        except (IndexError, ValueError):
            return "malformed outcome"
        if names is None:
            ok = re.fullmatch(rb"Expecting \w+, found (\w+|\d+ \(unknown type\))", text) is not None
            want = "Expecting <type>, found <type> | <n> (unknown type)"
        else:
            en = names[exp] if exp < len(names) else "?"
            want = "Expecting %s, found %s" % (en, names[found] if found < len(names) else "%d (unknown type)" % found)
            ok = text == want.encode()
        return None if ok else "TypeError(%d, %d) says %r, expected %r" % (exp, found, text, want)
    if kind in MSG_FIXED:
        return None if text == MSG_FIXED[kind].encode() else "%s says %r, expected %r" % (kind, text, MSG_FIXED[kind])
    if kind == "WrongVersion":
        return None if re.fullmatch(rb"Wrong archive version\. Got engine version \d+ and program version \d+\. \(expected \d+ and \d+\)?", text) else "WrongVersion says %r" % text
    if kind == "InvalidClass":
        return None if text.startswith(b"Invalid class '") and text.endswith(b"'") else "InvalidClass says %r" % text
    if kind == "ObjectClassError":
        return None if re.fullmatch(rb"Archive has '.*' object, but was expecting a '\w+' object\.", text, re.S) else "ObjectClassError says %r" % text
    return None


def regenerate():
    caf, vor = translate_archiver()
    txt = ("(* C11/Generated.v - GENERATED by props/C11.py from /repo/src/Script/Archiver.cpp; do not edit.\n"
           "   check_after_read: Archiver::ReadDataInternal throws ReadStreamFail when gcount() != size.\n"
           "   version_test_is_or: Archiver::CreateRead joins the two version comparisons with ||. *)\n"
           "Definition check_after_read : bool := %s.\n"
           "Definition version_test_is_or : bool := %s.\n" % ("true" if caf else "false", "true" if vor else "false"))
    old = open(GENERATED).read() if os.path.exists(GENERATED) else None
    if old != txt:
        with vlib.FileLock("coq"):
            with open(GENERATED, "w") as f:
                f.write(txt)
    return caf, vor


# Findings that have been reported but are neither repaired in /repo nor (yet) listed in
# /verif/known_findings.json: until that is decided they are treated as listed (KNOWN-FINDING, the
# check stays usable); VERIF_STRICT_FINDINGS=1 turns them into violations.
PENDING = {}   # nothing pending: the C11 finding is fixed (/repo 8fad902), the C10 one is listed in known_findings.json


def finding_text(sig):
    """text of a listed or pending finding with that signature, or None (then it is a violation)"""
    for f in vlib.known_findings("C11"):
        if f.get("signature") == sig:
            return f.get("what", sig)
    if sig in PENDING and not os.environ.get("VERIF_STRICT_FINDINGS"):
        return PENDING[sig] + " [reported; not yet decided: neither repaired nor in known_findings.json]"
    return None


HAND = [
    ("4d465553 1 4d6f726675736520417263686976", []),
    ("4d465553 1 -", ["P u8 ff"]),
    ("4d465553 1 4d6f72", ["P u8 ff", "B 2 5 [ Q p 5 ; S 6162 ]", "Q s 5"]),
    ("54455354 7 4d6f72667573652074657374", ["Q p 2", "B 0 1 [ Q s 2 ; P i64 8000000000000000 ]", "B 1 2 [ Q p 1 ; R 0001 ; S - ]", "O 3", "Q s 3", "Q p n"]),
    ("4d465553 1 4d", ["B 3 1 [ ]", "B 0 2 [ ]", "B 1 3 [ ]", "B 2 4 [ ]"]),
    ("4d465553 258 4d", ["S -", "S 61", "R -", "R ff", "P bo 1", "P db 7ff8000000000000", "P sz ffffffffffffffff", "P po 10", "P ch 80", "P i16 8000", "P u16 1", "P i32 1", "P u32 2", "P i8 7f", "P by 3", "P fl 7fc00000", "P u64 4"]),
    ("41 0 7a", ["O 1", "Q p 1", "Q s 1"]),
    ("4d465553 1 4d6f72", ["B 2 1 [ Q s 1 ]", "B 2 1 [ Q s 1 ]"]),
    # an object loaded with ReadObject<T>() whose body holds non-null plain and weak pointers to an earlier and a later object
    ("4d465553 1 4d6f72", ["Q p 2", "B 1 2 [ P u8 1 ]", "N 0 1 [ Q p 2 ; Q s 3 ; Q p 1 ; P u32 7 ; S 6162 ]", "B 2 3 [ Q s 1 ]", "N 2 4 [ Q s 3 ; Q p n ]"]),
    # objects loaded with the untyped ReadObject(): size brackets, names and tags of these records are damaged like the others
    ("4d465553 1 4d6f72", ["U 3 1 [ P u32 7 ; Q p 2 ; S 6162 ]", "B 0 2 [ Q s 1 ]", "U 3 3 [ ]", "U 3 4 [ Q s 3 ; Q p 4 ; P i64 ff ]"]),
    # script variables: every kind; an array shared by two variables and containing itself; a constant array
    ("4d465553 1 4d6f72", ["V * 1000:i:ff", "V 6b 1001:s:0041", "V ~ 1002:k:6162", "V * 1003:f:7fc00001", "V * 1004:c:80", "V * 1005:n",
                            "V * 1006:v:000000000000803f00000040", "V * 1007:k:~"]),
    ("4d465553 1 4d6f72", ["V ~ 1002:A:500000:3:7:7:0:2:1/0 2000:i:2 2001:h:A:500000 2002:i:1 2003:L:5",
                            "B 2 5 [ V * 1003:h:A:500000 ; Q p 5 ]", "V * 1004:R:1002"]),
    ("4d465553 1 4d6f72", ["V * 1006:K:500001:1:2 2004:k:6162 2005:n", "V * 1010:C:200", "O 200", "V * 1011:S:300", "O 300",
                            "V * 1012:P:500002:1012"]),
]


class C11(vlib.HistoryProp):
    cid = "C11"
    unit = "C11"
    variant = "asan"
    harness_sources = ["harness/C10.cpp", "harness/C11.cpp"]
    use_lib = True
    coq_dirs = ["Base", "C10", "C11"]
    has_monitor = False
    batch = 60
    nbases = 0
    timeout = 1500

    def assumptions(self):
        return c10.HP.assumptions() + [
            "the damage classes are those of the property: truncation at any byte; substituted bytes in the header, the two version records, type tags, object size brackets and class names; "
            "damaged payload bytes (values, string lengths, class count, pointer indices) are outside the property",
            "the reader makes the call sequence of the intact archive and expects the header/version the writer used",
            "class lookup is modelled for the four host classes of the harness (ClassDef::GetClass walks all registered classes; a damaged name that happens to name a library class would be ObjectClassError instead of InvalidClass)",
            "coq/C11/Generated.v is regenerated from /repo/src/Script/Archiver.cpp on every run (check_after_read, version_test_is_or)"]

    # ---- generation -------------------------------------------------------------------
    def base_archives(self, tier, seed):
        rng = random.Random(seed * 7919 + 11)
        bases = []
        for hdr, items in HAND:
            bases.append((hdr, items, "hand-written"))
        for p in sorted(glob.glob(os.path.join(vlib.VERIF, "corpus", "C11", "*.txt")) +
                        glob.glob(os.path.join(vlib.VERIF, "corpus", "C10", "*.txt"))):
            lines = [l.strip() for l in open(p) if l.strip() and not l.startswith("#")]
            hdr = c10.HEADERS[0]
            if lines and lines[0].startswith("H "):
                hdr = lines[0][2:]
                lines = lines[1:]
            if sum(len(l) for l in lines) < 4000:         # (the long-string corpus of C10 would cost n^2 for nothing new)
                bases.append((hdr, lines, "corpus"))
        # archives whose LAST top-level record is of each kind (a cut at n-1 removes exactly its last payload byte):
        # every primitive, 1-character / empty / longer strings, raw blocks of 0 / 1 / 2 bytes, null and non-null pointers, a
        # position, script variables ending in a 1-byte record (none: the type byte; char; dictionary-string flag) and others
        tails = ["P %s %x" % (k, 1 if k == "bo" else 0x41) for k in c10.KINDS]
        tails += ["S 61", "S -", "S 6162", "S 00", "R 41", "R -", "R 4142", "Q p n", "Q s n", "Q p 1", "O 1",
                  "V * 1000:n", "V * 1000:c:41", "V * 1000:k:~", "V ~ 1000:i:7", "V * 1000:s:61", "V * 1000:s:-", "V * 1000:L:n"]
        for j, t in enumerate(tails):
            first = ["P u32 7"] if j % 2 else []
            bases.append((c10.HEADERS[0] if j % 3 else "4d465553 1 4d", first + [t], "ends-in-each-record-kind"))
        plan = [(3, 6, 12), (6, 14, 5), (30, 100, 1)] if tier == "quick" else [(2, 4, 150), (3, 6, 150), (6, 14, 60), (30, 200, 8)]
        for nobj, ncalls, cnt in plan:
            for _ in range(cnt):
                no = rng.randrange(1, nobj + 1)
                cs = c10.HP.graph_case(rng, "x", no, rng.randrange(no, ncalls + 1), "g")
                ops = [o for o in cs.ops if len(o) < 400]     # keep the archives small: no long strings
                bases.append((cs.header, ops, "random-graph-%dobj-%dcalls" % (nobj, ncalls)))
        # script variables of every kind, shared / nested / self-containing arrays (C10's generator)
        for nvars, cnt in ([(2, 10), (4, 4)] if tier == "quick" else [(1, 50), (3, 50), (6, 20)]):
            for _ in range(cnt):
                cs = c10.HP.script_case(rng, "x", rng.randrange(1, nvars + 1), "v")
                if sum(len(o) for o in cs.ops) < (6000 if tier == "quick" else 3000):
                    bases.append((cs.header, cs.ops, "random-script-variables-upto%d" % nvars))
        return bases

    def layouts(self, bases):
        bases[:] = [(h, [c10.fix_listeners(o) for o in items], origin) for h, items, origin in bases]
        return self._layouts(bases)

    def _layouts(self, bases):
        drv = vlib.ocaml_driver("C11")
        text = "".join("case b%d %s\nend\n" % (i, " | ".join([h] + items)) for i, (h, items, _) in enumerate(bases))
        rc, out, err = vlib.sh([drv, "layout"], inp=text, timeout=600)
        if rc != 0:
            raise vlib.BuildError("C11 driver failed in layout mode: " + err[-2000:])
        outs, _ = vlib.split_output(out)
        res = []
        for i in range(len(bases)):
            d = {l[0]: l[2:] for l in outs.get("b%d" % i, []) if len(l) > 2}
            if "b" not in d or d.get("l") != d.get("r") or d.get("w") != "1":
                raise vlib.BuildError("broken tie: for base archive %d the writer-side layout, the reader-side layout or wf_case disagree: %r" % (i, d))
            b = bytes.fromhex(d["b"]) if d["b"] != "-" else b""
            if len(b) != len(d["l"]):
                raise vlib.BuildError("layout length differs from archive length for base archive %d" % i)
            res.append((b, d["l"]))
        return res

    @staticmethod
    def flag_of(subs, data, lay):
        cl = "".join(lay[p] for p, _ in subs)
        if all(c in IN_CLASS for c in cl):
            if all(lay[p] == "N" and up(v) == up(data[p]) for p, v in subs):
                return "k", cl
            return "e", cl
        return "x", cl

    def gen(self, tier, seed):
        rng = random.Random(seed)
        bases = self.base_archives(tier, seed)
        lays = self.layouts(bases)
        self.nbases = len(bases)
        cases = []
        small_budget = 40
        for i, ((hdr, items, origin), (data, lay)) in enumerate(zip(bases, lays)):
            n = len(data)
            if n > (900 if tier == "quick" else 6000) and origin.startswith("random"):
                continue                      # (cost grows with n^2; the large archives belong to the thorough tier)
            ops = ["T %d" % k for k in range(n)]
            inpos = [p for p in range(n) if lay[p] in IN_CLASS]
            every = tier == "thorough" and n <= 400 and small_budget > 0
            if every:
                small_budget -= 1
            for p in inpos:
                o = data[p]
                if every:
                    vals = [v for v in range(256) if v != o]
                else:
                    vals = []
                    for v in (o ^ 0x20, (o + 1) & 255, 0 if o else 255, o ^ 0x80):
                        if v != o and v not in vals:
                            vals.append(v)
                    vals = vals[:3] if tier == "quick" else vals + [rng.randrange(256) for _ in range(4)]
                    vals = [v for v in vals if v != o]
                for v in vals:
                    fl, cl = self.flag_of([(p, v)], data, lay)
                    ops.append("S %d:%02x %s %s" % (p, v, fl, cl))
            # every type tag: the found tag at the edge of the type table (Max-1, Max, Max+1), 255, and 32-bit values with high bytes set
            run = 0
            for p in range(n):
                run = run + 1 if lay[p] == "T" else 0
                if lay[p] == "T" and run % 4 == 1 and p + 3 < n:
                    for subs in ([(p, 0x11)], [(p, 0x12)], [(p, 0x13)], [(p, 0xff)], [(p, 0x12), (p + 3, 0x80)], [(p + 1, 0x01)],
                                 [(p, 0xff), (p + 1, 0xff), (p + 2, 0xff), (p + 3, 0xff)], [(p + 3, 0x7f)]):
                        subs = [(q, v) for q, v in subs if data[q] != v]
                        if subs:
                            fl, cl = self.flag_of(subs, data, lay)
                            ops.append("S %s %s %s" % (",".join("%d:%02x" % x for x in subs), fl, cl))
            if inpos:
                for _ in range(20 if tier == "quick" else 200):
                    ps = rng.sample(inpos, min(len(inpos), rng.choice([2, 2, 3, 4, 5])))
                    subs = []
                    for p in ps:
                        o = data[p]
                        v = o ^ 0x20 if (lay[p] == "N" and rng.random() < 0.4) else rng.choice([x for x in (rng.randrange(256), rng.randrange(256), 0, 255) if x != o])
                        subs.append((p, v))
                    fl, cl = self.flag_of(subs, data, lay)
                    ops.append("S %s %s %s" % (",".join("%d:%02x" % s for s in subs), fl, cl))
            # chunks of <= 300 damages so that a failing case can be shrunk and replays stay small
            for j in range(0, max(len(ops), 1), 300):
                cases.append(Case("a%d_%d" % (i, j // 300), " | ".join([hdr] + items), ops[j:j + 300], origin))
        return cases

    # ---- comparison -------------------------------------------------------------------
    def canon_model(self, lines):
        m = [l[2:] for l in lines if l.startswith("m ")]
        s = [l[2:] for l in lines if l.startswith("s ")]
        ok = len(m) == len(s)
        for a, b in zip(m, s):
            out = a.split(" => ", 1)[1] if " => " in a else "?"
            exp = b.split(" => ", 1)[1] if " => " in b else "?"
            if exp == "err" and not out.startswith("err "):
                ok = False
            if exp == "oksame" and out != "ok same":
                ok = False
            # the flags computed by the generator must be the expectation of C11/Spec.v
            w = a.split(" => ")[0].split()
            if w[0] == "S" and len(w) >= 3 and {"e": "err", "k": "oksame", "x": "any"}.get(w[2]) != exp:
                ok = False
            if w[0] == "T" and exp != "err":
                ok = False
        return m, [], ok

    @staticmethod
    def demand(opwords):
        if opwords[0] == "T":
            return "err"
        if opwords[0] == "S" and len(opwords) >= 3:
            return {"e": "err", "k": "oksame"}.get(opwords[2])
        return None

    destroy_hits = 0
    names = None

    def canon_impl(self, lines):
        m = [l[2:] for l in lines if l.startswith("m ")]
        direct = []
        fixed = []
        for a in m:
            if " => " not in a:
                fixed.append(a)
                continue
            op, out = a.split(" => ", 1)
            if out.startswith("err "):
                why = bad_message(out, self.names)
                if why:
                    direct.append("the archive error of (%s) is not reported properly: %s" % (op, why))
                out = re.sub(r" \|msg=\S+", "", out)
                a = op + " => " + out
            d = self.demand(op.split())
            if "!destroy" in out:
                if finding_text("C11:partially-loaded-script-variable-crashes-when-destroyed"):
                    self.destroy_hits += 1            # reported once by check(); the rest of the outcome is compared as usual
                    out = out.replace(" !destroy", "")
                    fixed.append(op + " => " + out)
                    if d == "err" and not out.startswith("err "):
                        direct.append("damaged archive (%s) was not answered with an archive error but: %s" % (op, out))
                    continue
                direct.append("after the failed load (%s) destroying the script variables that were being loaded crashes: %s" % (op, out))
            elif d == "err" and not out.startswith("err "):
                direct.append("damaged archive (%s) was not answered with an archive error but: %s" % (op, out))
            elif d == "oksame" and out != "ok same":
                direct.append("archive whose class name only changed case (%s): %s" % (op, out))
            fixed.append(a)
        return fixed, [], direct, None

    def signature(self, case, rec, v):
        """names the defect class of the first offending damage (matches known_findings.json signatures)"""
        op = None
        if "crash" in rec:
            done = len([l for l in rec["crash"].get("partial", []) if l.startswith("m ")])
            if done < len(case.ops):
                op = case.ops[done].split()
        elif rec.get("i_cmp") is not None:
            for a in rec["i_cmp"]:
                if " => " in a:
                    o, out = a.split(" => ", 1)
                    d = self.demand(o.split())
                    if "!destroy" in out:
                        return "C11:partially-loaded-script-variable-crashes-when-destroyed"
                    if out.startswith("err ") and bad_message(out, self.names):
                        return "C11:archive-error-message"
                    if (d == "err" and not out.startswith("err ")) or (d == "oksame" and out != "ok same"):
                        op = o.split()
                        break
        if op is None:
            return "C11:" + v["kind"]
        if op[0] == "T":
            return "C11:truncated-archive-crashes" if "crash" in rec else "C11:truncated-archive-not-reported"
        if len(op) >= 4 and set(op[3]) == {"V"}:
            return "C11:version-mismatch-not-reported"
        return "C11:%s:%s" % (v["kind"], "".join(sorted(set(op[3]))) if len(op) >= 4 else "?")

    def nontrivial(self, case, compared):
        kinds = {c.split(" => ", 1)[1].split()[1] for c in compared if " => err " in c}
        return len(kinds) >= 2


def up(b):
    return b - 32 if 97 <= b <= 122 else b


HP = C11()


DEFAULT_GENERATED = ("(* C11/Generated.v - GENERATED by props/C11.py from /repo/src/Script/Archiver.cpp; do not edit.\n"
                     "   check_after_read: Archiver::ReadDataInternal throws ReadStreamFail when gcount() != size.\n"
                     "   version_test_is_or: Archiver::CreateRead joins the two version comparisons with ||. *)\n"
                     "Definition check_after_read : bool := true.\nDefinition version_test_is_or : bool := true.\n")


def check(res, tier, seed):
    tie_error = None
    try:
        caf, vor = regenerate()
        res.notes.append("Generated.v: check_after_read=%s version_test_is_or=%s" % (caf, vor))
    except vlib.BuildError as ex:
        # the source can no longer be translated: say so loudly (below) - and still run the damage sweep against the last
        # translation, so that a concrete damaged archive that is mishandled is found and reported as the replay
        tie_error = str(ex)
        if not os.path.exists(GENERATED):
            with vlib.FileLock("coq"):
                with open(GENERATED, "w") as f:
                    f.write(DEFAULT_GENERATED)
        res.notes.append("Generated.v NOT regenerated: " + tie_error)
    res.cov["rule"] += ("base archives: corpus, 40 archives ending in a top-level record of every kind (each primitive, 0/1/2-byte strings and raw blocks, pointers, position, script variables), 12 hand-written (objects loaded into host storage and through ReadObject<T>() with pointer members) (every primitive kind, every host class, empty archive, positions, twice-archived object, script variables of every kind with shared / "
                        "self-containing arrays) and seeded random object graphs and script-variable graphs of the C10 generator; per archive of n bytes: EVERY truncation length 0..n-1; at EVERY byte the model's layout classifies as header / version record / type tag / object size "
                        "bracket / class name: 3 substituted values incl. the case flip (quick), 8 values or all 255 for the 40 first archives <= 400 bytes (thorough); 20 (quick) / 200 (thorough) "
                        "random multi-byte damages over those positions; compared: outcome class and error kind; demanded: an archive error (or 'read as intact' for a class name that only changed case); "
                        "non-trivial = an archive with >= 2 different error kinds")
    HP.destroy_hits = 0
    HP.names = type_names()
    res.notes.append("typeNames[] read from Archiver.cpp: %s" % (HP.names if HP.names else "NOT FOUND (messages only checked for their form)"))
    vlib.history_check(res, HP, tier, seed)
    if HP.destroy_hits:
        res.known_finding("signature=C11:partially-loaded-script-variable-crashes-when-destroyed occurrences=%d : %s" % (
            HP.destroy_hits, finding_text("C11:partially-loaded-script-variable-crashes-when-destroyed")))
    if tie_error:
        concrete = any(not ni for _, ni in res.violations)
        res.violation({"property": "C11", "unit": "C11", "kind": "broken-tie", "broken": tie_error,
                       "note": ("the damage sweep was run against the previous translation and found a concrete failing archive (see the other replay)"
                                if concrete else "the damage sweep against the previous translation found no damaged archive that is mishandled")},
                      no_input=True)
    dist = res.cov.get("input_distribution", {}).get("C11", {})
    res.cov["base_archives_damaged"] = HP.nbases
    res.cov["evaluations"] = dist.get("ops_total", res.cov["evaluations"])      # one evaluation = one damaged archive read


def replay(path):
    try:
        regenerate()
    except vlib.BuildError as ex:
        print("note:", ex)
    return vlib.history_replay(HP, path)
