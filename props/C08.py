"""C08 — posted events: delivered once, not early, in due-time order, unless cancelled."""
import glob
import itertools
import os
import random

import vlib
from vlib import Case

LEVEL = "proof"
DELAYS = [-5, 0, 0, 1, 2, 2, 7]


class C08(vlib.HistoryProp):
    cid = "C08"
    variant = "asan"
    harness_sources = ["harness/C08.cpp"]
    use_lib = True
    coq_dirs = ["Base", "C08"]
    has_monitor = False      # deterministic specification printed by the driver next to the model
    batch = 3000

    def assumptions(self):
        return ["the clock is the injected millisecond clock (hook H1) and does not move during a processing pass",
                "handlers do not destroy their own listener and do not start a nested processing pass",
                "LinkedList<EventQueueNode*> is modelled as a Coq list (Add/AddFirst/Insert/Remove/Root/Tail)",
                "PostponeEvent/PostponeAllEvents are outside the property's alphabet and not modelled"]

    def rand_act(self, rng, depth):
        r = rng.random()
        l, ty = rng.randrange(3), rng.randrange(3)
        if r < 0.72 or depth > 0 and r < 0.85:
            h = ""
            if depth < 2 and rng.random() < (0.35 if depth == 0 else 0.25):
                h = " ".join(self.rand_act(rng, depth + 1) for _ in range(rng.choice([1, 1, 2])))
            fl = rng.choice([0, 0, 1, 2, 3])
            return "P %d %d %d %d [ %s ]" % (l, ty, rng.choice(DELAYS), fl, h)
        if r < 0.82:
            return "CT %d %d" % (l, ty)
        if r < 0.88:
            return "CA %d" % l
        if r < 0.96:
            return "CF %d %d" % (l, rng.choice([1, 2, 3]))
        return "D %d" % l if depth == 0 else "CA %d" % l

    def walk(self, rng, length, cid):
        ops = []
        for _ in range(length):
            r = rng.random()
            if r < 0.62:
                ops.append(self.rand_act(rng, 0))
            elif r < 0.80:
                ops.append("X")
            else:
                ops.append("T %d" % rng.choice([1, 1, 2, 3, 5, 9]))
        return Case(cid, "", ops, "random-walk-len%d" % length)

    ALPHA = (["P %d %d %d %d [ ]" % (l, ty, d, 1 if ty else 0) for l in (0, 1) for ty in (0, 1) for d in (-5, 0, 2)] +
             ["P 0 0 2 0 [ P 1 1 0 0 [ ] ]", "P 1 0 0 0 [ P 0 0 -5 0 [ ] CT 0 1 ]",
              "CT 0 0", "CT 1 1", "CA 0", "CF 0 1", "D 1", "X", "T 2", "T 5"])

    def gen(self, tier, seed):
        rng = random.Random(seed)
        cases = []
        for p in sorted(glob.glob(os.path.join(vlib.VERIF, "corpus", "C08", "*.txt"))):
            lines = [l.strip() for l in open(p) if l.strip() and not l.startswith("#")]
            cases.append(Case("c_" + os.path.basename(p)[:-4], "", lines, "corpus"))
        maxlen = 3 if tier == "quick" else 4
        k = 0
        for n in range(1, maxlen + 1):
            for tup in itertools.product(self.ALPHA, repeat=n):
                if tup[-1] != "X" and n == maxlen:
                    # a history whose last op is not a pass is a prefix of longer ones: close it
                    tup = tup + ("T 9", "X")
                cases.append(Case("e%d" % k, "", list(tup), "exhaustive-len%d" % n))
                k += 1
        if tier == "quick":
            walks = [(8, 1500), (40, 600), (200, 30)]
        else:
            walks = [(6, 40000), (8, 20000), (40, 10000), (200, 600)]
        for ln, cnt in walks:
            for _ in range(cnt):
                cases.append(self.walk(rng, ln, "w%d" % k))
                k += 1
        return cases

    def canon_model(self, lines):
        m = [l[2:] for l in lines if l.startswith("m ")]
        s = [l[2:] for l in lines if l.startswith("s ")]
        return m, [], m == s

    def canon_impl(self, lines):
        m = [l[2:] for l in lines if l.startswith("m ")]
        return m, [], [], None

    def nontrivial(self, case, compared):
        # at least two deliveries in one pass and something still pending at some point
        return any("," in c.split()[0] for c in compared) and any(c.split()[1] != "0" for c in compared)


HP = C08()


def check(res, tier, seed):
    res.cov["rule"] = ("corpus first; every history up to length 3 (quick) / 4 (thorough) over a 22-letter alphabet (posts to 2 listeners x 2 types x "
                       "delays {-5,0,2}, two posts with re-entrant handlers, cancels, destroy, pass, clock +2/+5), closed by a pass; "
                       "seeded random histories over 3 listeners x 3 types x delays {-5,0,0,1,2,2,7} x flags with nested handlers; "
                       "non-trivial = a pass delivered >= 2 events and something was pending")
    vlib.history_check(res, HP, tier, seed)


def replay(path):
    return vlib.history_replay(HP, path)
