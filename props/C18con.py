"""C18con - con::Container<T> behaves like a list (unit of property C18)."""
import glob
import itertools
import os
import random
import re

import vlib
from vlib import Case

LEVEL = "proof"

# operations whose implementation is defective on the pinned tree (reported; see
# coq/C18con/Properties.v *_refuted).  They are generated only when the environment asks for
# them or when known_findings.json lists them (signature "C18con:..."), so that an unlisted,
# unrepaired defect of the pinned tree does not mask everything else the unit checks.
DEFECT_ENV = "VERIF_C18CON_DEFECTS"


class MiniSpec:
    """list-per-slot tracker used ONLY to steer the generators (boundaries, safe histories)"""

    def __init__(self, ns):
        self.l = [[] for _ in range(ns)]

    def safe(self, op):
        w = op.split()
        c, s = w[0], int(w[1])
        l = self.l[s]
        if c == "IA":
            i = int(w[2])
            return i == 0 or i > len(l) + 1
        if c == "RS":
            return int(w[2]) != 0 or not l
        return True

    def apply(self, op):
        w = op.split()
        c, s = w[0], int(w[1])
        a = [int(x) for x in w[2:]]
        l = self.l[s]
        if c in ("AD", "AN"):
            l.append(a[0])
        elif c == "AF":
            l.append(0)
        elif c == "AU":
            if a[0] not in l:
                l.append(a[0])
        elif c == "AA":
            i, v = a
            if i == 0:
                return
            while len(l) < i:
                l.append(0)
            l[i - 1] = v
        elif c == "IA":
            i, v = a
            if 1 <= i <= len(l) + 1:
                l.insert(i - 1, v)
        elif c == "SA":
            i, v = a
            if 1 <= i <= len(l):
                l[i - 1] = v
        elif c == "RA":
            if 1 <= a[0] <= len(l):
                del l[a[0] - 1]
        elif c == "RO":
            if a[0] in l:
                l.remove(a[0])
        elif c == "RP":
            if a[0] < len(l):
                del l[a[0]]
        elif c in ("SN", "SU"):
            n = a[0]
            v = a[1] if c == "SU" else 0
            del l[n:]
            while len(l) < n:
                l.append(v)
        elif c in ("CL", "FR", "CT", "CN"):
            del l[:]
        elif c == "SO":
            l.sort()
        elif c in ("CC", "MC"):
            t = a[0]
            if t != s:
                self.l[s] = list(self.l[t])
                if c == "MC":
                    self.l[t] = []
        elif c == "CA":
            self.l[s] = list(self.l[a[0]])
        elif c == "MA":
            x = list(self.l[a[0]])
            self.l[a[0]] = []
            self.l[s] = x if a[0] != s else []


ALPHABETS = {
    # growth, removal, search, shrink on one container
    "grow": ["AD 0 1", "AD 0 2", "AU 0 1", "RA 0 1", "RO 0 2", "SH 0", "RS 0 1", "CL 0"],
    # copy / move between two containers
    "copy": ["AD 0 1", "AD 1 2", "CC 1 0", "MC 0 1", "CA 0 1", "MA 1 0", "RA 0 1", "FR 1"],
    # the index / count based operations
    "count": ["AF 0", "AN 0 3", "AA 0 3 2", "SN 0 2", "SN 0 0", "SU 0 1 3", "SU 0 4 3", "RP 0 1", "SO 0", "AD 0 2"],
    # the rest: one letter per remaining operation / early return
    "misc": ["AD 0 3", "AD 0 1", "IA 0 9 1", "IA 0 0 1", "SA 0 1 2", "RA 0 0", "RA 0 7", "RP 0 0", "OA 0 1", "OA 0 2",
             "IO 0 1", "IL 0 3", "RS 0 0", "RS 0 5", "CT 0", "CN 0 3", "CN 0 0", "CA 0 0", "MA 0 0", "AA 0 1 2",
             "AA 0 0 2", "SN 0 0", "SN 0 3", "CC 0 0", "MC 1 1"],
    # the defective operations (only with defects enabled)
    "defect": ["AD 0 1", "AD 0 2", "IA 0 1 3", "IA 0 2 3", "SN 0 1", "RS 0 0", "RA 0 1", "SH 0", "CC 1 0"],
}


class C18con(vlib.HistoryProp):
    cid = "C18"
    unit = "C18con"
    variant = "asan"
    harness_sources = ["harness/C18con.cpp"]
    use_lib = True
    coq_dirs = ["Base", "C18con"]
    has_monitor = False
    batch = 4000

    def assumptions(self):
        return ["element type of the harness: counts constructions/destructions, marks itself destructed, counts operations on non-live storage; "
                "raw heap memory never looks like a live element (ASan malloc fill)",
                "the allocator is MEM::DefaultAlloc behind a wrapper whose Alloc() result converts to any object pointer "
                "(with an allocator returning void*, InsertObjectAt does not compile: reported)",
                "asserted preconditions (NDEBUG build) are not exercised: ObjectAt/SetObjectAt/AddObjectAt index outside the valid range, "
                "RemoveObject(pointer) outside [Data(), Data()+NumObjects()]; elements passed by reference never alias the container's own storage",
                "SetNumObjectsUninitialized/AddressOfObjectAt/AddObjectUninitialized are used in their callers' protocol (client destructs/constructs the elements)",
                "qsort is modelled as a sorting function on the values",
                "MaxObjects() is compared between model and implementation only (not part of the list specification)",
                "known-defective operations (InsertObjectAt at a valid position, Resize(0) of a non-empty container) are generated only when "
                "%s=1 or known_findings.json lists them; the theorem covers every history that avoids them" % DEFECT_ENV]

    def defects_enabled(self):
        if os.environ.get(DEFECT_ENV, "") not in ("", "0"):
            return True
        return any(str(f.get("signature", "")).startswith("C18con:") for f in vlib.known_findings(self.cid))

    # ---- generation -----------------------------------------------------------------
    def enum(self, name, ns, length, out, defects):
        alpha = ALPHABETS[name]
        for tup in itertools.product(alpha, repeat=length):
            if not defects:
                ms = MiniSpec(ns)
                ok = True
                for o in tup:
                    if not ms.safe(o):
                        ok = False
                        break
                    ms.apply(o)
                if not ok:
                    continue
            out.append(Case("e%d" % len(out), str(ns), list(tup), "exhaustive-%s-len%d" % (name, length)))

    def rand_op(self, rng, ms, ns, defects, maxlen):
        s = rng.randrange(ns)
        l = ms.l[s]
        n = len(l)
        v = rng.choice([0, 1, 2, 3, 1, 2, 5])
        if l and rng.random() < 0.5:
            v = rng.choice(l)                                   # a value that is present
        idx = rng.choice([0, 1, 1, 2, max(n - 1, 0), n, n, n + 1, n + 2, rng.randrange(n + 4)])
        t = rng.randrange(ns)
        r = rng.random()
        if n > maxlen:                                          # keep the lists printable
            r = 0.80 + 0.2 * rng.random() if rng.random() < 0.6 else r
        if r < 0.16:
            return "AD %d %d" % (s, v)
        if r < 0.20:
            return "AF %d" % s
        if r < 0.24:
            return "AN %d %d" % (s, v)
        if r < 0.29:
            return "AU %d %d" % (s, v)
        if r < 0.33:
            return "AA %d %d %d" % (s, rng.choice([0, 1, max(n, 1), n + 1, n + 1, n + 3, rng.randrange(n + 3)]), v)
        if r < 0.37:
            if defects:
                return "IA %d %d %d" % (s, idx, v)
            return "IA %d %d %d" % (s, rng.choice([0, n + 2, n + 5]), v)
        if r < 0.40:
            return "SA %d %d %d" % (s, idx, v)
        if r < 0.44:
            return "OA %d %d" % (s, idx)
        if r < 0.47:
            return "IO %d %d" % (s, v)
        if r < 0.49:
            return "IL %d %d" % (s, v)
        if r < 0.54:
            return "RS %d %d" % (s, rng.choice([0, 1, max(n - 1, 0), n, n + 1, 2 * n, 2 * n + 2, rng.randrange(12)]))
        if r < 0.58:
            return "SN %d %d" % (s, rng.choice([0, max(n - 1, 0), max(n - 2, 0), n, n + 1, n + 3]))
        if r < 0.62:
            return "SU %d %d %d" % (s, rng.choice([0, max(n - 1, 0), max(n - 2, 0), n, n + 1, n + 3]), v)
        if r < 0.65:
            return "SH %d" % s
        if r < 0.68:
            return "SO %d" % s
        if r < 0.71:
            return "CC %d %d" % (s, t)
        if r < 0.74:
            return "MC %d %d" % (s, t)
        if r < 0.78:
            return "CA %d %d" % (s, t)
        if r < 0.81:
            return "MA %d %d" % (s, t)
        if r < 0.88:
            return "RA %d %d" % (s, idx)
        if r < 0.93:
            return "RO %d %d" % (s, v)
        if r < 0.96:
            return "RP %d %d" % (s, rng.choice([0, max(n - 1, 0), n, n + 1, rng.randrange(n + 2)]))
        if r < 0.975:
            return "CL %d" % s
        if r < 0.985:
            return "FR %d" % s
        if r < 0.993:
            return "CT %d" % s
        return "CN %d %d" % (s, rng.choice([0, 1, 3, 8]))

    def walk(self, rng, ns, length, cid, defects, maxlen=24):
        ms = MiniSpec(ns)
        ops = []
        for _ in range(length):
            o = self.rand_op(rng, ms, ns, defects, maxlen)
            while not defects and not ms.safe(o):
                o = self.rand_op(rng, ms, ns, defects, maxlen)
            ms.apply(o)
            ops.append(o)
        return Case(cid, str(ns), ops, "random-walk-%dslots-len%d%s" % (ns, length, "-defects" if defects else ""))

    def gen(self, tier, seed):
        rng = random.Random(seed)
        defects = self.defects_enabled()
        cases = []
        pats = [os.path.join(vlib.VERIF, "corpus", "C18con", "*.txt")]
        if defects:
            pats.append(os.path.join(vlib.VERIF, "corpus", "C18con", "defects", "*.txt"))
        for pat in pats:
            for p in sorted(glob.glob(pat)):
                lines = [l.strip() for l in open(p) if l.strip() and not l.startswith("#")]
                cases.append(Case("c_" + os.path.basename(p)[:-4], lines[0], lines[1:], "corpus"))
        ex = []
        if tier == "quick":
            for name in ("grow", "copy", "count"):
                self.enum(name, 2, 4, ex, defects)
            self.enum("misc", 2, 2, ex, defects)
            if defects:
                self.enum("defect", 2, 3, ex, True)
            walks = [(3, 40, 400), (2, 12, 600), (3, 400, 20), (3, 3000, 2)]
        else:
            for name in ("grow", "copy", "count"):
                self.enum(name, 2, 6, ex, defects)
            self.enum("misc", 2, 3, ex, defects)
            if defects:
                self.enum("defect", 2, 5, ex, True)
            walks = [(3, 40, 20000), (2, 12, 20000), (3, 400, 1000), (3, 10000, 12)]
        cases += ex
        k = 0
        for ns, ln, cnt in walks:
            for _ in range(cnt):
                cases.append(self.walk(rng, ns, ln, "w%d" % k, defects, 24 if ln < 5000 else 60))
                k += 1
        return cases

    # ---- canonicalisation ------------------------------------------------------------
    CAP = re.compile(r" cap=[0-9,]*$")

    def canon_model(self, lines):
        m = [l[2:] for l in lines if l.startswith("m ")]
        s = [l[2:] for l in lines if l.startswith("s ")]
        # the theorem: on a history that avoids the defective operations ("safe 1") the model shows
        # what the specification shows (capacity is not part of the specification).  Histories with
        # a defective operation are generated only on request; there the difference is the finding.
        ok = [self.CAP.sub("", l) for l in m] == s
        return m, [], ok

    SLOT = re.compile(r" s\d+=\[([^\]]*)\]")

    def canon_impl(self, lines):
        m = [l[2:] for l in lines if l.startswith("m ")]
        direct = []
        for i, l in enumerate(m):
            if "!" in l:
                direct.append("observation %d: read paths disagree:%s" % (i, l.split("!", 1)[1]))
                break
            mo = re.search(r" live=(-?\d+) bad=(\d+)", l)
            if not mo:
                direct.append("observation %d: unparsable line" % i)
                break
            total = sum(len([x for x in g.split(",") if x]) for g in self.SLOT.findall(l))
            if int(mo.group(2)) != 0:
                direct.append("observation %d: an element operation (read/assign/destruct) was applied to storage that holds no live element (bad=%s)" % (i, mo.group(2)))
                break
            if int(mo.group(1)) != total:
                direct.append("observation %d: constructions - destructions = %s but the containers hold %d elements" % (i, mo.group(1), total))
                break
        return m, [], direct, None

    def signature(self, case, rec, v):
        mo = re.match(r"observation (\d+):", v.get("why", ""))
        if v["kind"] == "correspondence":
            k = v.get("at")
        else:
            k = int(mo.group(1)) if mo else None
        if k is None and case.ops:
            k = len(case.ops) - 1                  # a shrunk history ends at the offending operation
        opc = case.ops[k].split()[0] if k is not None and k < len(case.ops) else "?"
        return "C18con:%s:%s" % (v["kind"], opc)

    def nontrivial(self, case, compared):
        big = any(len([x for x in g.split(",") if x]) >= 3 for l in compared for g in self.SLOT.findall(l))
        return big and any(o.split()[0] in ("RA", "RO", "RP", "CC", "CA", "MC", "MA", "SH", "RS", "SU", "SO") for o in case.ops)


HP = C18con()


def check(res, tier, seed):
    res.cov["rule"] += ("C18con: corpus first; every history of length 4 (quick) / 6 (thorough) over three 8-10 letter alphabets on 2 containers "
                        "(growth/removal/search/shrink; copy/move construction and assignment; count- and index-based operations incl. SetNumObjects below the length) and of length 2 / 3 over a "
                        "25-letter alphabet with one letter per remaining operation and early return; seeded random walks over all 26 operations on 2-3 "
                        "containers with values from a 4-key universe, indices at 0, 1, n-1, n, n+1, n+2 and sizes at the growth steps, up to 10^4 operations; "
                        "observation after every operation: return value / exception, contents of every container, live-element counter, lifetime-error counter, "
                        "MaxObjects; non-trivial = some container held >= 3 elements and the history removes, copies, moves, shrinks or sorts. ")
    vlib.history_check(res, HP, tier, seed)


def replay(path):
    return vlib.history_replay(HP, path)
