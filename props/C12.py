"""C12 — weak references never dangle."""
import glob
import os
import random

import vlib
from vlib import Case

LEVEL = "proof"


class C12(vlib.HistoryProp):
    cid = "C12"
    variant = "asan"
    harness_sources = ["harness/C12.cpp"]
    use_lib = True
    coq_dirs = ["Base", "C12"]
    has_monitor = False     # the specification is deterministic: the driver prints it next to the model

    def assumptions(self):
        return ["IsLastReference() is only observed on references that point to an object (on a cleared reference it returns true, on a reference constructed from null it reads uninitialised fields)",
                "objects are destructed in place and their memory is not reused during a case, so pointer identity = object identity",
                "operations on an empty/occupied slot that the client cannot express (assign through a destroyed reference) are skipped by model and harness alike"]

    # ---- generation -----------------------------------------------------------------
    def enum(self, no, nr, maxlen, out, limit):
        def srcs(objs, refs):
            s = ["N"]
            s += ["O %d" % i for i in range(no) if objs[i]]
            s += ["R %d" % i for i in range(nr) if refs[i]]
            return s

        def rec(ops, objs, refs):
            if ops:
                out.append(Case("e%d" % len(out), "%d %d" % (no, nr), ops, "exhaustive-%dx%d" % (no, nr)))
            if len(ops) >= maxlen or len(out) >= limit:
                return
            # symmetry: create object/reference slots in order
            fo = next((i for i in range(no) if not objs[i]), None)
            if fo is not None:
                o2 = list(objs); o2[fo] = True
                rec(ops + ["NO %d" % fo], o2, refs)
            for i in range(no):
                if objs[i]:
                    o2 = list(objs); o2[i] = False
                    rec(ops + ["DO %d" % i], o2, refs)
            fr = next((i for i in range(nr) if not refs[i]), None)
            if fr is not None:
                for s in srcs(objs, refs):
                    r2 = list(refs); r2[fr] = True
                    rec(ops + ["NR %d %s" % (fr, s)], objs, r2)
            for i in range(nr):
                if refs[i]:
                    for s in srcs(objs, refs):
                        rec(ops + ["AS %d %s" % (i, s)], objs, refs)
                    rec(ops + ["CL %d" % i], objs, refs)
                    r2 = list(refs); r2[i] = False
                    rec(ops + ["DR %d" % i], objs, r2)
        rec([], [False] * no, [False] * nr)

    def walk(self, rng, no, nr, length, cid):
        ops = []
        for _ in range(length):
            r = rng.random()
            src = rng.choice(["N", "O %d" % rng.randrange(no), "O %d" % rng.randrange(no), "R %d" % rng.randrange(nr), "R %d" % rng.randrange(nr)])
            if r < 0.10:
                ops.append("NO %d" % rng.randrange(no))
            elif r < 0.17:
                ops.append("DO %d" % rng.randrange(no))
            elif r < 0.37:
                ops.append("NR %d %s" % (rng.randrange(nr), src))
            elif r < 0.77:
                ops.append("AS %d %s" % (rng.randrange(nr), src))
            elif r < 0.87:
                ops.append("CL %d" % rng.randrange(nr))
            else:
                ops.append("DR %d" % rng.randrange(nr))
        return Case(cid, "%d %d" % (no, nr), ops, "random-walk-%dx%d-len%d" % (no, nr, length))

    def gen(self, tier, seed):
        rng = random.Random(seed)
        cases = []
        for p in sorted(glob.glob(os.path.join(vlib.VERIF, "corpus", "C12", "*.txt"))):
            lines = [l.strip() for l in open(p) if l.strip() and not l.startswith("#")]
            cases.append(Case("c_" + os.path.basename(p)[:-4], lines[0], lines[1:], "corpus"))
        ex = []
        if tier == "quick":
            self.enum(2, 3, 5, ex, 60000)
            walks = [(3, 5, 60, 300), (3, 5, 400, 20), (2, 3, 80, 100), (3, 5, 3000, 2)]
        else:
            self.enum(2, 3, 7, ex, 1500000)
            n0 = len(ex)
            self.enum(3, 5, 5, ex, n0 + 500000)
            walks = [(3, 5, 100, 5000), (3, 5, 1000, 200), (2, 3, 100, 2000), (3, 5, 10000, 10)]
        cases += ex
        k = 0
        for no, nr, ln, cnt in walks:
            for _ in range(cnt):
                cases.append(self.walk(rng, no, nr, ln, "w%d" % k))
                k += 1
        # the same histories on the second object layout of the harness (AbstractClass as a
        # non-first base: ids starting with 'L'); the model does not depend on the layout
        step = 1 if tier != "quick" else 4
        second = [Case("L" + c.id, c.header, c.ops, c.origin + "-layout2") for c in cases[::step]]
        return cases + second

    # ---- canonicalisation ------------------------------------------------------------
    def canon_model(self, lines):
        m = [l[2:] for l in lines if l.startswith("m ")]
        s = [l[2:] for l in lines if l.startswith("s ")]
        return m, [], m == s

    def canon_impl(self, lines):
        m = [l[2:] for l in lines if l.startswith("m ")]
        direct = []
        for i, l in enumerate(m):
            if "!" in l:
                direct.append("observation %d: Valid() disagrees with Pointer() != nullptr" % i)
            if "x:" in l:
                direct.append("observation %d: a weak reference still holds the address of a destroyed object (dangling)" % i)
        return m, [], direct, None

    def nontrivial(self, case, compared):
        txt = " ".join(compared)
        return (":0" in txt) and any(o.startswith("DO") for o in case.ops)


HP = C12()


def check(res, tier, seed):
    res.cov["rule"] = ("corpus first; all histories (slot-symmetry reduced, only effective ops) up to length 5 (quick) / 7 (thorough) over "
                       "2 objects x 3 references (and 3x5 to length 5 in thorough); seeded random walks over 3 objects x 5 references; "
                       "non-trivial = some object had >= 2 references at some point and an object was destroyed")
    vlib.history_check(res, HP, tier, seed)


def replay(path):
    return vlib.history_replay(HP, path)
