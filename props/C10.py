"""C10 — archives round-trip values and object graphs faithfully."""
import glob
import itertools
import os
import random

import vlib
from vlib import Case

LEVEL = "proof"

WIDTH = {"i8": 1, "i16": 2, "i32": 4, "i64": 8, "u8": 1, "u16": 2, "u32": 4, "u64": 8, "ch": 1,
         "sz": 8, "by": 1, "fl": 4, "db": 8, "bo": 1, "po": 4}
KINDS = sorted(WIDTH)
FLOATS = [0, 0x80000000, 0x7f800000, 0xff800000, 0x7fc00000, 0xffc00000, 0x7fa00000, 0x7f800001, 1, 0x3f800000, 0x7f7fffff]
DOUBLES = [0, 1 << 63, 0x7ff0000000000000, 0xfff0000000000000, 0x7ff8000000000000, 0xfff8000000000000,
           0x7ff4000000000000, 0x7ff0000000000001, 1, 0x3ff0000000000000, 0x7fefffffffffffff]
HEADERS = ["4d465553 1 4d6f726675736520417263686976", "54455354 1 4d6f72667573652074657374206172636869", "4d465553 1 -",
           "41 0 7a", "4d465553 65535 4d6f726675736520417263686976", "4d4655534d465553ff80 7 " + "e9" * 40]
CLS_OF = {}


def hexs(b):
    return bytes(b).hex() if b else "-"


def prim_value(rng, k):
    w = WIDTH[k]
    if k == "bo":
        return rng.choice([0, 1])
    if k == "fl" and rng.random() < 0.7:
        return rng.choice(FLOATS)
    if k == "db" and rng.random() < 0.7:
        return rng.choice(DOUBLES)
    top = 1 << (8 * w)
    return rng.choice([0, 1, top - 1, top >> 1, (top >> 1) - 1, top - 2, 0x80 % top, rng.randrange(top), rng.randrange(top),
                       0xfff6040e % top])   # the last one: the bytes of ~654321u (null pointer marker) as a value


def rand_string(rng):
    r = rng.random()
    if r < 0.2:
        return []
    if r < 0.5:
        return [rng.randrange(1, 256) for _ in range(rng.choice([1, 1, 2, 3, 7, 8, 9, 15, 16, 17]))]
    if r < 0.7:
        return [rng.randrange(0x80, 0x100) for _ in range(rng.randrange(1, 40))]
    if r < 0.8:
        return list(range(1, 256))
    if r < 0.86:
        return [rng.randrange(1, 256) for _ in range(rng.choice([255, 256, 257, 1000, 5000]))]
    return [rng.choice(b"abcXYZ 09_") for _ in range(rng.randrange(1, 30))]


def rand_leaf(rng, ids, self_id=None):
    r = rng.random()
    if not ids:
        r = r * 0.67 if r < 0.92 else 0.7      # no objects around: values, raw blocks, strings, a few null pointers
    if r < 0.40:
        k = rng.choice(KINDS)
        return "P %s %x" % (k, prim_value(rng, k))
    if r < 0.48:
        n = rng.choice([0, 0, 1, 2, 3, 4, 5, 8, 16, 100])
        return "R %s" % hexs([rng.randrange(256) for _ in range(n)])
    if r < 0.62:
        return "S %s" % hexs(rand_string(rng))
    if r < 0.95 or not ids:
        s = rng.choice("sp")
        q = rng.random()
        if q < 0.12 or not ids:
            t = "n"
        elif q < 0.35 and self_id is not None:
            t = str(self_id)
        else:
            t = str(rng.choice(ids))
        return "Q %s %s" % (s, t)
    return "O %d" % rng.choice(ids)


class C10(vlib.HistoryProp):
    cid = "C10"
    unit = "C10"
    variant = "asan"
    harness_sources = ["harness/C10.cpp"]
    use_lib = True
    coq_dirs = ["Base", "C10"]
    has_monitor = False
    batch = 1500
    timeout = 900

    def assumptions(self):
        return ["x86-64 widths (size_t and std::streamsize are 8 bytes, little endian); memory allocation succeeds",
                "strings are read into fresh (empty) str destinations: a stored length 0 leaves the destination untouched, which then reads as the empty string",
                "strings contain no NUL byte (str is built from a C string); bool values are 0 or 1; values fit their C++ type",
                "objects are flat: the Archive() body of a host object is a list of primitive/string/raw/pointer/position calls, not another ArchiveObject",
                "host classes: three Class subclasses and one Listener subclass (Listener::Archive of a listener without notify/wait/variable/end lists writes one zero flag byte); ScriptVariable::Archive is not part of this unit",
                "one host object per identity; pointer identity on the reading side = identity of the reader's object created for the same identity; the archive is smaller than 2 GiB"]

    # ---- generation -------------------------------------------------------------------
    def graph_case(self, rng, cid, nobj, ncalls, origin):
        """random object graph: every object is archived (B), positioned (O) or (rarely) left out;
        pointers are written before and after their targets"""
        ids = list(range(1, nobj + 1))
        cls = {i: rng.choice([0, 0, 1, 2, 3]) for i in ids}
        events = []
        for i in ids:
            r = rng.random()
            if r < 0.80:
                events.append(("B", i))
            elif r < 0.93:
                events.append(("O", i))
            if rng.random() < 0.06:
                events.append(("B", i))      # archived twice
        rest = max(0, ncalls - len(events))
        for _ in range(rest):
            events.append(("L", None))
        rng.shuffle(events)
        ops = []
        budget = ncalls
        for kind, i in events:
            if kind == "B":
                nb = rng.choice([0, 0, 1, 2, 3, 5, 8])
                body = [rand_leaf(rng, ids, i) for _ in range(nb)]
                ops.append("B %d %d [ %s ]" % (cls[i], i, " ; ".join(body)) if body else "B %d %d [ ]" % (cls[i], i))
            elif kind == "O":
                ops.append("O %d" % i)
            else:
                ops.append(rand_leaf(rng, ids))
        return Case(cid, rng.choice(HEADERS), ops[:200], origin)

    def prim_case(self, rng, cid, n):
        ops = []
        for _ in range(n):
            ops.append(rand_leaf(rng, []))
        return Case(cid, rng.choice(HEADERS), ops, "random-values-%s-calls" % ("1-20" if n <= 20 else "21-200"))

    ALPHA = ["Q p 1", "Q s 1", "Q s 2", "Q p n", "Q p 3", "B 0 1 [ ]", "B 0 1 [ Q p 1 ; Q s 2 ]", "B 1 2 [ Q s 1 ]",
             "B 2 3 [ Q p 2 ; Q s 3 ]", "B 3 4 [ S - ; Q p 4 ]", "O 1", "O 2", "O 5", "S -", "S 61", "P u8 ff", "R -", "R 00",
             "P bo 1", "P u32 fff6040e"]

    def gen(self, tier, seed):
        rng = random.Random(seed)
        cases = []
        for p in sorted(glob.glob(os.path.join(vlib.VERIF, "corpus", "C10", "*.txt"))):
            lines = [l.strip() for l in open(p) if l.strip() and not l.startswith("#")]
            hdr = HEADERS[0]
            if lines and lines[0].startswith("H "):
                hdr = lines[0][2:]
                lines = lines[1:]
            cases.append(Case("c_" + os.path.basename(p)[:-4], hdr, lines, "corpus"))
        k = 0
        # every primitive kind x boundary values, one call each and all in one archive
        for kd in KINDS:
            w = WIDTH[kd]
            top = 1 << (8 * w)
            vals = [0, 1] if kd == "bo" else sorted({0, 1, top - 1, top >> 1, (top >> 1) - 1, top - 2, 0x7f % top, 0x80 % top})
            if kd == "fl":
                vals = sorted(set(vals + FLOATS))
            if kd == "db":
                vals = sorted(set(vals + DOUBLES))
            for v in vals:
                cases.append(Case("p%d" % k, HEADERS[k % len(HEADERS)], ["P %s %x" % (kd, v)], "boundary-single"))
                k += 1
            cases.append(Case("p%d" % k, HEADERS[0], ["P %s %x" % (kd, v) for v in vals], "boundary-all-of-kind"))
            k += 1
        for h in HEADERS:
            cases.append(Case("h%d" % k, h, [], "empty-archive"))
            k += 1
        maxlen = 2 if tier == "quick" else 3
        for n in range(1, maxlen + 1):
            for tup in itertools.product(self.ALPHA, repeat=n):
                cases.append(Case("e%d" % k, HEADERS[0], list(tup), "exhaustive-len%d" % n))
                k += 1
        if tier == "quick":
            plan = [("g", 3, 8, 1500), ("g", 8, 30, 600), ("g", 30, 200, 60), ("p", 0, 20, 400), ("p", 0, 200, 30)]
        else:
            plan = [("g", 2, 6, 20000), ("g", 3, 8, 20000), ("g", 8, 30, 10000), ("g", 30, 200, 1500), ("p", 0, 20, 5000), ("p", 0, 200, 500)]
        for kind, nobj, ncalls, cnt in plan:
            for _ in range(cnt):
                if kind == "g":
                    no = rng.randrange(1, nobj + 1)
                    cases.append(self.graph_case(rng, "g%d" % k, no, rng.randrange(no, ncalls + 1), "random-graph-%dobj-%dcalls" % (nobj, ncalls)))
                else:
                    cases.append(self.prim_case(rng, "r%d" % k, rng.randrange(1, ncalls + 1)))
                k += 1
        return cases

    def canon_model(self, lines):
        b = [l for l in lines if l.startswith("b ")]
        m = [l[2:] for l in lines if l.startswith("m ")]
        s = [l[2:] for l in lines if l.startswith("s ")]
        return b + m, [], m == s

    def canon_impl(self, lines):
        b = [l for l in lines if l.startswith("b ")]
        m = [l[2:] for l in lines if l.startswith("m ")]
        direct = []
        if any(l.startswith("! ") for l in m) or any(l.startswith("b !") for l in b):
            direct.append("writing or reading an intact archive failed: " + (m + b)[0])
        return b + m, [], direct, None

    def nontrivial(self, case, compared):
        ops = case.ops
        objs = [o for o in ops if o.startswith("B ")]
        ptrs = [o for o in ops if "Q " in o and not o.endswith(" n")]
        return len(ops) >= 3 and bool(objs) and bool(ptrs)


HP = C10()


def check(res, tier, seed):
    res.cov["rule"] += ("corpus first; every primitive kind x boundary values (0, 1, max, sign bit, NaN/inf/denormal bit patterns, the bytes of the null-pointer marker); "
                        "empty archives under 6 header/version/name settings; every sequence up to length 2 (quick) / 3 (thorough) over a 20-letter alphabet of "
                        "pointers (plain/weak, null, forward, backward, self, dangling), objects of 4 host classes with pointer bodies, positions, empty and 1-byte strings/raw; "
                        "seeded random object graphs (<= 30 objects, <= 200 calls, pointers before and after their targets, objects archived twice / positioned / left out) and "
                        "random primitive/string sequences (empty, long <= 5000, bytes >= 0x80); compared: the written bytes byte for byte and every value / pointer identity read back; "
                        "non-trivial = >= 3 calls with an object and a non-null pointer")
    vlib.history_check(res, HP, tier, seed)


def replay(path):
    return vlib.history_replay(HP, path)
