"""C10 — archives round-trip values and object graphs faithfully."""
import glob
import itertools
import os
import random
import re

import vlib
from vlib import Case

LEVEL = "proof"

WIDTH = {"i8": 1, "i16": 2, "i32": 4, "i64": 8, "u8": 1, "u16": 2, "u32": 4, "u64": 8, "ch": 1,
         "sz": 8, "by": 1, "fl": 4, "db": 8, "bo": 1, "po": 4}
KINDS = sorted(WIDTH)
FLOATS = [0, 0x80000000, 0x7f800000, 0xff800000, 0x7fc00000, 0xffc00000, 0x7fa00000, 0x7f800001, 1, 0x3f800000, 0x7f7fffff]
DOUBLES = [0, 1 << 63, 0x7ff0000000000000, 0xfff0000000000000, 0x7ff8000000000000, 0xfff8000000000000,
           0x7ff4000000000000, 0x7ff0000000000001, 1, 0x3ff0000000000000, 0x7fefffffffffffff]
HEADERS = ["4d465553 1 4d6f726675736520417263686976", "54455354 1 4d6f72667573652074657374206172636869", "4d465553 1 -",
           "41 0 7a", "4d465553 65535 4d6f726675736520417263686976", "4d4655534d465553ff80 7 " + "e9" * 40]
CLS_OF = {}


def hexs(b):
    return bytes(b).hex() if b else "-"


def prim_value(rng, k):
    w = WIDTH[k]
    if k == "bo":
        return rng.choice([0, 1])
    if k == "fl" and rng.random() < 0.7:
        return rng.choice(FLOATS)
    if k == "db" and rng.random() < 0.7:
        return rng.choice(DOUBLES)
    top = 1 << (8 * w)
    return rng.choice([0, 1, top - 1, top >> 1, (top >> 1) - 1, top - 2, 0x80 % top, rng.randrange(top), rng.randrange(top),
                       0xfff6040e % top])   # the last one: the bytes of ~654321u (null pointer marker) as a value


def rand_string(rng):
    """arbitrary byte strings: empty, NUL at the first / middle / last position, all-zero, high bytes, long"""
    r = rng.random()
    if r < 0.12:
        return []
    if r < 0.30:                                             # NUL bytes placed on purpose
        n = rng.choice([1, 1, 2, 2, 3, 5, 8, 255, 256, 257])
        b = [rng.randrange(1, 256) for _ in range(n)]
        where = rng.choice(["first", "middle", "last", "all", "first+last", "two"])
        if where in ("first", "first+last"):
            b[0] = 0
        if where in ("last", "first+last"):
            b[-1] = 0
        if where == "middle":
            b[n // 2] = 0
        if where == "two":
            b[rng.randrange(n)] = 0
            b[rng.randrange(n)] = 0
        if where == "all":
            b = [0] * n
        return b
    if r < 0.52:
        return [rng.randrange(0, 256) for _ in range(rng.choice([1, 1, 2, 3, 7, 8, 9, 15, 16, 17]))]
    if r < 0.66:
        return [rng.randrange(0x80, 0x100) for _ in range(rng.randrange(1, 40))]
    if r < 0.74:
        return list(range(0, 256))
    if r < 0.84:
        return [rng.randrange(0, 256) for _ in range(rng.choice([255, 256, 257, 1000, 5000, 5001, 7000]))]
    return [rng.choice(b"abcXYZ 09_") for _ in range(rng.randrange(1, 30))]


def rand_leaf(rng, ids, self_id=None):
    r = rng.random()
    if not ids:
        r = r * 0.67 if r < 0.92 else 0.7      # no objects around: values, raw blocks, strings, a few null pointers
    if r < 0.40:
        k = rng.choice(KINDS)
        return "P %s %x" % (k, prim_value(rng, k))
    if r < 0.48:
        n = rng.choice([0, 0, 1, 2, 3, 4, 5, 8, 16, 100])
        return "R %s" % hexs([rng.randrange(256) for _ in range(n)])
    if r < 0.62:
        return "S %s" % hexs(rand_string(rng))
    if r < 0.95 or not ids:
        s = rng.choice("sp")
        q = rng.random()
        if q < 0.12 or not ids:
            t = "n"
        elif q < 0.35 and self_id is not None:
            t = str(self_id)
        else:
            t = str(rng.choice(ids))
        return "Q %s %s" % (s, t)
    return "O %d" % rng.choice(ids)


# ------------------------------------------------------------------ script variables
PRIMES = [7, 17, 37, 79, 163, 331, 673, 1361, 2729, 5471, 10949, 21911, 43853, 87719, 175447, 701819, 1403641,
          2807303, 5614657, 11229331, 22458671, 44917381, 89834777, 0]
M64 = (1 << 64) - 1


def key_hash(node):
    """Hash<ScriptVariable> of an integer or string key, as a uintptr_t"""
    if node.kind == "i":
        return node.arg & M64
    h = 0
    for b in node.arg:                       # HashCharArray: hash * 31 + (signed char)
        if b == 0:
            break
        h = (h * 31 + (b - 256 if b >= 128 else b)) & M64
    return h


class SetSim:
    """con::set as far as insertion is concerned: table length, threshold, chains (new entries at the head),
    rehash to the next prime; gives the order in which set::Archive writes the entries"""

    def __init__(self):
        self.tl, self.thr, self.count, self.tli = 1, 1, 0, 0
        self.buckets = [[]]

    def insert(self, h, entry):
        if self.count >= self.thr:
            new = 0
            for i, pr in enumerate(PRIMES):
                new = pr
                if pr > self.tl:
                    self.tli = i
                    break
            old = self.buckets
            self.tl = self.thr = new
            self.buckets = [[] for _ in range(new)]
            for i in range(len(old), 0, -1):
                for hh, e in old[i - 1]:
                    self.buckets[hh % new].insert(0, (hh, e))
        self.count += 1
        self.buckets[h % self.tl].insert(0, (h, entry))

    def remove(self, h, entry):
        """set::remove: unlinks the entry; the table never shrinks, count goes down"""
        b = self.buckets[h % self.tl]
        for i, (hh, e) in enumerate(b):
            if e is entry:
                del b[i]
                self.count -= 1
                return True
        return False

    def archive_order(self):
        out = []
        for i in range(self.tl, 0, -1):
            out += [e for _, e in self.buckets[i - 1]]
        return out


class SV:
    """a script value in the generator: kind + argument; arrays/const arrays are Holder objects shared by identity"""

    def __init__(self, kind, arg=None):
        self.kind, self.arg = kind, arg


class Holder:
    def __init__(self, kind, hid):
        self.kind, self.hid = kind, hid       # 'A' or 'K'
        self.entries = []                     # A: (key SV, value SV) in insertion order; K: [SV]
        self.events = None                    # A with a history: ("ins", index into entries) | ("dum", int key) | ("rm", int key)


class VarGen:
    def __init__(self, rng, lis_ids, con_ids, safe_ids, top_vids):
        self.rng, self.lis, self.con, self.safe, self.tops = rng, lis_ids, con_ids, safe_ids, top_vids
        self.next_vid, self.next_hid = 100000, 500000
        self.holders = []                     # completed holders (may be shared)
        self.occ = {}                         # hid -> number of references in the case

    def scalar(self, top=False):
        r, rng = self.rng.random(), self.rng
        if r < 0.16:
            return SV("i", rng.choice([0, 1, M64, 1 << 63, (1 << 63) - 1, rng.randrange(1 << 64), rng.randrange(100)]))
        if r < 0.26:
            return SV("f", rng.choice(FLOATS + [rng.randrange(1 << 32)]))
        if r < 0.34:
            return SV("c", rng.choice([0, 1, 0x41, 0x7f, 0x80, 0xff]))
        if r < 0.50:
            return SV("s", rand_string(rng)[:300])
        if r < 0.60:
            return SV("k", None if rng.random() < 0.2 else [rng.choice(b"abcdefXYZ_019 ") for _ in range(rng.randrange(1, 12))])
        if r < 0.72:
            return SV("L", rng.choice(self.lis + [None]) if self.lis else None)
        if r < 0.80 and top:         # (a copy of a Ref variable does not copy the pointer: only top-level variables)
            return SV("R", rng.choice(self.tops + [None]) if self.tops else None)
        if r < 0.85:
            return SV("C", rng.choice(self.con + [None]) if self.con else None)
        if r < 0.89 and self.safe:
            return SV("S", rng.choice(self.safe))
        if r < 0.96:
            return SV("v", [rng.randrange(256) for _ in range(12)] if rng.random() < 0.5 else
                      list((rng.choice(FLOATS)).to_bytes(4, "little") * 3))
        return SV("n")

    def key(self, used):
        rng = self.rng
        for _ in range(50):
            if rng.random() < 0.7:
                v = rng.choice([rng.randrange(-3, 40), rng.randrange(-3, 40), rng.randrange(1 << 64), 7 * rng.randrange(12), -1]) & M64
                k = ("i", v)
            else:
                k = ("s", tuple(rng.choice(b"abcdxyzQ_") for _ in range(rng.randrange(1, 6))))
            if k not in used:
                used.add(k)
                return SV(k[0], k[1] if k[0] == "i" else list(k[1]))
        return None

    def value(self, depth, enclosing=None, allow_none=False):
        rng = self.rng
        r = rng.random()
        if depth < 3 and r < 0.22:
            return self.array(depth + 1)
        if depth < 3 and r < 0.32:
            return self.constarray(depth + 1)
        if r < 0.44 and self.holders:
            return SV("H", rng.choice(self.holders))
        if r < 0.50 and enclosing is not None:
            return SV("H", enclosing)                     # the array contains itself
        v = self.scalar(depth == 0)
        while v.kind == "n" and not allow_none:
            v = self.scalar(depth == 0)
        return v

    def array(self, depth):
        h = Holder("A", self.next_hid)
        self.next_hid += 1
        used = set()
        n = self.rng.choice([0, 1, 1, 2, 2, 3, 4, 7, 8, 9, 18])
        if depth > 1:
            n = min(n, 4)
        for _ in range(n):
            k = self.key(used)
            if k is None:
                break
            # the first entry creates the holder: it cannot be the array itself
            h.entries.append((k, self.value(depth, enclosing=h if h.entries else None)))
        # a history: more keys were inserted (the table grew: 1 -> 7 -> 17 -> 37 buckets) and removed again (it never shrinks),
        # so that (tableLength, count) takes combinations like (7,0) (7,1) (17,1) (17,2) (37,3)
        if self.rng.random() < 0.45:
            total = self.rng.choice([2, 3, 7, 8, 9, 17, 18, 19, 38])
            ndum = max(0, total - len(h.entries))
            if ndum:
                dums = [100000 + 37 * j + self.rng.randrange(30) for j in range(ndum)]
                ev = [("ins", i) for i in range(len(h.entries))] + [("dum", d) for d in dums]
                first = ev[0] if ev and h.entries and self.rng.random() < 0.5 else None
                self.rng.shuffle(ev)
                # the holder is created by the first insertion: keep an entry that may be the array itself away from it
                ev.sort(key=lambda e: 0 if e[0] == "dum" and e[1] == dums[0] else 1)
                out, live = [], []
                for e in ev:
                    out.append(e)
                    if e[0] == "dum":
                        live.append(e[1])
                    while live and self.rng.random() < 0.3:
                        out.append(("rm", live.pop(self.rng.randrange(len(live)))))
                for d in live:
                    out.append(("rm", d))
                h.events = out
        self.holders.append(h)
        return SV("H", h)

    def constarray(self, depth):
        h = Holder("K", self.next_hid)
        self.next_hid += 1
        for _ in range(self.rng.choice([0, 1, 2, 3, 5])):
            h.entries.append(self.value(depth, enclosing=None, allow_none=True))
        self.holders.append(h)
        return SV("H", h)

    # ---- flattening in archive order
    def count_refs(self, sv, seen):
        if sv.kind != "H":
            return
        h = sv.arg
        self.occ[h.hid] = self.occ.get(h.hid, 0) + 1
        if h.hid in seen:
            return
        seen.add(h.hid)
        for e in h.entries:
            if h.kind == "A":
                self.count_refs(e[1], seen)
            else:
                self.count_refs(e, seen)

    def flatten(self, sv, vid, emitted, out):
        """appends (vid, text-without-refcount | callable) tokens; emitted = hids already in the archive"""
        k = sv.kind
        if k == "n":
            out.append("%d:n" % vid)
        elif k in "ifc":
            out.append("%d:%s:%x" % (vid, k, sv.arg))
        elif k == "s":
            out.append("%d:s:%s" % (vid, hexs(sv.arg)))
        elif k == "k":
            out.append("%d:k:%s" % (vid, "~" if sv.arg is None else hexs(sv.arg)))
        elif k in "LRCS":
            out.append("%d:%s:%s" % (vid, k, "n" if sv.arg is None else sv.arg))
        elif k == "v":
            out.append("%d:v:%s" % (vid, hexs(sv.arg)))
        elif k == "P":
            out.append("%d:P:%d:%d" % (vid, sv.arg, vid))
        elif k == "H":
            h = sv.arg
            if h.hid in emitted:
                out.append("%d:h:%s:%d" % (vid, h.kind, h.hid))
                return
            emitted.add(h.hid)
            if h.kind == "K":
                out.append("%d:K:%d:RC%d:%d" % (vid, h.hid, h.hid, len(h.entries)))
                for e in h.entries:
                    self.next_vid += 1
                    self.flatten(e, self.next_vid, emitted, out)
            else:
                sim = SetSim()
                events = h.events if h.events is not None else [("ins", i) for i in range(len(h.entries))]
                recs = [(i, kk, vv) for i, (kk, vv) in enumerate(h.entries)]
                dummies = {}
                for e in events:
                    if e[0] == "ins":
                        sim.insert(key_hash(recs[e[1]][1]), recs[e[1]])
                    elif e[0] == "dum":
                        dummies[e[1]] = ("dummy", e[1])
                        sim.insert(e[1] & M64, dummies[e[1]])
                    else:
                        sim.remove(e[1] & M64, dummies[e[1]])
                order = sim.archive_order()
                pos = {rec[0]: j for j, rec in enumerate(order)}          # entry index -> place in the archive
                hist = "/".join(str(pos[e[1]]) if e[0] == "ins" else ("d%x" % e[1] if e[0] == "dum" else "r%x" % e[1]) for e in events)
                out.append("%d:A:%d:RC%d:%d:%d:%d:%d:%s" % (vid, h.hid, h.hid, sim.tl, sim.thr, sim.tli, len(order), hist or "-"))
                for _, kk, vv in order:
                    self.next_vid += 1
                    self.flatten(kk, self.next_vid, emitted, out)
                    self.next_vid += 1
                    self.flatten(vv, self.next_vid, emitted, out)


def fix_listeners(op):
    """a listener's body starts with what Listener::Archive writes itself: at least the section-flag byte (0 = no lists)"""
    m = re.match(r"^([BNU]) 2 (\d+) \[ (.*)\]( @.*)?$", op)
    if not m or m.group(3).startswith("P u8 "):
        return op
    body = m.group(3).strip()
    return "%s 2 %s [ P u8 0%s ]%s" % (m.group(1), m.group(2), " ; " + body if body else "", m.group(4) or "")


def listener_sections(rng, lis_items, name, next_vid):
    """Listener::Archive's sections for the listeners of a case: one registration name per case (so that every set has at most
    one entry and its layout does not depend on dictionary indices); returns {id: (prefix leaves, annotation)}"""
    notify = {}
    for a in lis_items:
        if rng.random() < 0.6:
            notify[a] = rng.sample(lis_items, rng.randrange(1, min(3, len(lis_items)) + 1))
    waitfor = {}
    for a in lis_items:                       # the harness registers in this order
        for b in notify.get(a, []):
            waitfor.setdefault(b, []).append(a)
    out = {}
    hx = hexs(name)
    for a in lis_items:
        var = None
        if rng.random() < 0.6:
            next_vid[0] += 1
            k = rng.choice("ifcsk")
            val = {"i": "i:%x" % rng.randrange(1 << 64), "f": "f:%x" % rng.choice(FLOATS), "c": "c:%x" % rng.choice([0, 0x41, 0xff]),
                   "s": "s:%s" % hexs(rand_string(rng)[:40]), "k": "k:%s" % hexs([rng.choice(b"abcxyz") for _ in range(rng.randrange(1, 6))])}[k]
            var = (hexs([rng.choice(b"varname_") for _ in range(rng.randrange(1, 7))]), "%d:%s" % (next_vid[0], val))
        flag = (1 if a in notify else 0) | (2 if a in waitfor else 0) | (4 if var else 0)
        leaves = ["P u8 %x" % flag]
        ann = []
        for key, table in (("n", notify), ("w", waitfor)):
            if a in table:
                leaves += ["P u32 1", "P u32 1", "P u32 1", "P u16 0", "P u8 1", "S " + hx, "P u32 %x" % len(table[a])] + ["Q s %d" % b for b in table[a]]
                ann.append("%s:%s:%s" % (key, hx, ",".join(str(b) for b in table[a])))
        if var:
            leaves += ["P u32 1", "P u32 1", "P u32 1", "P u16 0", "V %s %s" % var]
            ann.append("v:" + var[0])
        out[a] = (leaves, "@ %d %s" % (len(leaves), " ".join(ann)))
    return out


def finish_refcounts(ops, occ):
    """refCount of a holder = the references the host holds - 1; the harness keeps one extra reference per holder"""
    import re as _re
    return [_re.sub(r"RC(\d+)", lambda m: str(occ.get(int(m.group(1)), 1)), o) for o in ops]


class C10(vlib.HistoryProp):
    cid = "C10"
    unit = "C10"
    variant = "asan"
    harness_sources = ["harness/C10.cpp"]
    use_lib = True
    coq_dirs = ["Base", "C10"]
    has_monitor = False
    batch = 1500
    timeout = 900

    def assumptions(self):
        return ["x86-64 widths (size_t and std::streamsize are 8 bytes, little endian); memory allocation succeeds",
                "strings are read into fresh (empty) str destinations: a stored length 0 leaves the destination untouched, which then reads as the empty string",
                "strings are arbitrary byte strings (NUL allowed anywhere; built with str::assign(ptr, len), compared by length + bytes); the header magic and archive name are C strings (version_info_t holds const char*); bool values are 0 or 1; values fit their C++ type",
                "objects are flat: the Archive() body of a host object is a list of primitive/string/raw/pointer/position/script-variable calls, not another ArchiveObject",
                "host classes: three Class subclasses and one Listener subclass. Listener::Archive (flag byte, notify / wait-for / variable lists) is NOT modelled in Coq: the records it writes are named by the item "
                "list as the first leaves of the listener's body and laid out by props/C10.py (one registration name per case, at most one variable per listener: every set has tableLength 1; the end list has no public API "
                "and is not reached); bytes are compared exactly, the loaded lists through RegisterSize / WaitingSize / the variable's value and Unregister(name, other) emptying both sides",
                "script variables: every kind of variableType_e; array keys are integers and C strings (the archive order of an array is the order of its hash table: the generator "
                "simulates con::set insertion/rehash to predict tableLength, threshold, tableLengthIndex and the entry order; a wrong prediction shows as a byte mismatch, never as a missed one); "
                "arrays keyed by listeners hash by address and are only probed for what is read back; Ref and ScriptPointer variables only at top level (copying such a variable into an "
                "array does not copy the pointer); cycles of arrays only as an array that directly contains itself; the harness keeps one extra reference to every holder (refCount = references - 1)",
                "dictionary strings (ConstString, variable keys) are non-empty C strings; the hash table that con::set::Archive rebuilds on loading is abstracted to the ordered list of entries "
                "(the harness additionally checks that every entry read back is found by find())",
                "an object is loaded into storage the host owns (ArchiveObject(obj)), by arc.ReadObject<T>() or by the untyped arc.ReadObject() (class created from the archived name; used for class VObj only, where no "
                "single damaged name byte gives another registered class, so that 'the name resolves to the expected class' is the same test): the model's reader is the same for all three - "
                "ReadObject<T>() is createInstance() + ArchiveObject(*instance) - who owns the memory is watched by AddressSanitizer; the plain/weak pointers of an object's body are members of the host object",
                "one host object per identity; pointer identity on the reading side = identity of the reader's object created for the same identity; the archive is smaller than 2 GiB"]

    # ---- generation -------------------------------------------------------------------
    def graph_case(self, rng, cid, nobj, ncalls, origin):
        """random object graph: every object is archived (B), positioned (O) or (rarely) left out;
        pointers are written before and after their targets"""
        ids = list(range(1, nobj + 1))
        cls = {i: rng.choice([0, 0, 1, 2, 3]) for i in ids}
        events = []
        for i in ids:
            r = rng.random()
            if r < 0.80:
                events.append(("B", i))
            elif r < 0.93:
                events.append(("O", i))
            if rng.random() < 0.06:
                events.append(("B", i))      # archived twice
        rest = max(0, ncalls - len(events))
        for _ in range(rest):
            events.append(("L", None))
        rng.shuffle(events)
        ops = []
        budget = ncalls
        for kind, i in events:
            if kind == "B":
                nb = rng.choice([0, 0, 1, 2, 3, 5, 8, 10])
                body = [rand_leaf(rng, ids, i) for _ in range(nb)]
                if cls[i] == 2:
                    body = ["P u8 0"] + body          # a listener without lists: Listener::Archive writes the flag byte 0
                # N: the reader loads this object with arc.ReadObject<T>() (only objects that are archived once)
                letter = "N" if rng.random() < 0.35 and sum(1 for e in events if e == ("B", i)) == 1 else "B"
                # U: loaded with the untyped arc.ReadObject(); only class VObj: no single damaged byte turns "VObj" into another class name
                if letter == "N" and cls[i] == 3 and rng.random() < 0.7:
                    letter = "U"
                ops.append("%s %d %d [ %s ]" % (letter, cls[i], i, " ; ".join(body)) if body else "%s %d %d [ ]" % (letter, cls[i], i))
            elif kind == "O":
                ops.append("O %d" % i)
            else:
                ops.append(rand_leaf(rng, ids))
        return Case(cid, rng.choice(HEADERS), ops[:200], origin)

    def script_case(self, rng, cid, nvars, origin):
        """script variables of every kind among listeners, containers and ordinary records; arrays shared between
        variables, nested, containing themselves; references between variables forward and backward"""
        nlis = rng.randrange(0, 4)
        lis = list(range(1, nlis + 1))
        con = [200 + i for i in range(rng.randrange(0, 3))]
        safe = [300 + i for i in range(rng.randrange(0, 3))]
        tops = [1000 + i for i in range(nvars)]
        gen = VarGen(rng, lis, con, safe, tops)
        events = [("B", i) for i in lis if rng.random() < 0.85] + [("O", i) for i in con + safe if rng.random() < 0.85]
        events += [("V", v) for v in tops] + [("L", None) for _ in range(rng.randrange(0, 4))]
        rng.shuffle(events)
        values = {}
        for kind, v in events:                      # values are generated in archive order: sharing goes backwards
            if kind == "V":
                r = rng.random()
                if r < 0.06:
                    values[v] = SV("P", gen.next_hid)
                    gen.next_hid += 1
                else:
                    values[v] = gen.value(0, allow_none=True)
        seen = set()
        for kind, v in events:
            if kind == "V":
                gen.count_refs(values[v], seen)
        emitted = set()
        ops = []
        pending_body = []

        def vleaf(v):
            toks = []
            gen.flatten(values[v], v, emitted, toks)
            key = rng.choice(["*", "*", "*", "~", hexs([rng.choice(b"keyname_01") for _ in range(rng.randrange(1, 8))])])
            return "V %s %s" % (key, " ".join(toks))

        lis_items = [v for kind, v in events if kind == "B"]
        sections = listener_sections(rng, lis_items, [rng.choice(b"waittill_evt") for _ in range(rng.randrange(1, 9))], [gen.next_vid + 50000]) if lis_items and rng.random() < 0.7 else {}
        i = 0
        while i < len(events):
            kind, v = events[i]
            if kind == "B":
                body = []
                # a listener whose Archive() body archives the next variable(s) and a pointer to itself
                while i + 1 < len(events) and events[i + 1][0] == "V" and rng.random() < 0.4:
                    i += 1
                    body.append(vleaf(events[i][1]))
                if rng.random() < 0.5:
                    body.append("Q s %d" % v)
                letter = rng.choice("BBN")
                pre, ann = sections.get(v, (["P u8 0"], ""))
                ops.append(("%s 2 %d [ %s ] %s" % (letter, v, " ; ".join(pre + body), ann)).rstrip())
            elif kind == "O":
                ops.append("O %d" % v)
            elif kind == "V":
                ops.append(vleaf(v))
            else:
                ops.append(rand_leaf(rng, lis))
            i += 1
        return Case(cid, rng.choice(HEADERS), finish_refcounts(ops, gen.occ), origin)

    def prim_case(self, rng, cid, n):
        ops = []
        for _ in range(n):
            ops.append(rand_leaf(rng, []))
        return Case(cid, rng.choice(HEADERS), ops, "random-values-%s-calls" % ("1-20" if n <= 20 else "21-200"))

    ALPHA = ["Q p 1", "Q s 1", "Q s 2", "Q p n", "Q p 3", "B 0 1 [ ]", "B 0 1 [ Q p 1 ; Q s 2 ]", "B 1 2 [ Q s 1 ]",
             "B 2 3 [ Q p 2 ; Q s 3 ]", "B 3 4 [ S - ; Q p 4 ]", "O 1", "O 2", "O 5", "S -", "S 61", "S 00", "S 0061", "S 6100", "S 610062", "P u8 ff", "R -", "R 00",
             "P bo 1", "P u32 fff6040e", "B 1 6 [ S 00 ; Q p 6 ]",
             "V * 1000:i:7", "V 6b 1001:s:0041", "V * 1002:L:3", "V * 1003:R:1000", "V ~ 1004:k:6162",
             "N 1 7 [ Q p 1 ; Q s 7 ; Q p 8 ]", "N 2 8 [ Q s 7 ]", "U 3 9 [ Q p 9 ; Q s 1 ; P u8 5 ]"]

    def gen(self, tier, seed):
        rng = random.Random(seed)
        cases = []
        for p in sorted(glob.glob(os.path.join(vlib.VERIF, "corpus", "C10", "*.txt"))):
            lines = [l.strip() for l in open(p) if l.strip() and not l.startswith("#")]
            hdr = HEADERS[0]
            if lines and lines[0].startswith("H "):
                hdr = lines[0][2:]
                lines = lines[1:]
            cases.append(Case("c_" + os.path.basename(p)[:-4], hdr, lines, "corpus"))
        k = 0
        # every primitive kind x boundary values, one call each and all in one archive
        for kd in KINDS:
            w = WIDTH[kd]
            top = 1 << (8 * w)
            vals = [0, 1] if kd == "bo" else sorted({0, 1, top - 1, top >> 1, (top >> 1) - 1, top - 2, 0x7f % top, 0x80 % top})
            if kd == "fl":
                vals = sorted(set(vals + FLOATS))
            if kd == "db":
                vals = sorted(set(vals + DOUBLES))
            for v in vals:
                cases.append(Case("p%d" % k, HEADERS[k % len(HEADERS)], ["P %s %x" % (kd, v)], "boundary-single"))
                k += 1
            cases.append(Case("p%d" % k, HEADERS[0], ["P %s %x" % (kd, v) for v in vals], "boundary-all-of-kind"))
            k += 1
        for h in HEADERS:
            cases.append(Case("h%d" % k, h, [], "empty-archive"))
            k += 1
        maxlen = 2 if tier == "quick" else 3
        for n in range(1, maxlen + 1):
            for tup in itertools.product(self.ALPHA, repeat=n):
                cases.append(Case("e%d" % k, HEADERS[0], list(tup), "exhaustive-len%d" % n))
                k += 1
        if tier == "quick":
            plan = [("g", 3, 8, 1200), ("g", 8, 30, 500), ("g", 30, 200, 50), ("p", 0, 20, 300), ("p", 0, 200, 30),
                    ("v", 2, 0, 700), ("v", 5, 0, 500), ("v", 12, 0, 100)]
        else:
            plan = [("g", 2, 6, 20000), ("g", 3, 8, 20000), ("g", 8, 30, 10000), ("g", 30, 200, 1500), ("p", 0, 20, 5000), ("p", 0, 200, 500),
                    ("v", 1, 0, 10000), ("v", 3, 0, 15000), ("v", 6, 0, 8000), ("v", 15, 0, 1500)]
        for kind, nobj, ncalls, cnt in plan:
            for _ in range(cnt):
                if kind == "v":
                    cases.append(self.script_case(rng, "v%d" % k, rng.randrange(1, nobj + 1), "random-script-variables-upto%d" % nobj))
                elif kind == "g":
                    no = rng.randrange(1, nobj + 1)
                    cases.append(self.graph_case(rng, "g%d" % k, no, rng.randrange(no, ncalls + 1), "random-graph-%dobj-%dcalls" % (nobj, ncalls)))
                else:
                    cases.append(self.prim_case(rng, "r%d" % k, rng.randrange(1, ncalls + 1)))
                k += 1
        for c in cases:
            c.ops = [fix_listeners(o) for o in c.ops]
        return cases

    def canon_model(self, lines):
        b = [l for l in lines if l.startswith("b ")]
        m = [l[2:] for l in lines if l.startswith("m ")]
        s = [l[2:] for l in lines if l.startswith("s ")]
        return b + m, [], m == s

    def canon_impl(self, lines):
        b = [l for l in lines if l.startswith("b ")]
        m = [l[2:] for l in lines if l.startswith("m ")]
        direct = []
        if any(l.startswith("! ") for l in m) or any(l.startswith("b !") for l in b):
            direct.append("writing or reading an intact archive failed: " + (m + b)[0])
        for l in lines:
            if l.startswith("e ") and not l.startswith("e ok"):
                direct.append("the arrays that were loaded do not behave like the originals when they are searched, grown and emptied: " + l[2:])
        return b + m, [], direct, None

    def nontrivial(self, case, compared):
        ops = case.ops
        objs = [o for o in ops if o[:2] in ("B ", "N ", "U ")]
        ptrs = [o for o in ops if "Q " in o and not o.endswith(" n")]
        shared = [o for o in ops if ":h:" in o]
        return (len(ops) >= 3 and bool(objs) and bool(ptrs)) or bool(shared)


HP = C10()

# Findings that have been reported but are neither repaired in /repo nor (yet) listed in
# /verif/known_findings.json: until that is decided they are treated as listed (KNOWN-FINDING);
# VERIF_STRICT_FINDINGS=1 turns them into violations.
PENDING = {}   # nothing pending: the C11 finding is fixed (/repo 8fad902), the C10 one is listed in known_findings.json
# four listener keys: the entries end up in the bucket of the null pointer; one key alone is found by luck when its address % 7 is 0
LISTENER_KEY_CASE = ("case lk 4d465553 1 4d6f72\nB 2 1 [ ]\nB 2 2 [ ]\nB 2 3 [ ]\nB 2 4 [ ]\n"
                     "V * 1000:A:500000:1:7:7:0:5:0/1/2/3/4 2000:i:5 2001:i:6 2002:L:1 2003:i:7 2004:L:2 2005:i:8 2006:L:3 2007:i:9 2008:L:4 2009:i:a\nend\n")


def finding_text(sig):
    for f in vlib.known_findings("C10"):
        if f.get("signature") == sig:
            return f.get("what", sig)
    if sig in PENDING and not os.environ.get("VERIF_STRICT_FINDINGS"):
        return PENDING[sig] + " [reported; not yet decided: neither repaired nor in known_findings.json]"
    return None


def probe_listener_keys(res, seed):
    """arrays keyed by listeners are written in an order that depends on addresses, so they cannot be compared byte for byte and are
    not part of the generated cases; this probe only looks at what is read back"""
    exe = vlib.build_harness("C10", HP.harness_sources, HP.variant, HP.use_lib)
    text = "\n".join(fix_listeners(l) for l in LISTENER_KEY_CASE.splitlines()) + "\n"
    rc, out, err = vlib.sh([exe], inp=text, env=vlib.ASAN_ENV, timeout=120)
    m = [l for l in out.splitlines() if l.startswith("m V ")]
    res.cov["evaluations"] += 1
    sig = "C10:listener-keyed-array-entry-lost-after-load"
    if rc != 0 or not m:
        res.violation({"property": "C10", "unit": "C10", "kind": "crash", "why": "the listener-keyed array probe did not run: rc=%s %s" % (rc, err[-1500:]),
                       "header": "4d465553 1 4d6f72", "ops": LISTENER_KEY_CASE.splitlines()[1:-1], "signature": sig, "seed": seed})
    elif "!=>" in m[0]:
        txt = finding_text(sig)
        if txt:
            res.known_finding("signature=%s read-back=%r : %s" % (sig, m[0][2:], txt))
        else:
            res.violation({"property": "C10", "unit": "C10", "kind": "direct", "signature": sig, "seed": seed,
                           "why": "after the round trip the array entry keyed by a listener is not found by find(): " + m[0][2:],
                           "header": "4d465553 1 4d6f72", "ops": LISTENER_KEY_CASE.splitlines()[1:-1],
                           "replay_cmd": "./check C10 --replay <this file>"})


def check(res, tier, seed):
    res.cov["rule"] += ("corpus first; every primitive kind x boundary values (0, 1, max, sign bit, NaN/inf/denormal bit patterns, the bytes of the null-pointer marker); "
                        "empty archives under 6 header/version/name settings; every sequence up to length 2 (quick) / 3 (thorough) over a 33-letter alphabet of "
                        "pointers (plain/weak, null, forward, backward, self, dangling), objects of 4 host classes with pointer bodies, positions, empty and 1-byte strings/raw; "
                        "seeded random object graphs (<= 30 objects, <= 200 calls, pointers before and after their targets, objects archived twice / positioned / left out), "
                        "seeded random script variables of all 14 kinds among listeners/containers (arrays with 0..18 integer/string keys, nested to depth 3, shared between variables, containing themselves, "
                        "constant arrays, references between variables forward/backward/self, script pointers, variables inside listener bodies, keyed and unkeyed) and "
                        "random primitive/string sequences (empty, long <= 5000, bytes >= 0x80); compared: the written bytes byte for byte and every value / pointer identity read back; "
                        "non-trivial = >= 3 calls with an object and a non-null pointer")
    vlib.history_check(res, HP, tier, seed)
    probe_listener_keys(res, seed)


def replay(path):
    return vlib.history_replay(HP, path)
