"""C01_gen - translator: /repo/src/Script/Compiler.h + Compiler.cpp  ->  coq/C01/Generated.v
(the table limits, the wiring of the four jump-table functions, the sub-emitter depth).
Every pattern must match; a mismatch raises TranslatorError (a broken tie), never a silent skip."""
import os
import re

import vlib


class TranslatorError(Exception):
    pass


def _body(src, sig):
    """text of the function whose header contains sig (brace matching)"""
    i = src.find(sig)
    if i < 0:
        raise TranslatorError("function not found: " + sig)
    j = src.find("{", i)
    depth, k = 0, j
    while k < len(src):
        if src[k] == "{":
            depth += 1
        elif src[k] == "}":
            depth -= 1
            if depth == 0:
                return src[j:k + 1]
        k += 1
    raise TranslatorError("unbalanced braces after " + sig)


def _ws(pat):
    """a readable template -> regex: blanks match any white space"""
    return re.compile(r"\s*".join(p for p in pat.split(" ") if p), re.S)


CNT = {"iBreakJumpLocCount": "WB", "iContinueJumpLocCount": "WC"}
TAB = {"apucBreakJumpLocations": "WB", "apucContinueJumpLocations": "WC"}
LIM = {"BREAK_JUMP_LOCATION_COUNT": "WB", "CONTINUE_JUMP_LOCATION_COUNT": "WC"}
EXC = {"BreakJumpLocOverflow": "WB", "ContinueJumpLocOverflow": "WC"}

ADD = _ws(r"\{ if \( (\w+) < (\w+) \) \{ (\w+) \[ (\w+) \+\+ \] = pos ; \} else \{ (\w+) = 0 ; "
          r"CompileError \( sourceLoc , \"[^\"]*\" \) ; throw CompileException :: (\w+) \( sourceLoc \) ; \} \}")
PROC = _ws(r"\{ if \( (\w+) > (\w+) \) \{ do \{ (\w+) -- ; (?:const )?op_offset_t offset = \( op_offset_t \) \( "
           r"(?:code_pos \( \) - (\w+) \[ (\w+) \] - sizeof \( op_offset_t \)|code_pos \( \) - sizeof \( op_offset_t \) - (\w+) \[ (\w+) \]) \) ; "
           r"manager \. SetValueAtCodePosition \( (\w+) \[ (\w+) \] , & offset , sizeof \( offset \) \) ; \} "
           r"while \( (\w+) > (\w+) \) ; ClearPrevOpcode \( \) ; \} \}")


def _look(table, ident, what):
    if ident not in table:
        raise TranslatorError("%s: unknown identifier %r" % (what, ident))
    return table[ident]


def _guard(body, fn):
    """is the nested counting emitter of fn skipped when the manager itself only counts?
    -> 'false' (nested pass only in the emitting pass) | 'true' (nested pass in every pass)"""
    if "IsCounting" not in body:
        return "true"
    if re.search(r"if\s*\(\s*!\s*manager\s*\.\s*IsCounting\s*\(\s*\)\s*\)\s*\{[^{}]*ScriptCountManager\s+countManager\s*;[^{}]*ScriptEmitter\s+emitter\s*\([^{}]*emitter\s*\.\s*EmitRoot\s*\(\s*val\s*\)\s*;[^{}]*\}", body):
        return "false"
    raise TranslatorError("%s: IsCounting() is used in a shape the model does not know" % fn)


def _flag(body, name, fn):
    """how the nested emitter of fn gets its flag: emitter.<name> = true | false | <name>; absent = the Reset() default false"""
    ms = re.findall(r"emitter\s*\.\s*%s\s*=\s*(\w+)\s*;" % name, body)
    if not ms:
        return "FFalse"
    if len(ms) > 1:
        raise TranslatorError("%s: emitter.%s assigned more than once" % (fn, name))
    v = ms[0]
    if v == "true":
        return "FTrue"
    if v == "false":
        return "FFalse"
    if v == name:
        return "FInherit"
    raise TranslatorError("%s: emitter.%s = %s is not expressible in the model" % (fn, name, v))


def translate(repo=None):
    repo = repo or vlib.REPO
    h = open(os.path.join(repo, "src", "Script", "Compiler.h")).read()
    c = open(os.path.join(repo, "src", "Script", "Compiler.cpp")).read()
    out = ["(* C01/Generated.v - GENERATED on every run by props/C01_gen.py from src/Script/Compiler.h and",
           "   src/Script/Compiler.cpp of the current tree.  Do not edit. *)",
           "From Coq Require Import NArith.",
           "Local Open Scope N_scope.",
           "",
           "(* which of the two jump tables / counters / limits / overflow errors *)",
           "Inductive which := WB | WC.",
           "(* how a nested counting emitter gets a flag: constant, or the enclosing emitter's current value *)",
           "Inductive flagsrc := FTrue | FFalse | FInherit.",
           ""]
    lim = {}
    for name, w in LIM.items():
        m = re.search(r"constexpr\s+unsigned\s+int\s+%s\s*=\s*(\d+)\s*;" % name, h)
        if not m:
            raise TranslatorError("limit %s not found in Compiler.h" % name)
        lim[w] = int(m.group(1))
    out.append("Definition break_limit : N := %d." % lim["WB"])
    out.append("Definition continue_limit : N := %d." % lim["WC"])
    # array sizes must be the same constants
    for tab, w in TAB.items():
        m = re.search(r"opval_t\s*\*\s*%s\s*\[\s*(\w+)\s*\]\s*;" % tab, h)
        if not m:
            raise TranslatorError("table %s not found in Compiler.h" % tab)
        out.append("Definition %s_size : N := %d.  (* %s[%s] *)" % (
            "btab" if w == "WB" else "ctab", lim[_look(LIM, m.group(1), tab)], tab, m.group(1)))
    for w in ("WB", "WC"):
        m = re.search(r"uint16_t\s+%s\s*;" % [k for k, v in CNT.items() if v == w][0], h)
        if not m:
            raise TranslatorError("counter type changed (expected uint16_t) for " + w)
    out.append("")
    for fn, key in (("AddBreakJumpLocation", "add_break"), ("AddContinueJumpLocation", "add_continue")):
        b = _body(c, "void ScriptEmitter::%s(" % fn)
        m = ADD.fullmatch(b.strip())
        if not m:
            raise TranslatorError("%s no longer matches the modelled template:\n%s" % (fn, b))
        c1, l1, t1, c2, c3, e1 = m.groups()
        if not (c1 == c2 == c3):
            raise TranslatorError("%s uses different counters (%s,%s,%s): not expressible in the model" % (fn, c1, c2, c3))
        out.append("(* %s: if (%s < %s) %s[%s++] = pos; else { %s = 0; throw %s } *)" % (fn, c1, l1, t1, c2, c3, e1))
        out.append("Definition %s_cnt := %s." % (key, _look(CNT, c1, fn)))
        out.append("Definition %s_lim := %s." % (key, _look(LIM, l1, fn)))
        out.append("Definition %s_tab := %s." % (key, _look(TAB, t1, fn)))
        out.append("Definition %s_exc := %s." % (key, _look(EXC, e1, fn)))
    out.append("")
    for fn, key in (("ProcessBreakJumpLocations", "proc_break"), ("ProcessContinueJumpLocations", "proc_continue")):
        b = _body(c, "void ScriptEmitter::%s(" % fn)
        m = PROC.fullmatch(b.strip())
        if not m:
            raise TranslatorError("%s no longer matches the modelled template:\n%s" % (fn, b))
        g = m.groups()
        c1, s1, c2 = g[0], g[1], g[2]
        t1, i1 = (g[3], g[4]) if g[3] else (g[5], g[6])
        t2, i2, c3, s2 = g[7], g[8], g[9], g[10]
        if not (c1 == c2 == c3) or s1 != s2:
            raise TranslatorError("%s: guard/decrement/loop counters differ (%s,%s,%s): the loop shape is not the modelled one" % (fn, c1, c2, c3))
        if t1 != t2 or i1 != i2:
            raise TranslatorError("%s reads %s[%s] but patches %s[%s]: not expressible in the model" % (fn, t1, i1, t2, i2))
        out.append("(* %s(start): if (%s > start) do { %s--; patch %s[%s] } while (%s > start) *)" % (fn, c1, c2, t1, i1, c3))
        out.append("Definition %s_cnt := %s." % (key, _look(CNT, c1, fn)))
        out.append("Definition %s_tab := %s." % (key, _look(TAB, t1, fn)))
        out.append("Definition %s_idx := %s." % (key, _look(CNT, i1, fn)))
    out.append("")
    # call sites: which saved count each loop hands to which Process function
    for fn in ("EmitWhileJump", "EmitDoWhileJump"):
        b = _body(c, "void ScriptEmitter::%s(" % fn)
        if not re.search(r"(?:int|uint16_t)\s+breakCount\s*=\s*iBreakJumpLocCount\s*;", b) or \
           not re.search(r"(?:int|uint16_t)\s+continueCount\s*=\s*iContinueJumpLocCount\s*;", b) or \
           not re.search(r"ProcessContinueJumpLocations\s*\(\s*continueCount\s*\)", b) or \
           not re.search(r"ProcessBreakJumpLocations\s*\(\s*breakCount\s*\)", b):
            raise TranslatorError("%s: the save/restore of the jump counts no longer matches the modelled call sites" % fn)
        if b.find("ProcessContinueJumpLocations") > b.find("ProcessBreakJumpLocations"):
            raise TranslatorError("%s: Process order changed" % fn)
    b = _body(c, "void ScriptEmitter::EmitSwitch(")
    m = re.search(r"ScriptEmitter\s+emitter\s*\(\s*countManager\s*,\s*\*?\s*stateScript\s*,\s*info\s*(?:,\s*(\d+)\s*)?\)\s*;", b)
    if not m:
        raise TranslatorError("EmitSwitch: nested emitter construction not found")
    if m.group(1):
        out.append("Definition switch_sub_depth : N := %s.   (* EmitSwitch: ScriptEmitter emitter(countManager, .., info, %s) *)" % (m.group(1), m.group(1)))
    else:
        out.append("Definition switch_sub_depth : N := 18446744073709551615.   (* EmitSwitch: ScriptEmitter emitter(countManager, .., info): default maxDepth *)")
    out.append("Definition switch_sub_in_counting_pass : bool := %s.   (* is EmitSwitch's nested count also run when the manager only counts? *)" % _guard(b, "EmitSwitch"))
    out.append("Definition switch_sub_canbreak := %s." % _flag(b, "canBreak", "EmitSwitch"))
    out.append("Definition switch_sub_cancontinue := %s." % _flag(b, "canContinue", "EmitSwitch"))
    if not re.search(r"iStartBreakJumpLocCount\s*=\s*iBreakJumpLocCount\s*;", b) or \
       not re.search(r"ProcessBreakJumpLocations\s*\(\s*iStartBreakJumpLocCount\s*\)", b):
        raise TranslatorError("EmitSwitch: save/restore of the break count changed")
    b = _body(c, "void ScriptEmitter::EmitCatch(")
    if not re.search(r"ScriptEmitter\s+emitter\s*\(\s*countManager\s*,\s*\*?\s*stateScript\s*,\s*info\s*\)\s*;", b):
        raise TranslatorError("EmitCatch: nested emitter construction changed")
    out.append("Definition catch_sub_in_counting_pass : bool := %s." % _guard(b, "EmitCatch"))
    out.append("Definition catch_sub_canbreak := %s." % _flag(b, "canBreak", "EmitCatch"))
    out.append("Definition catch_sub_cancontinue := %s." % _flag(b, "canContinue", "EmitCatch"))
    if not re.search(r"emitter\s*\.\s*EmitRoot\s*\(\s*val\s*\)\s*;[\s\S]*EmitValue\s*\(\s*val\s*\)\s*;", b):
        raise TranslatorError("EmitCatch: the body is no longer emitted once by the nested emitter and once for real")
    # which managers count
    if "IsCounting" in c:
        if not re.search(r"virtual\s+bool\s+IsCounting\s*\(\s*\)\s*const\s*\{\s*return\s+false\s*;\s*\}", h):
            raise TranslatorError("IScriptManager::IsCounting default changed")
        cm = _body(c, "class mfuse::ScriptCountManager")
        pm = _body(c, "class mfuse::ScriptProgramManager")
        if not re.search(r"bool\s+IsCounting\s*\(\s*\)\s*const\s+override\s*\{\s*return\s+true\s*;\s*\}", cm) or "IsCounting" in pm:
            raise TranslatorError("IsCounting overrides changed: the model assumes count manager = true, program manager = false")
    m = re.search(r"ScriptEmitter\s*\(\s*IScriptManager\s*&\s*\w+\s*,\s*StateScript\s*[&*]\s*\w+\s*,\s*const\s+OutputInfo\s*\*\s*\w+\s*,\s*size_t\s+maxDepth\s*=\s*-1\s*\)", h)
    if not m:
        raise TranslatorError("ScriptEmitter constructor: default maxDepth changed")
    out.append("Definition max_depth : N := 18446744073709551615.   (* size_t maxDepth = -1 *)")
    return "\n".join(out) + "\n"


def limits_lenient(repo=None):
    """the compiler's numeric limits, read tolerantly (never raises): used to aim the generators' boundary stream even when the
    strict translator rejects the source"""
    repo = repo or vlib.REPO
    out = {"break": 100, "continue": 100, "prev_opcodes": 100}
    try:
        h = open(os.path.join(repo, "src", "Script", "Compiler.h")).read()
        for key, name in (("break", "BREAK_JUMP_LOCATION_COUNT"), ("continue", "CONTINUE_JUMP_LOCATION_COUNT"), ("prev_opcodes", "MAX_PREV_OPCODES")):
            m = re.search(r"%s\s*=\s*(\d+)" % name, h)
            if m and 2 <= int(m.group(1)) <= 5000:
                out[key] = int(m.group(1))
    except OSError:
        pass
    return out


def write_generated():
    """returns (changed, text); raises TranslatorError"""
    txt = translate()
    p = os.path.join(vlib.COQ, "C01", "Generated.v")
    old = open(p).read() if os.path.exists(p) else None
    if old != txt:
        os.makedirs(os.path.dirname(p), exist_ok=True)
        with open(p, "w") as f:
            f.write(txt)
        return True, txt
    return False, txt


if __name__ == "__main__":
    print(write_generated()[1])
