"""C06 — timed waits: never early, earliest first, exactly once."""
import glob
import itertools
import os
import random

import vlib
from vlib import Case

LEVEL = "proof"
WAITS = [0, 0, 1, 2, 2, 5]


class C06(vlib.HistoryProp):
    cid = "C06"
    variant = "asan"
    harness_sources = ["harness/C06.cpp"]
    use_lib = True
    coq_dirs = ["Base", "C06"]
    has_monitor = False
    batch = 1500

    def assumptions(self):
        return ["injected integral millisecond clock (hook H1), constant during an Execute; time scale 1",
                "threads are straight-line programs of println / wait (the VM's execution of other statements is C03's subject)",
                "wait literals are printed as %.3f seconds; the engine converts with uint64(float * 1000.f): 0,1,2,5 ms convert exactly (checked by the correspondence itself)",
                "with the real sub-millisecond clock Frame() truncates each delta and the two time bases drift (DESIGN.md 6, F-C06-n): outside the quantifier"]

    def prog(self, rng, nwaits):
        p, m = [], 1
        p.append("p%d" % m); m += 1
        for _ in range(nwaits):
            p.append("w%d" % rng.choice(WAITS))
            if rng.random() < 0.85:
                p.append("p%d" % m); m += 1
        return p

    def hist(self, rng, nthreads, nframes, cid):
        ops, tid = [], 0
        starts = sorted(rng.randrange(0, nframes + 1) for _ in range(nthreads))
        for f in range(nframes + 1):
            for s in starts:
                if s == f:
                    ops.append("S %d %s" % (tid, " ".join(self.prog(rng, rng.choice([1, 2, 3])))))
                    tid += 1
            if f < nframes:
                r = rng.random()
                if r < 0.12:
                    ops.append("X")                       # a frame without a clock advance
                else:
                    ops.append("T %d" % rng.choice([1, 1, 2, 3, 7]))
                    if r < 0.92:
                        ops.append("X")                   # (else: two advances before the next Execute)
        ops += ["T 20", "X", "X"]
        return Case(cid, "", ops, "random-%dthreads-%dframes" % (nthreads, nframes))

    def gen(self, tier, seed):
        rng = random.Random(seed)
        cases = []
        for p in sorted(glob.glob(os.path.join(vlib.VERIF, "corpus", "C06", "*.txt"))):
            lines = [l.strip() for l in open(p) if l.strip() and not l.startswith("#")]
            cases.append(Case("c_" + os.path.basename(p)[:-4], "", lines, "corpus"))
        # exhaustive: <= 3 threads started at time 0, each 1 wait from {0,1,2}(+2nd wait in thorough), frame schedules from {0,1,2,3}
        k = 0
        wsets = [0, 1, 2]
        nth = (2,) if tier == "quick" else (2, 3)
        nfr = 3 if tier == "quick" else 4
        for n in nth:
            for ws in itertools.product(wsets, repeat=n):
                for ws2 in itertools.product([None, 0, 2], repeat=n) if tier != "quick" else [tuple([None] * n)]:
                    for sched in itertools.product([0, 1, 2, 3], repeat=nfr):
                        ops = []
                        for i in range(n):
                            pr = ["p1", "w%d" % ws[i], "p2"]
                            if ws2[i] is not None:
                                pr += ["w%d" % ws2[i], "p3"]
                            ops.append("S %d %s" % (i, " ".join(pr)))
                        for dt in sched:
                            if dt:
                                ops.append("T %d" % dt)
                            ops.append("X")
                        ops += ["T 9", "X"]
                        cases.append(Case("e%d" % k, "", ops, "exhaustive-%dthreads" % n))
                        k += 1
        walks = [(3, 5, 700), (4, 8, 500), (4, 20, 60)] if tier == "quick" else [(3, 5, 8000), (4, 8, 8000), (4, 30, 1500)]
        for nt, nf, cnt in walks:
            for _ in range(cnt):
                cases.append(self.hist(rng, nt, nf, "w%d" % k))
                k += 1
        return cases

    def canon_model(self, lines):
        m = [l[2:] for l in lines if l.startswith("m ")]
        s = [l[2:] for l in lines if l.startswith("s ")]
        return m, [], m == s

    def canon_impl(self, lines):
        return [l[2:] for l in lines if l.startswith("m ")], [], [], None

    def nontrivial(self, case, compared):
        # some Execute resumed at least two threads
        return any("," in c.split()[0] and len({x.split(":")[0] for x in c.split()[0].split(",")}) >= 2 for c in compared)


HP = C06()


def check(res, tier, seed):
    res.cov["rule"] += ("C06: corpus; every 2-thread (thorough: 2-3 thread, up to two waits each) program with waits from {0,1,2} x every schedule of 3 (4) frames "
                        "with clock steps {0,1,2,3}; seeded random histories of 3-4 threads (1-3 waits from {0,0,1,2,2,5}) started at random frames, frames "
                        "without advance and advances without frame; non-trivial = one Execute resumed >= 2 different threads. ")
    vlib.history_check(res, HP, tier, seed)


def replay(path):
    return vlib.history_replay(HP, path)
