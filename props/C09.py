"""C09 — save, reset, load resumes scripts exactly where an uninterrupted run would be."""
import glob
import os
import random

import vlib
from vlib import Case

LEVEL = "proof"

# Origins that exercised defects of the code when the unit was written.  All were fixed in /repo
# (575bd95 operand stack top, ef72647 loaded queue events, 06b6ac2 entity listener part, 2400851
# double delete on Reset); the flags stay so that a regression can be isolated quickly.
VALUE_WAITTHREAD = True    # `local.r = waitthread lbl` pending across the save (operand stack)
PENDING_EVENTS = True      # waittill_timeout / commanddelay pending across the save (event queue)
ENTITY_WAITTILL = True     # `$e waittill` / `$e notify` (the entity's listener part)
SIBLING_WAITTILL = True    # a thread waiting on another thread of its instance (Reset double delete)
# Host protocol `e` (entities survive director.Reset()): Reset rebuilds the string dictionary, the
# target list keeps the old indices, `$name` no longer finds the entity (F5).  Decided: a documented
# host obligation (the engine has no context-level reset; the host deletes its entities around
# director.Reset() and reads them back), so the protocol is not generated.
ENTITIES_SURVIVE_RESET = False
# F7 (fixed by caf06d7): ScriptMaster::m_PreviousThread was scheduler state that no archive
# contained and Reset clears: `parm.previousthread` read AFTER a wait gives the last started thread in
# the uninterrupted run and NIL after a load.  Generated programs read it only at a thread's start.
PREVIOUSTHREAD_AFTER_WAIT = True
# NOT in the property (reported as F8): loading into a NEW engine (a restarted host, host flag n):
# the time base of TimeManager (scaled time, start) is neither archived nor settable, the timer keeps
# absolute due times, so every timed wait is late by the time the first engine had run.
FRESH_ENGINE = False
# NOT save/load: a flaky compiler crash with folded negative literals (F6, fixed by 3d17662: the
# counting pass folded a different constant than the emitter).
NEGATIVE_LITERALS = True


def str_hash(t):
    """HashCharArray of the code: h = h * 31 + c in a signed 64-bit integer"""
    h = 0
    for ch in t.encode():
        h = (h * 31 + ch) & 0xFFFFFFFFFFFFFFFF
    return h - (1 << 64) if h >= (1 << 63) else h


def string_keys():
    """string keys: short ones, and long ones whose 64-bit hash wrapped negative / stayed positive"""
    cand = ["waypoint_alpha_%d" % i for i in range(1, 12)] + ["spawn_point_number_%d" % i for i in range(1, 12)] + \
           ["a_rather_long_key_name_%c" % c for c in "abcdefgh"]
    neg = [c for c in cand if str_hash(c) < 0]
    pos = [c for c in cand if str_hash(c) >= 0]
    return ["k", "ab", "key", "nine_char"], neg[:10], pos[:6]


INT_KEYS_NEG = [-1, -2, -7, -13, -70000, -2147483649, -4294967297, -123456789012]
INT_KEYS = [0, 1, 2, 3, 5, 8, 13, 40, 2147483648, 4294967296, 4294967297, 123456789012]


def key_pool(rng, n):
    """n distinct keys, mixed kinds, as (driver token, script text)"""
    short, neg, pos = string_keys()
    pool = [(str(k), "( %d)" % k) for k in INT_KEYS_NEG] + [(str(k), str(k)) for k in INT_KEYS] + \
           [("$" + t.encode().hex(), '"%s"' % t) for t in short + neg + pos] + \
           [(str(k), str(k)) for k in range(100, 120)]
    # negative hashes first: they are what the bucket arithmetic can get wrong
    must = [(str(k), "( %d)" % k) for k in rng.sample(INT_KEYS_NEG, 2)] + [("$" + t.encode().hex(), '"%s"' % t) for t in rng.sample(neg, min(2, len(neg)))]
    rest = [k for k in pool if k not in must]
    rng.shuffle(rest)
    keys = (must + rest)[:max(2, n)]
    rng.shuffle(keys)
    return keys


class C09(vlib.HistoryProp):
    cid = "C09"
    variant = "asan"
    harness_sources = ["harness/C09.cpp"]
    use_lib = True
    coq_dirs = ["Base", "C09"]
    has_monitor = False
    batch = 400
    timeout = 900

    def assumptions(self):
        return [
            "injected integral millisecond clock (hook H1), constant during an Execute; one fresh engine per run; run B_k = run A with save / ScriptMaster::Reset / load right before the k-th Execute",
            "host protocol of the monitor: one archive = the entities named by the case (ArchiveObject; deleted at the reset and re-created with ReadObject), the target list, ArchiveObject(level), director.Archive, the event queue; level variables are cleared at the reset",
            "observables compared between A and B_k: println lines per operation, IsIdle and 'timer has elements' per operation, the final level variables (canonical, sharing classes of arrays), the number of script warnings and error lines",
            "PROVED for the model (coq/C09): threads with timed waits, `thread label args` (array arguments alias the caller's holders), integer/string/float/nil/object locals, dynamic arrays (`x[k] = v`) and constant arrays (`a::b::c`, stored through in place), holders containing values again (arrays of arrays, constant inside dynamic and vice versa, self-containing), one heap: every sharing class of either kind across variables, holders and threads; SAMPLED on the real engine only (mode F): waittill/notify/endon/timeouts, waitthread with and without value, pending results (Pointer values) held by several variables, exec, group/level/game variables (incl. holders shared between them and locals), vectors, listener references, entities",
            "tie model <-> code: per-operation observations and, after every explicit save/reset/load, the canonical dump of the loaded engine state (instance order, chain order, thread state, code position as statements left, locals with the sharing classes of ALL holders - a#n dynamic, c#n constant, numbered by first occurrence across threads, contents recursively - timer list with due times) are compared line by line",
            "save points: every frame boundary of runs with <= 12 frames, 4 sampled boundaries of longer runs",
            "PREVIOUSTHREAD_AFTER_WAIT=%s: `parm.previousthread` is read only at the start of a thread; read after a wait it exposes ScriptMaster::m_PreviousThread (F7: it was in no archive; fixed in /repo, the origin free-previousthread-after-wait is a regression family now)" % PREVIOUSTHREAD_AFTER_WAIT,
            "FRESH_ENGINE=%s: the archive is loaded into the SAME ScriptContext after director.Reset(); loading into a new context (restarted host) shifts every timed wait because TimeManager's time base is neither archived nor settable (F8, reported; outside the property's 'reset')" % FRESH_ENGINE,
            "ENTITIES_SURVIVE_RESET=%s: host protocol `e` (entities kept across Reset) is %s" % (
                ENTITIES_SURVIVE_RESET, "generated" if ENTITIES_SURVIVE_RESET else "left out: a host obligation - director.Reset() rebuilds the string dictionary, so the host must delete its entities around Reset and read them back from the archive (ReadObject + TargetList::Archive); keeping them alive leaves `$name` unresolved (F5)"),
        ]

    # ------------------------------------------------------------------ structured programs (mode M)
    def m_block(self, rng, label, depth, budget, has_params=False):
        """a thread body over the model's alphabet.  Typing discipline (so that no statement raises a
        script error): x1 x2 scalars (int/string/nil), x3 float; DYN pool x4 x5 x6 (+ parameter x101):
        nil or a dynamic array; CON pool x7 x8 (+ parameter x102): nil, a constant array of exactly 4
        slots, or a dynamic array - only keys 1..4 are used on them; in every array key 40 (dynamic) /
        slot 3 (constant) holds nil or what a DYN variable holds, key 41 / slot 4 what a CON variable
        holds, all other keys scalars."""
        p = []
        m = label * 100
        n = rng.randint(2, budget)
        waits = 0
        dyn = [4, 5, 6] + ([101] if has_params else [])
        con = [7, 8] + ([102] if has_params else [])
        neg = NEGATIVE_LITERALS
        for _ in range(n):
            r = rng.random()
            m += 1
            if r < 0.10:
                p.append("p%d" % m)
            elif r < 0.28:
                p.append("w%d" % rng.choice([0, 1, 1, 2, 2, 3, 5]))
                waits += 1
            elif r < 0.35:
                x = rng.choice([1, 2])
                k = rng.random()
                if k < 0.45:
                    p.append("i%d=%d" % (x, rng.choice([0, 1, -1 if neg else 3, 7, 255, 256, 65536, -70000 if neg else 70000, 2147483648, 123456789012])))
                elif k < 0.85:
                    p.append("s%d=%s" % (x, rng.choice(["", "", "61", "6162", "7a5f39", "612062", "34"])))
                else:
                    p.append("n%d" % x)
            elif r < 0.38:
                p.append("f3=%d" % rng.choice([0, 1056964608, 1069547520, 3228565504 if neg else 1075838976, 1073741824]))
            elif r < 0.48:
                # scalar store into an array
                if rng.random() < 0.6:
                    x = rng.choice(dyn)
                    k = rng.choice([0, 1, 1, 2, 3, 5, 8, 13, 21, -1 if neg else 4])
                else:
                    x = rng.choice(con)
                    k = rng.choice([1, 2])
                p.append("a%d.%d=%s" % (x, k, rng.choice(["1", "2", "-3" if neg else "3", "77", "1000", "nil"])))
            elif r < 0.56:
                # a variable stored into an array: scalars anywhere, arrays at their typed keys
                x = rng.choice(dyn + con)
                isdyn = x in dyn
                kind = rng.random()
                if kind < 0.3:
                    p.append("A%d.%d=%d" % (x, rng.choice([1, 2, 5, 8]) if isdyn else rng.choice([1, 2]), rng.choice([1, 2])))
                elif kind < 0.7:
                    p.append("A%d.%d=%d" % (x, 40 if isdyn else 3, rng.choice(dyn)))
                else:
                    p.append("A%d.%d=%d" % (x, 41 if isdyn else 4, rng.choice(con)))
            elif r < 0.62:
                # read an element back into a variable of the right pool
                x = rng.choice(dyn + con)
                isdyn = x in dyn
                kind = rng.random()
                if kind < 0.3:
                    p.append("g%d=%d.%d" % (rng.choice([1, 2]), x, rng.choice([1, 2])))
                elif kind < 0.7:
                    p.append("g%d=%d.%d" % (rng.choice(dyn), x, 40 if isdyn else 3))
                else:
                    p.append("g%d=%d.%d" % (rng.choice(con), x, 41 if isdyn else 4))
            elif r < 0.68:
                x = rng.choice(con)
                items = [rng.choice(["l%d" % rng.choice([10, 20, 30]), "v%d" % rng.choice([1, 2])]), "l%d" % rng.choice([11, 21, 31]),
                         "v%d" % rng.choice(dyn), "v%d" % rng.choice(con)]
                p.append("C%d=%s" % (x, ",".join(items)))
            elif r < 0.76:
                k = rng.random()
                if k < 0.45:
                    x, y = rng.sample(dyn, 2)
                    if rng.random() < 0.1:
                        y = 9                      # an unset variable: the array variable becomes NIL
                elif k < 0.8:
                    x, y = rng.sample(con, 2)
                else:
                    x, y = rng.sample([1, 2], 2)
                p.append("c%d=%d" % (x, y))
            elif r < 0.80:
                p.append("v%d" % rng.choice([1, 2] + dyn + con))
            elif r < 0.90:
                if rng.random() < 0.55:
                    p.append("e%d.%d" % (rng.choice(dyn), rng.choice([0, 1, 2, 3, 5, 8, 40, 41, -1 if neg else 4])))
                else:
                    p.append("e%d.%d" % (rng.choice(con), rng.choice([1, 2, 3, 4])))
            elif depth < 2:
                if rng.random() < 0.7:
                    p.append("t:%d,%d(" % (rng.choice(dyn), rng.choice(con)))
                    p += self.m_block(rng, label * 7 + depth + 1, depth + 1, max(2, budget - 3), True)
                else:
                    p.append("t(")
                    p += self.m_block(rng, label * 7 + depth + 1, depth + 1, max(2, budget - 3))
                p.append(")")
        if waits == 0 and rng.random() < 0.8:
            p.insert(0 if rng.random() < 0.5 else len(p), "w%d" % rng.choice([1, 2, 3]))
        # boundary code positions: the block's LAST statement is a wait (with header Z and the block last in its
        # file the thread sleeps on the OP_DONE appended at EOF), its FIRST statement is a wait (offset 0 of a file)
        if rng.random() < 0.35 and (not p or p[-1] != ")"):
            p.append("w%d" % rng.choice([0, 1, 2, 3]))
        if rng.random() < 0.12:
            p.insert(0, "w%d" % rng.choice([1, 2]))
        return p

    def m_case(self, rng, cid, nthreads, nframes, nloads, origin):
        ops = []
        starts = sorted(rng.randrange(0, max(1, nframes // 2) + 1) for _ in range(nthreads))
        lab = 1
        frames = []
        for f in range(nframes + 1):
            for s in starts:
                if s == f:
                    ops.append("P " + " ".join(self.m_block(rng, lab, 0, 12)))
                    lab += 1
            if f < nframes:
                r = rng.random()
                if r >= 0.1:
                    ops.append("T %d" % rng.choice([1, 1, 2, 3]))
                frames.append(len(ops))
                ops.append("X")
        ops += ["T 12", "X", "X"]
        # explicit save/reset/load operations before randomly chosen frames (the model follows them)
        for pos in sorted(rng.sample(frames, min(nloads, len(frames))), reverse=True):
            ops.insert(pos, "L")
        nx = sum(1 for o in ops if o == "X")
        ks = "all" if nx <= 12 else ",".join(str(k) for k in sorted(rng.sample(range(1, nx + 1), 4)))
        z = " Z" if rng.random() < 0.4 else ""
        return Case(cid, "M K=%s%s" % (ks, z), ops, origin + ("-eof" if z else ""))

    def m_keys_case(self, rng, cid):
        """one array with 2..40 entries over mixed keys (negative ints, 0, > 2^31, > 2^32, short and long strings with
        negative / positive hashes), aliased by a second variable and by a thread argument; after EVERY frame every key
        is read through an alias, some are rewritten, some removed and re-added, .size is printed through both names"""
        n = rng.choice([2, 3, 4, 5, 7, 9, 12, 17, 24, 33, 40])
        keys = [k for k, _ in key_pool(rng, n)]
        build = ["a4.%s=%d" % (k, i + 1) for i, k in enumerate(keys)] + ["c5=4"]
        rounds = rng.randint(2, 4)

        def round_ops(x, y, r):
            ops = ["e%d.%s" % (y, k) for k in keys] + ["z%d" % x]
            for k in rng.sample(keys, max(1, len(keys) // 4)):
                ops.append("a%d.%s=%d" % (x, k, 1000 * r + rng.randint(0, 99)))
            gone = rng.sample(keys, max(1, len(keys) // 5))
            ops += ["a%d.%s=nil" % (y, k) for k in gone] + ["z%d" % y]
            ops += ["e%d.%s" % (x, k) for k in rng.sample(keys, min(len(keys), 6))]
            ops += ["a%d.%s=%d" % (x, k, 5000 + r) for k in gone if rng.random() < 0.6] + ["z%d" % x]
            return ops

        main = list(build)
        child = []
        for r in range(rounds):
            main += ["w2"] + round_ops(4, 5, r)
            child += ["w2"] + round_ops(101, 101, r + 10)[: 3 * len(keys)]
        prog = main[:len(build)] + ["t:4,7(", "w1"] + child + [")"] + main[len(build):]
        ops = ["P " + " ".join(prog)]
        for r in range(2 * rounds + 2):
            ops += ["T 1", "X"]
        ops += ["T 5", "X"]
        frames = [i for i, o in enumerate(ops) if o == "X"]
        for pos in sorted(rng.sample(frames, min(3, len(frames))), reverse=True):
            ops.insert(pos, "L")
        nx = sum(1 for o in ops if o == "X")
        ks = "all" if nx <= 12 else ",".join(str(k) for k in sorted(rng.sample(range(1, nx + 1), 4)))
        return Case(cid, "M K=%s" % ks, ops, "model-keys-%s" % ("small" if n <= 5 else "medium" if n <= 17 else "large"))

    def f_keys_script(self, rng, lab):
        """the same for free scripts: the array is also held by a level and a group variable"""
        n = rng.choice([2, 3, 5, 8, 13, 21, 34, 40])
        keys = [t for _, t in key_pool(rng, n)]
        st = ["local.a[%s] = %d" % (k, i + 1) for i, k in enumerate(keys)]
        st += ["local.b = local.a", "level.ka%d = local.a" % lab, "group.ka = local.a"]
        for r in range(rng.randint(2, 3)):
            st.append("wait 0.002")
            st.append('println "%d:r%d " ' % (lab, r) + ' " " '.join("local.b[%s]" % k for k in keys))
            st.append('println "%d:s " local.a.size " " level.ka%d.size " " group.ka.size' % (lab, lab))
            for k in rng.sample(keys, max(1, len(keys) // 4)):
                st.append("level.ka%d[%s] = %d" % (lab, k, 1000 * (r + 1) + rng.randint(0, 99)))
            gone = rng.sample(keys, max(1, len(keys) // 5))
            st += ["local.b[%s] = NIL" % k for k in gone]
            st.append('println "%d:t " local.a.size " " ' % lab + ' " " '.join("group.ka[%s]" % k for k in rng.sample(keys, min(len(keys), 8))))
            st += ["local.a[%s] = %d" % (k, 5000 + r) for k in gone if rng.random() < 0.6]
        st.append('println "%d:end " local.b.size " " ' % lab + ' " " '.join("local.a[%s]" % k for k in keys))
        return st

    def f_keys_case(self, rng, cid):
        src = "main:\n" + "\n".join(self.f_keys_script(rng, 1))
        if rng.random() < 0.5:
            src += "\nthread l1 local.a\nwait 0.003\nprintln \"m:\" local.a.size\nend\nl1 local.p1:\nwait 0.001\n" + \
                   "\n".join(s_.replace("local.a", "local.p1").replace("local.b", "local.p1") for s_ in self.f_keys_script(rng, 2)[-6:]) + "\nend\n"
        else:
            src += "\nend\n"
        ops = ["D sa " + src.replace("\n", "\\n"), "S sa"]
        for f in range(rng.choice([7, 9, 10])):
            ops += ["T %d" % rng.choice([1, 1, 2]), "X"]
        return Case(cid, "F K=all", ops, "free-keys")

    def m_exhaustive(self, tier):
        """two fixed two-thread programs x a save/reset/load before every operation position"""
        progs = [
            ["P p1 i1=5 s2= a4.1=7 c5=4 w2 p2 v1 v2 e4.1 a5.2=9 e4.2 w3 e5.1 p3",
             "P p10 t( p11 a4.3=1 w1 p12 a4.4=2 w4 e4.3 ) w2 p13 t( w0 p14 ) w1 p15"],
            ["P t( t( w1 p1 ) w1 p2 ) w1 p3 a6.1=1 a6.2=2 c4=6 n6 a4.3=3 w1 e4.1 e4.3 e6.1",
             "P s1=6869 c2=1 w1 v2 n1 w1 v1 v2 a5.0=1 a5.0=nil a5.9=4 w2 e5.0 e5.9"],
            # constant arrays aliased by a second variable and by a thread argument, stored through after every load
            ["P C7=l10,l20,v4,v8 c8=7 t:4,7( w1 a102.1=111 e102.2 w2 a102.2=222 e102.1 w2 e102.1 ) w2 a7.2=99 e8.2 e8.1 w2 e8.1 e8.2 a8.1=5 w2 e7.1 v7",
             "P a4.1=1 A4.40=4 C8=l1,l2,v4,v8 A4.41=8 w1 g5=4.40 a5.2=7 e4.2 g7=4.41 a7.1=8 e8.1 w2 g6=8.3 a6.3=9 e4.3 e5.3 w2 v8 v4"],
            # arrays of arrays shared between three threads
            ["P a4.1=1 a5.1=2 A4.40=5 A5.40=4 t:4,7( w1 g4=101.40 a4.5=50 w3 e101.5 e4.5 ) t:5,8( w2 g5=101.40 a5.6=60 w2 e101.6 ) w3 e4.6 e5.5 e4.5 w3 p9",
             "P C7=v1,l21,v4,v8 C8=l30,l31,v5,v7 A7.4=8 a5.1=3 A7.3=5 w2 g6=7.3 a6.2=4 e5.2 g7=8.4 e7.2 a7.2=nil w2 e8.1 e7.2 v7"],
        ]
        # files that end without `end` (header Z): the last statement of the file is a wait, a thread sleeps on the
        # OP_DONE at EOF; a file whose first statement is a wait; the sleeper's file differs from the other script's
        zprogs = [
            ["P p1 t( p2 w1 p3 w2 ) w1 p4 w3", "P w2"],
            ["P w1 p1 w0 w2", "P p5 t( w1 ) t( p6 w3 ) w2 p7 w1"],
            ["P a4.1=1 t:4,7( w1 a101.2=2 w2 ) w1 e4.2 w3", "P w3"],
        ]
        sched = ["X", "T 1", "X", "T 1", "X", "T 1", "X", "T 2", "X", "T 3", "X", "X"]
        cases = []
        k = 0
        for pi, pr in enumerate(progs + zprogs):
            z = " Z" if pi >= len(progs) else ""
            base = pr + sched
            for pos in range(len(pr), len(base) + 1):
                ops = base[:pos] + ["L"] + base[pos:]
                cases.append(Case("x%d" % k, "M K=none" + z, ops, "exhaustive-load-position" + ("-eof" if z else "")))
                k += 1
            # twice: the instance order is reversed twice
            for pos in range(len(pr), len(base), 2):
                ops = base[:pos] + ["L", "L"] + base[pos:]
                cases.append(Case("x%d" % k, "M K=none" + z, ops, "exhaustive-load-twice" + ("-eof" if z else "")))
                k += 1
            cases.append(Case("x%d" % k, "M K=all" + z, base, "exhaustive-monitor" + ("-eof" if z else "")))
            k += 1
        return cases

    # ------------------------------------------------------------------ free scripts (mode F)
    def f_values(self, rng, lab, ents):
        """statements that fill locals of every archivable kind; returns (setup, later) statement lists"""
        st = []
        pool = [
            "local.i = %d" % rng.choice([0, 5, 7, 4294967297]),
            "local.f = %s" % rng.choice(["1.5", "0.25", "2.5"]),
            'local.s = ""',
            'local.s2 = "%s"' % rng.choice(["a b", "x", "4"]),
            "local.v = ( 1 2 3 )",
            'local.c = 1::2::"x"',
            "local.a[1] = 7",
            'local.a["k"] = "v"',
            'local.a[%d] = ""' % rng.choice([2, 3, 9]),
            "local.b = local.a",
            "local.n[1][2] = 5",
            "local.n[2] = local.a",
            "group.g = local.a",
            "group.k = %d" % rng.randint(0, 9),
            "level.z%d = %d" % (lab, rng.randint(0, 9)),
            "level.arr%d = local.a" % lab,
            "local.lv = level",
            "local.me = self",
            "game.g%d = %d" % (lab, rng.randint(0, 9)),
            "game.arr%d = local.a" % lab,
            "local.a[2][1] = ( 4 5 6 )",
            "local.c2 = local.c",
            "local.v2 = local.v",
        ]
        if ents:
            pool.append("local.o = $%s" % rng.choice(ents))
            pool.append("level.o%d = $%s" % (lab, rng.choice(ents)))
            # a stored $name group (two bearers of g1): a snapshot constant array of object references
            pool.append("local.grp = $g1")
            pool.append("level.grp%d = $g1" % lab)
        for s in pool:
            if rng.random() < 0.6:
                st.append(s)
        later = [
            'println "%d:" local.i " " local.f " " local.s "|" local.s2 " " local.v " " local.c[3]' % lab,
            'println "%d:" local.a[1] " " local.a["k"] " " local.a[2] "|" local.b[1] " " local.n[1][2] " " local.n[2][1]' % lab,
            "local.b[%d] = %d" % (rng.choice([3, 4, 11, 17, 33]), rng.randint(0, 99)),
            'local.a["n%d"] = %d' % (rng.randint(0, 5), rng.randint(0, 99)),
            "local.n[2][%d] = %d" % (rng.choice([5, 6, 7]), rng.randint(0, 99)),
            "local.n[3][1] = local.a[3]",
            'println "%d:" local.a[3] " " local.a[4] " " local.a[11] " " local.b[17] " " group.g[3] " " group.k' % lab,
            'println "%d:" level.arr%d[3] " " level.z%d " " local.n[2][5] " " local.n[3][1]' % (lab, lab, lab),
            "for (local.j = 0; local.j < %d; local.j++)\n{\nlocal.a[20 + local.j] = local.j\n}" % rng.choice([3, 9, 20]),
            'println "%d:" local.a[22] " " local.b[28] " " local.a[39]' % lab,
            "level.sum%d = local.a[1] + local.i" % lab,
            "local.c[%d] = %d" % (rng.choice([1, 2, 3]), rng.randint(100, 199)),
            "local.c2[%d] = %d" % (rng.choice([1, 2, 3]), rng.randint(200, 299)),
            'println "%d:c " local.c[1] " " local.c[2] " " local.c[3] "|" local.c2[1] " " local.c2[2] " " local.c2[3]' % lab,
            "level.con%d = local.c" % lab,
            "level.con%d[2] = %d" % (lab, rng.randint(300, 399)),
            'println "%d:lc " level.con%d[2] " " local.c[2] " " group.gc[2]' % (lab, lab),
            "group.gc = local.c2",
            "group.gc[3] = %d" % rng.randint(400, 499),
            "local.k = local.a::local.c",
            "local.k[1][1] = %d" % rng.randint(500, 599),
            "local.k[2][1] = %d" % rng.randint(600, 699),
            'println "%d:k " local.k[1][1] " " local.a[1] " " local.k[2][1] " " local.c[1]' % lab,
            "local.a[9] = local.a",
            "local.a[9][1] = %d" % rng.randint(700, 799),
            "local.a[8] = local.c",
            "local.a[8][2] = %d" % rng.randint(800, 899),
            'println "%d:s " local.a[1] " " local.a[9][9][1] " " local.c[2] " " local.c2[2]' % lab,
            'println "%d:p " local.p1[1] " " local.p1[2] " " local.p2[1]' % lab,
            "local.p1[1] = %d" % rng.randint(900, 999),
            "local.p2[2] = %d" % rng.randint(1000, 1099),
            'println "%d:" game.g%d " " game.arr%d[1] " " local.c2[2] " " local.v2 " " local.a[2][1]' % (lab, lab, lab),
            "local.lv.via%d = local.a" % lab,
            'println "%d:" level.via%d[1] " " local.p1 " " local.p2' % (lab, lab),
        ]
        if ents:
            later.append('println "%d:" local.o.targetname' % lab)
            later.append("local.o.tag%d = %d" % (lab, rng.randint(0, 9)))
            later.append('println "%d:g " local.grp.size " " level.grp%d.size " " local.grp[1].targetname " " level.grp%d[2].targetname' % (lab, lab, lab))
            later.append("local.grp[%d].gt%d = %d" % (rng.choice([1, 2]), lab, rng.randint(0, 9)))
            later.append("$g1.gm%d = %d" % (lab, rng.randint(0, 9)))
            later.append('println "%d:gv " level.grp%d[1].gt%d " " local.grp[2].gm%d' % (lab, lab, lab, lab))
        rng.shuffle(later)
        return st, later[:rng.randint(2, len(later))]

    def f_script(self, rng, sname, nlabels, ents, feats, other):
        """one script: main + labels l1.. ; label i starts only labels j > i (no unbounded recursion)"""
        events = ["ea", "eb", "ec"]
        objs = ["level"] + (["$" + e for e in ents] if ("entwait" in feats and ents) else [])
        labels = ["main"] + ["l%d" % i for i in range(1, nlabels)]
        params = rng.random() < 0.5
        src = ""
        texts = []
        lid = {"sa": 1, "sb": 2}.get(sname, 3) * 10
        for li, lname in enumerate(labels):
            body = []
            tag = "%s%d" % (sname, li)
            later = []
            if rng.random() < 0.55:
                setup, later = self.f_values(rng, lid + li, ents)
                body += setup
            n = rng.randint(3, 8)
            ret = None
            for q in range(n):
                r = rng.random()
                if r < 0.18:
                    body.append('println "%s:%d"' % (tag, q))
                elif r < 0.40:
                    body.append(rng.choice(["wait 0.001", "wait 0.002", "wait 0.002", "wait 0.003", "wait 0.005", "waitframe"]))
                elif r < 0.52 and li + 1 < len(labels):
                    body.append("thread %s%s" % (rng.choice(labels[li + 1:]), rng.choice(["", " %d" % q, ' %d "s%d"' % (q, li), " local.a", " local.c local.a", " local.a local.c2", " local.c local.c"])))
                elif r < 0.62 and li + 1 < len(labels):
                    tgt = rng.choice(labels[li + 1:])
                    if "valwait" in feats and rng.random() < 0.3:
                        # a pending result (Pointer value) held by several variables across the save
                        body.append("local.rp = thread %s" % tgt)
                        body.append(rng.choice(["local.rq = local.rp", "level.rp%d = local.rp" % li, "local.ra[1] = local.rp", "group.rp = local.rp"]))
                        later.append('println "%s:rp " local.rp " " local.rq " " level.rp%d " " local.ra[1] " " group.rp' % (tag, li))
                    elif "valwait" in feats and rng.random() < 0.5:
                        body.append(rng.choice(["local.r = waitthread %s" % tgt,
                                                "local.r = 1 + (waitthread %s) * 2" % tgt,
                                                'println ("%s r=" + (waitthread %s))' % (tag, tgt)]))
                        body.append('println "%s:r " local.r' % tag)
                    else:
                        body.append("waitthread %s" % tgt)
                elif r < 0.72:
                    o = rng.choice(objs)
                    if "timeout" in feats and rng.random() < 0.4:
                        body.append('%s waittill_timeout %s "%s"' % (o, rng.choice(["0.002", "0.004"]), rng.choice(events)))
                    else:
                        body.append('%s waittill "%s"' % (o, rng.choice(events)))
                    body.append('println "%s:woke%d"' % (tag, q))
                elif r < 0.84:
                    o = rng.choice(objs)
                    if "timeout" in feats and rng.random() < 0.3:
                        body.append('%s commanddelay %s notify "%s"' % (o, rng.choice(["0.001", "0.003"]), rng.choice(events)))
                    else:
                        body.append('%s notify "%s"' % (o, rng.choice(events)))
                elif r < 0.88 and other:
                    if "valwait" in feats and rng.random() < 0.4:
                        body.append("local.r = waitexec %s" % other)
                        body.append('println "%s:x " local.r' % tag)
                    else:
                        body.append(rng.choice(["exec %s", "waitexec %s"]) % other)
                elif r < 0.91 and ents and li + 1 < len(labels):
                    body.append("$%s thread %s" % (rng.choice(ents), rng.choice(labels[li + 1:])))
                elif r < 0.94:
                    body.append('level endon "%s"' % rng.choice(events))
                elif r < 0.96 and "sibling" in feats and li > 0:
                    # the creating thread, remembered at the start (parm.previousthread itself is
                    # scheduler state that no archive contains: reading it after a wait is F7)
                    body.insert(0, "local.pt = parm.previousthread")
                    body.append('local.pt waittill "%s"' % rng.choice(events))
                elif later:
                    body.append(later.pop())
            body += later
            if rng.random() < 0.5:
                ret = rng.choice(["3", '"s"', "( 1 2 3 )", "local.a", "local.i"])
            head = lname + (" local.p1 local.p2" if li > 0 and params else "")
            if "eof" in feats and rng.random() < 0.2:
                body.insert(0, rng.choice(["wait 0.001", "wait 0.002", "waitframe"]))     # the first statement suspends
            texts.append((head + ":\n" + "\n".join(body) + "\n", "end" + (" " + ret if ret else "") + "\n", li))
        if "eof" in feats:
            # boundary code position: the label that is textually LAST in the file ends in a suspending command
            # and the file has no `end` after it: the thread sleeps on the OP_DONE the compiler appends at EOF
            pick = rng.randrange(len(texts))
            texts.append(texts.pop(pick))
            head, _, li = texts[-1]
            others = [l for l in labels[li + 1:]]
            last = rng.choice(["wait 0.001", "wait 0.002", "wait 0.003", "waitframe", 'level waittill "%s"' % rng.choice(events)] +
                              (["waitthread %s" % rng.choice(others)] if others else []))
            texts[-1] = (head + last + ("\n" if rng.random() < 0.5 else ""), "", li)
        for head, tail, _ in texts:
            src += head + tail
        return src

    def f_case(self, rng, cid, nframes, origin, feats):
        ents = ["e1", "e2"][:rng.choice([0, 1, 2])] if "ents" in feats else []
        nscripts = rng.choice([1, 1, 2])
        ops = []
        names = ["sa", "sb"][:nscripts]
        if ents:
            spawn = "main:\n" + "\n".join('spawn SimpleEntity "targetname" "%s"' % e for e in ents + ["g1", "g1"]) + "\nend\n"
            ops.append("D sp " + spawn.replace("\n", "\\n"))
            ops.append("E " + " ".join(ents + ["g1"]))
        for i, nm in enumerate(names):
            other = names[i + 1] if i + 1 < len(names) else None
            src = self.f_script(rng, nm, rng.randint(2, 4), ents, feats, other)
            ops.append("D %s %s" % (nm, src.replace("\n", "\\n")))
        if ents:
            ops.append("S sp")
        starts = [(rng.randrange(0, 3), rng.choice(names)) for _ in range(rng.randint(1, 3))]
        for f in range(nframes):
            for s, nm in starts:
                if s == f:
                    ops.append("S " + nm)
            if rng.random() < 0.9:
                ops.append("T %d" % rng.choice([1, 1, 2, 3]))
            ops.append("X")
        ops += ["T 10", "X", "X"]
        nx = sum(1 for o in ops if o == "X")
        ks = "all" if nx <= 12 else ",".join(str(k) for k in sorted(rng.sample(range(1, nx + 1), 4)))
        hdr = "F K=%s" % ks
        if "survive" in feats:
            hdr += " H=leq"
        return Case(cid, hdr, ops, origin)

    # ------------------------------------------------------------------ gen
    def gen(self, tier, seed):
        rng = random.Random(seed)
        cases = []
        for p in sorted(glob.glob(os.path.join(vlib.VERIF, "corpus", "C09", "*.txt"))):
            lines = [l.rstrip("\n") for l in open(p) if l.strip() and not l.startswith("#")]
            hdr = lines[0]
            cases.append(Case("c_" + os.path.basename(p)[:-4], hdr, lines[1:], "corpus"))
        cases += self.m_exhaustive(tier)
        k = 0
        quick = tier == "quick"
        for nt, nf, nl, cnt in ([(2, 5, 2, 400), (3, 8, 3, 300), (4, 20, 4, 60)] if quick else [(2, 5, 2, 3500), (3, 8, 3, 3500), (4, 12, 4, 1500), (4, 30, 5, 500)]):
            for _ in range(cnt):
                cases.append(self.m_case(rng, "m%d" % k, nt, nf, nl, "model-%dthreads-%dframes" % (nt, nf)))
                k += 1
        for i in range(60 if quick else 700):
            cases.append(self.m_keys_case(rng, "mk%d" % k))
            k += 1
        for i in range(40 if quick else 500):
            cases.append(self.f_keys_case(rng, "fk%d" % k))
            k += 1
        base = ["ents"]
        if ENTITY_WAITTILL:
            base.append("entwait")
        fam = [("free-basic", list(base))]
        if VALUE_WAITTHREAD:
            fam.append(("free-valuewait", base + ["valwait"]))
        if PENDING_EVENTS:
            fam.append(("free-timeouts", base + ["timeout"]))
        if SIBLING_WAITTILL:
            fam.append(("free-sibling", base + ["sibling"]))
        if ENTITIES_SURVIVE_RESET:
            fam.append(("free-entities-survive", base + ["survive"]))
        if PREVIOUSTHREAD_AFTER_WAIT:
            for i in range(3):
                src = ('main:\nthread foo\nwait 0.0%d0\nend\nfoo:\nwait 0.00%d\nlocal.p = parm.previousthread\nif (local.p)\n{\nprintln "thread"\n}\n'
                       'else\n{\nprintln "nil"\n}\nend\n' % (i + 1, i + 2))
                cases.append(Case("pv%d" % i, "F K=all", ["D a " + src, "S a"] + ["T 1", "X"] * 6, "free-previousthread-after-wait"))
        if FRESH_ENGINE:
            for i in range(20):
                c = self.m_case(rng, "fe%d" % i, 2, 6, 0, "model-fresh-engine")
                c.header += " H=lrqn"
                c.ops = ["T 7", "X"] + c.ops
                cases.append(c)
        fam.append(("free-eof", base + ["eof"]))
        allf = sorted({f for _, fs in fam for f in fs if f not in ("survive", "eof")})
        fam.append(("free-all", allf))
        per = 90 if quick else 1100
        for origin, feats in fam:
            for i in range(per):
                nf = rng.choice([6, 8, 9]) if (quick or i % 5) else rng.choice([16, 25])
                cases.append(self.f_case(rng, "f%d" % k, nf, origin, feats))
                k += 1
        return cases

    # ------------------------------------------------------------------ canonicalisation
    def canon_model(self, lines):
        m = [l[2:] for l in lines if l.startswith("m ")]
        return m, [], True

    stats = None

    def canon_impl(self, lines):
        m = [l[2:] for l in lines if l.startswith("m ")]
        direct = []
        if self.stats is None:
            self.stats = {"save_points": 0, "with_2_or_more_threads": 0, "with_thread_in_waittill": 0, "with_timed_wait": 0,
                          "with_several_threads_in_one_instance": 0, "with_pending_events": 0, "with_2_or_more_instances": 0, "empty_engine": 0}
        import re as _re
        for l in lines:
            if l.startswith("m L "):
                st = self.stats
                st["loaded_state_dumps"] = st.get("loaded_state_dumps", 0) + 1
                thr = l.split("T(")[1:]
                for tag, key in (("c#", "dumps_with_shared_constant_holder"), ("a#", "dumps_with_shared_dynamic_holder")):
                    ids = _re.findall(_re.escape(tag) + r"(\d+)", l)
                    if len(ids) != len(set(ids)):
                        st[key] = st.get(key, 0) + 1
                    per = [set(_re.findall(_re.escape(tag) + r"(\d+)", t)) for t in thr]
                    if any(per[i] & per[j] for i in range(len(per)) for j in range(i + 1, len(per))):
                        st[key + "_across_threads"] = st.get(key + "_across_threads", 0) + 1
                if _re.search(r"a#(\d+)\{[^}]*a#\1[,}]", l):
                    st["dumps_with_self_containing_holder"] = st.get("dumps_with_self_containing_holder", 0) + 1
        for l in lines:
            if l.startswith("v ") and not l.endswith(" ok"):
                direct.append("run B differs from run A: " + l[2:400])
            elif l.startswith("v "):
                f = dict(w.split("=") for w in l.split() if "=" in w)
                st = self.stats
                st["save_points"] += 1
                st["with_2_or_more_threads"] += int(f.get("thr", 0)) >= 2
                st["with_thread_in_waittill"] += int(f.get("waiting", 0)) >= 1
                st["with_timed_wait"] += int(f.get("timing", 0)) >= 1
                st["with_several_threads_in_one_instance"] += int(f.get("multi", 0)) >= 1
                st["with_pending_events"] += int(f.get("events", 0)) >= 1
                st["with_2_or_more_instances"] += int(f.get("inst", 0)) >= 2
                st["empty_engine"] += int(f.get("thr", 0)) == 0
        return m, [l for l in lines if l.startswith("a ")], direct, None

    def nontrivial(self, case, compared):
        # a save/reset/load happened while >= 2 threads were alive: an explicit L with >= 2 threads in the dump, or a monitor case
        if any(c.startswith("L ") and c.count("T(") >= 2 for c in compared):
            return True
        return "K=none" not in case.header and len(case.ops) >= 6

    def signature(self, case, rec, v):
        return v["kind"]


HP = C09()


def check(res, tier, seed):
    res.cov["rule"] += ("C09: corpus (the minimal programs of the five findings as regression cases); model-tied structured programs (prints, timed waits, `thread` with array arguments, integer/"
                        "string incl. empty/float/nil locals, dynamic and `::` constant arrays aliased by variables, by holder slots (nested, self-containing) and by thread arguments, "
                        "stores through one alias and reads through the others after every load, growth after load): 6 fixed two-thread programs x an explicit save/reset/load "
                        "at EVERY operation position (and twice), seeded random programs of 2-4 host threads with nested `thread` and 2-5 explicit save/reset/load operations "
                        "(state dump compared with the model's loaded state) and the A-vs-B_k monitor at every frame boundary (<= 12 frames) or 4 sampled ones; free random "
                        "scripts (1-2 scripts x 2-4 labels: waittill/notify/endon on level and entities, timeouts, commanddelay, waitthread with/without value, exec/waitexec, "
                        "threads with self, locals of every kind, group/level sharing, nested arrays, growth, mixed-key arrays held by local/level/group, stored $name groups) monitored A vs B_k at every/sampled frame boundary. "
                        "non-trivial = a save/reset/load with >= 2 live threads or a monitored run. ")
    HP.stats = None
    vlib.history_check(res, HP, tier, seed)
    res.cov["monitor_save_points_measured"] = HP.stats
    res.cov["flags"] = {"VALUE_WAITTHREAD": VALUE_WAITTHREAD, "PENDING_EVENTS": PENDING_EVENTS, "ENTITY_WAITTILL": ENTITY_WAITTILL,
                        "SIBLING_WAITTILL": SIBLING_WAITTILL, "ENTITIES_SURVIVE_RESET": ENTITIES_SURVIVE_RESET,
                        "NEGATIVE_LITERALS": NEGATIVE_LITERALS, "PREVIOUSTHREAD_AFTER_WAIT": PREVIOUSTHREAD_AFTER_WAIT,
                        "FRESH_ENGINE": FRESH_ENGINE}


def replay(path):
    return vlib.history_replay(HP, path)
