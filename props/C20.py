"""C20 — engines on different OS threads do not interfere (partial: lock protocol + TSan sampling)."""
import json
import os
import re

import vlib

LEVEL = "proof"
CID = "C20"
HDR = os.path.join(vlib.REPO, "include/morfuse/Common/MEM/BlockAlloc.h")


class TranslatorError(Exception):
    pass


def method_body(src, cls, name):
    """text of `<ret> <cls><a, b>::<name>(...) { ... }`"""
    m = re.search(r"\b%s<a, b>::%s\s*\([^)]*\)\s*\{" % (cls, name), src)
    if not m:
        raise TranslatorError("pattern for %s::%s not found in BlockAlloc.h" % (cls, name))
    i, depth = m.end(), 1
    while i < len(src) and depth:
        depth += {"{": 1, "}": -1}.get(src[i], 0)
        i += 1
    return src[m.end():i - 1]


def lock_mode(body):
    if re.search(r"std::(unique_lock|lock_guard|scoped_lock)\s*<[^>]*>\s*\w+\s*\(\s*mutex\s*\)", body) or re.search(r"\bmutex\s*\.\s*lock\s*\(\s*\)", body):
        return "Exclusive"
    if re.search(r"std::shared_lock\s*<[^>]*>\s*\w+\s*\(\s*mutex\s*\)", body) or re.search(r"\bmutex\s*\.\s*lock_shared\s*\(", body):
        return "Shared"
    return "NoLock"


AUDIT_RULES = os.path.join(os.path.dirname(os.path.abspath(__file__)), "C20_audit.json")
REQUIRED_TLS = ["mfuse::ScriptExecutionStack::stackDepth", "mfuse::ScriptExecutionStack::maxStackDepth",
                "mfuse::ThreadSingleton<mfuse::EventContext>::singleton"]


def audit():
    """every object symbol in a writable section of the static library built from the current
    tree -> [(demangled name, kind, object file)]; TLS symbols are ThreadLocal, the others are
    classified by props/C20_audit.json, no matching rule = Unaccounted"""
    import subprocess
    lib, _inc = vlib.build_lib("plain")
    out = subprocess.run(["readelf", "-SsW", lib], capture_output=True, text=True, check=True).stdout
    cur, secs, syms = None, {}, {}
    for line in out.splitlines():
        m = re.match(r"^File: .*\((.*)\)", line)
        if m:
            cur, secs = m.group(1), {}
            continue
        m = re.match(r"^\s*\[\s*(\d+)\]\s+(\S+)\s+(PROGBITS|NOBITS)\s+\S+\s+\S+\s+\S+\s+\S+\s+(\S*)", line)
        if m:
            secs[m.group(1)] = (m.group(2), m.group(4))
            continue
        m = re.match(r"^\s*\d+:\s+[0-9a-f]+\s+(\d+)\s+(OBJECT|TLS)\s+(\S+)\s+(\S+)\s+(\d+)\s+(\S+)$", line)
        if m and m.group(5) in secs:
            sname, flags = secs[m.group(5)]
            if "W" not in flags or sname.startswith(".data.rel.ro"):
                continue      # read-only data (vtables, typeinfo, const tables with relocations)
            syms.setdefault(m.group(6), (m.group(2), re.sub(r"^\d+_", "", cur or "")))
    if len(syms) < 50:
        raise TranslatorError("the symbol audit found only %d writable objects in %s: readelf output not understood" % (len(syms), lib))
    names = sorted(syms)
    dem = subprocess.run(["c++filt"], input="\n".join(names) + "\n", capture_output=True, text=True, check=True).stdout.splitlines()
    if len(dem) != len(names):
        raise TranslatorError("c++filt returned %d names for %d symbols" % (len(dem), len(names)))
    rules = [(re.compile(r["re"]), r["kind"]) for r in json.load(open(AUDIT_RULES))["rules"]]
    table = []
    for n, d in zip(names, dem):
        typ, obj = syms[n]
        kind = "ThreadLocal" if typ == "TLS" else next((k for rx, k in rules if rx.search(d)), "Unaccounted")
        table.append((d, kind, obj))
    return sorted(set(table))


def coq_string(x):
    return '"' + x.replace('"', '""') + '"'


def translate():
    """-> (coq text, facts dict)"""
    src = open(HDR).read()
    modes = {}
    for meth, cname in (("MAlloc", "Alloc"), ("MFree", "Free"), ("MFreeAll", "FreeAll"), ("MCount", "Count")):
        modes[meth] = lock_mode(method_body(src, "BlockAllocSafe", cname))
    ts = open(os.path.join(vlib.REPO, "include/morfuse/Common/ThreadSingleton.h")).read()
    vm = open(os.path.join(vlib.REPO, "include/morfuse/Script/ScriptVM.h")).read()
    tl_singleton = bool(re.search(r"static\s+thread_local\s+T\s*\*\s*singleton\s*;", ts))
    tl_depth = bool(re.search(r"static\s+thread_local\s+size_t\s+stackDepth\s*;", vm))
    # which set types use the unsynchronised static pool
    st = open(os.path.join(vlib.REPO, "include/morfuse/Container/set.h")).read()
    default_safe = bool(re.search(r"using\s+set_default_allocator\s*=\s*MEM::BlockAllocSafe_set<", st))
    txt = ("(* C20/Generated.v - GENERATED on every run by props/C20.py from\n"
           "   include/morfuse/Common/MEM/BlockAlloc.h (lock taken by each BlockAllocSafe method),\n"
           "   ThreadSingleton.h, ScriptVM.h and set.h.  Do not edit. *)\n"
           "From Coq Require Import List String.\nFrom Morfuse Require Import C20.Model C20.Audit.\nImport ListNotations.\nLocal Open Scope string_scope.\n\n"
           "Definition mode_of (m : meth) : mode :=\n  match m with\n" +
           "".join("  | %s => %s\n" % (k, v) for k, v in modes.items()) + "  end.\n\n"
           "Definition context_singleton_is_thread_local : bool := %s.\n"
           "Definition interpreter_depth_is_thread_local : bool := %s.\n"
           "Definition default_set_pool_is_the_locked_one : bool := %s.\n" % (
               str(tl_singleton).lower(), str(tl_depth).lower(), str(default_safe).lower()))
    table = audit()
    txt += ("\n(* every object symbol in a writable section of the static library built from the current tree\n"
            "   (readelf; thread-local = ELF type TLS; the other kinds by props/C20_audit.json) *)\n"
            "Definition global_audit : list (string * gkind) :=\n  [ " +
            "\n  ; ".join("(%s, %s)" % (coq_string(d), k) for d, k, _o in table) + " ].\n\n"
            "Definition required_thread_local : list string :=\n  [ " + "; ".join(coq_string(x) for x in REQUIRED_TLS) + " ].\n")
    kinds = {}
    for _d, k, _o in table:
        kinds[k] = kinds.get(k, 0) + 1
    return txt, {"lock_modes": modes, "thread_local_singleton": tl_singleton, "thread_local_depth": tl_depth,
                 "default_set_pool_locked": default_safe, "audited_objects": len(table), "audit_by_kind": kinds,
                 "unaccounted": [[d, o] for d, k, o in table if k == "Unaccounted"],
                 "thread_local_objects": [d for d, k, _o in table if k == "ThreadLocal"]}


def write_if_changed(path, txt):
    old = open(path).read() if os.path.exists(path) else None
    if old != txt:
        with open(path, "w") as f:
            f.write(txt)


def tsan_runs(res, tier, seed):
    """run the multi-threaded harness under ThreadSanitizer; returns list of failure records"""
    exe = vlib.build_harness("C20", ["harness/C20.cpp"], "tsan", True)
    plan = [(4, 2)] * 6 + [(2, 3), (8, 1)] if tier == "quick" else [(n, r) for n in (2, 3, 4, 8, 16) for r in (1, 2, 3)] * 8
    fails, runs, races = [], 0, 0
    samples = []
    for k, (n, rounds) in enumerate(plan):
        sd = seed * 1000 + k
        env = {"TSAN_OPTIONS": "halt_on_error=0:report_signal_unsafe=0"}
        if k % 2 == 1:
            # cold start: the concurrent runs are the first use of the library in their process; the reference
            # hashes come from a solo-only process
            rc0, o0, e0 = vlib.sh([exe, str(n), str(rounds), str(sd), "0", "soloonly"], env=env, timeout=600)
            want = [l.split()[2] for l in o0.splitlines() if l.startswith("solo ")]
            rc, o, e = vlib.sh([exe, str(n), str(rounds), str(sd), "0", "cold"] + want, env=env, timeout=600)
            if rc0 != 0 or len(want) != n:
                rc, e = 99, "solo-only reference run failed: rc=%s\n%s" % (rc0, e0[-1500:])
        else:
            rc, o, e = vlib.sh([exe, str(n), str(rounds), str(sd)], env=env, timeout=600)
        runs += 1
        summ = sorted({re.sub(r"<.*", "", l)[:160] for l in e.splitlines() if l.startswith("SUMMARY: ThreadSanitizer")})
        diff = [l for l in o.splitlines() if "DIFFERENT" in l]
        if len(samples) < 2:
            samples.append({"threads": n, "rounds": rounds, "seed": sd, "stdout": o.splitlines()[:4]})
        if rc != 0 or summ or diff:
            races += len(summ)
            fails.append({"threads": n, "rounds": rounds, "seed": sd, "cold": k % 2 == 1, "rc": rc, "tsan": summ[:12], "different_output": diff[:8],
                          "stderr_head": e[:1500]})
            if len(fails) >= 3:
                break
    res.cov["evaluations"] += runs
    res.cov["distinct_nontrivial"] += len({(n, r) for n, r in plan[:runs]}) + 1
    res.cov["samples"] += samples
    res.cov["tsan_runs"] = runs
    return fails


def check(res, tier, seed):
    res.cov["rule"] += ("C20: every object symbol in a writable section of the library built from the current tree is listed (readelf) and classified into coq/C20/Generated.v "
                        "(thread-local by ELF type, the rest by props/C20_audit.json; no rule = Unaccounted breaks the audit theorem); "
                        "the lock modes of BlockAllocSafe are re-extracted from BlockAlloc.h into coq/C20/Generated.v and the protocol theorem is re-checked; "
                        "then N OS threads (2..8 quick, 2..16 thorough) each drive their own ScriptContext through compile/execute/wait/nested waitthread calls/reset/destroy (every other host sets its own interpreter nesting limit), followed by a pool-churn phase (each thread keeps > 256 entries in its own con::map<str,str>, all drawn from one process-wide pool, and removes/adds 4000 x rounds entries so that slots of full blocks change hands between threads) under "
                        "ThreadSanitizer with seed-dependent start offsets; per-thread output must equal the solo run; every other run is a COLD start (the concurrent engines are the first use of the library in their process, the reference output comes from a solo-only process), so first-use initialisation of the process-wide registries is raced too; distinct = distinct (threads, rounds) shapes. ")
    res.assumptions += ["partial: the theorem covers the lock protocol of the shared pools for every schedule and every number of threads; all other potential races are sampled by ThreadSanitizer only",
                        "the audit of process-wide objects is complete for the binary built from the current tree (checked on every run), but the usage rule of each kind "
                        "(InitOnly/HostConfig objects are not written while engines run, pools are only touched through BlockAllocSafe) is a claim recorded in props/C20_audit.json, trusted and sampled by ThreadSanitizer",
                        "heap objects reachable from two engines (none by design: each ScriptContext owns its objects) are outside the audit; str::operator[]'s out-of-range sink is a formal race only under host misuse"]
    tie_broken = None
    try:
        txt, facts = translate()
        write_if_changed(os.path.join(vlib.COQ, "C20", "Generated.v"), txt)
        res.cov["generated"] = facts
    except (TranslatorError, OSError) as ex:
        tie_broken = str(ex)
    pst = vlib.proof_stage(res, "C20", dirs=["Base", "C20"])
    fails = tsan_runs(res, tier, seed)
    for f in fails[:2]:
        res.violation({"property": CID, "kind": "tsan-or-output", "why": "data race reported by ThreadSanitizer or per-thread output differs from the solo run",
                       "threads": f["threads"], "rounds": f["rounds"], "seed": f["seed"], "cold": f.get("cold", False), "detail": f,
                       "replay_cmd": "./check C20 --replay <this file>"})
    if tie_broken or not pst["ok"]:
        if not fails:
            res.violation({"property": CID, "kind": "proof-broken",
                           "broken": tie_broken or ("Coq build of C20/Properties.vo (the generated lock modes no longer satisfy the protocol, a process-wide object is unaccounted for, or a declaration stopped being thread_local); unaccounted: %s" % res.cov.get("generated", {}).get("unaccounted")),
                           "generated": res.cov.get("generated"), "log": pst.get("build_log", "")[-2500:] + str(pst.get("props", {}).get("log", ""))[-2500:]},
                          no_input=True)


def replay(path):
    rec = json.load(open(path))
    if "threads" not in rec:
        print("replay names a broken obligation:", rec.get("broken"))
        return 1
    exe = vlib.build_harness("C20", ["harness/C20.cpp"], "tsan", True)
    bad = 0
    for k in range(5):
        base = [exe, str(rec["threads"]), str(rec["rounds"]), str(rec["seed"] + k)]
        env = {"TSAN_OPTIONS": "halt_on_error=0"}
        if rec.get("cold"):
            rc0, o0, e0 = vlib.sh(base + ["0", "soloonly"], env=env, timeout=600)
            want = [l.split()[2] for l in o0.splitlines() if l.startswith("solo ")]
            rc, o, e = vlib.sh(base + ["0", "cold"] + want, env=env, timeout=600)
        else:
            rc, o, e = vlib.sh(base, env=env, timeout=600)
        if rc != 0 or "SUMMARY: ThreadSanitizer" in e or "DIFFERENT" in o:
            bad += 1
    print("replay: %d of 5 runs reported a race or a difference" % bad)
    return 1 if bad else 0
