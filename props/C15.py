"""C15 — `$name` denotes exactly the live objects currently bearing that target name."""
import glob
import itertools
import os
import random
import re

import vlib
from vlib import Case

LEVEL = "proof"

# Two places where the code disagrees with the specification inside the property's quantifier
# (see coq/C15/Properties.v: ..._refuted).  While a flag is False the corresponding inputs are
# left out of the generated histories; when it is True a disagreement whose signature is listed in
# /verif/known_findings.json is reported as a known finding, anything else as a violation.
CAPTURE = True       # uses of a stored group value: `level.c1 = $a` ... later `level.c1.size`   (origin "capture")
FIELD_GROUP = True   # field assignment to a group: `$a.tag = 1` with two or more objects named a

FLAG = re.compile(r" f=(\d)")


def strip_flag(line):
    return FLAG.sub("", line, count=1)


def flag_of(line):
    m = FLAG.search(line)
    return int(m.group(1)) if m else 0


class C15(vlib.HistoryProp):
    cid = "C15"
    variant = "asan"
    harness_sources = ["harness/C15.cpp"]
    use_lib = True
    coq_dirs = ["Base", "C15"]
    has_monitor = False
    batch = 1500
    _stash = None

    def assumptions(self):
        return ["objects are instances of a host class derived from SimpleEntity; 4 names + the explicit name \"\" + never-named objects, at most 8 objects",
                "every `$name` expression, command and field assignment runs as a freshly compiled script on one engine per history; values are reported to the host through a command argument",
                "the Debug stream is attached (an empty `$name` raises the NoTarget warning); warnings are compared as classes (NoTarget, Null, Cast, Range), not as text",
                "handlers: targetname, remove (both built in), mark and kill j (host events that log the receiver; kill deletes object j)",
                "the VM, parser and event dispatch are not modelled (C01-C05, C08 are about them)",
                "CAPTURE=%s FIELD_GROUP=%s: histories using a stored group value / assigning a field to a group are %s" % (
                    CAPTURE, FIELD_GROUP, "included" if CAPTURE and FIELD_GROUP else "left out where the flag is False (the code is known to disagree there: Properties.v ..._refuted)")]

    # ------------------------------------------------------------------ generation
    def rand_target(self, rng, names, capture):
        if capture and rng.random() < 0.45:
            return "c%d" % rng.choice([1, 1, 2])
        return "n%d" % rng.choice(names)

    def rand_cmd(self, rng, names, nobj):
        r = rng.random()
        if r < 0.30:
            return "M"
        if r < 0.60:
            return "T %d" % rng.choice(names)
        if r < 0.78:
            return "K %d" % rng.randint(1, max(1, nobj))
        return "R"

    def walk(self, rng, length, cid, names, capture, origin):
        ops, nobj = [], 0
        for _ in range(rng.choice([1, 2, 3, 4])):
            ops.append("%s %d" % (rng.choice("Ss"), rng.choice(names)))
            nobj += 1
        while len(ops) < length:
            r = rng.random()
            k = rng.randint(1, max(1, nobj))
            if r < 0.14 and nobj < 8:
                ops.append("%s %d" % (rng.choice("Ss"), rng.choice(names + [0] if rng.random() < 0.3 else names)))
                nobj += 1
            elif r < 0.30:
                ops.append("%s %d %d" % (rng.choice("Nne"), k, rng.choice(names + [0] if rng.random() < 0.1 else names)))
            elif r < 0.38:
                ops.append("%s %d" % (rng.choice("Rrd"), k))
            elif r < 0.50:
                ops.append("Q " + self.rand_target(rng, names, capture))
            elif r < 0.57:
                ops.append("Z " + self.rand_target(rng, names, capture))
            elif r < 0.67:
                ops.append("I %s %d" % (self.rand_target(rng, names, capture), rng.choice([0, 1, 1, 2, 2, 3, 4, 9])))
            elif r < 0.88:
                ops.append("C %s %s" % (self.rand_target(rng, names, capture), self.rand_cmd(rng, names, nobj)))
            elif r < 0.93:
                ops.append("F n%d" % rng.choice(names))      # (a field assignment to a stored group would be both defects at once)
            elif capture:
                ops.append("K %d %d" % (rng.choice([1, 1, 2]), rng.choice(names)))
            else:
                ops.append("Q n%d" % rng.choice(names))
        ops += ["Q n%d" % n for n in sorted(set(names))]
        return Case(cid, "", ops, origin)

    EX_ALPHA = ["S 1", "s 2", "S 0", "N 1 2", "n 2 1", "e 3 1", "R 1", "r 2",
                "Q n1", "I n1 2", "Z n2", "C n1 M", "C n1 T 2", "C n2 T 2", "C n1 R", "C n1 K 2", "C n2 K 1", "F n1"]
    EX_SETUPS = [["S 1", "s 1"], ["S 1", "s 1", "S 2"], ["s 1", "S 1", "s 1"]]

    def candidates(self, tier, seed):
        rng = random.Random(seed)
        cases = []
        for p in sorted(glob.glob(os.path.join(vlib.VERIF, "corpus", "C15", "*.txt"))):
            lines = [l.strip() for l in open(p) if l.strip() and not l.startswith("#")]
            origin = "capture" if os.path.basename(p).startswith("capture") else "corpus"
            cases.append(Case("c_" + os.path.basename(p)[:-4], "", lines, origin))
        k = 0
        for si, setup in enumerate(self.EX_SETUPS):
            if tier == "quick":
                maxlen = 3 if si == 0 else 2
            else:
                maxlen = 4 if si == 0 else 3
            for n in range(1, maxlen + 1):
                for tup in itertools.product(self.EX_ALPHA, repeat=n):
                    cases.append(Case("e%d" % k, "", setup + list(tup) + ["Q n1", "Q n2"], "exhaustive-len%d" % n))
                    k += 1
        if tier == "quick":
            walks = [(10, 3000, [1, 2]), (16, 1500, [1, 2, 3, 5]), (40, 400, [1, 2, 3, 4, 5]), (120, 30, [1, 2, 3])]
            cwalks = [(12, 1500, [1, 2]), (30, 300, [1, 2, 5])]
        else:
            walks = [(10, 15000, [1, 2]), (16, 10000, [1, 2, 3, 5]), (40, 3000, [1, 2, 3, 4, 5]), (200, 150, [1, 2, 3])]
            cwalks = [(12, 8000, [1, 2]), (30, 2000, [1, 2, 5])]
        for length, cnt, names in walks:
            for _ in range(cnt):
                cases.append(self.walk(rng, length, "w%d" % k, names, False, "random-walk-%dnames" % len(names)))
                k += 1
        if True:
            for length, cnt, names in cwalks:
                for _ in range(cnt):
                    cases.append(self.walk(rng, length, "k%d" % k, names, True, "capture"))
                    k += 1
        return cases

    # which histories one pass runs: "main" = no stored values, no field assignment to a group;
    # "field-group" / "stored-group-alias" / "stored-group-dangling" = the histories that contain
    # such a use, with only that class of disagreement reported (one pass per class, so that
    # each class is shrunk and matched against the known findings separately)
    mode = "main"

    def drop_group_fields(self, cases):
        """remove the field assignments that hit a `$n` group (the model raises flag 1 there; the
        op changes nothing in the model, so the flags of the other ops stay as they are)"""
        drv = vlib.ocaml_driver("C15")
        dropped = 0
        for i in range(0, len(cases), 4000):
            chunk = [c for c in cases[i:i + 4000] if any(o.startswith("F n") for o in c.ops)]
            if not chunk:
                continue
            out, _ = vlib.run_resilient(drv, ["model"], chunk, timeout=self.timeout)
            for c in chunk:
                m = [l for l in out.get(c.id, []) if l.startswith("m ")]
                if len(m) != len(c.ops):
                    continue
                keep = [o for o, l in zip(c.ops, m) if not (o.startswith("F n") and flag_of(l) == 1)]
                dropped += len(c.ops) - len(keep)
                c.ops = keep
        return dropped

    def gen(self, tier, seed):
        cases = self.candidates(tier, seed)
        if self.mode == "main":
            cases = [c for c in cases if c.origin != "capture"]
            self.dropped_field_ops = self.drop_group_fields(cases)
        elif self.mode == "field-group":
            cases = [c for c in cases if c.origin != "capture" and any(o.startswith("F n") for o in c.ops)]
        else:
            cases = [c for c in cases if c.origin == "capture"]
            if not FIELD_GROUP:
                self.drop_group_fields(cases)
        return cases

    # ------------------------------------------------------------------ comparison
    def canon_model(self, lines):
        m = [l[2:] for l in lines if l.startswith("m ")]
        s = [l[2:] for l in lines if l.startswith("s ")]
        ok = len(m) == len(s)
        for a, b in zip(m, s):
            fa, fb = flag_of(a), flag_of(b)
            if fa != fb:
                ok = False
                break
            if fa == 2:
                break               # nothing is claimed from the first use of a stored group on
            if fa == 0 and a != b:
                ok = False
                break
        undef = next((i for i, l in enumerate(m) if l.startswith("undef")), len(m))
        self._stash = (m, s, undef)
        return [strip_flag(l) for l in m[:undef]], [], ok

    def canon_impl(self, lines):
        i_lines = [l[2:] for l in lines if l.startswith("m ")]
        direct = []
        undef = len(i_lines)
        if self._stash is not None:
            m, s, undef = self._stash
            self._stash = None
            for k, (im, sp) in enumerate(zip(i_lines, s)):
                f = flag_of(sp)
                if f and im != strip_flag(sp):
                    what = "field-group" if f == 1 else ("stored-group-dangling" if k >= undef else "stored-group-alias")
                    if what != self.mode:
                        continue
                    direct.append("%s: op %d: specification=%s implementation=%s" % (what, k, strip_flag(sp), im))
        return i_lines[:undef], [], direct, None

    def signature(self, case, rec, v):
        if v["kind"] == "direct":
            return "C15-" + v["why"].split(":")[0]
        if v["kind"] in ("crash", "timeout") and any(o.startswith("K ") for o in case.ops):
            m = rec.get("m_cmp")
            if m is not None and len(m) < len(case.ops):
                return "C15-stored-group-dangling-" + v["kind"]
        return v["kind"]

    def nontrivial(self, case, compared):
        # some `$n` denoted a group and a command reached at least two objects
        return any(re.search(r"log=\d+,\d+", c) for c in compared) or any(c.startswith("grp:") for c in compared)


HP = C15()


def check(res, tier, seed):
    res.cov["rule"] += ("C15: corpus; every sequence of <= 3 (thorough: 4) ops from an 18-letter alphabet (spawn/rename/destroy by host and by script, "
                        "`$n`, `$n.size`, `$n[i]`, `$n mark|targetname|remove|kill`, `$n.tag=`) after a set-up with a group (two more set-ups: <= 2 (3) ops), closed by `$1`,`$2`; seeded random "
                        "walks of 10-120 (200) ops over 2-5 names (incl. \"\" and never-named objects) and <= 8 objects, commands on 0/1/many members, kill of an "
                        "earlier/later/own member during the fan-out, re-naming with the same name, ops on dead objects; every observation carries the whole "
                        "table. Non-trivial = a group value was observed or a command reached >= 2 objects. ")
    HP.mode = "main"
    vlib.history_check(res, HP, tier, seed)
    passes = (["field-group"] if FIELD_GROUP else []) + (["stored-group-alias", "stored-group-dangling"] if CAPTURE else [])
    for mode in passes:
        HP.mode = mode
        vlib.history_check(res, HP, tier, seed, proof=False)
    HP.mode = "main"
    res.cov["flags"] = {"CAPTURE": CAPTURE, "FIELD_GROUP": FIELD_GROUP, "extra_passes": passes,
                        "field_ops_left_out": getattr(HP, "dropped_field_ops", 0)}


def replay(path):
    import json
    sig = json.load(open(path)).get("signature", "")
    HP.mode = sig[4:] if sig.startswith("C15-") and sig[4:] in ("field-group", "stored-group-alias", "stored-group-dangling") else "main"
    try:
        return vlib.history_replay(HP, path)
    finally:
        HP.mode = "main"
