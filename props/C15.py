"""C15 — `$name` denotes exactly the live objects currently bearing that target name."""
import glob
import itertools
import os
import random
import re

import vlib
from vlib import Case

LEVEL = "proof"

# histories that store a `$n` result in a variable and use it later (origin "capture").  The
# stored-group defects (alias of the live list, dangling entry) are fixed in /repo (8228a47): the
# histories are part of the default generation and any disagreement is a violation.
CAPTURE = True


class C15(vlib.HistoryProp):
    cid = "C15"
    variant = "asan"
    harness_sources = ["harness/C15.cpp"]
    use_lib = True
    coq_dirs = ["Base", "C15"]
    has_monitor = False
    batch = 1500

    def assumptions(self):
        return ["objects are instances of a host class derived from SimpleEntity; 4 names + the explicit name \"\" + never-named objects, at most 8 objects",
                "every `$name` expression, command and field assignment runs as a freshly compiled script on one engine per history; values are reported to the host through a command argument",
                "the Debug stream is attached (an empty `$name` raises the NoTarget warning); warnings are compared as classes (NoTarget, Null, Cast, Range, Fail), not as text",
                "handlers: commands targetname, remove (built in), mark, kill j (host events that log the receiver; kill deletes object j); fields tag (plain variable), targetname (built-in setter), "
                "fuse j (host setter that logs the receiver and raises a script error for object j), zap j (host setter that logs the receiver and deletes object j)",
                "the receivers of a plain-field store are found by looking at the objects afterwards, so their order is not observed (the order of setter stores and commands is)",
                "the VM, parser and event dispatch are not modelled (C01-C05, C08 are about them)"]

    # ------------------------------------------------------------------ generation
    def rand_target(self, rng, names, capture):
        if capture and rng.random() < 0.45:
            return "c%d" % rng.choice([1, 1, 2])
        return "n%d" % rng.choice(names)

    def rand_cmd(self, rng, names, nobj):
        r = rng.random()
        if r < 0.30:
            return "M"
        if r < 0.60:
            return "T %d" % rng.choice(names)
        if r < 0.78:
            return "K %d" % rng.randint(1, max(1, nobj))
        return "R"

    def rand_fld(self, rng, names, nobj):
        r = rng.random()
        if r < 0.25:
            return "G"
        if r < 0.55:
            return "T %d" % rng.choice(names)
        if r < 0.80:
            return "U %d" % rng.randint(1, max(1, nobj) + 1)
        return "Z %d" % rng.randint(1, max(1, nobj))

    def walk(self, rng, length, cid, names, capture, origin):
        ops, nobj = [], 0
        for _ in range(rng.choice([1, 2, 3, 4])):
            ops.append("%s %d" % (rng.choice("Ss"), rng.choice(names)))
            nobj += 1
        while len(ops) < length:
            r = rng.random()
            k = rng.randint(1, max(1, nobj))
            if r < 0.14 and nobj < 8:
                ops.append("%s %d" % (rng.choice("Ss"), rng.choice(names + [0] if rng.random() < 0.3 else names)))
                nobj += 1
            elif r < 0.28:
                ops.append("%s %d %d" % (rng.choice("Nne"), k, rng.choice(names + [0] if rng.random() < 0.1 else names)))
            elif r < 0.35:
                ops.append("%s %d" % (rng.choice("Rrd"), k))
            elif r < 0.46:
                ops.append("Q " + self.rand_target(rng, names, capture))
            elif r < 0.52:
                ops.append("Z " + self.rand_target(rng, names, capture))
            elif r < 0.61:
                ops.append("I %s %d" % (self.rand_target(rng, names, capture), rng.choice([0, 1, 1, 2, 2, 3, 4, 9])))
            elif r < 0.78:
                ops.append("C %s %s" % (self.rand_target(rng, names, capture), self.rand_cmd(rng, names, nobj)))
            elif r < 0.93:
                ops.append("F %s %s" % (self.rand_target(rng, names, capture), self.rand_fld(rng, names, nobj)))
            elif capture:
                ops.append("K %d %d" % (rng.choice([1, 1, 2]), rng.choice(names)))
            else:
                ops.append("Q n%d" % rng.choice(names))
        ops += ["Q n%d" % n for n in sorted(set(names))]
        if capture:
            ops += ["Q c1", "Q c2"]
        return Case(cid, "", ops, origin)

    EX_ALPHA = ["S 1", "s 2", "S 0", "N 1 2", "n 2 1", "e 3 1", "R 1", "r 2",
                "Q n1", "I n1 2", "Z n2", "C n1 M", "C n1 T 2", "C n2 T 2", "C n1 R", "C n1 K 2", "C n2 K 1",
                "F n1", "F n1 T 2", "F n1 T 1", "F n1 U 2", "F n1 Z 2", "K 1 1", "Q c1", "F c1 T 2"]
    EX_ALPHA4 = ["S 1", "N 1 2", "n 2 1", "R 1", "Q n1", "C n1 M", "C n1 T 2", "C n1 K 2", "C n1 R",
                 "F n1", "F n1 T 2", "F n1 U 2", "F n1 Z 2", "K 1 1", "Q c1", "F c1 T 2"]
    EX_SETUPS = [["S 1", "s 1"], ["S 1", "s 1", "S 2"], ["s 1", "S 1", "s 1"]]

    def field_family(self):
        """field stores to groups of 2..4 members (the former field-group / stored-group findings):
        every field variant, applied to `$1` and to a stored `$1`, after every way of changing the
        group between the storing and the use"""
        cases, k = [], 0
        for g in (2, 3, 4):
            flds = ["G", "T 1", "T 2", "T 0"] + ["U %d" % j for j in range(1, g + 3)] + ["Z %d" % j for j in range(1, g + 2)]
            mods = [[], ["S 1"], ["R 1"], ["R %d" % g], ["C n1 T 2"], ["C n1 R"], ["n 1 1"], ["F n1 T 3"]]
            for f in flds:
                for tgt in ("n1", "c1"):
                    for mod in mods:
                        ops = ["%s 1" % "Ss"[i % 2] for i in range(g)] + ["S 2", "K 1 1"] + mod + \
                              ["F %s %s" % (tgt, f), "Q n1", "Q n2", "Q n3", "Q c1", "Z c1", "C c1 M"]
                        cases.append(Case("f%d" % k, "", ops, "field-family-%dmembers" % g))
                        k += 1
        return cases

    def gen(self, tier, seed):
        rng = random.Random(seed)
        cases = []
        for p in sorted(glob.glob(os.path.join(vlib.VERIF, "corpus", "C15", "*.txt"))):
            lines = [l.strip() for l in open(p) if l.strip() and not l.startswith("#")]
            cases.append(Case("c_" + os.path.basename(p)[:-4], "", lines, "corpus"))
        cases += self.field_family()
        k = 0
        for si, setup in enumerate(self.EX_SETUPS):
            if tier == "quick":
                maxlen = 3 if si == 0 else 2
            else:
                maxlen = 4 if si == 0 else 3
            for n in range(1, maxlen + 1):
                for tup in itertools.product(self.EX_ALPHA4 if n == 4 else self.EX_ALPHA, repeat=n):
                    cases.append(Case("e%d" % k, "", setup + list(tup) + ["Q n1", "Q n2", "Q c1"], "exhaustive-len%d" % n))
                    k += 1
        if tier == "quick":
            walks = [(10, 3000, [1, 2]), (16, 1500, [1, 2, 3, 5]), (40, 400, [1, 2, 3, 4, 5]), (120, 30, [1, 2, 3])]
            cwalks = [(12, 2000, [1, 2]), (30, 400, [1, 2, 5])]
        else:
            walks = [(10, 15000, [1, 2]), (16, 10000, [1, 2, 3, 5]), (40, 3000, [1, 2, 3, 4, 5]), (200, 150, [1, 2, 3])]
            cwalks = [(12, 10000, [1, 2]), (30, 3000, [1, 2, 5]), (200, 100, [1, 2, 3])]
        for length, cnt, names in walks:
            for _ in range(cnt):
                cases.append(self.walk(rng, length, "w%d" % k, names, False, "random-walk-%dnames" % len(names)))
                k += 1
        if CAPTURE:
            for length, cnt, names in cwalks:
                for _ in range(cnt):
                    cases.append(self.walk(rng, length, "k%d" % k, names, True, "capture"))
                    k += 1
        else:
            cases = [c for c in cases if not any(re.search(r"\bc\d", o) or o.startswith("K ") for o in c.ops)]
        return cases

    # ------------------------------------------------------------------ comparison
    def canon_model(self, lines):
        m = [l[2:] for l in lines if l.startswith("m ")]
        s = [l[2:] for l in lines if l.startswith("s ")]
        return m, [], m == s

    def canon_impl(self, lines):
        return [l[2:] for l in lines if l.startswith("m ")], [], [], None

    def nontrivial(self, case, compared):
        # some target denoted a group, or a command / field store reached at least two objects
        return any(re.search(r"log=\d+,\d+", c) for c in compared) or any(c.startswith("grp:") for c in compared)


HP = C15()


def check(res, tier, seed):
    res.cov["rule"] += ("C15: corpus (incl. the former findings and the 255-allocation slot-reuse history); a systematic family of field stores (plain, targetname, failing "
                        "setter, destroying setter) to groups of 2-4 applied to `$1` and to a stored `$1` after 8 ways of changing the group; every sequence of <= 3 "
                        "(thorough: 4, over 16 of the letters) ops from a 25-letter alphabet (spawn/rename/destroy by host and by script, `$n`, `$n.size`, `$n[i]`, `$n mark|targetname|remove|kill`, "
                        "field stores, store and use of `level.c1 = $1`) after a set-up with a group (two more set-ups: <= 2 (3) ops); seeded random walks of 10-120 (200) ops over "
                        "2-5 names (incl. \"\" and never-named objects) and <= 8 objects, with and without stored values: commands and field stores on 0/1/many members, "
                        "kill/zap of an earlier/later/own member during the fan-out, a failing setter at every position, re-naming with the same name, ops on dead objects; "
                        "every observation carries the whole table. Non-trivial = a group value was observed or a command/store reached >= 2 objects. ")
    vlib.history_check(res, HP, tier, seed)
    res.cov["flags"] = {"CAPTURE": CAPTURE}


def replay(path):
    return vlib.history_replay(HP, path)
