"""C14 — runaway and over-deep scripts are stopped and the engine recovers."""
import glob
import itertools
import os
import random

import vlib
from vlib import Case

LEVEL = "proof"
LIMITS = [1, 10, 100]
NESTS = [1, 5, 20]
LOOPS = 6          # loop kinds of the harness: while, for, do-while, goto self, goto cycle, while with body


def hdr(prot, warn, err, dbg, limit, nest, step, x=0):
    """x: bit 0 = Verbose stream attached, bit 1 = Output stream not attached"""
    return "%d %d %d %d %d %d %d %d" % (prot, warn, err, dbg, limit, nest, step, x)


def chain(n, inner="p9"):
    """n nested thread calls around `inner`"""
    return " ".join(["c("] * n + [inner] + [")"] * n)


class C14(vlib.HistoryProp):
    cid = "C14"
    variant = "asan"
    harness_sources = ["harness/C14.cpp"]
    use_lib = True
    coq_dirs = ["Base", "C14"]
    has_monitor = False
    batch = 1500

    def assumptions(self):
        return ["injected clock (hook H1) in its second mode: every reading advances it by <step> ms (step 0 = constant clock); time = clock readings",
                "threads are abstract programs: plain instructions (`local.w = 1`, `do { break } while (0)`), println, wait, error (warning / abort), "
                "`thread label`, endless loops (while/for/do/goto cycles: only their being endless matters), endless mutual recursion; the harness "
                "counts executed instructions (hook H4) and the correspondence compares the count, so the statement -> instruction costs of the model are checked",
                "protection-off (and no-limit, constant-clock) runs never contain an endless loop: the host call would not return (model and specification say `hang`)",
                "a thread interrupted by an abort stays a zombie until Reset (not observed: IsIdle is not part of the observation)",
                "yielding busy loops are outside the quantifier and not expressible in the model: `while(1) { wait 0 }` is never interrupted (every resume in "
                "the same ExecuteRunning loop gets a fresh deadline), the host call does not return even with loop protection",
                "wait literals are printed as %.3f seconds (exact for the values used: checked by the correspondence itself)"]

    # ------------------------------------------------------------------ scenarios
    def scenarios(self, prot, limit, nest, step, rng, m0=1):
        """a dozen histories for one configuration; every one ends with recovery probes"""
        per = max(1, -(-limit // step)) if step else 5             # instructions per deadline
        kind = lambda: rng.randrange(LOOPS)
        sent = "S p1 w%d p2" % rng.choice([3, 6, 12])
        tail = ["T %d" % rng.choice([2, 7, 20]), "X", "S p7 w1 p8", "T 40", "X", "X", "R", "S p5", "X"]
        sc = []
        if prot and limit and step:
            sc.append(("loop", [sent, "S l%d" % kind()] + tail))
            sc.append(("loop-after-print", [sent, "S p3 k%d l%d" % (rng.randrange(0, 4), kind())] + tail))
            sc.append(("loop-nested", [sent, "S p3 c( p4 c( l%d ) p5 ) p6" % kind()] + tail))
            sc.append(("loop-resumed", ["S p3 w2 l%d" % kind(), sent, "T 5", "X", "X"] + tail))
            sc.append(("loop-in-child-after-wait", ["S p3 c( w1 p4 l%d ) p5" % kind(), sent, "T 3", "X"] + tail))
            sc.append(("two-loops", ["S w1 l%d" % kind(), "S w1 l%d" % kind(), sent, "T 4", "X", "X", "X"] + tail))
        # work around the deadline: ends exactly at / just before / after it
        for d in (-2, -1, 0, 1, 3):
            n = max(0, per + d)
            sc.append(("work%+d" % d, [sent, "S p3 k%d p4" % n, "S k%d w1 p4" % max(0, n - 1)] + tail))
        sc.append(("work-long", [sent, "S p3 k%d p4 k%d p6" % (2 * per + 3, per + 1)] + tail))
        sc.append(("work-in-child", [sent, "S p3 c( k%d p4 ) k%d p6" % (per + 2, rng.randrange(0, 3))] + tail))
        sc.append(("recursion", [sent, "S p3 r p4"] + tail))
        sc.append(("chain-at-limit", [sent, "S %s p4" % chain(nest), "S %s p4" % chain(nest + 1)] + tail))
        sc.append(("chain-resumed", ["S w1 %s p4" % chain(nest + 1), sent, "T 3", "X"] + tail))
        sc.append(("fault-abort", [sent, "S p3 f p4 c( f p6 a ) p9", "S a"] + tail))
        return sc

    # ------------------------------------------------------------------ random programs
    def prog(self, rng, loops_ok, depth, mark):
        n = rng.choice([1, 2, 3, 4])
        out = []
        for _ in range(n):
            r = rng.random()
            if r < 0.25:
                out.append("k%d" % rng.choice([0, 1, 2, 3, 5, 8, 13]))
            elif r < 0.50:
                mark[0] += 1
                out.append("p%d" % mark[0])
            elif r < 0.62:
                out.append("w%d" % rng.choice([0, 1, 2, 5]))
            elif r < 0.70:
                out.append("f")
            elif r < 0.73:
                out.append("a")
            elif r < 0.90 and depth < 4:
                out.append("c( %s )" % self.prog(rng, loops_ok, depth + 1, mark))
            elif r < 0.94:
                out.append("r")
            elif loops_ok:
                out.append("l%d" % rng.randrange(LOOPS))
                break
        return " ".join(out) if out else "k0"

    def walk(self, rng, cid):
        prot = rng.random() < 0.6
        limit = rng.choice([0, 1, 2, 3, 5, 10, 10, 30])
        step = rng.choice([0, 1, 1, 1, 2, 3, 7])
        nest = rng.choice([0, 1, 2, 3, 5])
        loops_ok = bool(prot and limit and step)
        mark = [0]
        ops = []
        for _ in range(rng.randrange(3, 9)):
            r = rng.random()
            if r < 0.55:
                ops.append("S " + self.prog(rng, loops_ok, 0, mark))
            elif r < 0.70:
                ops.append("T %d" % rng.choice([1, 2, 5, 11]))
            elif r < 0.95:
                ops.append("X")
            else:
                ops.append("R")
        ops += ["T 9", "X", "S p99", "X"]
        h = hdr(prot, rng.random() < 0.5, rng.random() < 0.5, rng.random() < 0.5, limit, nest, step, rng.choice([0, 0, 1, 2, 3]))
        return Case(cid, h, ops, "random-%s" % ("prot" if prot else "noprot"))

    def gen(self, tier, seed):
        rng = random.Random(seed)
        cases = []
        for p in sorted(glob.glob(os.path.join(vlib.VERIF, "corpus", "C14", "*.txt"))):
            lines = [l.strip() for l in open(p) if l.strip() and not l.startswith("#")]
            if lines and lines[0].startswith("H "):
                cases.append(Case("c_" + os.path.basename(p)[:-4], lines[0][2:], lines[1:], "corpus"))
        k = 0
        # the whole configuration grid of the quantifier x the scenario list
        steps = [1] if tier == "quick" else [1, 3]
        for prot, warn, err, dbg, limit, nest, step in itertools.product((1, 0), (1, 0), (1, 0), (1, 0), LIMITS, NESTS, steps):
            for name, ops in self.scenarios(prot, limit, nest, step, rng):
                cases.append(Case("g%d" % k, hdr(prot, warn, err, dbg, limit, nest, step), ops,
                                  "grid-%s-%s" % ("prot" if prot else "noprot", name)))
                k += 1
        # the two remaining output levels: Verbose attached, Output detached - every subset of the five streams
        xlim, xnest = ([10], [5]) if tier == "quick" else (LIMITS, NESTS)
        for prot, warn, err, dbg, x, limit, nest in itertools.product((1, 0), (1, 0), (1, 0), (1, 0), (1, 2, 3), xlim, xnest):
            for name, ops in self.scenarios(prot, limit, nest, 1, rng):
                cases.append(Case("v%d" % k, hdr(prot, warn, err, dbg, limit, nest, 1, x), ops,
                                  "streams-%s-%s" % ("prot" if prot else "noprot", name)))
                k += 1
        # other clock steps, no limit, constant clock (streams all attached / all absent)
        for prot, st, limit, nest, step in itertools.product((1, 0), (1, 0), (0, 1, 10, 100), (1, 5), (0, 2, 7, 30)):
            for name, ops in self.scenarios(prot, limit, nest, step, rng):
                cases.append(Case("h%d" % k, hdr(prot, st, st, st, limit, nest, step), ops,
                                  "steps-%s-%s" % ("prot" if prot else "noprot", name)))
                k += 1
        for _ in range(1500 if tier == "quick" else 30000):
            cases.append(self.walk(rng, "w%d" % k))
            k += 1
        return cases

    def canon_model(self, lines):
        m = [l[2:] for l in lines if l.startswith("m ")]
        s = [l[2:] for l in lines if l.startswith("s ")]
        return m, [], m == s

    def canon_impl(self, lines):
        m = [l[2:] for l in lines if l.startswith("m ")]
        direct = []
        for i, l in enumerate(m):
            w = l.split()
            if w[0] not in ("returned", "overflow", "maxdepth", "abort"):
                direct.append("op %d: host call ended with %s" % (i, w[0]))
            if "curnull=1" not in w or "depth0=1" not in w:
                direct.append("op %d: engine bookkeeping not restored after the call: %s" % (i, l))
        return m, [], direct, None

    def nontrivial(self, case, compared):
        # an interruption, later a host call that returned and printed (the engine recovered)
        hit = False
        for c in compared:
            w = c.split()
            if w[0] in ("overflow", "maxdepth", "abort"):
                hit = True
            elif hit and w[0] == "returned" and "out=-" not in w:
                return True
        return False


HP = C14()


def check(res, tier, seed):
    res.cov["rule"] += ("C14: corpus; EVERY configuration {protection on,off} x {Warn,Error,Debug attached or not} x limit {1,10,100} ms x nesting limit {1,5,20} "
                        "(and every subset of all FIVE output levels - Verbose attached, Output detached - at limit 10 / nesting 5; thorough: the whole grid) "
                        "(clock step 1; thorough also 3) x ~16 scenarios (endless loop of 6 kinds at top level / after prints / nested / in a resumed thread / in a "
                        "child after its wait / two at once [protection on only], work ending 2,1,0 before and 1,3 after the deadline, long work, work in a child, "
                        "endless mutual recursion, call chains exactly at and one over the nesting limit (also resumed), script warning and abort), each followed by "
                        "a waiting sentinel, frames, a new host call and Reset; the same scenarios for clock steps {0,2,7,30} and limits {0,1,10,100}; seeded random "
                        "histories of random programs (depth <= 4) over random configurations (limit 0..30, nest 0..5, step 0..7). non-trivial = an interruption "
                        "followed by a host call that returned with output. ")
    vlib.history_check(res, HP, tier, seed)


def replay(path):
    return vlib.history_replay(HP, path)
