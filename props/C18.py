"""C18 — containers and strings behave like their abstract models.
Orchestrates the four units: C18con (Container), C18set (set/map), C18arr (arrayset), C18str (str)."""
import importlib
import json

LEVEL = "proof"
UNITS = ["C18con", "C18set", "C18arr", "C18str"]


def check(res, tier, seed):
    res.cov["rule"] += ("C18 = four units, each with its own model, specification, refinement theorem and differential run: "
                        "C18con (con::Container vs. a sequence), C18set (con::set / con::map vs. a finite map), "
                        "C18arr (con::arrayset vs. a list of keys), C18str (str vs. byte strings with explicit sharing). ")
    for u in UNITS:
        importlib.import_module(u).check(res, tier, seed)


def replay(path):
    rec = json.load(open(path))
    u = rec.get("unit")
    if u not in UNITS:
        print("replay names a broken obligation:", rec.get("broken"))
        return 1
    return importlib.import_module(u).replay(path)
