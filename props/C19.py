"""C19 — the pool allocator never hands out live memory and counts exactly."""
import glob
import os
import random

import vlib
from vlib import Case

LEVEL = "proof"


class C19(vlib.HistoryProp):
    cid = "C19"
    variant = "asan"
    harness_sources = ["harness/C19.cpp"]
    use_lib = False
    repo_deps = [os.path.join(vlib.REPO, "include/morfuse/Common/MEM/BlockAlloc.h"),
                 os.path.join(vlib.REPO, "include/morfuse/Common/Linklist.h"),
                 os.path.join(vlib.REPO, "include/morfuse/Global.h")]
    coq_dirs = ["Base", "C19"]

    def assumptions(self):
        return ["free() is only called on a live object (double free is undefined in the C++ API); the model skips a delete of a dead handle",
                "destructors delete only other live objects that own nothing themselves and never allocate (stated in C19/Model.v)",
                "the two LinkedList<block_t*> lists are modelled as Coq lists (AddFirst/Remove/Root/SetRoot)",
                "addresses are compared as identities: the harness never returns block memory to malloc"]

    # ---- generation -----------------------------------------------------------------
    def enum(self, b, maxlen, out, limit):
        """all histories up to maxlen: A | A[k] (k = most recent live leaf) | F h (h live) | X"""
        def rec(ops, live, leaf, n):
            if ops:
                out.append(Case("e%d_%d" % (b, len(out)), b, ops, "exhaustive-b%d" % b))
            if len(ops) >= maxlen or len(out) >= limit:
                return
            # alloc without kids
            rec(ops + ["A"], live + [n], leaf + [n], n + 1)
            cand = [h for h in live if h in leaf]
            if cand:
                k = cand[-1]
                rec(ops + ["A %d" % k], live + [n], leaf, n + 1)
            for h in live:
                dead = {h}
                # a parent takes its kid along (the generator tracks it like the model)
                rec(ops + ["F %d" % h], [x for x in live if x not in dead], leaf, n)
            if live:
                rec(ops + ["X"], [], leaf, n)
        rec([], [], [], 0)

    def walk(self, rng, b, length, cid, origin):
        ops, live, leaf, n = [], [], set(), 0
        p_alloc = 0.7
        for i in range(length):
            if i % max(5, length // 12) == 0:
                p_alloc = rng.choice([0.85, 0.6, 0.5, 0.3, 0.15])
            r = rng.random()
            if r < 0.004 and live:
                ops.append("X")
                live = []
            elif r < p_alloc or not live:
                ks = []
                if rng.random() < 0.25:
                    cand = [h for h in live if h in leaf]
                    if cand:
                        ks = rng.sample(cand, min(len(cand), rng.choice([1, 1, 2, 3])))
                        if rng.random() < 0.2:
                            ks.append(rng.randrange(0, n + 1))    # dead / not a leaf / itself
                ops.append("A " + " ".join(map(str, ks)) if ks else "A")
                live.append(n)
                if not ks:
                    leaf.add(n)
                n += 1
            else:
                if rng.random() < 0.05:
                    h = rng.randrange(0, n)       # maybe dead: skip path
                else:
                    # bias: free neighbours to empty whole blocks, or random
                    h = rng.choice(live[-b:] if rng.random() < 0.4 else live[:b] if rng.random() < 0.3 else live)
                ops.append("F %d" % h)
                if h in live:
                    live.remove(h)            # kids die in model & impl alike; only a bias
        return Case(cid, b, ops, origin)

    def gen(self, tier, seed):
        rng = random.Random(seed)
        cases = []
        for p in sorted(glob.glob(os.path.join(vlib.VERIF, "corpus", "C19", "*.txt"))):
            lines = [l.strip() for l in open(p) if l.strip() and not l.startswith("#")]
            cases.append(Case("c_" + os.path.basename(p)[:-4], lines[0], lines[1:], "corpus"))
        ex = []
        if tier == "quick":
            self.enum(2, 6, ex, 40000)
            n2 = len(ex)
            self.enum(3, 5, ex, n2 + 15000)
            walks = [(2, 120, 60), (3, 150, 60), (4, 150, 30), (256, 900, 6), (2, 3000, 1), (3, 3000, 1), (256, 12000, 1)]
        else:
            self.enum(2, 8, ex, 700000)
            n2 = len(ex)
            self.enum(3, 7, ex, n2 + 300000)
            walks = [(2, 200, 1500), (3, 200, 1500), (4, 300, 500), (256, 2000, 60), (2, 100000, 1), (3, 100000, 1), (256, 100000, 2)]
        cases += ex
        k = 0
        for b, ln, cnt in walks:
            for _ in range(cnt):
                cases.append(self.walk(rng, b, ln, "w%d" % k, "random-walk-b%d-len%d" % (b, ln)))
                k += 1
        return cases

    # ---- canonicalisation --------------------------------------------------------------
    @staticmethod
    def _sorted_log(s):
        return ",".join(sorted(s.split(","), key=lambda x: int(x))) if s != "-" else "-"

    def canon_model(self, lines):
        cmpd, det, ok = [], [], True
        ids = {}
        for l in lines:
            w = l.split()
            if w[0] == "alloc":
                key = (w[2], w[3])
                pid = ids.setdefault(key, len(ids))
                cmpd.append(("alloc", w[1], w[4], w[5]))
                det.append(("addr", pid, w[2], w[3]))
            elif w[0] == "free":
                cmpd.append(("free", w[1], self._sorted_log(w[2]), w[3], w[4]))
                det.append(("log", w[2]))
            elif w[0] == "freeall":
                cmpd.append(("freeall", self._sorted_log(w[1]), w[2], w[3]))
                det.append(("log", w[1]))
            elif w[0] == "verdict":
                ok = (l == "verdict ok")
            else:
                cmpd.append(tuple(w))
        return cmpd, det, ok

    def canon_impl(self, lines):
        cmpd, det, direct, mon = [], [], [], []
        for l in lines:
            w = l.split()
            if w[0] == "alloc":
                cmpd.append(("alloc", w[1], w[3], w[4]))
                det.append(("addr", int(w[2]), w[5], w[6]))
                if w[7] != "ovl=0":
                    direct.append("Alloc for handle %s returned memory overlapping a live object" % w[1])
                if w[8] != "al=1":
                    direct.append("Alloc for handle %s returned a misaligned address" % w[1])
                mon.append("alloc %s 0 %s %s %s" % (w[1], w[2], w[3], w[4]))
            elif w[0] == "free":
                cmpd.append(("free", w[1], self._sorted_log(w[2]), w[3], w[4]))
                det.append(("log", w[2]))
                mon.append(l)
            elif w[0] == "freeall":
                cmpd.append(("freeall", self._sorted_log(w[1]), w[2], w[3]))
                det.append(("log", w[1]))
                mon.append(l)
            elif w[0] == "badfree":
                direct.append("the allocator released a memory block it did not own (or twice)")
            else:
                cmpd.append(tuple(w))
                mon.append(l)
        return cmpd, det, direct, mon

    def nontrivial(self, case, compared):
        # a history is non-trivial when it both allocates and frees and reaches >= 2 blocks or a free-all
        kinds = {c[0] for c in compared}
        nbmax = max([int(c[-1]) for c in compared] or [0])
        return "alloc" in kinds and ("free" in kinds or "freeall" in kinds) and (nbmax >= 2 or "freeall" in kinds)


HP = C19()


def check(res, tier, seed):
    res.cov["rule"] = ("corpus first; every history up to length 6/5 (quick) or 8/7 (thorough) for block size 2/3 over "
                       "{alloc, alloc-with-kid, free(live h), free-all}; seeded random walks with phases of growth and shrinking "
                       "for block sizes 2,3,4,256; distinct = distinct (block size, compared trace); non-trivial = allocates and frees "
                       "and reaches two blocks or a free-all")
    vlib.history_check(res, HP, tier, seed)


def replay(path):
    return vlib.history_replay(HP, path)
