"""C03_lang - the core script language as python data: AST (nested tuples), the prefix text form
read by ocaml/C03_driver.ml, the printer to concrete script syntax in random layouts, the
static rules the compiler imposes (emit depth inside a switch), AST transformations that keep
the meaning (compound -> expanded assignment, literal -> computed operand) and a shrinker.

AST
  expr : ('i', n) ('s', text) ('f', spelling, shown, nz) ('nil',) ('var', sc, id) ('x', a, i) ('neg', e) ('not', e) ('cpl', e)
         ('b', op, a, b) ('and', a, b) ('or', a, b) ('call', f, [args]) ('size', e) ('carr', [es])
  lval : ('lv', sc, id, [index exprs])
  stmt : ('nop',) ('set', lv, e) ('cset', op, lv, e) ('inc', lv) ('dec', lv) ('if', c, s) ('ife', c, s, s)
         ('while', c, s) ('for', init, c, inc, body) ('do', body, c) ('brk',) ('cont',)
         ('sw', e, [item]) item: ('ci', n) ('cs', text) ('cd',) ('st', stmt)
         ('blk', [stmt]) ('goto', f[, args]) ('try', body, [(f, [param], [stmt])]) ('throw', f, [args])
         ('pr', [args]) ('th', f, [args]) ('end0',) ('end1', e)
  item : ('lab', f, [param]) ('st', stmt)        param: (sc, id)
  scopes: 'l' local 'g' group 'v' level 'm' game 'p' parm
"""
import random

SCOPE_WORD = {"l": "local", "g": "group", "v": "level", "m": "game", "p": "parm"}
OPS = {"add": "+", "sub": "-", "mul": "*", "div": "/", "mod": "%", "band": "&", "bor": "|", "bxor": "^",
       "shl": "<<", "shr": ">>", "eq": "==", "ne": "!=", "lt": "<", "le": "<=", "gt": ">", "ge": ">="}
# binding strength as in yyParser.yy (all left associative)
PREC = {"or": 1, "and": 2, "bor": 3, "bxor": 4, "band": 5, "eq": 6, "ne": 6, "lt": 7, "le": 7, "gt": 7, "ge": 7,
        "shl": 8, "shr": 8, "add": 9, "sub": 9, "mul": 10, "div": 10, "mod": 10}
KEYWORDS = {"end", "if", "else", "while", "for", "do", "game", "group", "level", "local", "parm", "owner", "self",
            "try", "catch", "switch", "case", "break", "continue", "makearray", "makeArray", "endarray", "endArray",
            "NULL", "NIL", "size", "ifequal", "ifstrequal", "ifnotequal", "ifstrnotequal", "ifless", "ifgreater",
            "iflessequal", "ifgreaterequal", "default"}


def label_name(f):
    if f == 0:
        return "main"
    if f < 50:
        return "f%d" % f
    if f < 100:
        return "g%d" % f
    return "x%d" % f


# ------------------------------------------------------------------------- prefix text form

def hexs(t):
    b = t.encode("latin-1")
    return b.hex() if b else "-"


def ser_expr(e, o):
    k = e[0]
    if k == "i":
        o += ["i", str(e[1])]
    elif k == "s":
        o += ["s", hexs(e[1])]
    elif k == "f":
        o += ["f", hexs(e[1]), hexs(e[2]), "1" if e[3] else "0"]
    elif k == "nil":
        o.append("nil")
    elif k == "var":
        o += ["var", e[1], str(e[2])]
    elif k == "x":
        o.append("x"); ser_expr(e[1], o); ser_expr(e[2], o)
    elif k in ("neg", "not", "cpl", "size"):
        o.append(k); ser_expr(e[1], o)
    elif k == "b":
        o += ["b", e[1]]; ser_expr(e[2], o); ser_expr(e[3], o)
    elif k in ("and", "or"):
        o.append(k); ser_expr(e[1], o); ser_expr(e[2], o)
    elif k == "call":
        o += ["call", str(e[1]), str(len(e[2]))]
        for a in e[2]:
            ser_expr(a, o)
    elif k == "carr":
        o += ["carr", str(len(e[1]))]
        for a in e[1]:
            ser_expr(a, o)
    else:
        raise ValueError("expr " + repr(e))


def ser_lval(l, o):
    o += ["lv", l[1], str(l[2]), str(len(l[3]))]
    for i in l[3]:
        ser_expr(i, o)


def ser_stmt(s, o):
    k = s[0]
    if k in ("nop", "brk", "cont", "end0"):
        o.append(k)
    elif k == "set":
        o.append("set"); ser_lval(s[1], o); ser_expr(s[2], o)
    elif k == "cset":
        o += ["cset", s[1]]; ser_lval(s[2], o); ser_expr(s[3], o)
    elif k in ("inc", "dec"):
        o.append(k); ser_lval(s[1], o)
    elif k == "if":
        o.append("if"); ser_expr(s[1], o); ser_stmt(s[2], o)
    elif k == "ife":
        o.append("ife"); ser_expr(s[1], o); ser_stmt(s[2], o); ser_stmt(s[3], o)
    elif k == "while":
        o.append("while"); ser_expr(s[1], o); ser_stmt(s[2], o)
    elif k == "for":
        o.append("for"); ser_stmt(s[1], o); ser_expr(s[2], o); ser_stmt(s[3], o); ser_stmt(s[4], o)
    elif k == "do":
        o.append("do"); ser_stmt(s[1], o); ser_expr(s[2], o)
    elif k == "sw":
        o.append("sw"); ser_expr(s[1], o); o.append(str(len(s[2])))
        for it in s[2]:
            if it[0] == "ci":
                o += ["ci", str(it[1])]
            elif it[0] == "cs":
                o += ["cs", hexs(it[1])]
            elif it[0] == "cd":
                o.append("cd")
            else:
                o.append("st"); ser_stmt(it[1], o)
    elif k == "blk":
        o += ["blk", str(len(s[1]))]
        for c in s[1]:
            ser_stmt(c, o)
    elif k == "goto":
        ga = s[2] if len(s) > 2 else []
        o += ["goto", str(s[1]), str(len(ga))]
        for a in ga:
            ser_expr(a, o)
    elif k == "try":
        o.append("try"); ser_stmt(s[1], o); o.append(str(len(s[2])))
        for f, ps, body in s[2]:
            o += [str(f), str(len(ps))]
            for sc, x in ps:
                o += [sc, str(x)]
            o.append(str(len(body)))
            for c in body:
                ser_stmt(c, o)
    elif k in ("throw", "th"):
        o += [k, str(s[1]), str(len(s[2]))]
        for a in s[2]:
            ser_expr(a, o)
    elif k == "pr":
        o += ["pr", str(len(s[1]))]
        for a in s[1]:
            ser_expr(a, o)
    elif k == "end1":
        o.append("end1"); ser_expr(s[1], o)
    else:
        raise ValueError("stmt " + repr(s))


def ser_program(p):
    o = ["prog", str(len(p))]
    for it in p:
        if it[0] == "lab":
            o += ["lab", str(it[1]), str(len(it[2]))]
            for sc, x in it[2]:
                o += [sc, str(x)]
        else:
            o.append("st"); ser_stmt(it[1], o)
    return " ".join(o)


# ---------------------------------------------------------------------------- the printer

class Style:
    """one concrete layout"""

    def __init__(self, rng, plain=False):
        self.rng = rng
        if plain:
            self.indent, self.brace_nl, self.opsp, self.semi, self.comments = "  ", False, 1, 0.0, 0.0
            self.parens, self.blank, self.crlf, self.bare_str, self.brace_simple = 0.0, 0.0, False, 0.0, 1.0
            self.join_semi, self.nl_in_parens, self.cont, self.final_nl, self.bare_cond = 0.0, 0.0, 0.0, True, 0.0
            return
        self.indent = rng.choice(["", " ", "  ", "    ", "\t"])
        self.brace_nl = rng.random() < 0.35
        self.opsp = rng.choice([0, 1, 1, 1, 2])
        self.semi = rng.choice([0.0, 0.0, 0.3, 1.0])
        self.comments = rng.choice([0.0, 0.0, 0.15, 0.4])
        self.parens = rng.choice([0.0, 0.0, 0.2, 0.6])
        self.blank = rng.choice([0.0, 0.1, 0.3])
        self.crlf = rng.random() < 0.1
        self.bare_str = rng.choice([0.0, 0.0, 0.5])
        self.brace_simple = rng.choice([0.0, 0.5, 1.0])
        self.join_semi = rng.choice([0.0, 0.0, 0.3])
        self.nl_in_parens = rng.choice([0.0, 0.0, 0.1])
        self.cont = rng.choice([0.0, 0.0, 0.05])
        self.final_nl = rng.random() < 0.8
        self.bare_cond = rng.choice([0.0, 0.0, 0.3])


COMMENT_WORDS = ["note", "x = 1", "if (a) { b }", "end", "\"quoted\"", "local.v1++", "case 1:", "a /b", "break;", "}"]
SIMPLE = ("nop", "set", "cset", "inc", "dec", "brk", "cont", "goto", "throw", "pr", "th", "end0", "end1")


class Printer:
    def __init__(self, style):
        self.st = style
        self.rng = style.rng

    # ---- expressions
    def sp(self):
        return " " * self.st.opsp

    def comment(self):
        if self.st.comments and self.rng.random() < self.st.comments * 0.3:
            return "/* %s */ " % self.rng.choice(COMMENT_WORDS).replace("*/", "")
        return ""

    def string(self, t, allow_bare):
        if allow_bare and self.st.bare_str and t.isalpha() and t.islower() and 3 <= len(t) <= 8 and t not in KEYWORDS \
                and self.rng.random() < self.st.bare_str:
            return t
        o = []
        for ch in t:
            if ch == "\"":
                o.append("\\\"")
            elif ch == "\\":
                o.append("\\\\")
            elif ch == "\n":
                o.append("\\n")
            elif ch == "\t":
                o.append("\\t" if self.rng.random() < 0.5 else "\t")
            else:
                o.append(ch)
        return "\"" + "".join(o) + "\""

    def var(self, sc, x):
        return "%s.v%d" % (SCOPE_WORD[sc], x)

    def is_base(self, e):
        return e[0] in ("var", "x")

    def prim(self, e, bare_ok=False):
        """e as a prim_expr: a term that can stand as a command argument / unary operand"""
        k = e[0]
        if k == "i":
            return str(e[1])
        if k == "s":
            return self.string(e[1], bare_ok)
        if k == "f":
            return e[1]
        if k == "nil":
            return "NIL"
        if k == "var":
            return self.var(e[1], e[2])
        if k == "x":
            base = self.prim(e[1]) if self.is_base(e[1]) else "(" + self.expr(e[1]) + ")"
            return "%s[%s]" % (base, self.expr(e[2], 0, inner=True))
        if k == "size":
            base = self.prim(e[1]) if self.is_base(e[1]) else "(" + self.expr(e[1]) + ")"
            return base + ".size"
        if k == "not":
            return "!" + self.prim(e[1])
        if k == "cpl":
            return "~" + self.prim(e[1])
        return "(" + self.expr(e, 0, inner=True) + ")"

    def expr(self, e, need=0, inner=False, top=False):
        """e as an expr; need = weakest binding strength allowed without parentheses;
        inner = directly inside ( ) or [ ]; top = the whole right-hand side of an assignment"""
        k = e[0]
        if k in ("b", "and", "or"):
            op = e[1] if k == "b" else k
            a, b = (e[2], e[3]) if k == "b" else (e[1], e[2])
            p = PREC[op]
            sym = OPS[op] if k == "b" else ("&&" if k == "and" else "||")
            left = self.expr(a, p)
            right = self.expr(b, p + 1)
            if op == "sub":
                mid = " - "
            else:
                mid = self.sp() + sym + self.sp()
            if inner and self.st.nl_in_parens and self.rng.random() < self.st.nl_in_parens:
                # (binary minus keeps its blanks: " -" followed by a newline would be a unary minus)
                mid = (mid if op == "sub" else mid.rstrip(" ")) + ("\r\n" if self.st.crlf else "\n") + " "
            elif self.st.cont and self.rng.random() < self.st.cont and op != "sub":
                mid = mid + "\\\n "
            cm = self.comment()
            if cm and not mid.endswith((" ", "\n")):
                cm = " " + cm        # `*` or `/` directly before a comment would open/close one
            s = left + mid + cm + right
            if p < need or (self.st.parens and self.rng.random() < self.st.parens * 0.3):
                return "(" + s + ")"
            return s
        if k == "neg":
            s = " -" + self.prim(e[1])
            if top:
                return s
            return "(" + s + ")"
        if k == "call":
            s = "waitthread " + " ".join([label_name(e[1])] + [self.prim(a) for a in e[2]])
            if top:
                return s
            return "(" + s + ")"
        if k == "carr":
            s = "::".join(self.prim(a) for a in e[1])
            if top:
                return s
            return "(" + s + ")"
        s = self.prim(e)
        if self.st.parens and self.rng.random() < self.st.parens * 0.2 and k in ("i", "var", "s", "f"):
            return "(" + s + ")"
        return s

    def lval(self, l):
        s = self.var(l[1], l[2])
        for i in l[3]:
            s += "[%s]" % self.expr(i, 0, inner=True)
        return s

    def cond(self, c):
        if self.st.bare_cond and c[0] == "var" and self.rng.random() < self.st.bare_cond:
            return " " + self.prim(c) + " "
        pad = " " if self.rng.random() < 0.3 else ""
        return pad + "(" + pad + self.expr(c, 0, inner=True) + pad + ")"

    # ---- statements: return a list of lines
    def simple(self, s):
        k = s[0]
        if k == "nop":
            return ";"
        if k == "set":
            return self.lval(s[1]) + self.sp() + "=" + (self.sp() or "") + self.expr(s[2], 0, top=True)
        if k == "cset":
            return self.lval(s[2]) + " " + OPS[s[1]] + "= " + self.expr(s[3], 0, top=True)
        if k == "inc":
            return self.lval(s[1]) + self.rng.choice(["++", " ++"])
        if k == "dec":
            return self.lval(s[1]) + self.rng.choice(["--", " --"])
        if k == "brk":
            return "break"
        if k == "cont":
            return "continue"
        if k == "goto":
            return " ".join(["goto", label_name(s[1])] + [self.prim(a, True) for a in (s[2] if len(s) > 2 else [])])
        if k == "throw":
            return " ".join(["throw", label_name(s[1])] + [self.prim(a, True) for a in s[2]])
        if k == "pr":
            return " ".join(["println"] + [self.prim(a, True) for a in s[1]])
        if k == "th":
            return " ".join(["thread", label_name(s[1])] + [self.prim(a, True) for a in s[2]])
        if k == "end0":
            return "end"
        if k == "end1":
            return "end " + self.prim(s[1])
        raise ValueError(k)

    def body(self, s, ind, force_brace=False):
        """a statement in the position after if/else/while/for/do: (text following on the same line, more lines)"""
        if s[0] in SIMPLE and not force_brace and self.rng.random() >= self.st.brace_simple:
            t = self.simple(s)
            if self.rng.random() < 0.5:
                return " " + t, []
            return "", [ind + self.st.indent + t]
        inner = s[1] if s[0] == "blk" else [s]
        lines = self.block_lines(inner, ind + self.st.indent)
        if not lines and self.rng.random() < 0.5:
            return " { }", []
        if self.st.brace_nl:
            return "", [ind + "{"] + lines + [ind + "}"]
        return " {", lines + [ind + "}"]

    def stmt(self, s, ind):
        k = s[0]
        if k in SIMPLE:
            t = self.simple(s)
            if k != "nop" and self.rng.random() < self.st.semi:
                t += ";"
            return [ind + t]
        if k == "blk":
            return [ind + "{"] + self.block_lines(s[1], ind + self.st.indent) + [ind + "}"]
        if k == "if":
            h, more = self.body(s[2], ind)
            return [ind + "if" + self.cond(s[1]) + h] + more
        if k == "ife":
            # the then-branch is braced when it could swallow the else
            h, more = self.body(s[2], ind, force_brace=s[2][0] not in SIMPLE)
            lines = [ind + "if" + self.cond(s[1]) + h] + more
            h2, more2 = self.body(s[3], ind, force_brace=False)
            if lines[-1].strip() == "}" and self.rng.random() < 0.5:
                lines[-1] = lines[-1] + " else" + h2
            elif len(lines) == 1 and h and not h.startswith(" {") and self.rng.random() < 0.5:
                lines[-1] = lines[-1] + self.rng.choice([" else", "; else"]) + h2
            else:
                lines.append(ind + "else" + h2)
            return lines + more2
        if k == "while":
            h, more = self.body(s[2], ind)
            return [ind + "while" + self.cond(s[1]) + h] + more
        if k == "for":
            init = "" if s[1][0] == "nop" else self.simple(s[1])
            inc = self.simple(s[3])
            a = self.rng.choice(["", " "])
            head = "for%s(%s%s;%s%s;%s%s%s)" % (a, a, init, a, self.expr(s[2], 0), a, inc, a)
            h, more = self.body(s[4], ind)
            return [ind + head + h] + more
        if k == "do":
            h, more = self.body(s[1], ind, force_brace=True)
            lines = [ind + "do" + h] + more
            lines[-1] = lines[-1] + " while" + self.cond(s[2])
            return lines
        if k == "sw":
            merged = []
            after_label = False
            for it in s[2]:
                if it[0] in ("ci", "cs", "cd"):
                    if it[0] == "ci":
                        merged.append(ind + "case %s:" % (str(it[1]) if it[1] >= 0 else "-" + str(-it[1])))
                    elif it[0] == "cs":
                        merged.append(ind + "case %s:" % self.string(it[1], True))
                    else:
                        merged.append(ind + "default:")
                    after_label = True
                else:
                    new = self.stmt(it[1], ind + self.st.indent)
                    # a simple statement may share the line of its case label
                    if after_label and it[1][0] in SIMPLE and len(new) == 1 and self.rng.random() < 0.3:
                        merged[-1] = merged[-1] + " " + new[0].strip()
                    else:
                        merged += new
                    after_label = False
            if self.st.brace_nl:
                return [ind + "switch" + self.cond(s[1]), ind + "{"] + merged + [ind + "}"]
            return [ind + "switch" + self.cond(s[1]) + " {"] + merged + [ind + "}"]
        if k == "try":
            lines = [ind + "try {"] + self.block_lines(s[1][1] if s[1][0] == "blk" else [s[1]], ind + self.st.indent)
            lines.append(ind + "} catch {")
            for f, ps, bodyl in s[2]:
                lines.append(ind + " ".join([label_name(f)] + [self.var(sc, x) for sc, x in ps]) + ":")
                lines += self.block_lines(bodyl, ind + self.st.indent)
            lines.append(ind + "}")
            return lines
        raise ValueError(k)

    def block_lines(self, stmts, ind):
        lines = []
        prev_simple = False
        for s in stmts:
            new = self.stmt(s, ind)
            simple = s[0] in SIMPLE and s[0] != "nop"
            if lines and len(new) == 1 and simple and prev_simple and self.st.join_semi \
                    and self.rng.random() < self.st.join_semi and lines[-1].strip() \
                    and "//" not in lines[-1] and "*/" not in lines[-1] and "/*" not in lines[-1]:
                lines[-1] = lines[-1].rstrip(";") + "; " + new[0].strip()
            else:
                lines += new
            n0 = len(lines)
            self.decorate(lines, ind)
            prev_simple = simple and len(lines) == n0 and "//" not in lines[-1]
        return lines

    def decorate(self, lines, ind):
        if self.st.blank and self.rng.random() < self.st.blank:
            lines.append("")
        if self.st.comments and self.rng.random() < self.st.comments:
            if self.rng.random() < 0.5:
                lines.append(ind + "// " + self.rng.choice(COMMENT_WORDS))
            else:
                lines.append(ind + "/* " + self.rng.choice(COMMENT_WORDS).replace("*/", "") + (" */" if self.rng.random() < 0.7 else "\n   more */"))
        if self.st.comments and lines and self.rng.random() < self.st.comments * 0.5 and "\\" not in lines[-1][-2:]:
            lines[-1] = lines[-1] + " // " + self.rng.choice(COMMENT_WORDS)

    def program(self, p):
        lines = []
        if self.st.blank and self.rng.random() < 0.3:
            lines.append("")
        if self.st.comments and self.rng.random() < 0.5:
            lines.append("// " + self.rng.choice(COMMENT_WORDS))
        ind = self.st.indent if self.rng.random() < 0.5 else ""
        prev_simple = False
        for it in p:
            if it[0] == "lab":
                lines.append(" ".join([label_name(it[1])] + [self.var(sc, x) for sc, x in it[2]]) + ":")
                self.decorate(lines, "")
                prev_simple = False
            else:
                new = self.stmt(it[1], ind)
                s = it[1]
                simple = s[0] in SIMPLE and s[0] != "nop"
                if lines and len(new) == 1 and simple and prev_simple and self.st.join_semi \
                        and self.rng.random() < self.st.join_semi and lines[-1].strip() \
                        and "//" not in lines[-1] and "*/" not in lines[-1] and "/*" not in lines[-1]:
                    lines[-1] = lines[-1].rstrip(";") + "; " + new[0].strip()
                else:
                    lines += new
                n0 = len(lines)
                self.decorate(lines, ind)
                prev_simple = simple and len(lines) == n0 and "//" not in lines[-1]
        nl = "\r\n" if self.st.crlf else "\n"
        text = nl.join(lines)
        if self.st.final_nl:
            text += nl
        return text


def print_program(p, rng=None, plain=False):
    st = Style(rng or random.Random(0), plain=plain)
    return Printer(st).program(p)


# ------------------------------------------------------------- static rule: emit depth in a switch

def need_expr(e):
    k = e[0]
    if k in ("i", "s", "f", "nil", "var"):
        return 1
    if k == "x":
        return 1 + max(need_expr(e[1]), need_expr(e[2]))
    if k in ("neg", "not", "cpl", "size"):
        return 1 + need_expr(e[1])
    if k == "b":
        return 1 + max(need_expr(e[2]), need_expr(e[3]))
    if k in ("and", "or"):
        return 1 + max(need_expr(e[1]), need_expr(e[2]))
    if k == "call":
        return 1 + max([1] + [need_expr(a) for a in e[2]])
    if k == "carr":
        return 1 + max(need_expr(a) for a in e[1])
    raise ValueError(k)


def need_lval_ref(l):
    return max([1] + [need_expr(i) for i in l[3]])


def lval_as_expr(l):
    e = ("var", l[1], l[2])
    for i in l[3]:
        e = ("x", e, i)
    return e


def need_stmt(s, braced=True):
    """EmitValue recursion depth needed by the statement as the printer writes it (bodies of
    if/while/... are assumed braced: the deeper of the two spellings)"""
    k = s[0]
    if k in ("nop", "brk", "cont"):
        return 1
    if k == "set":
        return 1 + max(need_expr(s[2]), need_lval_ref(s[1]))
    if k == "cset":
        return 1 + max(1 + max(need_expr(lval_as_expr(s[2])), need_expr(s[3])), need_lval_ref(s[2]))
    if k in ("inc", "dec"):
        return 1 + max(1 + need_expr(lval_as_expr(s[1])), need_lval_ref(s[1]))
    if k == "if":
        return 1 + max(need_expr(s[1]), need_body(s[2]))
    if k == "ife":
        return 1 + max(need_expr(s[1]), need_body(s[2]), need_body(s[3]))
    if k == "while":
        return 1 + max(need_expr(s[1]), need_body(s[2]))
    if k == "for":
        # StatementList [init, While(cond, body, StatementList[inc])]
        w = 1 + max(need_expr(s[2]), need_body(s[4]), 1 + need_stmt(s[3]))
        return 1 + max(need_stmt(s[1]) if s[1][0] != "nop" else 1, w)
    if k == "do":
        return 1 + max(need_body(s[1]), need_expr(s[2]))
    if k == "sw":
        return 1 + max(need_expr(s[1]), need_block([it[1] for it in s[2] if it[0] == "st"]))
    if k == "blk":
        return need_block(s[1])
    if k == "goto":
        return 1 + max([1] + [need_expr(a) for a in (s[2] if len(s) > 2 else [])])
    if k == "end0":
        return 2
    if k in ("throw", "th", "pr"):
        return 1 + max([1] + [need_expr(a) for a in s[2 if k != "pr" else 1]])
    if k == "end1":
        return 1 + need_expr(s[1])
    if k == "try":
        hs = [c for _, _, b in s[2] for c in b]
        return 1 + max(need_body(s[1]), need_block(hs))
    raise ValueError(k)


def need_block(stmts):
    return 1 + max([0] + [need_stmt(c) for c in stmts])


def need_body(s):
    return need_block(s[1] if s[0] == "blk" else [s])


def switch_depth_ok(items, limit=5):
    """the counting emitter of a switch walks its body with a recursion budget of `limit`"""
    return need_block([it[1] for it in items if it[0] == "st"]) <= limit


# ------------------------------------------------------------------ meaning-preserving rewrites

def map_expr(e, fe):
    k = e[0]
    if k == "x":
        e = ("x", map_expr(e[1], fe), map_expr(e[2], fe))
    elif k in ("neg", "not", "cpl", "size"):
        e = (k, map_expr(e[1], fe))
    elif k == "b":
        e = ("b", e[1], map_expr(e[2], fe), map_expr(e[3], fe))
    elif k in ("and", "or"):
        e = (k, map_expr(e[1], fe), map_expr(e[2], fe))
    elif k == "call":
        e = ("call", e[1], [map_expr(a, fe) for a in e[2]])
    elif k == "carr":
        e = ("carr", [map_expr(a, fe) for a in e[1]])
    return fe(e)


def map_lval(l, fe):
    return ("lv", l[1], l[2], [map_expr(i, fe) for i in l[3]])


def map_stmt(s, fs, fe):
    k = s[0]
    if k == "set":
        s = ("set", map_lval(s[1], fe), map_expr(s[2], fe))
    elif k == "cset":
        s = ("cset", s[1], map_lval(s[2], fe), map_expr(s[3], fe))
    elif k in ("inc", "dec"):
        s = (k, map_lval(s[1], fe))
    elif k == "if":
        s = ("if", map_expr(s[1], fe), map_stmt(s[2], fs, fe))
    elif k == "ife":
        s = ("ife", map_expr(s[1], fe), map_stmt(s[2], fs, fe), map_stmt(s[3], fs, fe))
    elif k == "while":
        s = ("while", map_expr(s[1], fe), map_stmt(s[2], fs, fe))
    elif k == "for":
        s = ("for", map_stmt(s[1], fs, fe), map_expr(s[2], fe), map_stmt(s[3], fs, fe), map_stmt(s[4], fs, fe))
    elif k == "do":
        s = ("do", map_stmt(s[1], fs, fe), map_expr(s[2], fe))
    elif k == "sw":
        s = ("sw", map_expr(s[1], fe), [("st", map_stmt(it[1], fs, fe)) if it[0] == "st" else it for it in s[2]])
    elif k == "blk":
        s = ("blk", [map_stmt(c, fs, fe) for c in s[1]])
    elif k == "try":
        s = ("try", map_stmt(s[1], fs, fe), [(f, ps, [map_stmt(c, fs, fe) for c in b]) for f, ps, b in s[2]])
    elif k in ("throw", "th"):
        s = (k, s[1], [map_expr(a, fe) for a in s[2]])
    elif k == "goto" and len(s) > 2:
        s = ("goto", s[1], [map_expr(a, fe) for a in s[2]])
    elif k == "pr":
        s = ("pr", [map_expr(a, fe) for a in s[1]])
    elif k == "end1":
        s = ("end1", map_expr(s[1], fe))
    return fs(s)


def map_program(p, fs, fe):
    return [it if it[0] == "lab" else ("st", map_stmt(it[1], fs, fe)) for it in p]


def expand_compound(p):
    """x op= e  ->  x = x op e ;  x++ stays (it has no other spelling)"""
    def fs(s):
        if s[0] == "cset":
            return ("set", s[2], ("b", s[1], lval_as_expr(s[2]), s[3]))
        return s
    return map_program(p, fs, lambda e: e)


def unfold_constants(p, rng):
    """operands the compiler folds at compile time are replaced by run-time computations with the
    same value:  -k  ->  (0 - k);  a literal k  ->  (a + b) with a + b = k (no wrap).
    Case labels and the operands of `sw` stay."""
    def fe(e):
        if e[0] == "neg" and e[1][0] == "i":
            return ("b", "sub", ("i", 0), e[1])
        if e[0] == "i" and 2 <= e[1] < 2 ** 62 and rng.random() < 0.5:
            a = rng.randrange(1, e[1])
            return ("b", "add", ("i", a), ("i", e[1] - a))
        return e
    return map_program(p, lambda s: s, fe)


# ---------------------------------------------------------------------------------- shrinking

def shrink_candidates(p):
    """programs one step smaller than p (a statement removed, a compound replaced by a child)"""
    out = []

    def stmts_variants(lst):
        res = []
        for i in range(len(lst)):
            res.append(lst[:i] + lst[i + 1:])
            for v in stmt_variants(lst[i]):
                res.append(lst[:i] + [v] + lst[i + 1:])
        return res

    def stmt_variants(s):
        k = s[0]
        res = []
        if k == "blk":
            res += [("blk", v) for v in stmts_variants(s[1])]
            if len(s[1]) == 1:
                res.append(s[1][0])
        elif k == "if":
            res.append(s[2])
            res += [("if", s[1], v) for v in stmt_variants(s[2])]
        elif k == "ife":
            res += [s[2], s[3], ("if", s[1], s[2])]
            res += [("ife", s[1], v, s[3]) for v in stmt_variants(s[2])]
            res += [("ife", s[1], s[2], v) for v in stmt_variants(s[3])]
        elif k == "while":
            res += [("while", s[1], v) for v in stmt_variants(s[2])]
        elif k == "for":
            res += [("for", s[1], s[2], s[3], v) for v in stmt_variants(s[4])]
        elif k == "do":
            res += [("do", v, s[2]) for v in stmt_variants(s[1])]
        elif k == "sw":
            items = s[2]
            for i in range(len(items)):
                res.append(("sw", s[1], items[:i] + items[i + 1:]))
                if items[i][0] == "st":
                    res += [("sw", s[1], items[:i] + [("st", v)] + items[i + 1:]) for v in stmt_variants(items[i][1])]
        elif k == "try":
            res.append(s[1])
            res += [("try", v, s[2]) for v in stmt_variants(s[1])]
            for i, (f, ps, b) in enumerate(s[2]):
                res += [("try", s[1], s[2][:i] + [(f, ps, v)] + s[2][i + 1:]) for v in stmts_variants(b)]
        elif k == "pr" and len(s[1]) > 1:
            res += [("pr", s[1][:i] + s[1][i + 1:]) for i in range(len(s[1]))]
        return res

    # whole functions first (label up to the next function label), then halves of statement runs,
    # then single statements and their simplifications
    for i, it in enumerate(p):
        if it[0] == "lab" and it[1] != 0 and it[1] < 50:
            j = i + 1
            while j < len(p) and not (p[j][0] == "lab" and p[j][1] < 50):
                j += 1
            out.append(p[:i] + p[j:])
    sts = [i for i, it in enumerate(p) if it[0] == "st"]
    if len(sts) >= 8:
        for a, b in ((0, len(sts) // 2), (len(sts) // 2, len(sts)), (0, len(sts) // 4), (len(sts) // 4, len(sts) // 2)):
            drop = set(sts[a:b])
            out.append([it for i, it in enumerate(p) if i not in drop])
    for i, it in enumerate(p):
        if it[0] == "st":
            out.append(p[:i] + p[i + 1:])
    for i, it in enumerate(p):
        if it[0] == "st":
            for v in stmt_variants(it[1]):
                out.append(p[:i] + [("st", v)] + p[i + 1:])
        elif it[1] >= 50:
            out.append(p[:i] + p[i + 1:])
    return out


def count_stmts(p):
    n = [0]

    def fs(s):
        n[0] += 1
        return s
    map_program(p, fs, lambda e: e)
    return n[0]


# ------------------------------------------------------------- prefix text form -> AST (corpus, replay)

class _Toks:
    def __init__(self, text):
        self.t = text.split()
        self.i = 0

    def next(self):
        v = self.t[self.i]
        self.i += 1
        return v

    def int(self):
        return int(self.next())


def unhexs(h):
    return "" if h == "-" else bytes.fromhex(h).decode("latin-1")


def parse_expr(t):
    k = t.next()
    if k == "i":
        return ("i", t.int())
    if k == "s":
        return ("s", unhexs(t.next()))
    if k == "f":
        sp = unhexs(t.next())
        sh = unhexs(t.next())
        return ("f", sp, sh, t.next() == "1")
    if k == "nil":
        return ("nil",)
    if k == "var":
        sc = t.next()
        return ("var", sc, t.int())
    if k == "x":
        a = parse_expr(t)
        return ("x", a, parse_expr(t))
    if k in ("neg", "not", "cpl", "size"):
        return (k, parse_expr(t))
    if k == "b":
        op = t.next()
        a = parse_expr(t)
        return ("b", op, a, parse_expr(t))
    if k in ("and", "or"):
        a = parse_expr(t)
        return (k, a, parse_expr(t))
    if k == "call":
        f = t.int()
        n = t.int()
        return ("call", f, [parse_expr(t) for _ in range(n)])
    if k == "carr":
        n = t.int()
        return ("carr", [parse_expr(t) for _ in range(n)])
    raise ValueError("expr token " + k)


def parse_lval(t):
    if t.next() != "lv":
        raise ValueError("lval")
    sc = t.next()
    x = t.int()
    n = t.int()
    return ("lv", sc, x, [parse_expr(t) for _ in range(n)])


def parse_stmt(t):
    k = t.next()
    if k in ("nop", "brk", "cont", "end0"):
        return (k,)
    if k == "set":
        l = parse_lval(t)
        return ("set", l, parse_expr(t))
    if k == "cset":
        op = t.next()
        l = parse_lval(t)
        return ("cset", op, l, parse_expr(t))
    if k in ("inc", "dec"):
        return (k, parse_lval(t))
    if k == "if":
        c = parse_expr(t)
        return ("if", c, parse_stmt(t))
    if k == "ife":
        c = parse_expr(t)
        a = parse_stmt(t)
        return ("ife", c, a, parse_stmt(t))
    if k == "while":
        c = parse_expr(t)
        return ("while", c, parse_stmt(t))
    if k == "for":
        i = parse_stmt(t)
        c = parse_expr(t)
        inc = parse_stmt(t)
        return ("for", i, c, inc, parse_stmt(t))
    if k == "do":
        b = parse_stmt(t)
        return ("do", b, parse_expr(t))
    if k == "sw":
        e = parse_expr(t)
        n = t.int()
        items = []
        for _ in range(n):
            kk = t.next()
            if kk == "ci":
                items.append(("ci", t.int()))
            elif kk == "cs":
                items.append(("cs", unhexs(t.next())))
            elif kk == "cd":
                items.append(("cd",))
            elif kk == "st":
                items.append(("st", parse_stmt(t)))
            else:
                raise ValueError("switch item " + kk)
        return ("sw", e, items)
    if k == "blk":
        n = t.int()
        return ("blk", [parse_stmt(t) for _ in range(n)])
    if k == "goto":
        f = t.int()
        n = t.int()
        ga = [parse_expr(t) for _ in range(n)]
        return ("goto", f, ga) if ga else ("goto", f)
    if k == "try":
        b = parse_stmt(t)
        n = t.int()
        hs = []
        for _ in range(n):
            f = t.int()
            np = t.int()
            ps = []
            for _ in range(np):
                sc = t.next()
                ps.append((sc, t.int()))
            nb = t.int()
            hs.append((f, ps, [parse_stmt(t) for _ in range(nb)]))
        return ("try", b, hs)
    if k in ("throw", "th"):
        f = t.int()
        n = t.int()
        return (k, f, [parse_expr(t) for _ in range(n)])
    if k == "pr":
        n = t.int()
        return ("pr", [parse_expr(t) for _ in range(n)])
    if k == "end1":
        return ("end1", parse_expr(t))
    raise ValueError("stmt token " + k)


def parse_program(text):
    t = _Toks(text)
    if t.next() != "prog":
        raise ValueError("prog")
    n = t.int()
    p = []
    for _ in range(n):
        k = t.next()
        if k == "lab":
            f = t.int()
            np = t.int()
            ps = []
            for _ in range(np):
                sc = t.next()
                ps.append((sc, t.int()))
            p.append(("lab", f, ps))
        elif k == "st":
            p.append(("st", parse_stmt(t)))
        else:
            raise ValueError("item token " + k)
    return p


def flt(spelling):
    """a float literal as the engine shows it: strtof, then "%.3f" of the float widened to double"""
    import struct
    x = struct.unpack("f", struct.pack("f", float(spelling)))[0]
    return ("f", spelling, "%.3f" % x, abs(x) >= 0.00009999999747378752)
