"""C02 — emitted bytecode is well-formed and keeps the operand stack disciplined.

Translation validation with a validator that is proved sound (not a history unit):
 1. `harness/C02.cpp optable` prints the opcode table of the binary built from /repo's current tree
    (enumerators, OpcodeLength, OpcodeVarStackOffset, IsExternalOpcode, operand sizes, the numbers of
    the events that move the code position); it is written to coq/C02/Generated.v on every run.
 2. coq/C02/Model.v is the abstract instruction set of ScriptVM::Process; Verify.v the certificate
    checker `check` and the untrusted `infer`; Proofs.v proves `check_sound`, `table_matches_decode`
    and the error-path theorems.
 3. every generated program the REAL compiler accepts is dumped by the harness (code bytes, label /
    case / catch tables, declared stack size, table sizes) and the extracted `verify` must accept it;
    the program is then run with the H4 probes and every executed (offset, stack index) must be the
    annotated one, and every VM must end with stack index 0."""
import glob
import json
import os
import random
import re

import vlib

LEVEL = "proof"
CID = "C02"
UNIT = "C02"
OPCODES_CPP = os.path.join(vlib.REPO, "src/Script/ScriptOpcodes.cpp")

SIZES = ["opval_t", "op_offset_t", "op_name_t", "op_evName_t", "op_ev_t", "op_parmNum_t", "op_arrayParmNum_t", "bool",
         "uint8_t", "uint16_t", "short3", "uint32_t", "uint64_t", "float", "Vector", "StateScriptPtr"]


class BrokenTie(Exception):
    """the dump of the binary does not have the expected shape"""


def write_if_changed(path, txt):
    old = open(path).read() if os.path.exists(path) else None
    if old != txt:
        os.makedirs(os.path.dirname(path), exist_ok=True)
        with open(path, "w") as f:
            f.write(txt)


# --------------------------------------------------------------------------- the opcode table

def parse_optable(out):
    """-> dict(ops=[(num, enum, name, len, eff, ext)], sizes={}, control=[(name, num)], opmax, previous)"""
    d = {"ops": [], "sizes": {}, "control": []}
    for ln in out.splitlines():
        w = ln.split()
        if not w:
            continue
        if w[0] == "enum":
            if w[1] != "ok":
                raise BrokenTie("the enumerators of opcode_e are no longer the ones harness/C02.cpp lists (OP_MAX=%s)" % w[2])
            d["opmax"], d["previous"] = int(w[2]), int(w[3])
        elif w[0] == "endian":
            if w[1] != "little":
                raise BrokenTie("big-endian host: the model decodes operands little-endian")
        elif w[0] == "sizeof":
            d["sizes"][w[1]] = int(w[2])
        elif w[0] == "op":
            d["ops"].append((int(w[1]), w[2], w[3], int(w[4]), int(w[5]), w[6] == "1"))
        elif w[0] == "control":
            d["control"].append((w[1], int(w[2])))
    if "opmax" not in d or len(d["ops"]) != d.get("previous", -1):
        raise BrokenTie("optable dump incomplete: %d entries, OP_PREVIOUS=%s" % (len(d["ops"]), d.get("previous")))
    for s in SIZES:
        if s not in d["sizes"]:
            raise BrokenTie("optable dump lacks sizeof %s" % s)
    if [o[0] for o in d["ops"]] != list(range(d["previous"])):
        raise BrokenTie("optable dump is not numbered 0..OP_PREVIOUS-1")
    # the table in the source must have exactly one entry per opcode below OP_PREVIOUS
    src = open(OPCODES_CPP).read()
    m = re.search(r"static\s+opcode_t\s+OpcodeInfo\s*\[\s*\]\s*=\s*\{(.*?)\n\};", src, re.S)
    if not m:
        raise BrokenTie("pattern for OpcodeInfo[] not found in ScriptOpcodes.cpp")
    entries = len(re.findall(r"^\s*\{\s*\"", m.group(1), re.M))
    d["source_entries"] = entries
    if entries != d["previous"]:
        raise BrokenTie("OpcodeInfo[] has %d entries but OP_PREVIOUS is %d: opcodes without a table entry" % (entries, d["previous"]))
    return d


def generated_v(d):
    z = lambda v: ("(%d)" % v) if v < 0 else str(v)
    t = ["(* C02/Generated.v - GENERATED on every run by props/C02.py from `harness/C02 optable`, i.e. from the",
         "   binary built from /repo's current tree (include/morfuse/Script/ScriptOpcodes.h, src/Script/ScriptOpcodes.cpp).",
         "   Do not edit. *)",
         "From Coq Require Import List NArith ZArith.",
         "Import ListNotations.",
         "Local Open Scope N_scope.",
         ""]
    for num, enum, name, ln, eff, ext in d["ops"]:
        t.append("Definition %s : N := %d.  (* \"%s\" *)" % (enum, num, name))
    t.append("Definition OP_PREVIOUS : N := %d." % d["previous"])
    t.append("Definition OP_MAX : N := %d." % d["opmax"])
    t.append("")
    for s in SIZES:
        t.append("Definition sz_%s : N := %d." % (s, d["sizes"][s]))
    t.append("")
    t.append("(* opcode, OpcodeLength, OpcodeVarStackOffset, IsExternalOpcode *)")
    t.append("Definition optable : list (N * (N * Z * bool)) := [")
    rows = ["  (%s, (%d, %s%%Z, %s))" % (enum, ln, z(eff), "true" if ext else "false") for num, enum, name, ln, eff, ext in d["ops"]]
    t.append(";\n".join(rows))
    t.append("].")
    t.append("")
    t.append("(* numbers of the events that move the code position of the thread that executes them or end it:")
    t.append("   %s *)" % ", ".join("%s=%d" % c for c in d["control"]))
    for name, n in d["control"]:
        t.append("Definition ev_%s : N := %d." % (name, n))
    t.append("Definition control_events : list N := [%s]." % "; ".join("ev_" + name for name, n in d["control"] if n))
    return "\n".join(t) + "\n"


def harness():
    return vlib.build_harness(UNIT, ["harness/C02.cpp"], "asan", use_lib=True)


def make_generated():
    exe = harness()
    rc, out, err = vlib.sh([exe, "optable"], env=vlib.ASAN_ENV, timeout=120)
    if rc != 0:
        raise BrokenTie("harness optable failed rc=%s: %s" % (rc, err[-800:]))
    d = parse_optable(out)
    write_if_changed(os.path.join(vlib.COQ, UNIT, "Generated.v"), generated_v(d))
    return d


if __name__ == "__main__":
    print(json.dumps(make_generated()["control"]))


# ------------------------------------------------------------------------------ generators

class Prog:
    """a generated script: source lines + the origin that says which generator made it"""

    def __init__(self, pid, lines, origin):
        self.id, self.lines, self.origin = str(pid), list(lines), origin

    def case(self):
        return vlib.Case(self.id, "", ["|" + l for l in self.lines], self.origin)


BINOPS = ["+", "-", "*", "/", "%", "&", "|", "^", "==", "!=", "<", ">", "<=", ">=", "<<", ">>", "&&", "||"]
INTS = ["0", "1", "2", "3", "7", "255", "256", "300", "65535", "65536", "70000", "16777216", "20000000", "4294967295",
        "4294967296", "5000000000"]
RETCMDS = [("randomint", 1), ("abs", 1), ("int", 1), ("float", 1), ("string", 1), ("bool", 1), ("isdefined", 1),
           ("typeof", 1), ("vector_length", 1), ("vector_add", 2), ("vector_scale", 2), ("randomfloat", 1), ("vector_dot", 2)]
CMDS = [("println", None), ("print", None), ("cache", 1), ("timeout", 1), ("trigger", 1)]
GROUPS = ["local", "level", "game", "group", "parm"]


class Gen:
    """grammar-based generator.  err = probability of injecting a statement that raises a script
    error at run time; defects = also generate the constructs that hit the known error-path defects"""

    def __init__(self, rng, err=0.0, defects=False, size=1.0):
        self.r, self.err, self.defects, self.size = rng, err, defects, size
        self.host = err > 0           # the error generators use the harness' host class C02Host
        self.nloop = 0
        self.nlabel = 0
        self.threads = []       # (name, nparams) declared thread labels
        self.extra = []         # top-level blocks appended after main
        self.feat = set()

    # ---- expressions
    def var(self):
        r = self.r
        g = r.choice(GROUPS) if r.random() < 0.35 else "local"
        return "%s.%s" % (g, r.choice("abcde"))

    def lit(self):
        r = self.r
        k = r.random()
        if k < 0.45:
            return r.choice(INTS)
        if k < 0.55:
            return r.choice(["1.5", "0.25", "100.0"])
        if k < 0.75:
            return '"%s"' % r.choice(["", "a", "str", "0", "12", "foo bar"])
        if k < 0.82:
            return "NIL"
        if k < 0.88:
            return "NULL"
        if k < 0.94:
            return r.choice(GROUPS + ["self"])
        return "( %s %s %s )" % (r.choice(INTS[:6]), r.choice(["1.5", "2", "0"]), r.choice(INTS[:6]))

    def expr(self, d=0):
        r = self.r
        k = r.random()
        if d >= 3 or k < 0.30:
            return self.lit() if r.random() < 0.55 else self.var()
        if k < 0.55:
            op = r.choice(BINOPS)
            self.feat.add("binop")
            return "(%s %s %s)" % (self.expr(d + 1), op, self.expr(d + 1))
        if k < 0.62:
            self.feat.add("unary")
            return "(%s%s)" % (r.choice([" -", "~", "!"]), self.expr(d + 1))
        if k < 0.68:
            self.feat.add("array-read")
            return "%s[%s]" % (self.var(), self.expr(d + 1))
        if k < 0.72:
            self.feat.add("array-read2")
            return "%s[%s][%s]" % (self.var(), self.expr(d + 1), self.expr(d + 1))
        if k < 0.77:
            self.feat.add("field-read")
            return "%s.%s" % (self.var(), r.choice(["f", "g", "classname"]))
        if k < 0.80:
            self.feat.add("size")
            return "%s.size" % self.var()
        if k < 0.86:
            c, n = r.choice(RETCMDS)
            self.feat.add("retcmd")
            return "(%s %s)" % (c, " ".join(self.expr(d + 1) for _ in range(n)))
        if k < 0.89:
            self.feat.add("constarray")
            return "(%s)" % "::".join(self.expr(d + 2) for _ in range(r.choice([2, 3, 4])))
        if k < 0.92:
            self.feat.add("vector")
            return "( %s %s %s )" % (self.expr(d + 2), self.expr(d + 2), self.expr(d + 2))
        if k < 0.95:
            self.feat.add("targetname")
            return r.choice(["$nothing", "$(\"t\" + 1)"])
        if k < 0.975 and self.threads:
            name, n = r.choice(self.threads)
            self.feat.add("thread-expr")
            return "(%s %s %s)" % (r.choice(["thread", "waitthread"]), name, " ".join(self.expr(d + 2) for _ in range(n)))
        return self.var()

    def cond(self, d=1):
        return "(%s)" % self.expr(d)

    # ---- statements
    def lhs(self):
        r = self.r
        k = r.random()
        if k < 0.55:
            return self.var()
        if k < 0.70:
            self.feat.add("field-write")
            return "%s.%s" % (self.var(), r.choice("fg"))
        if k < 0.85:
            self.feat.add("array-write")
            return "%s[%s]" % (self.var(), self.expr(2))
        if k < 0.93:
            self.feat.add("array-write2")
            return "%s[%s][%s]" % (self.var(), self.expr(2), self.expr(2))
        self.feat.add("field-array-write")
        return "local.o.%s[%s]" % (r.choice("fg"), self.expr(2)) if self.defects else "%s[%s]" % (self.var(), self.expr(2))

    def errstmt(self):
        """a statement that raises a script error at run time"""
        r = self.r
        self.feat.add("err-injected")
        pool = [
            "local.e1 = 1 / 0",
            "local.e1 = 7 % 0",
            "local.e1 = \"abc\" - 1",
            "local.e1 = NIL + 1",
            "local.e1 = ( 1 2 3 ) * \"x\"",
            "local.e1 = $nothing.f",
            "$nothing.f = 1",
            "local.e7 = NULL\nlocal.e1 = local.e7.f",
            "local.e7 = NIL\nlocal.e7.f = 2",
            "$nothing println 1",
            "NIL print 1 2",
            "NULL trigger \"x\"",
            "local.e7 = NULL\nlocal.e1 = local.e7.classname",
            "owner.f = 1", "local.e1 = owner.f", "owner.f = 2\nlocal.e1 = owner.f", "local.e1 = owner",
            "local.e2 = 5\nlocal.e2.f = 1",
            "local.e2 = 5\nlocal.e1 = local.e2.f",
            "local.e1 = self.sr",
            "self.sw = 3",
            "local.e1 = self.sr2",
            "local.e3 = 5\nlocal.e1 = local.e3[1][2]",
            "local.e1 = ( 1 2 3 )[7]",
            "error \"injected\"",
            "thread nosuchlabel",
            "goto nosuchlabel",
            "local.e1 = waitthread nosuchlabel 1",
            "local.e1 = ~\"abc\"",
            "local.e1 = abs \"q\"",
            "local.e1 = 1 << NIL",
            "local.e4 = \"s\"\nlocal.e4[1][2] = 3",
            "local.e1 = vector_length 5",
            "local.e1 = 1::2\nlocal.e1[5] = 1",
        ]
        if self.host:
            pool += ["local.e1 = local.h.c02bad", "local.e1 = local.h.c02wo", "local.h.c02ro = 1", "local.h.c02bads = 2",
                     "local.h.c02bad[1] = 2", "local.h c02fail", "local.e1 = local.h c02failret", "local.h.c02ok = 4",
                     "local.e1 = local.h.c02ok + local.h.c02ro", "local.h.c02wo = 3", "local.e1 = local.h.c02bads",
                     "self.c02ro = 1", "self.c02bads = 2", "local.e1 = self.c02bad", "local.e1 = self.c02wo", "self.c02ok = 1",
                     "local.h.c02wo[1] = 2", "local.e1 = (local.h.c02bad + 1) * 2", "println local.h.c02bad local.h.c02ok",
                     "local.h.c02ro++", "local.h.c02bads += 1", "local.e1 = local.h.c02wo[2]",
                     "local.e6 = local\nlocal.e6.classname = 5", "local.classname = 5", "level.classname = \"x\"",
                     "self.sd = 1\nlocal.e1 = self.sd", "local.e5 = 5\nlocal.e5.f[1] = 2"]
            # stores through a group of hosts (OP_LOAD_FIELD_VAR -> loadTopGroup): every member, a failing
            # setter at the first / a middle / the last member, read-only fields, gone members, non-listeners
            hs = ["local.h", "local.h2", "local.h3"]
            arm = r.choice(hs)
            pool += ["$grp.c02ok = %s" % self.expr(2), "$grp.c02maybe = %s" % self.expr(2), "$grp.f = %s" % self.expr(2),
                     "%s.c02arm = 1\n$grp.c02maybe = %s\n%s.c02arm = 0" % (arm, self.expr(2), arm),
                     "%s.c02arm = 1\n(local.h::local.h2::local.h3).c02maybe = 4\n%s.c02arm = 0" % (arm, arm),
                     "%s.c02arm = 1\n(local.h3::local.h::local.h2).c02maybe = %s\nprintln $grp.size" % (arm, self.expr(2)),
                     "(local.h::local.h2).c02maybe = %s" % self.expr(2), "(local.h::local.h2::local.h3).c02ro = 1",
                     "$grp.c02bads = 1", "$grp.c02ro = 1", "(1::2::3).f = 1", "(local.h::5).c02ok = 1", "(NIL::local.h::NULL).c02ok = 2",
                     "local.ga[1] = local.h\nlocal.ga[2] = local.h2\nlocal.ga.c02maybe = 1",
                     "local.h2 remove\n$grp.c02maybe = 5\n(local.h::local.h2::local.h3).c02ok = 6",
                     "$grp.c02maybe += 1", "$grp.f[1] = 2", "local.e1 = $grp.c02ok", "$grp.c02wo = (1::2)"]
            self.feat.add("group-store-pool")
        if self.defects:
            pool += ["self.sd = 1\nlocal.e1 = self.sd",              # OP_LOAD_STORE_SELF_VAR, self NULL
                     "local.e5 = 5\nlocal.e5.f[1] = 2",               # OP_STORE_FIELD_REF on a non-listener
                     "local.classname = 5"]                           # loadTop: read-only field keeps the value on the stack
        return r.choice(pool).split("\n")

    def simple(self):
        r = self.r
        k = r.random()
        if self.err and r.random() < self.err:
            return self.errstmt()
        if k < 0.04:
            self.feat.add("store-then-load")
            v = self.var()
            return ["%s = %s" % (v, self.expr(1)), "%s = %s" % (self.var(), v) if r.random() < 0.5 else "println %s %s" % (v, v)]
        if k < 0.40:
            self.feat.add("assign")
            return ["%s = %s" % (self.lhs(), self.expr())]
        if k < 0.50:
            self.feat.add("opassign")
            return ["%s %s %s" % (self.lhs(), r.choice(["+=", "-=", "*=", "/=", "%=", "&=", "|=", "^=", "<<=", ">>="]), self.expr(1))]
        if k < 0.56:
            self.feat.add("incdec")
            return ["%s%s" % (self.lhs(), r.choice(["++", "--"]))]
        if k < 0.80:
            c, n = r.choice(CMDS)
            n = r.choice([0, 1, 2, 3, 4, 5, 6, 7]) if n is None else n
            self.feat.add("cmd%d" % min(n, 6))
            return ["%s %s" % (c, " ".join(self.expr(1) for _ in range(n)))]
        if k < 0.86:
            self.feat.add("method-cmd")
            n = r.choice([0, 1, 2, 3, 4, 5, 6])
            return ["%s %s %s" % (r.choice(["local", "level", "game", "parm", "$nothing"] if self.err else ["local", "level", "game", "parm"]),
                                  r.choice(["println", "print"]), " ".join(self.expr(2) for _ in range(n)))]
        if k < 0.93 and self.threads:
            name, n = r.choice(self.threads)
            n = max(0, n + r.choice([0, 0, 0, -1, 1]))
            self.feat.add("thread-call")
            form = r.choice(["thread %s %s", "waitthread %s %s", "local thread %s %s", "local.t = thread %s %s", "local.t = waitthread %s %s",
                             "local.t = local thread %s %s", "local.t = level waitthread %s %s"])
            return [form % (name, " ".join(self.expr(2) for _ in range(n)))]
        if k < 0.96:
            self.feat.add("wait")
            return [r.choice(["wait 0.01", "waitframe", "wait 0"])]
        self.feat.add("makearray")
        rows = [" ".join(self.expr(3) for _ in range(r.choice([1, 2, 3]))) for _ in range(r.choice([1, 2, 3]))]
        return ["%s = makeArray" % self.var()] + rows + ["endArray"]

    def block(self, d, inloop, n=None):
        out = []
        for _ in range(n if n is not None else self.r.choice([1, 1, 2, 2, 3])):
            out += self.stmt(d, inloop)
        return out

    def stmt(self, d, inloop):
        r = self.r
        k = r.random()
        if d >= 3 or k < 0.45:
            return self.simple()
        ind = lambda ls: ["  " + l for l in ls]
        if k < 0.53:
            self.feat.add("if")
            if r.random() < 0.4:
                s = self.simple()
                if len(s) == 1:
                    return ["if %s %s" % (self.cond(), s[0])]
            return ["if %s {" % self.cond()] + ind(self.block(d + 1, inloop)) + ["}"]
        if k < 0.60:
            self.feat.add("ifelse")
            return ["if %s {" % self.cond()] + ind(self.block(d + 1, inloop)) + ["} else {"] + ind(self.block(d + 1, inloop)) + ["}"]
        if k < 0.72:
            self.nloop += 1
            i = "local.i%d" % self.nloop
            kind = r.choice(["for", "while", "do", "for2"])
            self.feat.add("loop-" + kind)
            body = self.block(d + 1, True)
            lim = r.choice([0, 1, 2, 3])
            if kind == "for":
                return ["for (%s = 0; %s < %d; %s++) {" % (i, i, lim, i)] + ind(body) + ["}"]
            if kind == "for2":
                return ["%s = 0" % i, "for (; %s < %d; %s++ ; local.z = %s) {" % (i, lim, i, self.expr(2))] + ind(body) + ["}"]
            if kind == "while":
                return ["%s = 0" % i, "while (%s < %d) {" % (i, lim), "  %s++" % i] + ind(body) + ["}"]
            return ["%s = 0" % i, "do {", "  %s++" % i] + ind(body) + ["} while (%s < %d)" % (i, lim)]
        if k < 0.76 and inloop:
            self.feat.add("break" if r.random() < 0.5 else "continue")
            kw = r.choice(["break", "continue"])
            return ["if %s %s" % (self.cond(), kw)] if r.random() < 0.7 else [kw]
        if k < 0.84:
            self.feat.add("switch")
            out = ["switch (%s) {" % self.expr(1)]
            used = set()
            for _ in range(r.choice([1, 2, 3, 4])):
                v = r.choice(["0", "1", "2", "3", " -1", "\"a\"", "str", "65536", "5000000000"])
                if v in used:
                    continue
                used.add(v)
                out.append("case %s:" % v)
                out += ind(self.block(d + 1, inloop, r.choice([0, 1, 2])))
                if r.random() < 0.6:
                    out.append("  break")
                    self.feat.add("switch-break")
                else:
                    self.feat.add("switch-fallthrough")
            if r.random() < 0.6:
                self.feat.add("switch-default")
                out.append("default:")
                out += ind(self.block(d + 1, inloop, r.choice([1, 2])))
            out.append("}")
            return out
        if k < 0.91:
            self.feat.add("try")
            self.nlabel += 1
            ex = "ex%d" % self.nlabel
            np_ = r.choice([0, 1, 2])
            body = self.block(d + 1, False)
            if r.random() < 0.7:
                self.feat.add("throw")
                body += ["if %s throw %s %s" % (self.cond(), ex, " ".join(self.expr(2) for _ in range(np_)))] if r.random() < 0.5 else \
                        ["throw %s %s" % (ex, " ".join(self.expr(2) for _ in range(np_)))]
                body += self.block(d + 1, False, 1)
            handler = ["%s %s:" % (ex, " ".join("local.p%d" % j for j in range(np_)))] if np_ else ["%s:" % ex]
            handler += ind(self.block(d + 1, False))
            if r.random() < 0.3:
                self.feat.add("catch-two-labels")
                handler += ["other%d:" % self.nlabel] + ind(self.block(d + 1, False, 1))
            return ["try {"] + ind(body) + ["} catch {"] + ind(handler) + ["}"]
        if k < 0.95:
            self.feat.add("end-inside")
            return ["if %s end" % self.cond()] if r.random() < 0.6 else ["if %s end %s" % (self.cond(), self.expr(2))]
        self.feat.add("nop-semicolon")
        return [";"]

    def thread_body(self, name, nparams, n):
        hdr = "%s %s:" % (name, " ".join("local.q%d" % j for j in range(nparams))) if nparams else "%s:" % name
        chunks = [self.stmt(1, False) for _ in range(n)]
        # forward goto to a label of this body (only between top-level statements)
        if self.r.random() < 0.35:
            self.feat.add("goto")
            self.nlabel += 1
            lab = "lab%d" % self.nlabel
            pos = self.r.randrange(0, len(chunks) + 1)
            chunks = chunks[:pos] + [["if %s goto %s" % (self.cond(), lab)], self.block(1, False, 1), [lab + ":"]] + chunks[pos:]
        body = [l for c in chunks for l in c]
        if self.r.random() < 0.2:
            self.feat.add("private-label")
            self.nlabel += 1
            body = body + ["-priv%d:" % self.nlabel] + self.block(1, False, 1)
        tail = self.r.choice(["end", "end", "end %s" % self.expr(2), ""])
        # a private label must start its line: the lexer reads " -name" as a unary minus
        return [hdr] + [l if l.startswith("-priv") else "  " + l for l in body] + ([tail] if tail else [])

    def program(self):
        r = self.r
        nthreads = r.choice([0, 1, 1, 2, 3])
        self.threads = [("t%d" % i, r.choice([0, 1, 2, 3, 3, 4, 5, 6, 7])) for i in range(nthreads)]
        n = max(1, int(r.choice([2, 3, 4, 6, 8]) * self.size))
        allthreads = list(self.threads)
        lines = self.thread_body("main", 0, n)
        if self.host:
            lines[1:1] = ["  local.h = spawn C02Host targetname grp", "  local.h2 = spawn C02Host targetname grp"] + \
                         (["  local.h3 = spawn C02Host targetname grp"] if r.random() < 0.6 else [])
            if allthreads and r.random() < 0.6:
                lines[3:3] = ["  local.h thread %s %s" % (allthreads[0][0], " ".join("1" for _ in range(allthreads[0][1])))]
                self.feat.add("thread-with-self")
        for i, (name, np_) in enumerate(allthreads):
            self.threads = allthreads[i + 1:]           # a thread only starts later ones: no unbounded recursion
            lines += self.thread_body(name, np_, max(1, int(r.choice([1, 2, 3]) * self.size)))
        return lines


FIXED = {
    "empty": [""],
    "only-end": ["end"],
    "example": ["main:", "local.a = 3", "println \"hello \" local.a", "for (local.i = 0; local.i < 3; local.i++) {",
                "  if (local.i == 1) continue", "  switch (local.i) {", "    case 0: println \"zero\"; break",
                "    case 2: println \"two\"", "    default: println \"def\"", "  }", "}", "thread foo 1 2", "try {",
                "  throw bar 5", "} catch {", "  bar local.q:", "  println \"caught \" local.q", "}", "end",
                "foo local.x local.y:", "println local.x local.y", "end"],
    "nested-try": ["main:", "try {", "  try {", "    throw inner 1", "  } catch {", "    inner local.a:", "    throw outer local.a 2", "  }",
                   "} catch {", "  outer local.b local.c:", "  println local.b local.c", "}", "end"],
    "switch-in-loop-in-switch": ["main:", "switch (1) {", "case 1:", "  for (local.i = 0; local.i < 2; local.i++) {",
                                 "    switch (local.i) {", "    case 0:", "      continue", "    case 1:", "      break", "    }",
                                 "    println local.i", "  }", "default:", "  println \"d\"", "}", "end"],
    "many-params": ["main:", "println 1 2 3 4 5 6 7 8 9 10 11 12", "local println 1 2 3 4 5 6 7", "local.x = (vector_add ( 1 2 3 ) ( 4 5 6 ))",
                    "thread t 1 2 3 4 5 6 7", "end", "t local.a local.b local.c local.d local.e local.f local.g:", "end local.g"],
    "deep-expr": ["main:", "local.x = " + "(1 + " * 30 + "2" + ")" * 30, "local.y = local.x[1][2][3][4]", "local.z[1][2][3] = (1::2::3::4::5)", "end"],
    "waitthread-throw": ["main:", "try {", "  local.x = waitthread child", "} catch {", "  err:", "  println \"caught\"", "}", "end",
                         "child:", "wait 0.01", "throw err", "end"],
}

DEFECT_PROBES = {
    # name -> (source, what goes wrong)
    "LOAD_STORE_SELF_VAR-null-self": (["main:", "self.a = 1", "local.b = self.a", "println \"after\"", "end"],
                                      "self is NULL is thrown without skipping the operands: execution resumes inside the instruction"),
    "STORE_FIELD_REF-non-listener": (["main:", "local.x = 5", "local.x.y[1] = 2", "println \"after\"", "end"],
                                     "the catch block does not skip the unread operands: execution resumes inside the instruction"),
    "loadTop-read-only-field": (["main:", "for (local.i = 0; local.i < 3; local.i++) {", "local.classname = 5", "}", "println \"after\"", "end"],
                                "the assigned value is not popped when the setter throws: one slot leaks per execution"),
}


def gen_programs(tier, seed, defects=False):
    rng = random.Random(seed)
    progs = []
    for p in sorted(glob.glob(os.path.join(vlib.VERIF, "corpus", UNIT, "*.scr"))):
        progs.append(Prog("c_" + os.path.basename(p)[:-4], open(p).read().split("\n"), "corpus"))
    for name, lines in FIXED.items():
        progs.append(Prog("f_" + name, lines, "fixed"))
    plan = [("grammar", 0.0, 1.0, 800), ("grammar-large", 0.0, 2.5, 150), ("errors", 0.25, 1.0, 550)] if tier == "quick" else \
           [("grammar", 0.0, 1.0, 22000), ("grammar-large", 0.0, 2.5, 6000), ("errors", 0.25, 1.0, 16000), ("errors-dense", 0.6, 1.5, 6000)]
    if defects:
        plan.append(("errdefect", 0.5, 1.0, 200 if tier == "quick" else 3000))
    k = 0
    for origin, err, size, count in plan:
        for _ in range(count):
            g = Gen(rng, err=err, defects=(origin == "errdefect"), size=size)
            p = Prog("g%d" % k, g.program(), origin)
            p.feat = g.feat
            progs.append(p)
            k += 1
    return progs


# -------------------------------------------------------------------------------- pipeline

def parse_dump(lines):
    """lines of one harness case -> dict or None when the compiler rejected the program"""
    d = {"switch": [], "entries": {0}, "catch": []}
    for l in lines:
        if not l.startswith("m "):
            continue
        w = l[2:].split()
        if w[0] == "compile":
            d["compiled"] = w[1] == "ok"
            d["compile_msg"] = l[2:][:300]
        elif w[0] == "prog":
            d["prog"] = [int(x) for x in w[1:6]]
        elif w[0] == "code":
            d["code"] = w[1]
        elif w[0] == "labels":
            d["entries"] |= {int(x) for x in w[1].split(",") if x != "-"}
        elif w[0] == "switch":
            offs = [int(x) for x in w[2].split(",") if x != "-"]
            d["switch"].append((int(w[1]), offs))
            d["entries"] |= set(offs)
        elif w[0] == "catch":
            offs = [int(x) for x in w[3].split(",") if x != "-"]
            d["catch"].append((int(w[1]), int(w[2]), offs))
            d["entries"] |= set(offs)
        elif w[0] == "run":
            d["run"] = dict(kv.split("=", 1) for kv in w[1:])
        elif w[0] == "t":
            d["trace"] = w[1:]
        elif w[0] == "e":
            d["ends"] = w[1:]
    return d


def driver_text(cid, d):
    t = ["case %s" % cid, "prog %s" % " ".join(str(x) for x in d["prog"]), "code %s" % d["code"],
         "entries %s" % ",".join(str(x) for x in sorted(d["entries"]))]
    for a, offs in d["switch"]:
        t.append("switch %d %s" % (a, ",".join(str(x) for x in offs) or "-"))
    if "trace" in d:
        t.append("trace " + " ".join(d["trace"]))
        t.append("ends " + " ".join(d.get("ends", [])))
    t.append("end")
    return "\n".join(t) + "\n"


def evaluate(progs, frames=6):
    """run the programs through the real compiler + VM and the extracted verifier.
    -> {id: record(status, kind, why, ...)}; status in compile-fail | ok | violation"""
    exe = harness()
    drv = vlib.ocaml_driver(UNIT)
    recs = {}
    for i in range(0, len(progs), 2500):
        chunk = progs[i:i + 2500]
        outs, crashes = vlib.run_resilient(exe, [str(frames)], [p.case() for p in chunk], env=vlib.ASAN_ENV, timeout=900, max_crashes=12)
        dtext = []
        dumps = {}
        for p in chunk:
            if p.id in crashes:
                c = crashes[p.id]
                if c.get("skipped"):
                    recs[p.id] = {"status": "skipped"}
                else:
                    recs[p.id] = {"status": "violation", "kind": "timeout" if c.get("timeout") else "crash",
                                  "why": "the harness %s while compiling or running the program: rc=%s\n%s" % (
                                      "hung" if c.get("timeout") else "crashed", c.get("rc"), vlib._err_head(c.get("stderr", ""))),
                                  "partial": c.get("partial")}
                continue
            if p.id not in outs:
                recs[p.id] = {"status": "skipped"}
                continue
            d = parse_dump(outs[p.id])
            if not d.get("compiled"):
                recs[p.id] = {"status": "compile-fail", "msg": d.get("compile_msg", "")}
                continue
            if "prog" not in d or "code" not in d:
                recs[p.id] = {"status": "violation", "kind": "dump-incomplete", "why": "harness printed no program dump"}
                continue
            dumps[p.id] = d
            dtext.append(driver_text(p.id, d))
        rc, o, e = vlib.sh([drv], inp="".join(dtext), timeout=900)
        vouts, _ = vlib.split_output(o)
        for pid, d in dumps.items():
            vo = vouts.get(pid)
            if not vo or vo[-1] != "end":
                recs[pid] = {"status": "violation", "kind": "verifier-crash", "why": "the extracted verifier printed no verdict: rc=%s %s" % (rc, e[-500:])}
                continue
            r = {"status": "ok", "dump": d}
            for l in vo:
                w = l.split()
                if w[0] == "v":
                    r["verdict"] = l[2:]
                elif w[0] == "a":
                    kv = dict(x.split("=", 1) for x in w[1:])
                    r["annotated"] = int(kv["annotated"])
                    r["maxht"] = int(kv["maxht"])
                    r["ops"] = [int(x) for x in kv["ops"].split(",") if x != "-"]
                elif w[0] == "d":
                    r["dynamic"] = l[2:]
            run = d.get("run", {})
            r["warnings"] = int(run.get("warnings", 0))
            r["steps"] = int(run.get("steps", 0))
            if r.get("verdict") != "ok":
                m = re.search(r"pc=(-?\d+)", r.get("verdict", ""))
                r.update(status="violation", kind="verifier-reject", offset=int(m.group(1)) if m else None,
                         why="the compiler accepted the program but the verified checker rejects its code: " + r.get("verdict", "?"))
            elif "run" in d and run.get("abort", "-") != "-":
                r.update(status="violation", kind="abort", why="an abort exception escaped to the host while the program ran: " + run["abort"])
            elif "run" in d and (run.get("foreign", "0") != "0" or run.get("sizemismatch", "0") != "0"):
                r.update(status="violation", kind="dynamic-mismatch", why="probe: a VM of another program or a stack size other than the declared one: %s" % run)
            elif "dynamic" in r and not r["dynamic"].startswith("ok"):
                r.update(status="violation", kind="dynamic-mismatch",
                         why="an executed instruction is not where / at the height the verified annotation says, or a VM ended with a non-empty stack: " + r["dynamic"][:600])
            recs[pid] = r
    return recs


def signature(rec):
    return rec.get("kind", "?")


def shrink(prog, kind, frames):
    def fails(lines):
        r = evaluate([Prog("s", lines, "shrink")], frames).get("s", {})
        return r.get("status") == "violation" and r.get("kind") == kind
    try:
        return vlib.ddmin(prog.lines, fails, max_runs=120)
    except Exception:
        return prog.lines


def defects_on():
    return os.environ.get("VERIF_C02_DEFECTS", "") not in ("", "0")


def check(res, tier, seed):
    res.cov["rule"] += (
        "C02: corpus/C02/*.scr (formerly failing inputs) + fixed programs + seeded grammar-based programs (assignments to local/level/game/group/parm "
        "variables, fields and (nested) array elements, compound assignment, ++/--, 18 binary and 3 unary operators, literals of every integer "
        "width, floats, strings, NIL/NULL, vectors, const arrays, makeArray, $targets, .size, value-returning commands, if/else, for/while/do with "
        "break/continue, switch with integer/negative/string cases, fall-through and default, nested switches and loops, forward goto, private "
        "labels, try/catch with parameters, several catch labels and nested try, throw, thread/waitthread as statement, method and expression, "
        "labels with parameters, end with and without value, wait/waitframe); the 'errors' origins inject statements that raise script errors at "
        "run time (division by zero, type errors, NULL/NIL receivers, non-listener field access, NULL self, unknown labels, `error`, failing / "
        "read-only / write-only fields and failing commands of the host class C02Host). Every program the REAL compiler accepts is dumped "
        "(code, label/case/catch tables, declared stack size) and must be accepted by the extracted verifier; it is then run and every executed "
        "(offset, stack index, marked) must be the annotated one, every VM must end with index 0 and no abort may reach the host. "
        "distinct_nontrivial = distinct code buffers with >= 10 reachable instructions that were verified and run. ")
    res.assumptions += [
        "the theorems are about the instruction model coq/C02/Model.v (hand-written after ScriptVM::Process); that the model is the interpreter is sampled: every executed (offset, stack index) of every generated program is compared with the verified annotation",
        "programs come from this unit's own grammar-based generator (the generators of C01/C03/C04 are not imported)",
        "commands other than end/goto/throw/delaythrow/delete/remove/immediateremove/killclass/removeclass are assumed not to move the code position of the executing thread (sampled by the probe); a throw delivered to ANOTHER thread that is suspended inside an expression is outside the model",
        "OP_FUNC is modelled but never emitted by the current compiler (its emitter code is unreachable), so it is not sampled",
        "the error-path table (Model.err_table) is read off the hand-written catch blocks; it is sampled by the 'errors' origins only",
        "host 64-bit little-endian; operand sizes, opcode numbers and event numbers are those of the binary built from the current tree (Generated.v)",
    ]
    frames = 6
    tie_broken = None
    table = None
    try:
        table = make_generated()
        res.cov["generated"] = {"opcodes": len(table["ops"]), "OP_MAX": table["opmax"], "control_events": table["control"],
                                "sizes": table["sizes"]}
    except (BrokenTie, OSError) as ex:
        tie_broken = str(ex)
    pst = vlib.proof_stage(res, UNIT, extra_targets=["%s/Extract.vo" % UNIT], dirs=["Base", UNIT])
    proof_broken = None
    if tie_broken or not pst["ok"]:
        proof_broken = {"property": CID, "kind": "proof-broken",
                        "broken": tie_broken or "Coq build of C02/Properties.vo (the regenerated opcode table no longer matches the instruction model, or a proof no longer checks)",
                        "hygiene": pst.get("hygiene"), "log": pst.get("build_log", "")[-3000:] + str(pst.get("props", {}).get("log", ""))[-3000:]}
        # look for a concrete failing input all the same when the extracted verifier can still be built
        ok_extract, _ = vlib.coq_make(["%s/Extract.vo" % UNIT])
        if table is None or not ok_extract:
            res.violation(proof_broken, no_input=True)
            return
    # which table entries differ from the model (all must be in the allowed list: theorem table_matches_decode)
    rc, o, e = vlib.sh([vlib.ocaml_driver(UNIT), "tablecheck"], timeout=60)
    names = {n: en for n, en, *_ in table["ops"]}
    baked = [l.split()[1] for l in o.splitlines() if l.startswith("control ")]
    want = ",".join(str(n) for _, n in table["control"] if n)
    if baked != [want]:
        # the extracted verifier was built from another Generated.v than the one of this binary
        # (two checks running at once on different trees): not a statement about /repo
        raise vlib.BuildError("coq/C02/Generated.v and the extracted verifier are out of step with the harness binary "
                              "(control events %s vs %s): concurrent ./check C02 on another tree? re-run" % (baked, want))
    res.cov["table_entries_differing_from_interpreter"] = sorted(names.get(int(l.split()[1]), l.split()[1]) for l in o.splitlines() if l.startswith("mismatch"))

    progs = gen_programs(tier, seed, defects_on())
    recs = evaluate(progs, frames)
    by_origin = {}
    ops_seen, feats, codes = set(), {}, set()
    nontriv = 0
    bad = []
    for p in progs:
        r = recs.get(p.id, {"status": "skipped"})
        o = by_origin.setdefault(p.origin, {"generated": 0, "accepted": 0, "verified_and_run": 0, "with_script_errors": 0,
                                            "script_errors": 0, "instructions_annotated": 0, "instructions_executed": 0})
        o["generated"] += 1
        if r["status"] in ("ok", "violation") and "dump" in r:
            o["accepted"] += 1
        if r["status"] == "ok":
            o["verified_and_run"] += 1
            o["with_script_errors"] += 1 if r["warnings"] else 0
            o["script_errors"] += r["warnings"]
            o["instructions_annotated"] += r.get("annotated", 0)
            o["instructions_executed"] += r.get("steps", 0)
            ops_seen |= set(r.get("ops", []))
            for f in getattr(p, "feat", ()):
                feats[f] = feats.get(f, 0) + 1
            h = r["dump"]["code"]
            if h not in codes:
                codes.add(h)
                if r.get("annotated", 0) >= 10:
                    nontriv += 1
        elif r["status"] == "violation":
            bad.append((p, r))
    res.cov["evaluations"] += sum(o["accepted"] for o in by_origin.values())
    res.cov["distinct_nontrivial"] += nontriv
    res.cov["input_distribution"] = by_origin
    res.cov["opcodes_reached"] = sorted(names.get(x, str(x)) for x in ops_seen)
    res.cov["opcodes_never_reached"] = sorted(en for n, en, *_ in table["ops"] if n not in ops_seen)
    res.cov["features_in_verified_programs"] = dict(sorted(feats.items()))
    isgs = lambda l: ("$grp." in l and "=" in l and not l.strip().startswith("local.e1")) or ").c02" in l or "local.ga.c02" in l
    gsp = [p for p in progs if recs.get(p.id, {}).get("status") == "ok" and any(isgs(l) for l in p.lines)]
    res.cov["group_stores"] = {"programs_verified_and_run": len(gsp), "statements": sum(sum(1 for l in p.lines if isgs(l)) for p in gsp),
                               "programs_arming_a_member": sum(1 for p in gsp if any("c02arm = 1" in l for l in p.lines))}
    res.cov["max_height_seen"] = max([r.get("maxht", 0) for r in recs.values() if r.get("status") == "ok"] or [0])
    res.cov["samples"] += [{"origin": p.origin, "source": p.lines[:40]} for p in (progs[2:3] + progs[len(FIXED) + 5:len(FIXED) + 6] + progs[-1:])]

    # informational: the formerly defective error paths (fixed in /repo; regression inputs live in corpus/C02)
    probes = {}
    pr = evaluate([Prog("d_" + k, v[0], "defect-probe") for k, v in DEFECT_PROBES.items()], frames)
    for k, v in DEFECT_PROBES.items():
        r = pr.get("d_" + k, {})
        probes[k] = "reproduces: " + r.get("why", "")[:200] if r.get("status") == "violation" else "does not reproduce (fixed)"
    res.cov["former_error_path_defects"] = probes

    reported = set()
    for p, r in bad:
        if r["kind"] in reported:
            continue
        reported.add(r["kind"])
        lines = shrink(p, r["kind"], frames) if len(p.lines) <= 400 else p.lines
        rr = evaluate([Prog("r", lines, "shrunk")], frames).get("r", r)
        if rr.get("status") != "violation":
            lines, rr = p.lines, r
        rec = {"property": CID, "kind": rr["kind"], "why": rr["why"], "source": lines, "origin": p.origin, "seed": seed, "frames": frames,
               "offending_offset": rr.get("offset"), "verdict": rr.get("verdict"), "dynamic": rr.get("dynamic"),
               "code": rr.get("dump", {}).get("code"), "signature": signature(rr), "replay_cmd": "./check C02 --replay <this file>"}
        known = [f for f in vlib.known_findings(CID) if f.get("signature") and f["signature"] == rec["signature"]]
        if known:
            res.known_finding(known[0].get("what", rec["signature"]))
        else:
            res.violation(rec)
    if proof_broken and not any(not ni for _, ni in res.violations):
        res.violation(proof_broken, no_input=True)


def replay(path):
    rec = json.load(open(path))
    if "source" not in rec:
        print("replay file names a broken obligation, not an input: %s" % rec.get("broken"))
        return 1
    make_generated()
    ok, log = vlib.coq_make(["%s/Extract.vo" % UNIT])
    r = evaluate([Prog("r", rec["source"], "replay")], rec.get("frames", 6)).get("r", {})
    print("status:", r.get("status"), "verdict:", r.get("verdict"), "dynamic:", (r.get("dynamic") or "")[:300])
    if r.get("status") == "violation":
        print("REPLAY FAILS: %s: %s" % (r.get("kind"), r.get("why")))
        return 1
    print("REPLAY PASSES (no violation on the current tree)")
    return 0
