"""C03_gen - typed generator of error-free, terminating programs of the core script language.

Variables are typed by their number (the same in every scope):
   0..3 int | 4,5 string | 6 hash array int->int (keys 1..3 always present) | 7 hash array
   string->int (keys "ka" "kb" present) | 8 constant array of 3 ints | 9 anything (read only
   where NIL is harmless) | 10..13 handler / function parameters (int) | 16..18 aliases of
   arrays | 20.. loop counters (local only)
   level has 0..7, game 0..3, parm 0..1 (observed by the host after the run).
Labels: 0 main, 1..9 functions, 50..99 goto targets, 100.. exception labels.
Termination: every loop has its own counter that only the loop changes (decremented first in
while/do bodies so that `continue` cannot skip it), gotos are forward or guarded by a counter,
recursion decreases its first argument.
Programs the reference semantics cannot evaluate (a rare slip of the typing discipline) are
dropped by the check; the rate is reported.
"""
import random

from C03_lang import switch_depth_ok, flt

BOUNDARY = [0, 1, 2, 255, 256, 257, 65535, 65536, 65537, 16777215, 16777216, 16777217,
            2147483647, 2147483648, 2147483649, 4294967295, 4294967296, 4294967297,
            2 ** 63 - 2, 2 ** 63 - 1]
SMALL = [0, 1, 2, 3, 4, 5, 7, 8, 10, 13, 100]
WORDS = ["a", "bb", "foo", "bar", "zed", "x y", "Hello", "k9", "", "0", "tab\there", "q\"uote", "back\\slash", "nl\nline", "sp  ace"]
SAFE_WORDS = ["a", "bb", "foo", "bar", "zed", "Hello", "k9", "abc"]
FLOATS = ["0.5", "1.5", "2.25", "0.05", "1.05", "0.125", "3.75", "10.0", "0.0", "100.001", "0.0004", "0.0006", "0.00005",
          "0.999", "0.9996", "1234.5678", "16777216.0", "0.1", "0.2", "0.3", "1e+2", "5e-1", "7.0", "0.001", "2147483648.0"]
ARITH = ["add", "sub", "mul"]
BITS = ["band", "bor", "bxor"]
CMP = ["eq", "ne", "lt", "le", "gt", "ge"]
ALLOPS = ARITH + BITS + ["div", "mod", "shl", "shr"]

INT_IDS = [0, 1, 2, 3]
STR_IDS = [4, 5]


def lv(sc, x, idx=()):
    return ("lv", sc, x, list(idx))


def var(sc, x):
    return ("var", sc, x)


def I(n):
    """an integer constant (negative ones are written with unary minus)"""
    return ("i", n) if n >= 0 else ("neg", ("i", -n))


class Ctx:
    def __init__(self, brk=False, cont=False, depth=0, where="top", handlers=(), extra_ints=(), in_switch=False):
        self.brk, self.cont, self.depth, self.where = brk, cont, depth, where
        self.handlers = tuple(handlers)       # (label, nparams) catchable here, innermost last
        self.extra_ints = tuple(extra_ints)   # additional local int variables readable here
        self.in_switch = in_switch

    def sub(self, **kw):
        c = Ctx(self.brk, self.cont, self.depth + 1, self.where, self.handlers, self.extra_ints, self.in_switch)
        for k, v in kw.items():
            setattr(c, k, v)
        return c


class Gen:
    def __init__(self, rng, flags=None, max_stmts=60, max_depth=5):
        self.rng = rng
        self.flags = flags or {}
        self.max_stmts = max_stmts
        self.max_depth = max_depth
        self.count = 0
        self.next_counter = 20
        self.next_exc = 100
        self.next_goto = 50
        self.funcs = {}          # f -> dict(kind, nparams, rec)
        self.goto_target = None  # a label placed later at the top level of the current thread
        self.cur = None          # the function being generated
        self.scopes = ["l", "l", "l", "g", "v", "m", "p"]
        self.cov = {}

    # ------------------------------------------------------------------ variables
    def choose_globals(self):
        r = self.rng
        self.G = {"int": sorted(r.sample(INT_IDS, r.choice([1, 2, 2, 3]))), "str": [4] if r.random() < 0.5 else [],
                  "arr": r.random() < 0.4}
        self.V = {"int": sorted(r.sample(INT_IDS, r.choice([1, 2, 3, 4]))), "str": r.choice([[4], [4, 5], [5], []]),
                  "arr": r.random() < 0.4}
        self.M = {"int": sorted(r.sample(INT_IDS, r.choice([1, 1, 2, 4])))}
        self.P = {"int": r.choice([[0], [1], [0, 1]])}

    def choose_locals(self):
        r = self.rng
        self.Lc = {"int": sorted(r.sample(INT_IDS, r.choice([2, 2, 3, 4]))), "str": r.choice([[4], [4], [4, 5], []]),
                   "arr": r.random() < 0.5, "sarr": r.random() < 0.25, "carr": r.random() < 0.25}

    def int_vars(self, ctx, writable=False):
        vs = [("l", i) for i in self.Lc["int"]] + [("g", i) for i in self.G["int"]] + [("v", i) for i in self.V["int"]] \
            + [("m", i) for i in self.M["int"]] + [("p", i) for i in self.P["int"]]
        if self.cur and self.cur.get("rec"):
            if writable:
                vs = [v for v in vs if v != ("l", 0)]
            elif ("l", 0) not in vs:
                vs.append(("l", 0))
        if not writable:
            vs += [("l", i) for i in ctx.extra_ints]
            if self.cur:
                vs += [("l", 10 + k) for k in range(self.cur["nparams"])]
        return vs

    def str_vars(self):
        return [("l", i) for i in self.Lc["str"]] + [("g", i) for i in self.G["str"]] + [("v", i) for i in self.V["str"]]

    def arr_vars(self):
        return ([("l", 6)] if self.Lc["arr"] else []) + ([("g", 6)] if self.G["arr"] else []) + ([("v", 6)] if self.V["arr"] else [])

    def pick_int_var(self, ctx, writable=False):
        vs = self.int_vars(ctx, writable)
        if not vs:
            vs = [("l", self.Lc["int"][-1])]
        sc, x = self.rng.choice(vs)
        return sc, x

    # ------------------------------------------------------------------ expressions
    def lit(self):
        r = self.rng.random()
        if r < 0.55:
            return ("i", self.rng.choice(SMALL))
        if r < 0.85:
            return ("i", self.rng.choice(BOUNDARY))
        if r < 0.93:
            return I(-self.rng.choice(SMALL + BOUNDARY))
        b = self.rng.choice(BOUNDARY)
        return ("i", max(0, min(2 ** 63 - 1, b + self.rng.choice([-2, -1, 1, 2]))))

    def small_int(self, ctx):
        """an int expression with a value in 0..3"""
        r = self.rng.random()
        if r < 0.4:
            return ("i", self.rng.randrange(0, 4))
        sc, x = self.pick_int_var(ctx)
        return ("b", "band", var(sc, x), ("i", 3))

    def gen_int(self, ctx, d):
        r = self.rng.random()
        if d <= 0 or r < 0.25:
            if self.rng.random() < 0.5:
                return self.lit()
            sc, x = self.pick_int_var(ctx)
            return var(sc, x)
        if r < 0.55:
            op = self.rng.choice(ARITH + ARITH + BITS)
            return ("b", op, self.gen_int(ctx, d - 1), self.gen_int(ctx, d - 1))
        if r < 0.62:
            op = self.rng.choice(["div", "mod"])
            if self.rng.random() < 0.6:
                dv = I(self.rng.choice([1, 2, 3, 7, 10, 256, -1, -2, -3, 2 ** 31, 2 ** 63 - 1]))
            else:
                dv = ("b", "bor", self.gen_int(ctx, d - 2), ("i", 1))
            return ("b", op, self.gen_int(ctx, d - 1), dv)
        if r < 0.68:
            op = self.rng.choice(["shl", "shr"])
            if self.rng.random() < 0.8:
                cnt = ("i", self.rng.choice([0, 1, 2, 3, 7, 8, 16, 31, 32, 33, 62, 63, 64, 65, 100]))
            else:
                cnt = self.gen_int(ctx, d - 2)
            return ("b", op, self.gen_int(ctx, d - 1), cnt)
        if r < 0.74:
            return ("b", self.rng.choice(CMP), self.gen_int(ctx, d - 1), self.gen_int(ctx, d - 1))
        if r < 0.78:
            return (self.rng.choice(["and", "or"]), self.gen_cond(ctx, d - 1), self.gen_cond(ctx, d - 1))
        if r < 0.82:
            return ("not", self.gen_cond(ctx, d - 1))
        if r < 0.86:
            return ("neg", self.gen_int(ctx, d - 1))
        if r < 0.89:
            return ("cpl", self.gen_int(ctx, d - 1))
        if r < 0.93:
            if not self.arr_vars():
                return self.lit()
            sc, x = self.rng.choice(self.arr_vars())
            return ("x", var(sc, x), ("i", self.rng.randrange(1, 4)))
        if r < 0.95:
            k = self.rng.random()
            if k < 0.4 and self.str_vars():
                sc, x = self.rng.choice(self.str_vars())
                return ("size", var(sc, x))
            if k < 0.8 and self.arr_vars():
                sc, x = self.rng.choice(self.arr_vars())
                return ("size", var(sc, x))
            if self.Lc["carr"]:
                return ("size", var("l", 8))
            return ("size", self.str_lit())
        if r < 0.97:
            if not self.Lc["carr"]:
                return self.lit()
            return ("x", var("l", 8), ("i", self.rng.randrange(1, 4)))
        c = self.gen_call(ctx, d - 1)
        return c if c else self.lit()

    def gen_call(self, ctx, d):
        if not self.cur or self.cur["kind"] == "thread":
            return None
        cands = [f for f, info in self.funcs.items() if info["kind"] == "wait" and f < self.cur["f"]]
        if not cands:
            return None
        f = self.rng.choice(cands)
        info = self.funcs[f]
        args = []
        for k in range(info["nparams"]):
            if k == 0 and info["rec"]:
                args.append(self.small_int(ctx))
            else:
                args.append(self.gen_int(ctx, min(d, 1)))
        return ("call", f, args)

    def str_lit(self):
        return ("s", self.rng.choice(WORDS))

    def gen_str(self, ctx, d):
        r = self.rng.random()
        if d <= 0 or r < 0.35:
            if self.rng.random() < 0.5 or not self.str_vars():
                return self.str_lit()
            sc, x = self.rng.choice(self.str_vars())
            return var(sc, x)
        if r < 0.6:
            return ("b", "add", self.gen_str(ctx, d - 1), self.gen_str(ctx, d - 1))
        if r < 0.8:
            return ("b", "add", self.gen_str(ctx, d - 1), self.gen_int(ctx, d - 1))
        return ("b", "add", self.gen_int(ctx, d - 1), self.gen_str(ctx, d - 1))

    def gen_cond(self, ctx, d):
        r = self.rng.random()
        if r < 0.45:
            return ("b", self.rng.choice(CMP), self.gen_int(ctx, max(0, d - 1)), self.gen_int(ctx, max(0, d - 1)))
        if r < 0.6:
            return self.gen_int(ctx, d)
        if r < 0.7:
            return self.gen_str(ctx, min(d, 1))
        if r < 0.8:
            a, b = self.gen_str(ctx, min(d, 1)), self.gen_str(ctx, min(d, 1))
            return ("b", self.rng.choice(["eq", "ne"]), a, b)
        if r < 0.86:
            # an integer compared with its decimal text
            return ("b", self.rng.choice(["eq", "ne"]), self.gen_int(ctx, 0), ("s", str(self.rng.choice(SMALL))))
        if r < 0.93:
            return ("not", self.gen_cond(ctx, d - 1)) if d > 0 else ("not", self.gen_int(ctx, 0))
        if r < 0.96:
            return ("b", self.rng.choice(["eq", "ne"]), var("l", 9), ("nil",))
        if r < 0.98 and self.flags.get("floats", True):
            f = flt(self.rng.choice(FLOATS))
            return f if self.rng.random() < 0.6 else ("not", f)
        return var("l", 9)

    def gen_printable(self, ctx, d):
        r = self.rng.random()
        if r < 0.5:
            return self.gen_int(ctx, d)
        if r < 0.8:
            return self.gen_str(ctx, min(d, 2))
        if r < 0.88:
            return var("l", 9)
        if r < 0.94 and self.arr_vars():
            sc, x = self.rng.choice(self.arr_vars())
            return ("x", var(sc, x), ("i", self.rng.randrange(0, 6)))
        if r < 0.955:
            return ("nil",)
        if r < 0.985 and self.flags.get("floats", True):
            f = flt(self.rng.choice(FLOATS))
            k = self.rng.random()
            if k < 0.5:
                return f
            if k < 0.75:
                return ("neg", f)
            return ("b", "add", ("s", self.rng.choice(SAFE_WORDS)), f) if k < 0.9 else ("b", "add", ("neg", f), ("s", "!"))
        if self.Lc["sarr"]:
            return ("x", var("l", 7), ("s", self.rng.choice(["ka", "kb", "kc"])))
        return self.gen_int(ctx, 1)

    # ------------------------------------------------------------------ statements
    def note(self, kind, ctx):
        k = (kind, ctx.where)
        self.cov[k] = self.cov.get(k, 0) + 1
        self.count += 1

    def gen_simple(self, ctx):
        r = self.rng.random()
        d = self.rng.choice([0, 1, 1, 2, 2, 3])
        if r < 0.22:
            sc, x = self.pick_int_var(ctx, True)
            self.note("set", ctx)
            return ("set", lv(sc, x), self.gen_int(ctx, d))
        if r < 0.30 and self.str_vars():
            sc, x = self.rng.choice(self.str_vars())
            self.note("set", ctx)
            return ("set", lv(sc, x), self.gen_str(ctx, min(d, 2)))
        if r < 0.42:
            sc, x = self.pick_int_var(ctx, True)
            op = self.rng.choice(ALLOPS)
            self.note("cset", ctx)
            if op in ("div", "mod"):
                e = I(self.rng.choice([1, 2, 3, 5, -1, -2, 256]))
            elif op in ("shl", "shr"):
                e = ("i", self.rng.choice([0, 1, 2, 5, 31, 32, 63, 64]))
            else:
                e = self.gen_int(ctx, min(d, 2))
            return ("cset", op, lv(sc, x), e)
        if r < 0.46 and self.str_vars():
            sc, x = self.rng.choice(self.str_vars())
            self.note("cset", ctx)
            return ("cset", "add", lv(sc, x), self.gen_printable_nonnil(ctx))
        if r < 0.54:
            sc, x = self.pick_int_var(ctx, True)
            k = self.rng.choice(["inc", "dec"])
            self.note(k, ctx)
            return (k, lv(sc, x))
        if r < 0.62 and self.arr_vars():
            sc, x = self.rng.choice(self.arr_vars())
            self.note("set-elem", ctx)
            return ("set", lv(sc, x, [("i", self.rng.randrange(0, 6)) if self.rng.random() < 0.7 else self.small_int(ctx)]),
                    self.gen_int(ctx, min(d, 2)))
        if r < 0.66 and self.arr_vars():
            sc, x = self.rng.choice(self.arr_vars())
            k = self.rng.choice(["cset", "inc"])
            self.note(k + "-elem", ctx)
            l = lv(sc, x, [("i", self.rng.randrange(1, 4))])
            return ("cset", self.rng.choice(ARITH), l, self.gen_int(ctx, 1)) if k == "cset" else ("inc", l)
        if r < 0.70:
            self.note("set-nilable", ctx)
            return ("set", lv("l", 9), self.gen_printable(ctx, 1))
        if r < 0.73 and self.Lc["sarr"]:
            self.note("set-elem", ctx)
            return ("set", lv("l", 7, [("s", self.rng.choice(["ka", "kb", "kc", "kd"]))]), self.gen_int(ctx, 1))
        if r < 0.76 and self.Lc["carr"]:
            self.note("set-elem", ctx)
            return ("set", lv("l", 8, [("i", self.rng.randrange(1, 4))]), self.gen_int(ctx, 1))
        if r < 0.80:
            t = self.gen_thread_call(ctx)
            if t:
                return t
        self.note("pr", ctx)
        n = self.rng.choice([1, 1, 1, 2, 3])
        return ("pr", [self.gen_printable(ctx, d) for _ in range(n)])

    def gen_printable_nonnil(self, ctx):
        return self.gen_int(ctx, 1) if self.rng.random() < 0.5 else self.gen_str(ctx, 1)

    def gen_thread_call(self, ctx):
        if not self.cur:
            return None
        cands = [f for f, info in self.funcs.items() if info["kind"] == "thread" and f < self.cur["f"]]
        if not cands:
            return None
        f = self.rng.choice(cands)
        self.note("th", ctx)
        return ("th", f, [self.gen_int(ctx, 1) for _ in range(self.funcs[f]["nparams"])])

    def counter(self):
        c = self.next_counter
        self.next_counter += 1
        return c

    def loop_cond(self, c):
        v = var("l", c)
        return self.rng.choice([
            ("b", "gt", v, ("i", 0)), v, ("not", ("b", "eq", v, ("i", 0))), ("not", ("b", "le", v, ("i", 0))),
            ("b", "lt", ("i", 0), v), ("b", "ne", v, ("i", 0)), ("and", v, ("i", 1)), ("not", ("not", v))])

    def gen_stmt(self, ctx):
        """one statement (possibly compound); returns a list of statements (a loop may need its counter set first)"""
        room = self.max_stmts - self.count
        if ctx.depth >= self.max_depth or room < 4:
            return [self.gen_simple(ctx)]
        r = self.rng.random()
        if r < 0.45:
            return [self.gen_simple(ctx)]
        if r < 0.53:
            self.note("if", ctx)
            return [("if", self.gen_cond(ctx, 2), self.gen_body(ctx.sub(where=self.inner(ctx, "if"))))]
        if r < 0.60:
            self.note("ife", ctx)
            c2 = ctx.sub(where=self.inner(ctx, "if"))
            return [("ife", self.gen_cond(ctx, 2), self.gen_body(c2), self.gen_body(c2))]
        if r < 0.66:
            self.note("while", ctx)
            c = self.counter()
            body = [("dec", lv("l", c))] + self.gen_list(ctx.sub(brk=True, cont=True, where="loop", in_switch=False,
                                                                 extra_ints=ctx.extra_ints + (c,)), self.rng.randrange(1, 4))
            return [("set", lv("l", c), ("i", self.rng.randrange(0, 4))), ("while", self.loop_cond(c), ("blk", body))]
        if r < 0.72:
            self.note("for", ctx)
            c = self.counter()
            k = self.rng.randrange(0, 4)
            init = ("set", lv("l", c), ("i", 0)) if self.rng.random() < 0.85 else ("nop",)
            pre = [] if init[0] != "nop" else [("set", lv("l", c), ("i", 0))]
            cond = self.rng.choice([("b", "lt", var("l", c), ("i", k)), ("b", "ne", var("l", c), ("i", k)),
                                    ("not", ("b", "ge", var("l", c), ("i", k)))])
            inc = self.rng.choice([("inc", lv("l", c)), ("cset", "add", lv("l", c), ("i", 1)),
                                   ("set", lv("l", c), ("b", "add", var("l", c), ("i", 1)))])
            body = self.gen_body(ctx.sub(brk=True, cont=True, where="loop", in_switch=False, extra_ints=ctx.extra_ints + (c,)))
            return pre + [("for", init, cond, inc, body)]
        if r < 0.77:
            self.note("do", ctx)
            c = self.counter()
            body = [("dec", lv("l", c))] + self.gen_list(ctx.sub(brk=True, cont=True, where="loop", in_switch=False,
                                                                 extra_ints=ctx.extra_ints + (c,)), self.rng.randrange(1, 4))
            return [("set", lv("l", c), ("i", self.rng.randrange(1, 4))), ("do", ("blk", body), self.loop_cond(c))]
        if r < 0.85:
            s = self.gen_switch(ctx)
            if s:
                return [s]
            return [self.gen_simple(ctx)]
        if r < 0.91:
            return [self.gen_try(ctx)]
        if r < 0.94:
            self.note("blk", ctx)
            return [("blk", self.gen_list(ctx.sub(), self.rng.randrange(0, 3)))]
        if r < 0.97 and ctx.handlers:
            return [self.gen_throw(ctx, guarded=True)]
        r2 = self.rng.random()
        if r2 < 0.12 and self.goto_target is not None and self.flags.get("goto", True):
            self.note("goto", ctx)
            return [("if", self.gen_cond(ctx, 1), ("goto", self.goto_target))]
        if r2 < 0.22 and self.cur:
            self.note("end", ctx)
            return [("if", self.gen_cond(ctx, 1), self.gen_end(ctx))]
        if ctx.brk and self.rng.random() < 0.5:
            self.note("brk", ctx)
            return [("if", self.gen_cond(ctx, 1), ("brk",))]
        if ctx.cont:
            self.note("cont", ctx)
            return [("if", self.gen_cond(ctx, 1), ("cont",))]
        return [self.gen_simple(ctx)]

    def gen_end(self, ctx):
        k = self.cur["kind"]
        if k == "wait":
            return ("end1", self.gen_int(ctx, 1))
        if k == "thread":
            return ("end0",)
        return ("end1", self.gen_printable_nonnil(ctx)) if self.rng.random() < 0.7 else ("end0",)

    def inner(self, ctx, w):
        return ctx.where if ctx.where in ("loop", "switch", "try", "catch") else w

    def gen_body(self, ctx):
        n = self.rng.choice([1, 1, 2, 3])
        l = self.gen_list(ctx, n)
        if len(l) == 1 and self.rng.random() < 0.5:
            return l[0]
        return ("blk", l)

    def gen_list(self, ctx, n):
        out = []
        for _ in range(n):
            out += self.gen_stmt(ctx)
        # jumps at the end of a list
        r = self.rng.random()
        if ctx.brk and r < 0.08:
            self.note("brk", ctx)
            out.append(("brk",))
        elif ctx.cont and r < 0.14:
            self.note("cont", ctx)
            out.append(("cont",))
        elif ctx.handlers and r < 0.18:
            out.append(self.gen_throw(ctx, guarded=False))
        return out

    def gen_throw(self, ctx, guarded):
        f, np = self.rng.choice(ctx.handlers[-2:]) if self.rng.random() < 0.8 else self.rng.choice(ctx.handlers)
        self.note("throw", ctx)
        t = ("throw", f, [self.gen_int(ctx, 1) for _ in range(np)])
        if guarded:
            return ("if", self.gen_cond(ctx, 1), t)
        return t

    def gen_try(self, ctx):
        self.note("try", ctx)
        f = self.next_exc
        self.next_exc += 1
        np = self.rng.choice([0, 1, 1, 2])
        body_ctx = ctx.sub(where="try", handlers=ctx.handlers + ((f, np),))
        body = self.gen_list(body_ctx, self.rng.randrange(1, 4))
        if self.rng.random() < 0.7:
            body.insert(self.rng.randrange(0, len(body) + 1), self.gen_throw(body_ctx, guarded=self.rng.random() < 0.7))
        hctx = ctx.sub(where="catch") if self.flags.get("jump_in_catch", True) else ctx.sub(where="catch", brk=False, cont=False)
        params = [("l", 14 + k) for k in range(np)]
        hbody = [("pr", [("s", "caught")] + [var("l", 14 + k) for k in range(np)])] if self.rng.random() < 0.7 else []
        if hbody:
            self.note("pr", hctx)
        hbody += self.gen_list(hctx, self.rng.randrange(0, 3))
        hs = [(f, params, hbody)]
        if self.flags.get("multi_handler", True) and self.rng.random() < 0.25:
            f2 = self.next_exc
            self.next_exc += 1
            h2 = [("pr", [("s", "second"), var("l", 9)])]
            self.note("pr", hctx)
            hs.append((f2, [("l", 9)] if self.rng.random() < 0.5 else [], h2 + self.gen_list(hctx, self.rng.randrange(0, 2))))
            if self.rng.random() < 0.5:
                body.append(("if", self.gen_cond(body_ctx, 1), ("throw", f2, [self.gen_int(body_ctx, 0)] if self.rng.random() < 0.7 else [])))
                self.note("throw", body_ctx)
        return ("try", ("blk", body), hs)

    def gen_switch(self, ctx):
        self.note("sw", ctx)
        sctx = ctx.sub(brk=True, cont=ctx.cont and self.flags.get("continue_in_switch", True), where="switch", in_switch=True)
        on_str = self.rng.random() < 0.3
        if on_str:
            labels = self.rng.sample(SAFE_WORDS, self.rng.randrange(1, 4))
            e = ("s", self.rng.choice(SAFE_WORDS)) if self.rng.random() < 0.5 or not self.str_vars() else var(*self.rng.choice(self.str_vars()))
            items = [("cs", w) for w in labels]
        else:
            pool = [0, 1, 2, 3, -1, 5, 256, 65536]
            if self.flags.get("case64", True):
                pool += [4294967296, 4294967297, -4294967297, 2 ** 63 - 1, -(2 ** 63 - 1)]
            labels = self.rng.sample(pool, self.rng.randrange(1, 5))
            r = self.rng.random()
            if r < 0.5:
                e = self.small_int(ctx)
            elif r < 0.8:
                e = I(self.rng.choice(labels + [9]))
            else:
                e = self.gen_int(ctx, 1)
            items = [("ci", z) for z in labels]
            if self.rng.random() < 0.15:
                items.append(("cs", "zz"))
        if self.rng.random() < 0.6:
            items.insert(self.rng.randrange(0, len(items) + 1), ("cd",))
        out = []
        if self.rng.random() < 0.1:
            out.append(("st", self.gen_simple(sctx)))          # unreachable statements before the first label
        for lab in items:
            out.append(lab)
            if self.rng.random() < 0.2:
                continue                                        # two labels on one section
            for s in self.gen_list(sctx, self.rng.randrange(0, 3)):
                out.append(("st", s))
            if self.rng.random() < 0.6:
                self.note("brk", sctx)
                out.append(("st", ("brk",)))
        if not self.flags.get("deep_switch", True) and not switch_depth_ok(out):
            return None
        return ("sw", e, out)

    # ------------------------------------------------------------------ functions and programs
    def prelude(self, kind):
        """initialise the typed variables a thread uses"""
        out = []

        def init_scope(sc, d):
            for i in d.get("int", []):
                out.append(("set", lv(sc, i), self.lit()))
            for i in d.get("str", []):
                out.append(("set", lv(sc, i), self.str_lit()))
            if d.get("arr"):
                for k in (1, 2, 3):
                    out.append(("set", lv(sc, 6, [("i", k)]), ("i", self.rng.choice(SMALL))))
            if d.get("sarr"):
                out.append(("set", lv(sc, 7, [("s", "ka")]), ("i", self.rng.choice(SMALL))))
                out.append(("set", lv(sc, 7, [("s", "kb")]), ("i", self.rng.choice(SMALL))))
            if d.get("carr"):
                out.append(("set", lv(sc, 8), ("carr", [("i", self.rng.choice(SMALL)) for _ in range(3)])))
        init_scope("l", self.Lc)
        if kind != "thread":
            init_scope("g", self.G)
        if kind == "main":
            init_scope("v", self.V)
            init_scope("m", self.M)
            init_scope("p", self.P)
        self.rng.shuffle(out)
        self.count += len(out)
        return out

    def gen_function(self, f, kind, nparams, rec):
        info = {"f": f, "kind": kind, "nparams": nparams, "rec": rec}
        self.cur = info
        self.choose_locals()
        items = [("lab", f, [("l", 10 + k) for k in range(nparams)])]
        body = []
        if rec:
            # the first parameter is copied to local.v0 which nothing else writes
            body.append(("set", lv("l", 0), var("l", 10)))
        pre = self.prelude(kind)
        if rec:
            pre = [s for s in pre if not (s[1][1] == "l" and s[1][2] == 0 and not s[1][3])]
        body += pre
        ctx = Ctx()
        if rec:
            body.append(("if", ("b", "le", var("l", 0), ("i", 0)), ("end1", self.gen_int(ctx, 1))))
            self.count += 1
        mid = self.gen_sections(ctx, self.rng.randrange(1, 5))
        if kind == "wait":
            if rec:
                self.funcs[f] = info       # visible to itself for the recursive call
                rc = ("call", f, [("b", "sub", var("l", 0), ("i", 1))] + [self.gen_int(ctx, 0) for _ in range(nparams - 1)])
                last = ("end1", ("b", self.rng.choice(ARITH), self.gen_int(ctx, 1), rc))
            else:
                last = ("end1", self.gen_int(ctx, 2)) if self.rng.random() < 0.95 else ("end0",)
        else:
            last = ("end0",)
        self.count += 1
        self.funcs[f] = info
        self.cur = None
        return items + [("st", s) for s in body] + mid + [("st", last)]

    def gen_sections(self, ctx, n):
        """top-level statements of a thread with forward gotos (also out of nested statements) to labels between them"""
        top = []
        pending = None
        for _ in range(n):
            if pending is not None and self.rng.random() < 0.5:
                top.append(("lab", pending, []))
                pending = None
                self.goto_target = None
            if pending is None and self.rng.random() < 0.25 and self.flags.get("goto", True):
                pending = self.next_goto
                self.next_goto += 1
                self.goto_target = pending
                if self.rng.random() < 0.6:
                    self.note("goto", ctx)
                    top.append(("st", ("if", self.gen_cond(ctx, 1), ("goto", pending)) if self.rng.random() < 0.7 else ("goto", pending)))
            top += [("st", s) for s in self.gen_stmt(ctx)]
        if pending is not None:
            top.append(("lab", pending, []))
        self.goto_target = None
        return top

    def gen_program(self):
        """-> list of items"""
        self.choose_globals()
        nfun = self.rng.choice([0, 1, 2, 3])
        funs = []
        for k in range(nfun):
            f = k + 1
            kind = self.rng.choice(["wait", "wait", "thread"])
            rec = kind == "wait" and self.rng.random() < 0.35
            nparams = self.rng.choice([1, 2]) if rec else self.rng.choice([0, 1, 2])
            saved, self.max_stmts = self.max_stmts, self.count + 18
            funs.append(self.gen_function(f, kind, nparams, rec))
            self.max_stmts = saved
        nargs = self.rng.choice([0, 0, 0, 1, 2])
        self.host_args = [self.rng.choice(SMALL + BOUNDARY + [-1, -7, -(2 ** 63 - 1)]) for _ in range(nargs)]
        info = {"f": 10, "kind": "main", "nparams": nargs, "rec": False}
        self.cur = info
        self.choose_locals()
        self.max_stmts = max(self.max_stmts, self.count + 30)
        main = [("lab", 0, [("l", 10 + k) for k in range(nargs)])]
        body = self.prelude("main")
        ctx = Ctx()
        top = self.gen_sections(ctx, self.rng.randrange(2, 9))
        r = self.rng.random()
        if r < 0.6:
            top.append(("st", ("end1", self.gen_printable_nonnil(ctx))))
        elif r < 0.8:
            top.append(("st", ("end0",)))
        self.cur = None
        prog = main + [("st", s) for s in body] + top
        if not (prog[-1][0] == "st" and prog[-1][1][0] in ("end0", "end1")) and funs:
            prog.append(("st", ("end0",)))
        for fn in funs:
            prog += fn
        return prog
