"""C13 — nothing outlives its script: idle means empty, reset means clean."""
import glob
import itertools
import os
import random
import re

import vlib
from vlib import Case

LEVEL = "proof"
WAITS = [0, 1, 1, 2, 5]

# VERIF_C13_FLAGS: comma separated switches.
#   no-waitparent / no-waitpeer   leave out the instructions that made Reset / recompile delete a thread or an
#                                 instance twice before /repo commit 2400851 (F-C13-a, F-C13-b); they are generated
#                                 by default since that fix
#   strictobjects                 also demand that Reset leaves no script-created object (it does not free objects
#                                 that were published by a target name or a level variable: reported, not flagged)
FLAGS = set(x for x in os.environ.get("VERIF_C13_FLAGS", "").split(",") if x)


# ------------------------------------------------------------------ programs (token lists)

class ProgGen:
    """random abstract programs; markers are unique within a case"""

    def __init__(self, rng):
        self.rng = rng
        self.m = 0

    def marker(self):
        self.m += 1
        return "p%d" % self.m

    def xt_instr(self):
        rng = self.rng
        k = rng.randint(0, 1)
        c = rng.choice(["st", "st", "xw", "xw", "xw", "xp", "xf", "ps", "Wm", "gs", "gs", "gp", "gp", "gp"])
        if c == "Wm":
            return "Wm"
        if c == "gs":
            return "gs%d.%d" % (rng.randint(0, 8), rng.randint(1, 9))
        if c == "gp":
            return "gp%d" % rng.randint(0, 8)
        if c == "xw":
            return "xw%d.%d" % (k, rng.choice(WAITS))
        if c == "ps":
            return "ps"
        return "%s%d" % (c, k)

    def block(self, depth, size, ext=False, xt=False):
        rng = self.rng
        out = [self.marker()]
        n = rng.randint(0, size)
        for _ in range(n):
            r = rng.random()
            if xt and rng.random() < 0.3:
                out.append(self.xt_instr())
                out.append(self.marker())
                continue
            if r < 0.30:
                out.append("w%d" % rng.choice(WAITS))
                out.append(self.marker())
            elif r < 0.50 and depth > 0:
                out += ["T("] + self.block(depth - 1, max(1, size // 2), ext, xt) + [")"]
                if rng.random() < 0.7:
                    out.append(self.marker())
            elif r < 0.72 and depth > 0:
                out += ["W("] + self.block(depth - 1, max(1, size // 2), ext, xt) + [")"]
                out.append(self.marker())
            elif ext and r < 0.95:
                out.append(self.ext_instr())
            else:
                out.append(self.marker())
        return out

    def ext_instr(self):
        rng = self.rng
        k = rng.randint(1, 3)
        if rng.random() < 0.12:
            return rng.choice(["Wm", "tm", "om", "ow", "em", "tf", "wf", "ef", "eo"])
        c = rng.choice(["o", "o", "u", "u", "g", "x", "t", "n", "n", "a", "l", "d", "f", "z", "q"] +
                       (["wp"] if "no-waitparent" not in FLAGS else []) + (["sv", "wl"] if "no-waitpeer" not in FLAGS else []))
        if c in ("o", "u", "g", "x", "z"):
            return "%s%d" % (c, k)
        if c in ("t", "n"):
            return "%s%d.%d" % (c, k, rng.randint(1, 2))
        if c == "d":
            return "d%d" % rng.choice([0, 1, 3])
        if c == "f":
            return "f%d" % rng.randint(1, 3)
        return c


def positions(tokens):
    """insertion points of a host call inside a program: before every token and at the end"""
    return list(range(len(tokens) + 1))


def inject(tokens, pos, tok):
    return tokens[:pos] + [tok] + tokens[pos:]


SENTINEL = ["S p77 w1 p78", "T 1", "X", "T 9", "X"]


def history(rng, nthreads, nframes, depth, size, ext=False, xt=False):
    """-> list of ops; programs as token lists inside ('S', tokens)"""
    pg = ProgGen(rng)
    ops = []
    starts = sorted(rng.randrange(0, nframes + 1) for _ in range(nthreads))
    for f in range(nframes + 1):
        for s in starts:
            if s == f:
                ops.append(("S", pg.block(depth, size, ext, xt)))
                if (ext or xt) and rng.random() < 0.2:
                    ops.append(("M", rng.randrange(0, sum(1 for o in ops if o[0] == "S"))))
                if ext and rng.random() < 0.1:
                    ops.append((rng.choice(["MO", "MF"]),))
                if ext and "no-waitpeer" not in FLAGS and rng.random() < 0.3:
                    ops.append(("E", sum(1 for o in ops if o[0] == "S") - 1))     # a second instance of the same script
        if f < nframes:
            ops.append(("T", rng.choice([1, 1, 2, 3])))
            ops.append(("X",))
    return ops


def render(ops):
    out = []
    for o in ops:
        if o[0] == "S":
            out.append("S " + " ".join(o[1]))
        elif len(o) == 2:
            out.append("%s %s" % o)
        else:
            out.append(o[0])
    return out


def variants(ops, rng, limit=None, recompile=True, destroy=True):
    """the base history plus: a Reset / recompile / context destruction injected at every frame
    boundary (between any two host ops) and a host_reset / host_recompile at every host-call
    boundary (every instruction position of every program).  -> list of (tag, op lines)"""
    res = [("base", render(ops) + ["T 9", "X", "T 9", "X"])]
    nstart = 0
    inj = []
    for i in range(len(ops) + 1):
        inj.append(("frame-reset", ops[:i] + [("R",)] + ops[i:], None))
        nstarted = sum(1 for o in ops[:i] if o[0] == "S")
        if recompile:
            for k in range(nstarted):
                inj.append(("frame-recompile", ops[:i] + [("C", k)] + ops[i:], None))
        if destroy:
            inj.append(("frame-destroy", ops[:i] + [("D",)], "stop"))
    for i, o in enumerate(ops):
        if o[0] != "S":
            continue
        for pos in positions(o[1]):
            inj.append(("call-reset", ops[:i] + [("S", inject(o[1], pos, "R"))] + ops[i + 1:], None))
            if recompile:
                inj.append(("call-recompile", ops[:i] + [("S", inject(o[1], pos, "C"))] + ops[i + 1:], None))
    if limit is not None and len(inj) > limit:
        inj = rng.sample(inj, limit)
    for tag, o2, stop in inj:
        lines = render(o2)
        if not stop:
            lines += ["T 9", "X"] + SENTINEL
        res.append((tag, lines))
    return res


# ------------------------------------------------------------- exhaustive small programs

def skeletons(maxlen, depth, sublen=1):
    """all programs (token lists without markers) with at most maxlen instructions in the outer block and at
    most sublen in every nested block, nesting <= depth"""
    atoms = [["w0"], ["w1"], ["p"]]
    if depth > 0:
        for sub in skeletons(sublen, depth - 1, sublen):
            atoms.append(["T("] + sub + [")"])
            atoms.append(["W("] + sub + [")"])
    res = [[]]
    for n in range(1, maxlen + 1):
        for combo in itertools.product(atoms, repeat=n):
            res.append([t for a in combo for t in a])
    return res


def with_markers(tokens):
    """a distinct println before the program, after every instruction and at the start of every block"""
    out, m = [], [0]

    def mk():
        m[0] += 1
        return "p%d" % m[0]
    out.append(mk())
    for t in tokens:
        if t == "p":
            out.append(mk())
        elif t in ("T(", "W("):
            out += [t, mk()]
        elif t == ")":
            out += [")", mk()]
        else:
            out += [t, mk()]
    return out


XCMDS = ["xw0.0", "xw0.2", "xp0", "xf0"]


def xthread_histories():
    """a thread B that stored a reference to itself, in each state (timed wait, waiting for a waitthread callee,
    paused, running in the middle of a `thread` call, suspended in the middle of a `waitthread` call, itself the
    executing thread, ended), and every sequence of one or two wait / waitframe / pause commands applied to it"""
    seqs = [[a] for a in XCMDS] + [[a, b] for a in XCMDS for b in XCMDS]
    res = []
    for cmds in seqs:
        outside = [("st0 w3", 0), ("st0 w3", 1), ("st0 W( w3 )", 0), ("st0 W( w3 )", 1), ("st0 ps", 0), ("st0", 0)]
        for tgt, early in outside:
            ops = [("S", with_markers(tgt.split()))]
            if early:
                ops += [("T", 1), ("X",)]
            ops += [("S", with_markers(cmds)), ("T", 1), ("X",), ("T", 2), ("X",)]
            res.append(ops)
        for tgt in ("st0 T( %s ) w1", "st0 W( %s )", "st0 W( T( %s ) w1 )", "st0 %s"):
            ops = [("S", ["p90", "w2", "p91"]), ("S", with_markers((tgt % " ".join(cmds)).split())), ("T", 1), ("X",), ("T", 2), ("X",)]
            res.append(ops)
    return res


def failstart_histories(ext):
    """thread starts that create a new script instance and then fail (label missing in the same file; ext: started by
    an object, in another file, file missing), from the script and from the host, each followed by frames, a recompile
    of the script and a last refused start: the instance count must never exceed the thread count"""
    toks = ["Wm"] if not ext else ["Wm", "tm", "om", "ow", "em", "tf", "wf", "ef"]
    res = []
    for t in toks:
        for shape in ("%s", "%s w1", "w1 %s", "T( %s )", "W( %s )", "W( %s w1 )", "%s %s", "T( w1 %s )"):
            prog = with_markers((shape.replace("%s", t)).split())
            hosts = [("M", 0)] if not ext else [("M", 0), ("MO",), ("MF",)]
            for h in hosts:
                res.append([("S", prog), h, ("T", 1), ("X",), h, ("C", 0), ("T", 2), ("X",), h])
    return res


def gvar_histories():
    """scripts store into variables of level / game / parm; after the usual injections (Reset, recompile, ...) a NEW script
    reads the old names and fresh ones, interned in a different order: after a Reset every one must read as not set
    (the engine runs scripts as if new), after the end of the threads / a recompile the values are still there"""
    res = []
    for sets in (["gs0.5"], ["gs0.5", "gs4.3"], ["gs1.2", "gs8.7", "gs3.4"], ["gs0.5", "w1", "gs0.6"], ["T( gs2.9 )", "gs7.1"]):
        for reads in (["gp1", "gp0"], ["gp2", "gp1", "gp0", "gp5", "gp4", "gp8"], ["gp6", "gp3", "gp0", "gs1.4", "gp1"]):
            toks = " ".join(sets).split()
            ops = [("S", with_markers(toks)), ("T", 1), ("X",), ("S", with_markers(reads)), ("T", 1), ("X",),
                   ("S", with_markers(list(reversed(reads))))]
            res.append(ops)
    return res


class C13(vlib.HistoryProp):
    cid = "C13"
    variant = "asan"
    harness_sources = ["harness/C13.cpp"]
    use_lib = True
    coq_dirs = ["Base", "C13"]
    has_monitor = False
    batch = 2500
    timeout = 900

    def __init__(self):
        self.stats = {}

    def bump(self, k, n=1):
        self.stats[k] = self.stats.get(k, 0) + n

    def assumptions(self):
        return [
            "injected integral millisecond clock (hook H1), constant during an Execute; time scale 1",
            "Coq model and theorems: threads are abstract programs of println / wait / thread / waitthread / host_reset / host_recompile / "
            "level.r<k> = local / pause / level.r<k> wait|waitframe|pause (timing commands applied to another thread through a weak reference) / "
            "level.|game.|parm.va|vb|vc = x and printing them (global variables: they outlive their threads, not a Reset) / "
            "waitthread <missing label> (a new instance whose start fails) and the refused host start ExecuteThread(script, <missing label>) "
            "(each wait-for and notify table holds at most one entry; Stop of a thread that still waits for somebody does not occur); "
            "the interpreter's execution of other statements is C03's subject, waittill/notify C07's",
            "SAMPLED ONLY (real engine under ASan, direct checks of the observed counts, no Coq model): waittill / notify on script-created "
            "objects and on threads (parent thread, a peer instance's thread), spawn / remove of host entities, CreateListener, commanddelay "
            "(queued events), arrays, loops, pause, several instances of one script, destruction of the context at every frame boundary",
            "exactly-once destruction is a theorem about the model (ids are never reused there; a second destruction or the use of a "
            "destroyed object sets the flag ub; proved: the destructors - delete thread with its cascade, destroy instance, Reset, "
            "recompile - never raise it on a state of the invariant and conserve pool + log; every error-free step keeps the invariant); "
            "NOT proved, sampled only: that the step loop as a whole never raises an error flag (no harness/model line ever carried "
            "ERR=ub or ERR=hang) and the refinement run = spec_run (model lines `m` and specification lines `s` are compared on every "
            "case); on the real engine it is observed as: pool counts of "
            "ScriptThread/ScriptVM/ScriptClass equal to the model's after every host op, no ASan report (the pools recycle memory "
            "without poisoning it: a double destruction is caught when it reaches malloc'ed memory - stacks, variable tables, the "
            "pool block itself), the instance chain has as many links as the pool, a sentinel script runs as on a new engine",
            "destroyed host entities are counted by the harness's own classes (constructor/destructor census with a magic word)",
            "TrackedInstances::Cleanup() is called by the harness after every host op (the engine itself only calls it when the context dies)",
            "Reset does not destroy script-created objects that were published by a target name or a level variable (they stay in "
            "TrackedInstances until the context is destroyed): taken as specified behaviour; objects referenced only by local variables "
            "must be gone once their threads are",
            "leak check at context destruction: counts of the harness's entity census only (LeakSanitizer is off in the shared ASan "
            "options; the library keeps process-wide caches)",
        ]

    # ------------------------------------------------------------------ generation
    def gen(self, tier, seed):
        rng = random.Random(seed)
        cases = []
        k = [0]

        def add(lines, origin, ext=False):
            cases.append(Case("%s%d" % ("x" if ext else "m", k[0]), "ext" if ext else "", lines, origin))
            k[0] += 1

        for p in sorted(glob.glob(os.path.join(vlib.VERIF, "corpus", "C13", "*.txt"))):
            lines = [l.strip() for l in open(p) if l.strip() and not l.startswith("#")]
            ext = bool(lines) and lines[0] == "ext"
            if ext:
                lines = lines[1:]
            cases.append(Case("c_" + os.path.basename(p)[:-4], "ext" if ext else "", lines, "corpus"))
        quick = tier == "quick"
        # (1) exhaustive: every program skeleton (<= 2 instructions per block, nesting <= 1; thorough: <= 2) started at
        #     frame 0 next to a bystander thread of another script, two frames; every injection point
        sk = skeletons(2, 1, 1) if quick else skeletons(2, 2, 1) + skeletons(1, 1, 2)
        for toks in sk:
            prog = with_markers(toks)
            ops = [("S", ["p90", "w1", "p91", "w1", "p92"]), ("S", prog), ("T", 1), ("X",), ("T", 1), ("X",)]
            vs = variants(ops, rng, limit=None, recompile=True, destroy=not quick)
            if quick:
                # the bystander's own injection points are not interesting: drop injections into program 0
                vs = [v for v in vs if not v[1][0].startswith("S p90 R") and " R " not in v[1][0] and " C " not in v[1][0]
                      and not v[1][0].endswith(" R") and not v[1][0].endswith(" C") and not v[1][0].startswith("S R") and not v[1][0].startswith("S C")]
                if len(vs) > 31:
                    vs = [vs[0]] + rng.sample(vs[1:], 30)
            for tag, lines in vs:
                add(lines, "exhaustive-" + tag)
        # (1b) cross-thread timing commands: every state of the target x every sequence of <= 2 commands x injections
        for ops in xthread_histories():
            vs = variants(ops, rng, limit=(10 if quick else None), recompile=True, destroy=True)
            for tag, lines in vs:
                add(lines, "xthread-" + tag)
        # (1d) global variables across Reset / recompile / end of threads
        for ops in gvar_histories():
            for tag, lines in variants(ops, rng, limit=(16 if quick else None), recompile=True, destroy=False):
                # the sentinel part reads the variables again, in yet another order
                lines = lines + ["S p60 gp8 gp4 gp0 gp1 gp5 gp2", "T 1", "X"]
                add(lines, "gvar-" + tag)
        # (1c) thread starts that create a new instance and fail
        for ext in (False, True):
            for ops in failstart_histories(ext):
                vs = variants(ops, rng, limit=(8 if quick else None), recompile=True, destroy=True)
                for tag, lines in vs:
                    if ext and lines[-1] != "D":
                        lines = lines + ["Q", "D"]
                    add(lines, ("xfail-" if ext else "fail-") + tag, ext=ext)
        plan = [(3, 4, 2, 5, 200, 16)] if quick else [(3, 4, 2, 5, 1500, 40), (4, 8, 3, 7, 400, 40)]
        for nth, nfr, depth, size, cnt, lim in plan:
            for _ in range(cnt):
                ops = history(rng, rng.randint(1, nth), rng.randint(2, nfr), depth, size, False, True)
                for tag, lines in variants(ops, rng, limit=lim):
                    add(lines, "xrandom-" + tag)
        # (2) random histories of the model alphabet x every injection point (quick: a sample of them)
        plan = [(2, 3, 2, 4, 250, 24), (3, 5, 3, 6, 150, 24)] if quick else [(2, 3, 2, 4, 500, None), (3, 5, 3, 6, 400, None), (4, 8, 3, 7, 150, 60)]
        for nth, nfr, depth, size, cnt, lim in plan:
            for _ in range(cnt):
                ops = history(rng, rng.randint(1, nth), rng.randint(2, nfr), depth, size, False)
                for tag, lines in variants(ops, rng, limit=lim):
                    add(lines, "random-" + tag)
        # (3) the full quantifier, sampled on the real engine only
        plan = [(3, 4, 2, 5, 250, 16), (4, 8, 3, 7, 60, 16)] if quick else [(3, 4, 2, 5, 700, 40), (4, 8, 3, 7, 250, 40)]
        for nth, nfr, depth, size, cnt, lim in plan:
            for _ in range(cnt):
                ops = history(rng, rng.randint(1, nth), rng.randint(2, nfr), depth, size, True)
                for tag, lines in variants(ops, rng, limit=lim):
                    if lines[-1] != "D":
                        lines = lines + ["Q", "D"]
                    add(lines, "ext-" + tag, ext=True)
        return cases

    # ------------------------------------------------------------------ canonicalisers
    def canon_model(self, lines):
        m = [l[2:] for l in lines if l.startswith("m ")]
        s = [l[2:] for l in lines if l.startswith("s ")]
        return m, [], m == s

    LINE = re.compile(r"^(\S+) (\S+) idle=(\d) cls=(\d+) thr=(\d+) vm=(\d+) scr=(\d+) tmr=(\d+) ev=(\d+) trk=(\d+) ent=(\d+) tmp=(\d+)$")

    def canon_impl(self, lines):
        cmp_, direct = [], []
        nres = 0
        for l in lines:
            if l.startswith("V "):
                direct.append(l[2:])
                continue
            if not (l.startswith("m ") or l.startswith("x ")):
                continue
            body = l[2:]
            if l.startswith("m "):
                cmp_.append(body)
            if body.startswith("D "):
                if body != "D destroyed ent=0 tmp=0":
                    direct.append("context destruction left host entities alive: " + body)
                self.bump("context_destructions")
                continue
            mt = self.LINE.match(body)
            if not mt:
                direct.append("unparsable observation: " + body)
                continue
            op, prints = mt.group(1), mt.group(2)
            idle, ncls, thr, vm, scr, tmr, ev, trk, ent, tmp = (int(x) for x in mt.groups()[2:])
            if ncls == 0 and ev == 0:
                self.bump("quiescent_observations")
                if thr or vm or tmr or not idle or tmp or trk != ent:
                    direct.append("no instance and no queued event, but: " + body)
            if (thr or ncls or ev) and idle:
                direct.append("reports idle while something is alive: " + body)
            if thr and not ncls:
                direct.append("threads without an instance: " + body)
            if ncls > thr:
                direct.append("more instances than threads (an instance without a thread): " + body)
            if vm != thr:
                direct.append("VM count differs from thread count between host ops: " + body)
            if tmr and not thr:
                direct.append("pending timer without a thread: " + body)
            if tmr > thr:
                direct.append("more timer elements than threads (a thread is in the timer twice): " + body)
            if tmr and idle:
                direct.append("idle with a pending timer: " + body)
            if op == "R":
                nres += 1
                if ncls or thr or vm or scr or tmr or tmp or ("strictobjects" in FLAGS and (trk or ent)):
                    direct.append("after Reset: " + body)
        if nres:
            self.bump("host_resets", nres)
        return cmp_, [], direct, None

    def nontrivial(self, case, compared):
        # a destruction took away at least two threads at once, or a thread was destroyed from inside a host call
        prev = 0
        for c in compared:
            mt = self.LINE.match(c)
            if not mt:
                continue
            thr = int(mt.group(5))
            if prev - thr >= 2:
                return True
            prev = thr
        return any(" R " in o or " C " in o or o.endswith(" R") or o.endswith(" C") for o in case.ops if o.startswith("S"))


HP = C13()


def check(res, tier, seed):
    res.cov["rule"] += ("C13: corpus (the two double-destruction defects as regression inputs); EXHAUSTIVE: every program with <= 2 instructions per block "
                        "over {wait 0, wait 1, println, thread block, waitthread block} (nesting 1; thorough: 2) next to a bystander script, with a "
                        "Reset / recompile of each script / context destruction injected between any two host ops and a host_reset / "
                        "host_recompile at every instruction position (quick: a seeded sample of 30 injections per program); RANDOM: seeded "
                        "histories of 1-4 scripts (nesting <= 3) x the same injections; each followed by a sentinel script with a wait; "
                        "EXT (engine only): the same with waittill/notify, spawn/remove, listeners, queued events, arrays, loops, pause, "
                        "second instances. non-trivial = a host op removed >= 2 threads at once or a host call inside a script reset/recompiled. ")
    HP.stats = {}
    vlib.history_check(res, HP, tier, seed)
    res.cov["c13_observed"] = dict(HP.stats)
    res.cov["flags"] = sorted(FLAGS)


def replay(path):
    return vlib.history_replay(HP, path)
