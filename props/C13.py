"""C13 — nothing outlives its script: idle means empty, reset means clean."""
import glob
import itertools
import os
import random
import re

import vlib
from vlib import Case

LEVEL = "proof"
WAITS = [0, 1, 1, 2, 5]

# generator origins that reproduce defects of the CURRENT tree which are reported (see
# known_findings / the unit report); they are generated only when the flag is set so that
# `./check C13` is green on the current tree:   VERIF_C13_FLAGS=waitparent,waitpeer,objects ./check C13
FLAGS = set(x for x in os.environ.get("VERIF_C13_FLAGS", "").split(",") if x)


# ------------------------------------------------------------------ programs (token lists)

class ProgGen:
    """random abstract programs; markers are unique within a case"""

    def __init__(self, rng):
        self.rng = rng
        self.m = 0

    def marker(self):
        self.m += 1
        return "p%d" % self.m

    def block(self, depth, size, ext=False):
        rng = self.rng
        out = [self.marker()]
        n = rng.randint(0, size)
        for _ in range(n):
            r = rng.random()
            if r < 0.30:
                out.append("w%d" % rng.choice(WAITS))
                out.append(self.marker())
            elif r < 0.50 and depth > 0:
                out += ["T("] + self.block(depth - 1, max(1, size // 2), ext) + [")"]
                if rng.random() < 0.7:
                    out.append(self.marker())
            elif r < 0.72 and depth > 0:
                out += ["W("] + self.block(depth - 1, max(1, size // 2), ext) + [")"]
                out.append(self.marker())
            elif ext and r < 0.95:
                out.append(self.ext_instr())
            else:
                out.append(self.marker())
        return out

    def ext_instr(self):
        rng = self.rng
        k = rng.randint(1, 3)
        c = rng.choice(["o", "o", "u", "u", "g", "x", "t", "n", "n", "a", "l", "d", "f", "z", "q"] +
                       (["wp"] if "waitparent" in FLAGS else []) + (["sv", "wl"] if "waitpeer" in FLAGS else []))
        if c in ("o", "u", "g", "x", "z"):
            return "%s%d" % (c, k)
        if c in ("t", "n"):
            return "%s%d.%d" % (c, k, rng.randint(1, 2))
        if c == "d":
            return "d%d" % rng.choice([0, 1, 3])
        if c == "f":
            return "f%d" % rng.randint(1, 3)
        return c


def positions(tokens):
    """insertion points of a host call inside a program: before every token and at the end"""
    return list(range(len(tokens) + 1))


def inject(tokens, pos, tok):
    return tokens[:pos] + [tok] + tokens[pos:]


SENTINEL = ["S p77 w1 p78", "T 1", "X", "T 9", "X"]


def history(rng, nthreads, nframes, depth, size, ext=False):
    """-> list of ops; programs as token lists inside ('S', tokens)"""
    pg = ProgGen(rng)
    ops = []
    starts = sorted(rng.randrange(0, nframes + 1) for _ in range(nthreads))
    for f in range(nframes + 1):
        for s in starts:
            if s == f:
                ops.append(("S", pg.block(depth, size, ext)))
        if f < nframes:
            ops.append(("T", rng.choice([1, 1, 2, 3])))
            ops.append(("X",))
    return ops


def render(ops):
    out = []
    for o in ops:
        if o[0] == "S":
            out.append("S " + " ".join(o[1]))
        elif len(o) == 2:
            out.append("%s %s" % o)
        else:
            out.append(o[0])
    return out


def variants(ops, rng, limit=None, recompile=True, destroy=True):
    """the base history plus: a Reset / recompile / context destruction injected at every frame
    boundary (between any two host ops) and a host_reset / host_recompile at every host-call
    boundary (every instruction position of every program).  -> list of (tag, op lines)"""
    res = [("base", render(ops) + ["T 9", "X", "T 9", "X"])]
    nstart = 0
    inj = []
    for i in range(len(ops) + 1):
        inj.append(("frame-reset", ops[:i] + [("R",)] + ops[i:], None))
        nstarted = sum(1 for o in ops[:i] if o[0] == "S")
        if recompile:
            for k in range(nstarted):
                inj.append(("frame-recompile", ops[:i] + [("C", k)] + ops[i:], None))
        if destroy:
            inj.append(("frame-destroy", ops[:i] + [("D",)], "stop"))
    for i, o in enumerate(ops):
        if o[0] != "S":
            continue
        for pos in positions(o[1]):
            inj.append(("call-reset", ops[:i] + [("S", inject(o[1], pos, "R"))] + ops[i + 1:], None))
            if recompile:
                inj.append(("call-recompile", ops[:i] + [("S", inject(o[1], pos, "C"))] + ops[i + 1:], None))
    if limit is not None and len(inj) > limit:
        inj = rng.sample(inj, limit)
    for tag, o2, stop in inj:
        lines = render(o2)
        if not stop:
            lines += ["T 9", "X"] + SENTINEL
        res.append((tag, lines))
    return res
