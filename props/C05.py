"""C05 — host call/return protocol: arguments in, result out, sync or async."""
import glob
import itertools
import os
import random

import vlib
from vlib import Case

LEVEL = "proof"

# value tokens per kind (the tables behind the indices live in harness/C05.cpp)
KIND6 = {"n": ["n"], "i": ["i0", "i1", "i2", "i3", "i4", "i5"], "f": ["f0", "f1", "f2", "f3", "f4"],
         "s": ["s0", "s1", "s2", "s3"], "l": ["l0", "l1", "l2"], "v": ["v0", "v1", "v2"]}
KIND9 = dict(KIND6, z=["z"], a=["a0", "a1", "a2"], c=["c0", "c1", "c2"])
LITKINDS = ["n", "i", "f", "s", "z", "v", "a", "c"]      # a listener result is a passed-through argument
WAITS = [0, 0, 1, 2, 2, 5]


class C05(vlib.HistoryProp):
    cid = "C05"
    unit = "C05"
    variant = "asan"
    harness_sources = ["harness/C05.cpp"]
    use_lib = True
    coq_dirs = ["Base", "C05"]
    has_monitor = False
    batch = 1500

    def assumptions(self):
        return ["injected integral millisecond clock (hook H1), constant during an Execute; wait literals 0,1,2,5,50 ms convert exactly",
                "timed waits follow the due-time specification proved equal to the code-level timer in unit C06 (the scheduler is shared by model and specification)",
                "a thread is a program of timed waits / pause+helper-resume, at most one sub-thread started with `local.sr = thread s<i>`, and one final statement (possibly `end local.sr`); values are opaque data of 9 kinds (NIL, int, float, string, NULL, listener, vector, array, const array) taken from fixed tables; parameters are observed through `println (typeof p) p` (no identity for listeners/arrays) and through `end local.p<j>` (full identity)",
                "the host never assigns a result cell to itself and only touches result cells of records it still owns",
                "after ScriptMaster::Reset the host only reads values that do not refer to the engine's string dictionary (string results are of the String type); ScriptMaster::Reset empties the variables of the level object (modelled: every level.q<k> reads NIL afterwards)"]

    # ---- generation -----------------------------------------------------------------
    def value(self, rng, kinds):
        k = rng.choice(sorted(kinds))
        return rng.choice(kinds[k])

    def literal(self, rng, kinds9):
        k = rng.choice(LITKINDS if kinds9 else ["n", "i", "f", "s", "v"])
        return rng.choice(KIND9[k])

    def park(self, rng):
        """a step `P..`: the thread parks (wait 5 / pause) with a helper that gives it orders while it is parked;
        only the last order may let it go on (or delete it), so no order ever meets a thread that is gone"""
        acts = []
        for _ in range(rng.choice([0, 1, 1, 2])):
            acts.append("%d%s" % (rng.choice([0, 1, 2]), rng.choice(["W5", "U"])))
        last = rng.choice(["W0", "W1", "W2", "W5", "D", "U", None])
        if last:
            acts.append("%d%s" % (rng.choice([0, 1, 2]), last))
        return ":".join([rng.choice(["Pw5", "Pp"])] + acts)

    def sched(self, rng, which, d=None):
        """-> (steps text list, final or None).  which: sync | waits | pause | kill | never | mixed"""
        w = lambda: rng.choice(WAITS) if d is None else d
        if which == "sync":
            return [], None
        if which == "waits":
            return ["w%d" % w() for _ in range(rng.choice([1, 1, 2, 3]))], None
        if which == "pause":
            return ["p%d" % w()], None
        if which == "kill":
            if rng.random() < 0.4:
                return ["w%d" % w()] * rng.choice([0, 1]), rng.choice(["S", "K1", "K2", "N"])
            return ["w%d" % w()] * rng.choice([0, 1]), rng.choice(["k%d", "q%d"]) % w()
        if which == "never":
            return ["w%d" % w()] * rng.choice([0, 1]), "h"
        steps = [(rng.choice(["w%d", "p%d"]) % w()) if rng.random() < 0.7 else self.park(rng) for _ in range(rng.choice([0, 1, 2, 3]))]
        return steps, None

    def upper_level(self, rng):
        """a thread that starts a sub-thread (`t`) and, mostly, ends with its possibly pending result (`L`)"""
        steps = [rng.choice(["w%d", "p%d"]) % rng.choice(WAITS) for _ in range(rng.choice([0, 0, 1, 1, 2]))]
        steps.insert(rng.randrange(len(steps) + 1), "t")
        r = rng.random()
        if r < 0.7:
            final = "L"
        elif r < 0.85:
            final = rng.choice(["k%d", "q%d"]) % rng.choice(WAITS)
        else:
            final = rng.choice(["h", "x", "ei1", "es2", "S", "K1", "N"])
        return ",".join(steps + [final])

    def call(self, rng, nargs, np, which, kinds, lbl=1, kinds9=False, sublevels=0):
        args = [self.value(rng, kinds) for _ in range(nargs)]
        steps, final = self.sched(rng, which)
        if final is None:
            r = rng.random()
            if r < 0.45:
                final = "e" + self.literal(rng, kinds9)
            elif r < 0.85:
                final = "r%d" % rng.randrange(0, max(np, nargs) + 2)
            else:
                final = rng.choice(["x", "o"])
        nptok = str(np)
        if getattr(self, "level_params", False) and np > 0 and rng.random() < 0.3:
            # parameters that may already hold a value: variables of the level object, repeated local names
            tg = [rng.choice(["1", "2", "3", "v0", "v1", "v2"]) for _ in range(np)]
            nptok = "@" + ".".join(tg)
            if final[0] == "r":
                final = rng.choice(["r1", "r2", "r3", "g0", "g1", "g2"])
        elif getattr(self, "level_params", False) and final[0] in "ex" and rng.random() < 0.15:
            final = rng.choice(["g0", "g1", "g2"])
        levels = [self.upper_level(rng) for _ in range(sublevels)] + [",".join(steps + [final])]
        return "C %d %s %s %s" % (lbl, nptok, "/".join(levels), ",".join(args) if args else "-")

    def frames(self, rng, n):
        ops = []
        for _ in range(n):
            r = rng.random()
            if r < 0.12:
                ops.append("X")
            else:
                ops.append("T %d" % rng.choice([1, 1, 2, 3, 7]))
                if r < 0.92:
                    ops.append("X")
        return ops

    def walk(self, rng, length, maxlen, kinds9, cid, reset):
        ops, nrec = [], 0
        self.level_params = True           # ScriptMaster::Reset empties the variables of the level object
        kinds = KIND9 if kinds9 else KIND6
        for _ in range(length):
            r = rng.random()
            rid = lambda: rng.randrange(max(nrec, 1) + (1 if rng.random() < 0.05 else 0))
            if r < 0.30 or nrec == 0:
                which = rng.choice(["sync", "waits", "waits", "pause", "pause", "kill", "never", "mixed", "mixed"])
                lbl = 0 if rng.random() < 0.08 else 1
                sub = rng.choice([0, 0, 0, 1, 1, 2]) if rng.random() < 0.6 else 0
                ops.append(self.call(rng, rng.randrange(maxlen + 1), rng.randrange(maxlen + 1), which, kinds, lbl, kinds9, sub))
                nrec += 1
            elif r < 0.40:
                ops.append("Y %d" % rid()); nrec += 1
            elif r < 0.46:
                ops.append("V %d" % rid())
            elif r < 0.49:
                ops.append("M %d" % rid())
            elif r < 0.54:
                ops.append("D %d" % rid())
            elif r < 0.60:
                ops.append("S %d %d" % (rid(), rid()))
            elif r < 0.66:
                ops.append("U %d %d" % (rid(), rid()))
            elif r < 0.67 and reset:
                ops.append("Z")
            else:
                ops += self.frames(rng, 1)
        ops += ["T 9", "X", "T 60", "X", "X"]
        return Case(cid, "", ops, "random-walk-maxlen%d%s" % (maxlen, "-reset" if reset else ""))

    def gen(self, tier, seed):
        rng = random.Random(seed)
        cases = []
        for p in sorted(glob.glob(os.path.join(vlib.VERIF, "corpus", "C05", "*.txt"))):
            lines = [l.strip() for l in open(p) if l.strip() and not l.startswith("#")]
            cases.append(Case("c_" + os.path.basename(p)[:-4], "", lines, "corpus"))
        k = 0
        # exhaustive: every argument list of length 0..3 over the 6 value kinds x every declared
        # parameter count 0..3 (one call each) x the 4 completion schedules; the result is a
        # passed-through parameter (every position in turn) or a literal; records are copied and
        # relocated while the result is pending
        kinds = sorted(KIND6)
        scheds = ["sync", "waits", "pause", "kill"]
        for n in range(4):
            for ks in itertools.product(kinds, repeat=n):
                for si, which in enumerate(scheds):
                    ops = []
                    for np in range(4):
                        args = [rng.choice(KIND6[x]) for x in ks]
                        steps, final = self.sched(rng, which)
                        if final is None:
                            j = (k + np) % (max(n, np) + 2)
                            final = ("r%d" % j) if (k + si + np) % 3 else "e" + self.literal(rng, False)
                        ops.append("C 1 %d %s %s" % (np, ",".join(steps + [final]), ",".join(args) if args else "-"))
                    ops.append("C 0 %d ei1 %s" % (n, ",".join(rng.choice(KIND6[x]) for x in ks) if ks else "-"))
                    ops += ["Y %d" % ((k + 1) % 4), "X", "T 1", "V %d" % (k % 4), "X", "T 1", "X", "Y 5", "T 2", "X", "T 5", "X", "X"]
                    cases.append(Case("e%d" % k, "", ops, "exhaustive-args%d-%s" % (n, which)))
                    k += 1
        # the cell operations: every sequence of <= 3 (thorough: 4) host operations on the records of one pending call
        alpha = ["Y 0", "Y 1", "V 0", "V 1", "M 0", "D 0", "D 1", "S 0 1", "S 1 0", "U 0 1", "U 1 0", "S 1 2", "U 2 0"]
        depth = 3 if tier == "quick" else 4
        for d in range(1, depth + 1):
            for seqn in itertools.product(alpha, repeat=d):
                if tier == "quick" and d == 3 and rng.random() < 0.5:
                    continue
                final = ["ei3", "x", "es2", "k1"][k % 4]
                ops = ["C 1 1 w1,%s i1" % final, "C 1 0 w2,ev1 -"] + list(seqn) + ["T 1", "X", "Y 0", "T 1", "X", "X"]
                cases.append(Case("o%d" % k, "", ops, "exhaustive-cellops-%d" % d))
                k += 1
        # a thread destroyed before its end (deleted while paused / waiting, inside the call, or by
        # Reset) with 0, 1, 2, 3, 4 holders of its pending result, copies made before and after
        for nh in range(5):
            for mode in ["k1", "q1", "k0", "q0", "Zw", "Zh", "Zp",
                         # destroyed while EXECUTING: deletes itself inside the call / after a wait / after a pause,
                         # deleted by a thread it starts (depth 1, 2) inside the call / after a wait, by an endon
                         "S", "w1,S", "p1,S", "K1", "w1,K1", "w1,K2", "K2", "w1,N", "N", "w1,t,K1/w3,ei2", "t,S/w2,es1"]:
                for post in [[], ["Y 0"], ["V 0", "Y 0"], ["U 1 0"], ["S 0 1"], ["S 1 0", "D 0"]]:
                    final = {"Zw": "w5,ei3", "Zh": "h", "Zp": "p5,ei3"}.get(mode, mode)
                    ops = ["C 1 1 %s i1" % final, "C 1 0 w7,es2 -"]
                    ops += ["D 0"] if nh == 0 else ["Y 0"] * (nh - 1) + (["V 0"] if nh >= 3 else [])
                    ops += ["T 1", "X"] + (["Z"] if mode[0] == "Z" else [])
                    ops += post + ["T 1", "X", "Y 1", "T 9", "X", "X"]
                    cases.append(Case("k%d" % k, "", ops, "exhaustive-kill-%dholders" % nh))
                    k += 1
        # parameters that already hold a value when the prologue runs: every declaration of 1..3 parameters over
        # {local.p1, local.p2, level.q0, level.q1} (repeats included), called with decreasing arity on the same
        # declaration, the level variables read back after every call
        vals = ["i1", "s2", "f1", "i3"]
        for n in (1, 2, 3):
            for tg in itertools.product(["1", "2", "v0", "v1"], repeat=n):
                if tier == "quick" and n == 3 and (k % 2):
                    k += 1
                    continue
                ops = []
                tok = "@" + ".".join(tg)
                for ar in list(range(n + 1, -1, -1)) + [n]:
                    fin = ["r1", "r2", "g0", "g1"][(ar + k) % 4]
                    if ar == n and (k % 3) == 0:
                        fin = "w1," + fin
                    ops.append("C 1 %s %s %s" % (tok, fin, ",".join(vals[(i + ar) % 4] for i in range(ar)) if ar else "-"))
                    ops += ["C 1 0 g0 -", "C 1 0 g1 -"]
                ops += ["T 1", "X", "C 1 0 g0 -", "C 1 0 g1 -"]
                cases.append(Case("q%d" % k, "", ops, "exhaustive-params-%d" % n))
                k += 1
        # orders given to a PARKED thread by another thread: `t wait e` (re-arm / resume with a delay) and `t pause`
        # on a thread parked in a timed wait or paused, then kill / Reset / the delay elapses and the thread ends
        # with a value; 0..3 holders of the pending result
        progs = ["1W5:1D", "1W5", "1W5:2W5:1D", "1U:1D", "1U:2W1", "1U", "1W2", "0W5:0D", "1W0", "2U:0W5:1D", "0U:0W0", "1W5:1U:1D"]
        for park in ["Pw5", "Pp"]:
            for hp in progs:
                for nh in range(4):
                    for z in (False, True):
                        ops = ["C 1 0 %s:%s,ei3 -" % (park, hp), "C 1 0 w4,es1 -"]
                        ops += ["D 0"] if nh == 0 else ["Y 0"] * (nh - 1) + (["V 0"] if nh >= 3 else [])
                        for fr in range(9):
                            ops += ["T 1", "X"]
                            if z and fr == 2:
                                ops += ["Y 0", "Z", "Y 0"]
                            if fr == 1:
                                ops.append("Y 0")
                        ops += ["T 60", "X"]
                        cases.append(Case("h%d" % k, "", ops, "exhaustive-orders-%dholders" % nh))
                        k += 1
        # results that are pending results of sub-threads: every combination of a forwarding thread,
        # a sub-thread (chain) and a pattern of host copies / destructions / Reset around the events
        tops = ["t,L", "w1,t,L", "t,w1,L", "t,w3,L", "p1,t,L", "t,p3,L", "t,k2", "t,q2", "t,h", "w1,t,w1,L", "t,w5,L", "t,p0,L"]
        subs = ["ei3", "w2,ei3", "p2,es2", "w2,x", "k1", "q1", "w2,k1", "h", "w0,ev1", "t,L/w4,ev1", "t,w1,L/w3,ei3",
                "t,L/k2", "w2,t,L/ei1", "t,w4,L/w2,ef1", "t,k1/w3,ei2"]
        pats = [[], ["Y 0"], None, ["D 0"], ["Y 0", "Y 0", "V 0"], ["Y 0", "D 0"], ["Y 0", "U 1 0"], "Z"]
        for ti, top in enumerate(tops):
            for si, sub in enumerate(subs):
                for pi, pat in enumerate(pats):
                    if tier == "quick" and (ti + si + pi) % 3:
                        continue
                    ops = ["C 1 1 %s/%s i1" % (top, sub), "C 1 0 w6,es1 -"]
                    ops += pat if isinstance(pat, list) else []
                    for fr in range(7):
                        ops += ["T 1", "X"]
                        if pat is None:
                            ops.append("Y 0")                 # a copy after every event
                        if pat == "Z" and fr == (ti + si) % 4:
                            ops += ["Y 0", "Z", "Y 0"]
                    ops += ["Y 0", "T 60", "X"]
                    cases.append(Case("f%d" % k, "", ops, "exhaustive-forward"))
                    k += 1
        if tier == "quick":
            walks = [(12, 3, False, False, 700), (25, 8, True, False, 500), (40, 8, True, True, 200)]
        else:
            walks = [(12, 3, False, False, 6000), (25, 8, True, False, 10000), (60, 8, True, True, 4000)]
        for length, maxlen, k9, reset, cnt in walks:
            for _ in range(cnt):
                cases.append(self.walk(rng, length, maxlen, k9, "w%d" % k, reset))
                k += 1
        return cases

    def canon_model(self, lines):
        m = [l[2:] for l in lines if l.startswith("m ")]
        s = [l[2:] for l in lines if l.startswith("s ")]
        return m, [], m == s

    def canon_impl(self, lines):
        m = [l[2:] for l in lines if l.startswith("m ")]
        direct = []
        for i, l in enumerate(m):
            parts = l.split(" | ")
            if len(parts) == 3:
                cnt = dict(x.split("=") for x in parts[2].split() if "=" in x)
                if cnt.get("th") != cnt.get("vm"):
                    direct.append("observation %d: %s threads but %s VMs (a VM leaked or dangles)" % (i, cnt.get("th"), cnt.get("vm")))
            if len(parts) == 3 and " th=0 " in " " + parts[2] + " ":
                # independent of the model: no thread is alive, so no record may still be pending
                for r in parts[1].split():
                    if r.endswith(",p") or r.endswith("=p"):
                        direct.append("observation %d: no thread is alive but %s is still pending" % (i, r))
        return m, [], direct, None

    def nontrivial(self, case, compared):
        # some record showed a pending result and later the delivered value
        pending = set()
        for c in compared:
            parts = c.split(" | ")
            if len(parts) < 2:
                continue
            for r in parts[1].split():
                if "=" not in r:
                    continue
                rid, toks = r.split("=", 1)
                last = toks.split(",")[-1]
                if last == "p":
                    pending.add(rid)
                elif rid in pending and last not in ("n", "-"):
                    return True
        return False


HP = C05()


def branch_coverage(cases):
    """what the generated histories exercise, measured on the model's traces"""
    drv = vlib.ocaml_driver("C05")
    cov = {"calls": 0, "nolabel": 0, "sync_value": 0, "sync_no_value": 0, "pending_after_call": 0,
           "delivered_later": 0, "delivered_to_2plus_records_at_once": 0, "emptied_later": 0,
           "emptied_by_kill_or_reset": 0, "record_ops_on_pending": 0, "missing_args_nil": 0, "extra_args_ignored": 0,
           "max_args": 0, "max_params": 0, "resets": 0}
    for i in range(0, len(cases), 2000):
        chunk = cases[i:i + 2000]
        outs, _ = vlib.run_resilient(drv, ["model"], chunk, timeout=600)
        for c in chunk:
            lines = [l[2:] for l in outs.get(c.id, []) if l.startswith("m ")]
            prev = {}
            for op, l in zip(c.ops, lines):
                parts = l.split(" | ")
                if len(parts) < 3:
                    continue
                recs = {}
                for r in parts[1].split():
                    if "=" in r:
                        rid, toks = r.split("=", 1)
                        recs[rid] = toks.split(",")
                w = op.split()
                if w[0] == "C":
                    cov["calls"] += 1
                    nargs = 0 if w[4] == "-" else len(w[4].split(","))
                    cov["max_args"] = max(cov["max_args"], nargs)
                    npar = len(w[2][1:].split(".")) if w[2].startswith("@") else int(w[2])
                    if w[2].startswith("@"):
                        cov["calls_with_level_or_repeated_params"] = cov.get("calls_with_level_or_repeated_params", 0) + 1
                    cov["max_params"] = max(cov["max_params"], npar)
                    if parts[0] == "nolabel":
                        cov["nolabel"] += 1
                    else:
                        if npar > nargs:
                            cov["missing_args_nil"] += 1
                        if npar < nargs:
                            cov["extra_args_ignored"] += 1
                        new = [k for k in recs if k not in prev]
                        last = recs[new[0]] if new else []
                        if len(last) == nargs or last == ["-"]:
                            cov["sync_no_value"] += 1
                        elif last[-1] == "p":
                            cov["pending_after_call"] += 1
                        else:
                            cov["sync_value"] += 1
                elif w[0] in "YVMDSU" and any(prev.get("r" + x, [""])[-1] == "p" for x in w[1:]):
                    cov["record_ops_on_pending"] += 1
                elif w[0] == "Z":
                    cov["resets"] += 1
                got = [k for k in recs if k in prev and prev[k][-1] == "p" and recs[k][-1] != "p"]
                if w[0] == "Z" and got:
                    cov["emptied_by_kill_or_reset"] += 1
                if w[0] in ("X", "C") and got:
                    vals = [k for k in got if recs[k][-1] != "n"]
                    cov["delivered_later"] += 1 if vals else 0
                    cov["emptied_later"] += 1 if len(vals) < len(got) else 0
                    if len(vals) >= 2:
                        cov["delivered_to_2plus_records_at_once"] += 1
                prev = recs

    return cov


def check(res, tier, seed):
    res.cov["rule"] += ("C05: corpus; every argument list of length 0..3 over 6 value kinds x every parameter count 0..3 x 4 completion schedules "
                        "(sync, timed waits, pause+resume by a helper thread, killed) with copies/relocations of the pending record and a missing-label call; "
                        "parameters that already hold a value (targets on the level object, repeated local names; every declaration of 1..3 parameters over 4 targets called with decreasing arity, the persistent variables read back after every call); "
                        "orders to a parked thread from another thread (`t wait e` with e > 0, `t pause`; parked in a timed wait / paused; then kill, Reset or end with a value; 0..3 holders); "
                        "results that are pending results of sub-threads (`local.sr = thread s1` ... `end local.sr`): 12 forwarding threads x 15 sub-threads/chains x 8 patterns of host copies, destructions and Reset around every event; "
                        "a thread destroyed before its end (deleted while parked in a pause/wait, Reset; destroyed while executing: self-delete inside the call / after a wait, deleted by a thread it starts at depth 1 and 2, by an endon) with 0..4 holders and copies made before/after; "
                        "every sequence of <= 3 (thorough: 4) record operations (copy, relocate, move, destroy, copy-/move-assign of result cells) on two pending calls; "
                        "seeded random histories (argument/parameter lists to length 8, 9 value kinds, all schedules, record operations, frames, Reset); "
                        "non-trivial = a record showed `pending` and later the delivered value; direct checks on the implementation: no record is pending when no thread is alive; as many ScriptVMs as ScriptThreads. ")
    pst = vlib.history_check(res, HP, tier, seed)
    try:
        res.cov["c05_exercised"] = branch_coverage(HP.gen(tier, seed))
    except Exception as e:                      # coverage is informative only
        res.cov["c05_exercised"] = {"error": str(e)[:300]}
    return pst


def replay(path):
    return vlib.history_replay(HP, path)
